#!/usr/bin/env python3
"""Generates MANIFEST.json from manifest_src.json (claimed checks) + properties.jsonl."""
import json, sys
props=[json.loads(l) for l in open('properties.jsonl')]
src=json.load(open('manifest_src.json'))
ENV="GOFLAGS=-mod=mod GOPROXY=off GOSUMDB=off GOTOOLCHAIN=local GOWORK=off"
checks=[]
na=[]
for p in props:
    pid=p['id']
    c=src['claimed'].get(pid)
    if not c:
        na.append({"property_id":pid,"reason":src['not_applicable'].get(pid,"check not built yet")})
        continue
    checks.append({
        "property_id":pid,
        "quick_cmd":f"bin/imverif check {pid} --tier quick",
        "thorough_cmd":f"bin/imverif check {pid} --tier thorough",
        "evidence_file":f"/verif/evidence/{pid}.json",
        "replay_cmd_template":"bin/imverif explain {path}",
        "engine":"imverif",
        "level_claimed":{"category":"other","text":c['text'],"design_ref":c.get('design_ref',f"DESIGN.md section 3, {pid}")},
        "level_note":c['note'],
        "technique":c['technique'],
    })
m={
 "version":1,
 "setup_cmd":f"cd checker && {ENV} go build -o ../bin/imverif .",
 "hooks":{"guard":"verif","enable":"none needed: static analysis reads the source; no hook commits exist","baseline_off_cmd":src['baseline_off_cmd'],"source_commits":[],"add_only":True},
 "engines":[{"name":"imverif","path":"checker/","serves_properties":[c['property_id'] for c in checks],"kind_free_text":"repository-specific static analyser over go/packages typed ASTs, go/ssa, VTA call graph, constant tables and the Plan 9 assembly text; see DESIGN.md section 1"}],
 "checks":checks,
 "notes":src.get('notes',''),
 "not_applicable":na,
}
json.dump(m,open('MANIFEST.json','w'),indent=1)
print("checks:",[c['property_id'] for c in checks],"na:",[n['property_id'] for n in na])
