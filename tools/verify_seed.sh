#!/bin/bash
# usage: tools/verify_seed.sh <seed dir with patch.diff, demo*, meta.json>
# Confirms independently, in a scratch copy of /repo: patch applies, module builds, the pinned test
# suite passes with the change, the demonstration fails with it and passes without it.
set -u
export GOFLAGS=-mod=mod GOPROXY=off GOSUMDB=off GOTOOLCHAIN=local GOWORK=off
sd=$(readlink -f "$1")
d=/var/tmp/imverif-seed-$$
rm -rf "$d"; mkdir -p "$d"; rsync -a --exclude .git /repo/ "$d/"; (cd "$d" && git init -q .)
place=$(python3 -c "import json,sys;m=json.load(open('$sd/meta.json'));print(m['demo_place'].split()[0])")
cmd=$(python3 -c "import json,re,sys;m=json.load(open('$sd/meta.json'));c=m['demo_cmd'];c=re.sub(r'/tmp/wt\d*-C\d+','$d',c);print(c)")
demo=$(ls "$sd"/demo* | head -1)
res="{"
( cd "$d" && git apply "$sd/patch.diff" ) && res="$res\"applies\":true," || { echo "{\"applies\":false}"; rm -rf "$d"; exit 1; }
( cd "$d" && go build ./... >/dev/null 2>&1 ) && res="$res\"builds\":true," || res="$res\"builds\":false,"
( cd "$d" && go test -vet=off -count=1 ./... >/tmp/seed-suite-$$.log 2>&1 ) && res="$res\"suite_passes\":true," || res="$res\"suite_passes\":false,"
mkdir -p "$(dirname "$d/$place")"; cp "$demo" "$d/$place"
( cd "$d" && timeout 300 bash -c "$cmd" >/tmp/seed-demo-mut-$$.log 2>&1 ) && res="$res\"demo_fails_with_mutant\":false," || res="$res\"demo_fails_with_mutant\":true,"
rm -f "$d/$place"
( cd "$d" && git apply -R "$sd/patch.diff" )
cp "$demo" "$d/$place"
( cd "$d" && timeout 300 bash -c "$cmd" >/tmp/seed-demo-clean-$$.log 2>&1 ) && res="$res\"demo_passes_without\":true}" || res="$res\"demo_passes_without\":false}"
echo "$res"
tail -3 /tmp/seed-demo-mut-$$.log | cut -c1-200
rm -rf "$d" /tmp/seed-suite-$$.log /tmp/seed-demo-mut-$$.log /tmp/seed-demo-clean-$$.log
