#!/bin/bash
# usage: tools/seeds_apply.sh — reports the kept seeded changes whose patch no longer applies to /repo's working tree.
d=/var/tmp/imverif-apply-$$; rm -rf $d; mkdir -p $d; rsync -a --exclude .git /repo/ $d/; (cd $d && git init -q .)
for s in $(ls /verif/seeded); do (cd $d && git apply --check /verif/seeded/$s/patch.diff 2>/dev/null) && echo "ok   $s" || echo "STALE $s"; done
rm -rf $d
