#!/usr/bin/env python3
"""Generates behaviour-preserving variants of /repo as patches under /verif/neutral (run once; patches are committed).
Each edit is a (file, old, new) list applied to a scratch copy; the diff is stored. A variant must build, pass the
130 tests, and every check must stay silent on it (tools/run_neutral.sh)."""
import os, subprocess, shutil, sys, tempfile
REPO='/repo'
V={}
V['N01-rename-locals-tiff']=[('tiff/tiff.go',[('discarded','skipped')])]
V['N02-switch-to-if-jpeg']=[('jpeg/jpeg.go',[('''		switch jr.marker >> 4 {
		case 12: // SOF Markers
			jr.readSOFMarker()
		case 14: // APP Markers
			jr.readAPPMarker()
		default:
			switch jr.marker {''','''		if hi := jr.marker >> 4; hi == 12 { // SOF Markers
			jr.readSOFMarker()
		} else if hi == 14 { // APP Markers
			jr.readAPPMarker()
		} else {
			switch jr.marker {''')])]
V['N03-move-function-file-jpeg']=[('jpeg/jpeg.go',[('''// isJpegExifPrefix returns true if marker matches exifPrefix
func isExifPrefix(buf []byte) bool {
	return string(buf[4:10]) == exifPrefix
}
''','')]),('jpeg/prefix.go',None,'''package jpeg

// isJpegExifPrefix returns true if marker matches exifPrefix
func isExifPrefix(buf []byte) bool {
	return string(buf[4:10]) == exifPrefix
}
''')]
V['N04-temp-variable-parsetag']=[('exif2/parse.go',[('''			ir.Exif.Artist = ir.ParseString(t)
		case ifds.Copyright:''','''			artist := ir.ParseString(t)
			ir.Exif.Artist = artist
		case ifds.Copyright:''')])]
V['N05-reorder-signatures']=[('imagetype/scan.go',[('''	// PNG Header
	if isPNG(buf) {
		return ImagePNG
	}

	// PSD Header
	if isPSD(buf) {
		return ImagePSD
	}
''','''	// PSD Header
	if isPSD(buf) {
		return ImagePSD
	}

	// PNG Header
	if isPNG(buf) {
		return ImagePNG
	}
''')])]
V['N06-array-buffer-png']=[('png/png.go',[('	buf := make([]byte, 8)\n','	var hdr [8]byte\n	buf := hdr[:]\n')])]
V['N07-early-return-box-peek']=[('isobmff/box.go',[('''func (b *box) Peek(n int) ([]byte, error) {
	if b.remain >= n {
		if b.outer != nil {
			return b.outer.Peek(n)
		}
		return b.reader.peek(n)
	}
	return nil, ErrRemainLengthInsufficient
}''','''func (b *box) Peek(n int) ([]byte, error) {
	if b.remain < n {
		return nil, ErrRemainLengthInsufficient
	}
	if b.outer != nil {
		return b.outer.Peek(n)
	}
	return b.reader.peek(n)
}''')])]
V['N08-split-guard-phash']=[('imagehash/imagehash.go',[('''	if img == nil || size.X != 64 || size.Y != 64 {
		err = errors.New("error image size incompatible. PHash requires 64x64 image")
		return
	}''','''	if img == nil {
		err = errors.New("error image size incompatible. PHash requires 64x64 image")
		return
	}
	if size.X != 64 || size.Y != 64 {
		err = errors.New("error image size incompatible. PHash requires 64x64 image")
		return
	}''')])]
V['N09-stringer-guard-form']=[('meta/canon/canon.go',[('if ccd >= 0 && int(ccd) < len(strContinuousDriveDist)-1 {','if ccd >= 0 && int(ccd)+1 < len(strContinuousDriveDist) {')])]
V['N10-readfull-in-discard']=[('exif2/buffer.go',[('''	var discarded int
	for n > 0 && err == nil {
		if bufferLength > n {
			discarded, err = ir.reader.Read(ir.buffer.buf[:n])
		} else {
			discarded, err = ir.reader.Read(ir.buffer.buf[:])
		}
		ir.po += uint32(discarded)
		n -= discarded
	}''','''	var discarded int
	for n > 0 && err == nil {
		window := ir.buffer.buf[:]
		if bufferLength > n {
			window = ir.buffer.buf[:n]
		}
		discarded, err = ir.reader.Read(window)
		ir.po += uint32(discarded)
		n -= discarded
	}''')])]
V['N11-rename-receiver-xmp']=[('xmp/reader.go',[('func (br *xmpReader) readRootTag() (tag Tag, err error) {\n	var buf []byte\n	for {\n		if _, err = br.r.ReadSlice','func (br *xmpReader) readRootTag() (tag Tag, err error) {\n	var window []byte\n	for {\n		if _, err = br.r.ReadSlice'),('		if buf, err = br.r.Peek(10); err != nil {\n			return\n		}\n\n		if bytes.Equal(xmpRootTag[1:], buf[0:9]) {','		if window, err = br.r.Peek(10); err != nil {\n			return\n		}\n\n		if bytes.Equal(xmpRootTag[1:], window[0:9]) {')])]
V['N12-helper-extracted-isobmff']=[('isobmff/moov.go',[('''	if err != nil && logLevelError() {
		logError().Object("box", b).Err(err).Send()
	}
	return err
}''','''	logBoxError(b, err)
	return err
}

func logBoxError(b box, err error) {
	if err != nil && logLevelError() {
		logError().Object("box", b).Err(err).Send()
	}
}''')])]
V['N13-const-name-cr3']=[('isobmff/crx.go',[('''			crx.Meta.Exif[0], err = readCMTBox(&inner, exifReader, ifds.IFD0)''','''			root := ifds.IFD0
			crx.Meta.Exif[0], err = readCMTBox(&inner, exifReader, root)''')])]
V['N14-getlocation-defer-unlock']=[('exif2/time.go',[('''	mutexTimeZones.RUnlock()
	mutexTimeZones.Lock()
	sign, abs''','''	mutexTimeZones.RUnlock()
	mutexTimeZones.Lock()
	defer mutexTimeZones.Unlock()
	sign, abs'''),('''	cacheTimeZone[offset] = l
	mutexTimeZones.Unlock()
	return l''','''	cacheTimeZone[offset] = l
	return l''')])]
V['N15-uuid-len-variable']=[('meta/uuid.go',[('''func (u *UUID) UnmarshalText(text []byte) (err error) {
	switch len(text) {''','''func (u *UUID) UnmarshalText(text []byte) (err error) {
	n := len(text)
	switch n {''')])]

V['N16-loop-form-scanjpeg']=[('jpeg/jpeg.go',[('	for jr.nextMarker() {\n		switch jr.marker >> 4 {','	for {\n		if !jr.nextMarker() {\n			break\n		}\n		switch jr.marker >> 4 {')])]
V['N17-newifdreader-local']=[('exif2/reader.go',[("""	ir := ifdReader{
		buffer: bufferPool.Get().(*buffer),
		logger: l,
	}
	ir.buffer.clear()
	return ir""","""	b := bufferPool.Get().(*buffer)
	b.clear()
	return ifdReader{buffer: b, logger: l}""")])]
V['N18-name-local-xmp']=[('xmp/basic.go',[("""func (basic *Basic) parse(p property) (err error) {
	switch p.Property().Name() {""","""func (basic *Basic) parse(p property) (err error) {
	name := p.Property().Name()
	switch name {""")])]
V['N19-reorder-cases-parsetag']=[('exif2/parse.go',[("""		case ifds.Artist:
			ir.Exif.Artist = ir.ParseString(t)
		case ifds.Copyright:
			ir.Exif.Copyright = ir.ParseString(t)
""","""		case ifds.Copyright:
			ir.Exif.Copyright = ir.ParseString(t)
		case ifds.Artist:
			ir.Exif.Artist = ir.ParseString(t)
""")])]
V['N20-order-local-parse']=[('exif2/parse.go',[("""	case tag.TypeShort:
		t.EmbeddedValue(ir.buffer.buf[:4])
		return uint32(t.ByteOrder.Uint16(ir.buffer.buf[:4]))""","""	case tag.TypeShort:
		order := t.ByteOrder
		t.EmbeddedValue(ir.buffer.buf[:4])
		return uint32(order.Uint16(ir.buffer.buf[:4]))""")])]
V['N21-ispng-string']=[('imagetype/imagetype.go',[("""	return buf[0] == 0x89 &&
		buf[1] == 0x50 &&
		buf[2] == 0x4E &&
		buf[3] == 0x47""","""	return string(buf[0:4]) == "\\x89PNG\"""")])]
V['N22-switch-byte-tiff']=[('tiff/tiff.go',[("""			if buf[1] == 0x49 || buf[1] == 0x4d {
				_, _ = br.Discard(1)
				discarded++
				continue
			}""","""			switch buf[1] {
			case 0x49, 0x4d:
				_, _ = br.Discard(1)
				discarded++
				continue
			}""")])]
V['N23-dims-phash']=[('imagehash/imagehash32.go',[("""	var size image.Point
	if img != nil {
		size = img.Bounds().Size()
	}
	if img == nil || size.X != 64 || size.Y != 64 {""","""	if img == nil {
		err = errors.New("error image size incompatible. PHash requires 64x64 image")
		return
	}
	if w, h := img.Bounds().Dx(), img.Bounds().Dy(); w != 64 || h != 64 {""")])]
V['N24-positive-guard-asm']=[('imagehash/transforms32/transforms32_linux.go',[("""	if c.SubsampleRatio != image.YCbCrSubsampleRatio444 ||
		c.Rect.Min.X != 0 || c.Rect.Min.Y != 0 ||
		c.YStride != w || c.CStride != w || w%8 != 0 || w <= 0 || h <= 0 ||
		len(pixels) < w*h || len(c.Y) < w*h || len(c.Cb) < w*h || len(c.Cr) < w*h {
		yCbCrToGrayAlt(c, pixels)
		return
	}
	asmYCbCrToGray(pixels,
		c.Rect.Min.X, c.Rect.Min.Y, c.Rect.Max.X, c.Rect.Max.Y,
		c.Y, c.Cb, c.Cr, c.YStride, c.CStride)""","""	if c.SubsampleRatio == image.YCbCrSubsampleRatio444 &&
		c.Rect.Min.X == 0 && c.Rect.Min.Y == 0 &&
		c.YStride == w && c.CStride == w && w%8 == 0 && w > 0 && h > 0 &&
		len(pixels) >= w*h && len(c.Y) >= w*h && len(c.Cb) >= w*h && len(c.Cr) >= w*h {
		asmYCbCrToGray(pixels,
			c.Rect.Min.X, c.Rect.Min.Y, c.Rect.Max.X, c.Rect.Max.Y,
			c.Y, c.Cb, c.Cr, c.YStride, c.CStride)
		return
	}
	yCbCrToGrayAlt(c, pixels)""")])]
V['N25-warn-helper-exif2']=[('exif2/parse.go',[("""	default:
		if ir.logLevelWarn() {
			t.logTag(ir.logWarn()).Msg("Unrecognized tag type")
		}
	}
	return 0
}

// ParseUint16 parses a uint16 value.""","""	default:
		ir.warnTagType(t)
	}
	return 0
}

func (ir *ifdReader) warnTagType(t Tag) {
	if ir.logLevelWarn() {
		t.logTag(ir.logWarn()).Msg("Unrecognized tag type")
	}
}

// ParseUint16 parses a uint16 value.""")])]
# N26 (reordered locals in readExif) was dropped: its pattern vanished with fix 8fc3ad1
V['N27-close-var-isobmff']=[('isobmff/iprp.go',[("""		if err = inner.close(); err != nil && logLevelError() {
			logError().Object("box", inner).Err(err).Send()
		}
	}
	return b.close()""","""		err = inner.close()
		if err != nil && logLevelError() {
			logError().Object("box", inner).Err(err).Send()
		}
	}
	return b.close()""")])]
V['N28-unmarshal-helper-meta']=[('meta/exifTypes.go',[("""func (em *ExposureMode) UnmarshalText(text []byte) (err error) {
	*em = mapStringExposureMode[string(text)]
	return nil
}""","""func (em *ExposureMode) UnmarshalText(text []byte) (err error) {
	v := mapStringExposureMode[string(text)]
	*em = v
	return nil
}""")])]

V['N29-row-slice-rgba']=[('imagehash/transforms/pixels.go',[("""		for j := 0; j < s; j++ {
			pixels[(i*s)+j] = pixel2Gray(colorImg.At(min.X+j, min.Y+i).RGBA())
		}""","""		out := pixels[i*s : i*s+s]
		for j := range out {
			out[j] = pixel2Gray(colorImg.At(min.X+j, min.Y+i).RGBA())
		}""")])]

V['N30-offset-single-call']=[('exif2/parse.go',[("""			switch buf[0] {
			case '-':
				return getLocation(int32(offset * -1))
				//return time.FixedZone(string(buf[:6]), offset*-1)
			case '+':
				return getLocation(int32(offset))
				//return time.FixedZone(string(buf[:6]), offset)
			default:
				if ir.logLevelWarn() {
					t.logTag(ir.logWarn()).Msgf("Uknown TimeOffset: %s", string(buf))
				}
				return time.UTC
			}""","""			switch buf[0] {
			case '-':
				offset = -offset
			case '+':
			default:
				if ir.logLevelWarn() {
					t.logTag(ir.logWarn()).Msgf("Uknown TimeOffset: %s", string(buf))
				}
				return time.UTC
			}
			return getLocation(int32(offset))""")])]
V['N31-gps-sign-local']=[('exif2/model.go',[("""	if g.latitudeRef {
		return -1 * g.latitude
	}
	return g.latitude""","""	lat := g.latitude
	if g.latitudeRef {
		lat = -lat
	}
	return lat""")])]

V['N32-quote-loop-xmp']=[('xmp/reader.go',[("""			if b := bytes.IndexByte(buf[o+1:], delim); b >= 0 {""","""			b := -1
			for j := o + 1; j < len(buf); j++ {
				if buf[j] == delim {
					b = j - o - 1
					break
				}
			}
			if b >= 0 {""")])]

V['N34-istiff-if-chain']=[('imagetype/imagetype.go',[("""	return len(buf) > 4 &&
		// BigEndian Tiff Image Header
		IsTiffBigEndian(buf[:4]) ||
		// LittleEndian Tiff Image Header
		IsTiffLittleEndian(buf[:4])""","""	if len(buf) <= 4 {
		return IsTiffLittleEndian(buf[:4])
	}
	if buf[0] != buf[1] {
		return false
	}
	if buf[0] == 0x49 {
		return buf[2] == 0x2a && buf[3] == 0x00
	}
	if buf[0] == 0x4d {
		return buf[2] == 0x00 && buf[3] == 0x2a
	}
	return false""")])]

V['N37-route-switch-exif2']=[('exif2/reader.go',[("""		if t.IsEmbedded() {
			ir.parseTag(t)
		} else {
			ir.addTagBuffer(t)
		}""","""		switch {
		case t.IsEmbedded():
			ir.parseTag(t)
		default:
			ir.addTagBuffer(t)
		}""")])]
V['N39-peek-wrapper-switch-xmp']=[('xmp/reader.go',[("""	if buf, err = br.r.Peek(n); err == io.EOF {
		if len(buf) > 4 {
			return buf, nil
		}
		return buf, err
	}
	return
}""","""	buf, err = br.r.Peek(n)
	if err == io.EOF && len(buf) > 4 {
		return buf, nil
	}
	return buf, err
}""")])]
V['N40-ftyp-close-var']=[('isobmff/ftyp.go',[("""	return ftyp, b.close()
}""","""	err = b.close()
	return ftyp, err
}""")])]
V['N41-guarded-narrow-stringer']=[('meta/exifTypes.go',[("""	if int(mm) < len(_MeteringModeIndex)-1 {
		return _MeteringModeName[_MeteringModeIndex[mm]:_MeteringModeIndex[mm+1]]
	}""","""	if mm <= 0xff {
		if i := uint8(mm); int(i) < len(_MeteringModeIndex)-1 {
			return _MeteringModeName[_MeteringModeIndex[i]:_MeteringModeIndex[i+1]]
		}
	}""")])]

V['N42-queue-full-early-return']=[('exif2/buffer.go',[("""	b := ir.buffer
	if b.len < tagMaxCount {
		for i := b.len; i > 0; i-- {""","""	b := ir.buffer
	if b.len >= tagMaxCount {
		if ir.logLevelWarn() {
			ir.logWarn().Int32("tagMaxCount", tagMaxCount).Msg("error tagMaxCount is too short")
		}
		return
	}
	if b.len < tagMaxCount {
		for i := b.len; i > 0; i-- {""")])]
V['N43-nikon-ifd-local']=[('exif2/reader.go',[("""					err = ir.readIfdHeader(ifds.NewIFD(byteOrder, ifds.MknoteIFD, t.IfdIndex, t.ValueOffset, t.ValueOffset+byteOrder.Uint32(buf[14:18])))""","""					mkIfd := ifds.NewIFD(byteOrder, ifds.MknoteIFD, t.IfdIndex, t.ValueOffset, t.ValueOffset+byteOrder.Uint32(buf[14:18]))
					err = ir.readIfdHeader(mkIfd)""")])]
V['N44-marshaltext-append']=[('meta/exifTypes.go',[("""func (em ExposureMode) MarshalText() (text []byte, err error) {
	return unsafeGetBytes(em.String()), nil
}""","""func (em ExposureMode) MarshalText() (text []byte, err error) {
	return append([]byte(nil), em.String()...), nil
}""")])]
V['N45-png-own-bufio']=[('imagemeta.go',[("""	rr := readerPool.Get().(*bufio.Reader)
	rr.Reset(r)
	defer readerPool.Put(rr)

	if err := ir.DecodeTiff(rr, header); err != nil {
		return ir.Exif, err
	}

	return ir.Exif, nil
}

// PreviewCR3""","""	rr := bufio.NewReaderSize(r, 4*1024)

	if err := ir.DecodeTiff(rr, header); err != nil {
		return ir.Exif, err
	}

	return ir.Exif, nil
}

// PreviewCR3""")])]

def build(name, edits, out):
    d=tempfile.mkdtemp(prefix='imverif-neutral-',dir='/var/tmp')
    try:
        subprocess.check_call(['rsync','-a','--exclude','.git',REPO+'/',d+'/'])
        subprocess.check_call(['git','init','-q','.'],cwd=d)
        subprocess.check_call(['git','add','-A'],cwd=d,stdout=subprocess.DEVNULL)
        subprocess.check_call(['git','-c','user.email=a@b','-c','user.name=x','commit','-qm','base'],cwd=d)
        for e in edits:
            path=os.path.join(d,e[0])
            if e[1] is None:
                if len(e)>2 and e[2] is not None:
                    open(path,'w').write(e[2])
                continue
            s=open(path).read()
            for old,new in e[1]:
                if s.count(old)<1:
                    print('  !! pattern not found in',e[0],':',old[:60].replace('\n','\\n')); return False
                s=s.replace(old,new)
            open(path,'w').write(s)
        subprocess.check_call(['git','add','-A'],cwd=d,stdout=subprocess.DEVNULL)
        diff=subprocess.check_output(['git','diff','--cached'],cwd=d)
        if not diff.strip():
            print('  !! empty diff'); return False
        open(out,'wb').write(diff)
        return True
    finally:
        shutil.rmtree(d)

for name,edits in sorted(V.items()):
    ok=build(name,edits,'/verif/neutral/%s.diff'%name)
    print(name,'ok' if ok else 'FAILED')
