#!/bin/bash
# usage: tools/mut.sh <patch.diff> <Cnn> [Cnn...]
# Applies a seeded change to a scratch copy of /repo (never to /repo itself), runs the named checks
# against the copy with --repo, prints their verdict lines, and removes the copy.
set -u
export GOFLAGS=-mod=mod GOPROXY=off GOSUMDB=off GOTOOLCHAIN=local GOWORK=off
patch=$(readlink -f "$1"); shift
d=/var/tmp/imverif-mut-$$
rm -rf "$d"; mkdir -p "$d"
rsync -a --exclude .git /repo/ "$d/"
( cd "$d" && git init -q . 2>/dev/null && git apply "$patch" ) || { echo "PATCH DOES NOT APPLY"; rm -rf "$d"; exit 3; }
( cd "$d" && go build ./... ) || { echo "MUTANT DOES NOT BUILD"; rm -rf "$d"; exit 4; }
rc=0
for c in "$@"; do
  out=$(IMVERIF_EVIDENCE="$d/.evidence" /verif/bin/imverif check "$c" --repo "$d" 2>&1)
  echo "$out" | grep -E "^VIOLATION|^  rule=|^  [a-zA-Z]|^C[0-9]+ \[" | sed "s#$d/##g" | head -${MUT_LINES:-12}
done
rm -rf "$d"
