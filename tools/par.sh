#!/bin/bash
# usage: tools/par.sh seeds|neutral <shards> <logfile> — runs run_seeds.sh / run_neutral.sh over all kept seeds / variants
# in <shards> parallel shards and concatenates their output into <logfile> (which ends with the line FINISHED).
kind=$1; n=${2:-6}; log=${3:-/var/tmp/$kind-all.log}
cd /verif
if [ "$kind" = seeds ]; then items=$(ls seeded); cmd=tools/run_seeds.sh; else items=$(ls neutral/*.diff); cmd=tools/run_neutral.sh; fi
tmp=/var/tmp/par-$kind-$$; mkdir -p $tmp
i=0; for it in $items; do echo $it >> $tmp/shard$((i % n)); i=$((i+1)); done
for s in $tmp/shard*; do ( $cmd $(cat $s) > $s.out 2>&1 ) & done
wait
cat $tmp/shard*.out | grep -v conda > $log; echo FINISHED >> $log
rm -rf $tmp
