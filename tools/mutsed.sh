#!/bin/bash
# usage: tools/mutsed.sh <file> <sed-expr> <Cnn> [Cnn...]  — my own sanity mutants: scratch copy, sed, build, run checks, remove.
export GOFLAGS=-mod=mod GOPROXY=off GOSUMDB=off GOTOOLCHAIN=local GOWORK=off
file=$1; expr=$2; shift 2
d=/var/tmp/imverif-sed-$$; rm -rf $d; mkdir -p $d; rsync -a --exclude .git /repo/ $d/
sed -i -E "$expr" $d/$file
if diff -q /repo/$file $d/$file >/dev/null; then echo "SED DID NOT CHANGE ANYTHING"; rm -rf $d; exit 3; fi
( cd $d && go build ./... ) || { echo "MUTANT DOES NOT BUILD"; rm -rf $d; exit 4; }
for c in "$@"; do
  IMVERIF_EVIDENCE=$d/.ev /verif/bin/imverif check $c --repo $d 2>&1 | grep -E "^  rule=|checker failure|^C[0-9]+ \[" | sed "s#$d/##g" | cut -c1-260 | head -${MUT_LINES:-8}
done
rm -rf $d
