#!/bin/bash
# usage: tools/keep_seed12.sh <source dir> <property>  — verifies a sub-agent's seed and keeps it as the next free seeded/<prop>-<n>
set -e
src=$1; prop=$2
n=1; while [ -e /verif/seeded/$prop-$n ] || [ "$prop-$n" = "C01-1" ]; do n=$((n+1)); done
s=$prop-$n; dst=/verif/seeded/$s
v=$(/verif/tools/verify_seed.sh $src | head -1)
echo "$s <= $src $v"
case "$v" in *false*) echo "NOT KEPT"; exit 1;; esac
mkdir -p $dst; cp $src/patch.diff $dst/; cp $src/demo* $dst/
python3 - "$src/meta.json" "$dst/meta.json" "$v" <<'PY'
import json,sys
m=json.load(open(sys.argv[1])); v=json.loads(sys.argv[3])
out={"property":m["property"],"breaks":m["summary"],"files":m.get("files"),"needs":m["needs"],"demo_place":m["demo_place"],"demo_cmd":m["demo_cmd"],
 "confirmed_by_me":v,"what_i_ran":"tools/verify_seed.sh: scratch copy of /repo under /var/tmp, git apply patch.diff, go build ./..., go test -vet=off -count=1 ./... (suite passes), demo with the change (fails), demo without it (passes); copy removed afterwards","source":"independent sub-agent (round 13) given only the property text, the instruction to follow up the fix commits visible in its worktree's git log, and its own worktree"}
json.dump(out,open(sys.argv[2],"w"),indent=1)
PY
