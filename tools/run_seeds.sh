#!/bin/bash
# usage: tools/run_seeds.sh [seed ...]  — for every kept seed, runs the check of its own property
# (plus any listed in seeded/<id>/also) against a scratch copy with the change applied and reports the
# violation keys that are NEW relative to the unchanged /repo.
cd /verif
seeds=${@:-$(ls seeded)}
base=/var/tmp/imverif-baseline-$$; mkdir -p $base
keys() { grep -E "^  rule=|checker failure" | sed -E 's/ at=[^ ]+//' | sort -u; }
for s in $seeds; do
  prop=${s%%-*}
  also=$(cat seeded/$s/also 2>/dev/null)
  new=""
  for c in $prop $also; do
    [ -f $base/$c ] || IMVERIF_EVIDENCE=$base/ev bin/imverif check $c 2>&1 | keys > $base/$c
    MUT_LINES=4000 tools/mut.sh seeded/$s/patch.diff $c 2>&1 | keys > $base/mut.$c
    d=$(comm -13 $base/$c $base/mut.$c)
    [ -n "$d" ] && new="$new$(echo "$d" | sed "s/^/    [$c]/")"$'\n'
  done
  if [ -n "$new" ]; then echo "CAUGHT  $s"; echo -n "$new" | cut -c1-250 | head -6; else echo "MISSED  $s"; fi
done
rm -rf $base
