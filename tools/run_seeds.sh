#!/bin/bash
# usage: tools/run_seeds.sh [seed ...]  — runs, for every kept seed, the check of its own property
# (plus any extra listed in seeded/<id>/also) against a scratch copy with the change applied.
cd /verif
seeds=${@:-$(ls seeded)}
for s in $seeds; do
  prop=${s%%-*}
  also=$(cat seeded/$s/also 2>/dev/null)
  out=$(MUT_LINES=400 tools/mut.sh seeded/$s/patch.diff $prop $also 2>&1)
  n=$(echo "$out" | grep -c "^VIOLATION")
  if [ "$n" -gt 0 ]; then echo "CAUGHT  $s ($n): $(echo "$out" | grep -m1 -A1 '^  rule=' | tr '\n' ' ' | cut -c1-260)"; else echo "MISSED  $s: $(echo "$out" | tail -1 | cut -c1-200)"; fi
done
