#!/bin/bash
# usage: tools/run_neutral.sh [variant ...] — every behaviour-preserving variant under /verif/neutral must build, pass the
# repository's test suite, and leave every check silent. Prints ALARM lines for false alarms.
export GOFLAGS=-mod=mod GOPROXY=off GOSUMDB=off GOTOOLCHAIN=local GOWORK=off
cd /verif
vs=${@:-$(ls neutral/*.diff)}
for v in $vs; do
  d=/var/tmp/imverif-neutral-$$; rm -rf $d; mkdir -p $d; rsync -a --exclude .git /repo/ $d/
  ( cd $d && git init -q . && git apply /verif/$v ) || { echo "STALE  $v (does not apply)"; rm -rf $d; continue; }
  ( cd $d && go build ./... && go test -vet=off -count=1 ./... >/dev/null 2>&1 ) || { echo "BROKEN $v (does not build or tests fail)"; rm -rf $d; continue; }
  bad=""
  for c in $(bin/imverif list); do
    out=$(IMVERIF_EVIDENCE=$d/.ev bin/imverif check $c --repo $d 2>&1)
    if echo "$out" | grep -q "^VIOLATION"; then bad="$bad $c"; echo "$out" | grep -A2 "^VIOLATION" | grep -v "^--" | sed "s#$d/##g" | cut -c1-260 | head -6; fi
  done
  if [ -n "$bad" ]; then echo "ALARM  $v :$bad"; else echo "silent $v"; fi
  rm -rf $d
done
