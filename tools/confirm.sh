#!/bin/bash
# usage: tools/confirm.sh [git-rev of /repo] [-run regex]
# Runs the triage tests of /verif/confirm in a scratch copy of /repo (at HEAD's working tree, or at the given
# revision) placed under /var/tmp; removes the copy afterwards. Not a check: it shows that each recorded defect
# fails on the pinned tree and passes on the repaired one.
export GOFLAGS=-mod=mod GOPROXY=off GOSUMDB=off GOTOOLCHAIN=local GOWORK=off
rev=${1:-WORKTREE}; shift
d=/var/tmp/imverif-confirm-$$; rm -rf $d; mkdir -p $d
if [ "$rev" = WORKTREE ]; then rsync -a --exclude .git /repo/ $d/; else git -C /repo archive "$rev" | tar -x -C $d; fi
cp /verif/confirm/*_test.go $d/
# in-package triage tests: confirm/pkg/<path>/*_test.go go to <path> of the copy
pkgs="."
if [ -d /verif/confirm/pkg ]; then
  for f in $(cd /verif/confirm/pkg && find . -name '*_test.go'); do mkdir -p $d/$(dirname $f); cp /verif/confirm/pkg/$f $d/$f; pkgs="$pkgs ./$(dirname $f)"; done
fi
( cd $d && go test -vet=off -count=1 "$@" $(echo $pkgs | tr ' ' '\n' | sort -u) 2>&1 | grep -v "^=== RUN" | tail -60 )
rm -rf $d
