package main

import (
	"fmt"
	"go/token"
	"go/types"
	"sort"

	"golang.org/x/tools/go/ssa"
)

// WSTOK (C13): white space between tokens is skipped before a delimiter is tested.
//
// XML allows white space on both sides of the '=' of an attribute (Attribute ::= Name Eq AttValue, Eq ::= S? '=' S?)
// and between the last attribute - or the tag name - and the '>' or "/>" that ends the tag (STag ::= '<' Name
// (S Attribute)* S? '>'; ETag ::= '</' Name S? '>'). The tokenizer has two places where such a delimiter is looked
// for in the look-ahead window: the attribute-value reader (the function that recognises the two quote characters)
// tests '=', the opening quote and, after the closing quote, '>' and "/>"; the tag-header reader (the function that
// calls the tag-name scanner) tests '>' and "/>" after the name. A delimiter tested at a fixed distance from the end
// of the previous token is only found when no white space was written there: `tiff:Make="Canon" >` then leaves the
// attribute mode on, the next "attribute" is read across the following elements and the packet ends in an error
// with every later property missing.
//
// Rule: in these two functions the index of every window byte that is compared with '=', '>' or a quote character
// is - up to a constant offset, for the second byte of "/>" - the result of white-space skipping: the result of a
// helper of the package whose result is one of its integer arguments advanced in a loop that tests the byte at it
// with the white-space test (E3's result ≥ argument summary plus the loop's test), or the counter of such a loop
// in the function itself. len(buf) is accepted as an edge of a phi (a position no byte can be read at).
//
// What it decides is that skipping happens in front of each delimiter test; which bytes count as white space is
// WSSET's business, and that the windows are wide enough for the padding is WINFIT's.
func ruleWsTok(p *Prog, r *Report) {
	r.Explain("WSTOK: in the attribute-value reader (the function of package xmp that compares a window byte with both quote characters) and the tag-header reader (the one that calls the tag-name scanner), the index of every window byte compared with '=', '>' or a quote character is, up to a constant offset, the result of white-space skipping - a helper whose result is its index argument advanced under the white-space test, or such a loop counter in the function itself: XML allows white space on both sides of '=' and in front of the '>' or '/>' that ends a tag.")
	pk := p.SSAPkg("xmp")
	if pk == nil {
		r.Fatal("unresolved anchor: package xmp")
		return
	}
	e := p.E3()
	// white-space tests: helpers of one byte parameter comparing it with the four characters
	wsHelper := map[*ssa.Function]bool{}
	for _, f := range pkgFns(pk, p) {
		if f.Blocks == nil || len(f.Params) != 1 {
			continue
		}
		if b, ok := f.Params[0].Type().Underlying().(*types.Basic); !ok || b.Kind() != types.Uint8 {
			continue
		}
		seen := map[int64]bool{}
		eachInstr(f, func(_ *ssa.BasicBlock, _ int, in ssa.Instruction) {
			if bo, ok := in.(*ssa.BinOp); ok && (bo.Op == token.EQL || bo.Op == token.NEQ) {
				if k, ok := constInt(bo.Y); ok && bo.X == ssa.Value(f.Params[0]) {
					seen[k] = true
				}
			}
		})
		if seen[0x20] && seen[0x09] && seen[0x0a] && seen[0x0d] {
			wsHelper[f] = true
		}
	}
	// wsTestOn: the function tests the byte at buf[idx] for white space (helper call or the four comparisons)
	wsTestOn := func(f *ssa.Function, idx ssa.Value) bool {
		found := false
		cmp := map[int64]bool{}
		eachInstr(f, func(_ *ssa.BasicBlock, _ int, in ssa.Instruction) {
			u, ok := in.(*ssa.UnOp)
			if !ok || u.Op != token.MUL {
				return
			}
			ia, ok := u.X.(*ssa.IndexAddr)
			if !ok || ia.Index != idx {
				return
			}
			for _, rf := range refs(u) {
				switch x := rf.(type) {
				case ssa.CallInstruction:
					if sc := x.Common().StaticCallee(); sc != nil && wsHelper[sc] {
						found = true
					}
				case *ssa.BinOp:
					if k, ok := constInt(x.Y); ok && (x.Op == token.EQL || x.Op == token.NEQ) {
						cmp[k] = true
					}
				}
			}
		})
		return found || (cmp[0x20] && cmp[0x09] && cmp[0x0a] && cmp[0x0d])
	}
	// skip loop counter: a phi with a self-step edge (phi + k, k > 0) whose byte is white-space tested
	skipPhi := func(phi *ssa.Phi) bool {
		step := false
		for _, ed := range phi.Edges {
			if bo, ok := ed.(*ssa.BinOp); ok && bo.Op == token.ADD && bo.X == ssa.Value(phi) {
				if k, ok := constInt(bo.Y); ok && k > 0 {
					step = true
				}
			}
		}
		return step && wsTestOn(phi.Parent(), phi)
	}
	// skip helpers: result ≥ an integer argument, and the returned counter is a skip loop counter
	skipHelper := map[*ssa.Function]bool{}
	for _, f := range pkgFns(pk, p) {
		if f.Blocks == nil || len(e.retGeParams(f)) == 0 {
			continue
		}
		ok := false
		eachInstr(f, func(_ *ssa.BasicBlock, _ int, in ssa.Instruction) {
			if ret, isRet := in.(*ssa.Return); isRet && len(ret.Results) == 1 {
				if phi, isPhi := ret.Results[0].(*ssa.Phi); isPhi && skipPhi(phi) {
					ok = true
				}
			}
		})
		if ok {
			skipHelper[f] = true
		}
	}
	var skipped func(v ssa.Value, seen map[ssa.Value]bool) (bool, string)
	skipped = func(v ssa.Value, seen map[ssa.Value]bool) (bool, string) {
		if seen[v] {
			return true, ""
		}
		seen[v] = true
		switch x := v.(type) {
		case *ssa.Call:
			if sc := x.Call.StaticCallee(); sc != nil && skipHelper[sc] {
				return true, ""
			}
			if bi, ok := x.Call.Value.(*ssa.Builtin); ok && bi.Name() == "len" {
				return true, "" // a position past the window: no byte is read there
			}
			return false, "the result of " + shortCallee(&x.Call)
		case *ssa.Phi:
			if skipPhi(x) {
				return true, ""
			}
			for _, ed := range x.Edges {
				if ok, why := skipped(ed, seen); !ok {
					return false, why
				}
			}
			return true, ""
		case *ssa.BinOp:
			if x.Op == token.ADD {
				if _, ok := constInt(x.Y); ok {
					return skipped(x.X, seen)
				}
			}
			return false, "computed from the end of the previous token (" + shortVal(v) + ")"
		case *ssa.Const:
			return false, "the constant position " + shortVal(v)
		case *ssa.Extract:
			return false, "the end of the previous token (" + shortVal(v) + ")"
		}
		return false, shortVal(v)
	}
	// anchors by behaviour
	isQuote := func(k int64) bool { return k == '"' || k == '\'' }
	type site struct {
		delim string
		idx   ssa.Value
		at    string
	}
	n := 0
	for _, f := range pkgFns(pk, p) {
		if f.Blocks == nil {
			continue
		}
		var sites []site
		quotes := map[int64]bool{}
		callsTagName := false
		eachCall(f, func(cs ssa.CallInstruction) {
			if sc := cs.Common().StaticCallee(); sc != nil && sc.Pkg == pk && sc.Name() == "parseTagName" {
				callsTagName = true
			}
		})
		eachInstr(f, func(_ *ssa.BasicBlock, _ int, in ssa.Instruction) {
			bo, ok := in.(*ssa.BinOp)
			if !ok || (bo.Op != token.EQL && bo.Op != token.NEQ) {
				return
			}
			x, y := bo.X, bo.Y
			k, ok := constInt(y)
			if !ok {
				if k, ok = constInt(x); !ok {
					return
				}
				x = y
			}
			u, ok := stripChange(x).(*ssa.UnOp)
			if !ok || u.Op != token.MUL {
				return
			}
			ia, ok := u.X.(*ssa.IndexAddr)
			if !ok {
				return
			}
			if eb, ok := u.Type().Underlying().(*types.Basic); !ok || eb.Kind() != types.Uint8 {
				return
			}
			d := ""
			switch {
			case k == '=':
				d = "'='"
			case k == '>':
				d = "'>'"
			case isQuote(k):
				d = "the opening quote"
				quotes[k] = true
			default:
				return
			}
			sites = append(sites, site{d, ia.Index, p.posStr(instrPos(bo))})
		})
		attrValue := quotes['"'] && quotes['\'']
		if !attrValue && !callsTagName {
			continue
		}
		role := "tag-header reader"
		if attrValue {
			role = "attribute-value reader"
		}
		by := map[string][]site{}
		for _, s := range sites {
			by[s.delim] = append(by[s.delim], s)
		}
		var ds []string
		for d := range by {
			ds = append(ds, d)
		}
		sort.Strings(ds)
		for _, d := range ds {
			n++
			key := fmt.Sprintf("%s | %s is looked for after the white space in front of it", fnName(f), d)
			bad, at := "", by[d][0].at
			for _, s := range by[d] {
				if ok, why := skipped(s.idx, map[ssa.Value]bool{}); !ok {
					bad = fmt.Sprintf("%s is tested at %s, at a position that is %s and not the result of white-space skipping: white space written in front of it (allowed by XML between these tokens) makes the %s miss it, and the attributes and elements that follow are lost", d, s.at, why, role)
					at = s.at
					break
				}
			}
			if bad != "" {
				r.Bad("WSTOK", key, at, bad)
			} else {
				r.OK("WSTOK", key, at, fmt.Sprintf("%d test(s) in the %s, each at a white-space-skipped position", len(by[d]), role))
			}
		}
	}
	// the attribute-name reader: white space between two attributes may be longer than the first window
	for _, f := range pkgFns(pk, p) {
		if f.Blocks == nil {
			continue
		}
		var nameCall ssa.CallInstruction
		eachCall(f, func(cs ssa.CallInstruction) {
			if sc := cs.Common().StaticCallee(); sc != nil && sc.Pkg == pk && sc.Name() == "parseAttrName" {
				nameCall = cs
			}
		})
		if nameCall == nil {
			continue
		}
		n++
		key := fnName(f) + " | the attribute name is looked for in a growing window"
		at := p.posStr(instrPos(nameCall))
		grows := false
		loops := findLoops(f)
		eachCall(f, func(cs ssa.CallInstruction) {
			c := cs.Common()
			sc := c.StaticCallee()
			if sc == nil || sc.Name() != "Peek" || len(c.Args) != 2 {
				return
			}
			if ph, ok := c.Args[1].(*ssa.Phi); ok {
				for _, l := range loops {
					if l.Head == ph.Block() {
						if ind, ok := inductionOf(ph); ok && ind.Step > 0 {
							grows = true
						}
					}
				}
			}
		})
		if grows {
			r.OK("WSTOK", key, at, "the window the name scanner is given grows until the name is inside it (its reach is WINFIT's business)")
		} else {
			r.Bad("WSTOK", key, at, "the attribute-name scanner is given one window of constant size: white space between two attributes that is longer than it (indentation, padding) ends the packet in an error although the tag-header and value readers look further ahead")
		}
	}
	if n == 0 {
		r.Undecided("WSTOK", "xmp | delimiter tests", "-", "neither the attribute-value reader nor the tag-header reader was recognised (anchor lost)")
	}
	r.Extra("wstok_skip_helpers", len(skipHelper))
}
