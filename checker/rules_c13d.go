package main

import (
	"fmt"
	"go/constant"
	"go/token"
	"go/types"
	"sort"
	"strings"

	"golang.org/x/tools/go/ssa"
)

// WSTOK (C13): white space between tokens is skipped before a delimiter is tested.
//
// XML allows white space on both sides of the '=' of an attribute (Attribute ::= Name Eq AttValue, Eq ::= S? '=' S?)
// and between the last attribute - or the tag name - and the '>' or "/>" that ends the tag (STag ::= '<' Name
// (S Attribute)* S? '>'; ETag ::= '</' Name S? '>'). The tokenizer has two places where such a delimiter is looked
// for in the look-ahead window: the attribute-value reader (the function that recognises the two quote characters)
// tests '=', the opening quote and, after the closing quote, '>' and "/>"; the tag-header reader (the function that
// calls the tag-name scanner) tests '>' and "/>" after the name. A delimiter tested at a fixed distance from the end
// of the previous token is only found when no white space was written there: `tiff:Make="Canon" >` then leaves the
// attribute mode on, the next "attribute" is read across the following elements and the packet ends in an error
// with every later property missing.
//
// Rule: in these two functions the index of every window byte that is compared with '=', '>' or a quote character
// is - up to a constant offset, for the second byte of "/>" - the result of white-space skipping: the result of a
// helper of the package whose result is one of its integer arguments advanced in a loop that tests the byte at it
// with the white-space test (E3's result ≥ argument summary plus the loop's test), or the counter of such a loop
// in the function itself. len(buf) is accepted as an edge of a phi (a position no byte can be read at).
//
// What it decides is that skipping happens in front of each delimiter test; which bytes count as white space is
// WSSET's business, and that the windows are wide enough for the padding is WINFIT's.
func ruleWsTok(p *Prog, r *Report) {
	r.Explain("WSTOK: in the attribute-value reader (the function of package xmp that compares a window byte with both quote characters) and the tag-header reader (the one that calls the tag-name scanner), the index of every window byte compared with '=', '>' or a quote character is, up to a constant offset, the result of white-space skipping - a helper whose result is its index argument advanced under the white-space test, or such a loop counter in the function itself: XML allows white space on both sides of '=' and in front of the '>' or '/>' that ends a tag.")
	pk := p.SSAPkg("xmp")
	if pk == nil {
		r.Fatal("unresolved anchor: package xmp")
		return
	}
	e := p.E3()
	// white-space tests: helpers of one byte parameter comparing it with the four characters
	wsHelper := map[*ssa.Function]bool{}
	for _, f := range pkgFns(pk, p) {
		if f.Blocks == nil || len(f.Params) != 1 {
			continue
		}
		if b, ok := f.Params[0].Type().Underlying().(*types.Basic); !ok || b.Kind() != types.Uint8 {
			continue
		}
		seen := map[int64]bool{}
		eachInstr(f, func(_ *ssa.BasicBlock, _ int, in ssa.Instruction) {
			if bo, ok := in.(*ssa.BinOp); ok && (bo.Op == token.EQL || bo.Op == token.NEQ) {
				if k, ok := constInt(bo.Y); ok && bo.X == ssa.Value(f.Params[0]) {
					seen[k] = true
				}
			}
		})
		if seen[0x20] && seen[0x09] && seen[0x0a] && seen[0x0d] {
			wsHelper[f] = true
		}
	}
	// wsTestOn: the function tests the byte at buf[idx] for white space (helper call or the four comparisons)
	wsTestOn := func(f *ssa.Function, idx ssa.Value) bool {
		found := false
		cmp := map[int64]bool{}
		eachInstr(f, func(_ *ssa.BasicBlock, _ int, in ssa.Instruction) {
			u, ok := in.(*ssa.UnOp)
			if !ok || u.Op != token.MUL {
				return
			}
			ia, ok := u.X.(*ssa.IndexAddr)
			if !ok || ia.Index != idx {
				return
			}
			for _, rf := range refs(u) {
				switch x := rf.(type) {
				case ssa.CallInstruction:
					if sc := x.Common().StaticCallee(); sc != nil && wsHelper[sc] {
						found = true
					}
				case *ssa.BinOp:
					if k, ok := constInt(x.Y); ok && (x.Op == token.EQL || x.Op == token.NEQ) {
						cmp[k] = true
					}
				}
			}
		})
		return found || (cmp[0x20] && cmp[0x09] && cmp[0x0a] && cmp[0x0d])
	}
	// skip loop counter: a phi with a self-step edge (phi + k, k > 0) whose byte is white-space tested
	skipPhi := func(phi *ssa.Phi) bool {
		step := false
		for _, ed := range phi.Edges {
			if bo, ok := ed.(*ssa.BinOp); ok && bo.Op == token.ADD && bo.X == ssa.Value(phi) {
				if k, ok := constInt(bo.Y); ok && k > 0 {
					step = true
				}
			}
		}
		return step && wsTestOn(phi.Parent(), phi)
	}
	// skip helpers: result ≥ an integer argument, and the returned counter is a skip loop counter
	skipHelper := map[*ssa.Function]bool{}
	for _, f := range pkgFns(pk, p) {
		if f.Blocks == nil || len(e.retGeParams(f)) == 0 {
			continue
		}
		ok := false
		eachInstr(f, func(_ *ssa.BasicBlock, _ int, in ssa.Instruction) {
			if ret, isRet := in.(*ssa.Return); isRet && len(ret.Results) == 1 {
				if phi, isPhi := ret.Results[0].(*ssa.Phi); isPhi && skipPhi(phi) {
					ok = true
				}
			}
		})
		if ok {
			skipHelper[f] = true
		}
	}
	var skipped func(v ssa.Value, seen map[ssa.Value]bool) (bool, string)
	skipped = func(v ssa.Value, seen map[ssa.Value]bool) (bool, string) {
		if seen[v] {
			return true, ""
		}
		seen[v] = true
		switch x := v.(type) {
		case *ssa.Call:
			if sc := x.Call.StaticCallee(); sc != nil && skipHelper[sc] {
				return true, ""
			}
			if bi, ok := x.Call.Value.(*ssa.Builtin); ok && bi.Name() == "len" {
				return true, "" // a position past the window: no byte is read there
			}
			return false, "the result of " + shortCallee(&x.Call)
		case *ssa.Phi:
			if skipPhi(x) {
				return true, ""
			}
			for _, ed := range x.Edges {
				if ok, why := skipped(ed, seen); !ok {
					return false, why
				}
			}
			return true, ""
		case *ssa.BinOp:
			if x.Op == token.ADD {
				if _, ok := constInt(x.Y); ok {
					return skipped(x.X, seen)
				}
			}
			return false, "computed from the end of the previous token (" + shortVal(v) + ")"
		case *ssa.Const:
			return false, "the constant position " + shortVal(v)
		case *ssa.Extract:
			return false, "the end of the previous token (" + shortVal(v) + ")"
		}
		return false, shortVal(v)
	}
	// anchors by behaviour
	isQuote := func(k int64) bool { return k == '"' || k == '\'' }
	type site struct {
		delim string
		idx   ssa.Value
		at    string
	}
	n := 0
	for _, f := range pkgFns(pk, p) {
		if f.Blocks == nil {
			continue
		}
		var sites []site
		quotes := map[int64]bool{}
		callsTagName := false
		eachCall(f, func(cs ssa.CallInstruction) {
			if sc := cs.Common().StaticCallee(); sc != nil && sc.Pkg == pk && sc.Name() == "parseTagName" {
				callsTagName = true
			}
		})
		eachInstr(f, func(_ *ssa.BasicBlock, _ int, in ssa.Instruction) {
			bo, ok := in.(*ssa.BinOp)
			if !ok || (bo.Op != token.EQL && bo.Op != token.NEQ) {
				return
			}
			x, y := bo.X, bo.Y
			k, ok := constInt(y)
			if !ok {
				if k, ok = constInt(x); !ok {
					return
				}
				x = y
			}
			u, ok := stripChange(x).(*ssa.UnOp)
			if !ok || u.Op != token.MUL {
				return
			}
			ia, ok := u.X.(*ssa.IndexAddr)
			if !ok {
				return
			}
			if eb, ok := u.Type().Underlying().(*types.Basic); !ok || eb.Kind() != types.Uint8 {
				return
			}
			d := ""
			switch {
			case k == '=':
				d = "'='"
			case k == '>':
				d = "'>'"
			case isQuote(k):
				d = "the opening quote"
				quotes[k] = true
			default:
				return
			}
			sites = append(sites, site{d, ia.Index, p.posStr(instrPos(bo))})
		})
		attrValue := quotes['"'] && quotes['\'']
		if !attrValue && !callsTagName {
			continue
		}
		role := "tag-header reader"
		if attrValue {
			role = "attribute-value reader"
		}
		by := map[string][]site{}
		for _, s := range sites {
			by[s.delim] = append(by[s.delim], s)
		}
		var ds []string
		for d := range by {
			ds = append(ds, d)
		}
		sort.Strings(ds)
		for _, d := range ds {
			n++
			key := fmt.Sprintf("%s | %s is looked for after the white space in front of it", fnName(f), d)
			bad, at := "", by[d][0].at
			for _, s := range by[d] {
				if ok, why := skipped(s.idx, map[ssa.Value]bool{}); !ok {
					bad = fmt.Sprintf("%s is tested at %s, at a position that is %s and not the result of white-space skipping: white space written in front of it (allowed by XML between these tokens) makes the %s miss it, and the attributes and elements that follow are lost", d, s.at, why, role)
					at = s.at
					break
				}
			}
			if bad != "" {
				r.Bad("WSTOK", key, at, bad)
			} else {
				r.OK("WSTOK", key, at, fmt.Sprintf("%d test(s) in the %s, each at a white-space-skipped position", len(by[d]), role))
			}
		}
	}
	// the attribute-name reader: white space between two attributes may be longer than the first window
	for _, f := range pkgFns(pk, p) {
		if f.Blocks == nil {
			continue
		}
		var nameCall ssa.CallInstruction
		eachCall(f, func(cs ssa.CallInstruction) {
			if sc := cs.Common().StaticCallee(); sc != nil && sc.Pkg == pk && sc.Name() == "parseAttrName" {
				nameCall = cs
			}
		})
		if nameCall == nil {
			continue
		}
		n++
		key := fnName(f) + " | the attribute name is looked for in a growing window"
		at := p.posStr(instrPos(nameCall))
		grows := false
		loops := findLoops(f)
		eachCall(f, func(cs ssa.CallInstruction) {
			c := cs.Common()
			sc := c.StaticCallee()
			if sc == nil || sc.Name() != "Peek" || len(c.Args) != 2 {
				return
			}
			if ph, ok := c.Args[1].(*ssa.Phi); ok {
				for _, l := range loops {
					if l.Head == ph.Block() {
						if ind, ok := inductionOf(ph); ok && ind.Step > 0 {
							grows = true
						}
					}
				}
			}
		})
		if grows {
			r.OK("WSTOK", key, at, "the window the name scanner is given grows until the name is inside it (its reach is WINFIT's business)")
		} else {
			r.Bad("WSTOK", key, at, "the attribute-name scanner is given one window of constant size: white space between two attributes that is longer than it (indentation, padding) ends the packet in an error although the tag-header and value readers look further ahead")
		}
	}
	if n == 0 {
		r.Undecided("WSTOK", "xmp | delimiter tests", "-", "neither the attribute-value reader nor the tag-header reader was recognised (anchor lost)")
	}
	r.Extra("wstok_skip_helpers", len(skipHelper))
}

// ENTITY (C13): a text value is reported with its entity and character references decoded.
//
// A well-formed packet cannot write '&' or '<' in a value, nor the quote character that delimits an attribute value:
// it writes "&amp;", "&lt;", "&quot;" / "&apos;" or a character reference ("&#38;", "&#x26;"). The value of the
// property is the text these stand for: dc:title "Tom &amp; Jerry" is "Tom & Jerry", and serialise(p) of a value
// containing '&' can only be parsed back to p by a reader that decodes it.
//
// Rule: every string stored into a field of a struct of package xmp (directly, or as an element appended to a
// []string field) that is produced from value bytes - the result of a library function taking []byte and returning
// string, or a direct string(bytes) conversion - comes from a function that looks for '&' (a byte comparison with
// '&', a bytes/strings search for it, or the standard library's html.UnescapeString), itself or in a callee.
// Necessary, not sufficient: what is done after finding the '&' (the table of the five names, the numeric forms)
// is not decided.
func ruleEntity(p *Prog, r *Report) {
	r.Explain("ENTITY: every string that package xmp stores into a field of one of its structs (or appends to a []string field) and that is made from value bytes - by a library function from []byte to string or by a direct conversion - is produced by a function that looks for '&' (byte comparison, bytes/strings search, html.UnescapeString), itself or in a callee: the predefined entities and character references of XML stand for characters a well-formed packet cannot write literally.")
	pk := p.SSAPkg("xmp")
	if pk == nil {
		r.Fatal("unresolved anchor: package xmp")
		return
	}
	memo := map[*ssa.Function]bool{}
	var testsAmp func(f *ssa.Function, d int) bool
	testsAmp = func(f *ssa.Function, d int) bool {
		if v, ok := memo[f]; ok {
			return v
		}
		memo[f] = false
		if f.Blocks == nil || d > 3 {
			return false
		}
		found := false
		eachInstr(f, func(_ *ssa.BasicBlock, _ int, in ssa.Instruction) {
			switch x := in.(type) {
			case *ssa.BinOp:
				if x.Op == token.EQL || x.Op == token.NEQ {
					for _, pr := range [][2]ssa.Value{{x.X, x.Y}, {x.Y, x.X}} {
						if k, ok := constInt(pr[1]); ok && k == '&' {
							if b, ok := pr[0].Type().Underlying().(*types.Basic); ok && (b.Kind() == types.Uint8 || b.Kind() == types.Int32) {
								found = true
							}
						}
					}
				}
			case ssa.CallInstruction:
				c := x.Common()
				sc := c.StaticCallee()
				if sc == nil {
					return
				}
				if sc.String() == "html.UnescapeString" {
					found = true
					return
				}
				if sc.Pkg != nil && (sc.Pkg.Pkg.Path() == "bytes" || sc.Pkg.Pkg.Path() == "strings") {
					for _, a := range c.Args {
						if k, ok := constInt(a); ok && k == '&' {
							found = true
						}
						if cs, ok := a.(*ssa.Const); ok && cs.Value != nil && cs.Value.Kind() == constant.String && strings.Contains(constant.StringVal(cs.Value), "&") {
							found = true
						}
					}
					return
				}
				if isRepoFn(sc) && testsAmp(sc, d+1) {
					found = true
				}
			}
		})
		memo[f] = found
		return found
	}
	isBytes := func(t types.Type) bool {
		sl, ok := t.Underlying().(*types.Slice)
		if !ok {
			return false
		}
		b, ok := sl.Elem().Underlying().(*types.Basic)
		return ok && b.Kind() == types.Uint8
	}
	isString := func(t types.Type) bool {
		b, ok := t.Underlying().(*types.Basic)
		return ok && b.Kind() == types.String
	}
	// origin of a stored string: "" = not made from value bytes here; otherwise a verdict
	var origin func(v ssa.Value, seen map[ssa.Value]bool) (made bool, bad string)
	origin = func(v ssa.Value, seen map[ssa.Value]bool) (bool, string) {
		if seen[v] {
			return false, ""
		}
		seen[v] = true
		switch x := v.(type) {
		case *ssa.Convert:
			if isString(x.Type()) && isBytes(x.X.Type()) {
				return true, "a direct string(bytes) conversion at " + p.posStr(x.Pos())
			}
		case *ssa.Call:
			sc := x.Call.StaticCallee()
			if sc == nil || !isRepoFn(sc) || !isString(x.Type()) {
				return false, ""
			}
			takesBytes := false
			for _, a := range x.Call.Args {
				if isBytes(a.Type()) {
					takesBytes = true
				}
			}
			if !takesBytes {
				return false, ""
			}
			if testsAmp(sc, 0) {
				return true, ""
			}
			return true, fnName(sc) + ", which never looks for '&'"
		case *ssa.Phi:
			made := false
			for _, ed := range x.Edges {
				m, bad := origin(ed, seen)
				if bad != "" {
					return true, bad
				}
				made = made || m
			}
			return made, ""
		}
		return false, ""
	}
	type res struct {
		at  string
		bad string
	}
	fields := map[string]*res{}
	note := func(key, at string, made bool, bad string) {
		if !made {
			return
		}
		f := fields[key]
		if f == nil {
			f = &res{at: at}
			fields[key] = f
		}
		if bad != "" && f.bad == "" {
			f.bad, f.at = bad, at
		}
	}
	for _, f := range pkgFns(pk, p) {
		if f.Blocks == nil {
			continue
		}
		eachInstr(f, func(_ *ssa.BasicBlock, _ int, in ssa.Instruction) {
			st, ok := in.(*ssa.Store)
			if !ok {
				return
			}
			fa, ok := st.Addr.(*ssa.FieldAddr)
			if !ok {
				return
			}
			pt, ok := fa.X.Type().Underlying().(*types.Pointer)
			if !ok {
				return
			}
			nm, ok := pt.Elem().(*types.Named)
			if !ok || nm.Obj().Pkg() == nil || nm.Obj().Pkg() != pk.Pkg {
				return
			}
			key := nm.Obj().Name() + "." + fieldName(fa.X.Type(), fa.Field) + " | entity and character references are decoded"
			at := p.posStr(instrPos(st))
			if isString(st.Val.Type()) {
				made, bad := origin(st.Val, map[ssa.Value]bool{})
				note(key, at, made, bad)
				return
			}
			// append(field, s...): the elements of the variadic slice
			sl, ok := st.Val.Type().Underlying().(*types.Slice)
			if !ok || !isString(sl.Elem()) {
				return
			}
			call, ok := st.Val.(*ssa.Call)
			if !ok {
				return
			}
			if bi, ok := call.Call.Value.(*ssa.Builtin); !ok || bi.Name() != "append" || len(call.Call.Args) != 2 {
				return
			}
			vs, ok := call.Call.Args[1].(*ssa.Slice)
			if !ok {
				return
			}
			al, ok := vs.X.(*ssa.Alloc)
			if !ok {
				return
			}
			for _, rf := range refs(al) {
				ia, ok := rf.(*ssa.IndexAddr)
				if !ok {
					continue
				}
				for _, rf2 := range refs(ia) {
					if es, ok := rf2.(*ssa.Store); ok && es.Addr == ssa.Value(ia) {
						made, bad := origin(es.Val, map[ssa.Value]bool{})
						note(key, at, made, bad)
					}
				}
			}
		})
	}
	var keys []string
	for k := range fields {
		keys = append(keys, k)
	}
	sort.Strings(keys)
	for _, k := range keys {
		f := fields[k]
		if f.bad != "" {
			r.Bad("ENTITY", "xmp."+k, f.at, "the text stored here is made from the value bytes by "+f.bad+": \"Tom &amp; Jerry\" is reported with the five characters of the entity instead of '&', and no value containing '&', '<' or its own quote character can be written so that it is read back")
		} else {
			r.OK("ENTITY", "xmp."+k, f.at, "made from the value bytes by a function that looks for '&'")
		}
	}
	if len(keys) == 0 {
		r.Undecided("ENTITY", "xmp | text values", "-", "no string made from value bytes is stored into a struct of package xmp (anchor lost)")
	}
}

// MARKUP (C13): a comment is not an element.
//
// "<!--" opens a comment (and "<![CDATA[" a character-data section); both are well-formed XML between the elements
// of a packet. The tag-header reader - the function that calls the tag-name scanner - looks at the byte after '<' to
// tell an end tag ('/') and a processing instruction ('?') from a start tag. If it does not look for '!' there, the
// text of a comment is scanned for a name ("!-- a comment --><tiff:Make" up to the first '>' after a ':'), the
// element that follows the comment is swallowed with it and its property is lost without an error.
//
// Rule: in the tag-header reader the window byte that is compared with '/' and with '?' (the byte after '<') is
// compared with '!' as well. Necessary only: how far the comment is skipped is not decided.
func ruleMarkup(p *Prog, r *Report) {
	r.Explain("MARKUP: in the tag-header reader of package xmp (the function that calls the tag-name scanner) the window byte compared with '/' and with '?' - the byte after '<' - is compared with '!' too: a comment (<!-- … -->) between two elements is well-formed and must not be scanned for a tag name.")
	pk := p.SSAPkg("xmp")
	if pk == nil {
		r.Fatal("unresolved anchor: package xmp")
		return
	}
	n := 0
	for _, f := range pkgFns(pk, p) {
		if f.Blocks == nil {
			continue
		}
		calls := false
		eachCall(f, func(cs ssa.CallInstruction) {
			if sc := cs.Common().StaticCallee(); sc != nil && sc.Pkg == pk && sc.Name() == "parseTagName" {
				calls = true
			}
		})
		if !calls {
			continue
		}
		// the index expression is evaluated anew for every comparison (no CSE in go/ssa): key by its rendering
		type pos struct {
			x   ssa.Value
			idx string
		}
		sets := map[pos]map[int64]bool{}
		at := map[pos]string{}
		eachInstr(f, func(_ *ssa.BasicBlock, _ int, in ssa.Instruction) {
			bo, ok := in.(*ssa.BinOp)
			if !ok || (bo.Op != token.EQL && bo.Op != token.NEQ) {
				return
			}
			k, ok := constInt(bo.Y)
			if !ok {
				return
			}
			u, ok := stripChange(bo.X).(*ssa.UnOp)
			if !ok || u.Op != token.MUL {
				return
			}
			ia, ok := u.X.(*ssa.IndexAddr)
			if !ok {
				return
			}
			ps := pos{ia.X, shortVal(ia.Index)}
			if sets[ps] == nil {
				sets[ps] = map[int64]bool{}
				at[ps] = p.posStr(instrPos(bo))
			}
			sets[ps][k] = true
		})
		for ps, s := range sets {
			if !s['/'] || !s['?'] {
				continue
			}
			n++
			key := fnName(f) + " | a comment (<!-- … -->) is told from an element"
			if s['!'] {
				r.OK("MARKUP", key, at[ps], "the byte after '<' is compared with '/', '?' and '!'")
			} else {
				r.Bad("MARKUP", key, at[ps], "the byte after '<' is compared with '/' and '?' but not with '!': the text of a comment is scanned for a tag name, the element that follows the comment is swallowed with it and its property is lost without an error")
			}
		}
	}
	if n == 0 {
		r.Undecided("MARKUP", "xmp | tag-header reader", "-", "no function that calls the tag-name scanner compares one byte with both '/' and '?' (anchor lost)")
	}
}

// CHUNKPAT (C13): a multi-byte pattern is not looked for in one chunk of a chunked read.
//
// bufio.Reader.ReadSlice returns bufio.ErrBufferFull with the bytes read so far when the delimiter is not within one
// buffer. A loop that tolerates that error (compares the error with bufio.ErrBufferFull and goes on) sees a long
// token in chunks whose boundaries fall anywhere: a test of one chunk for a pattern of two or more bytes
// (bytes.HasSuffix(line, "-->"), HasPrefix, Contains, Index, Equal) misses the pattern when it straddles a boundary -
// a comment whose closing "--" ends a full buffer is not seen to end, and everything behind it is swallowed.
//
// Rule: in package xmp, the line returned by a ReadSlice whose ErrBufferFull is tolerated does not flow into a
// bytes.* pattern function together with a constant needle of two or more bytes. (Carrying state across reads - a
// counter of trailing dashes, a byte-wise scan - is what a correct scanner does instead.)
func ruleChunkPat(p *Prog, r *Report) {
	r.Explain("CHUNKPAT: in package xmp the bytes returned by a bufio ReadSlice whose ErrBufferFull is tolerated (the token is then seen in chunks with arbitrary boundaries) are never tested for a constant pattern of two or more bytes (bytes.HasSuffix/HasPrefix/Contains/Index/Equal): a pattern that straddles a chunk boundary would be missed.")
	pk := p.SSAPkg("xmp")
	if pk == nil {
		r.Fatal("unresolved anchor: package xmp")
		return
	}
	n := 0
	for _, f := range pkgFns(pk, p) {
		if f.Blocks == nil {
			continue
		}
		// does the function compare an error with bufio.ErrBufferFull?
		tolerates := false
		eachInstr(f, func(_ *ssa.BasicBlock, _ int, in ssa.Instruction) {
			bo, ok := in.(*ssa.BinOp)
			if !ok || (bo.Op != token.EQL && bo.Op != token.NEQ) {
				return
			}
			for _, v := range []ssa.Value{bo.X, bo.Y} {
				if u, ok := v.(*ssa.UnOp); ok && u.Op == token.MUL {
					if g, ok := u.X.(*ssa.Global); ok && g.Name() == "ErrBufferFull" {
						tolerates = true
					}
				}
			}
		})
		eachCall(f, func(cs ssa.CallInstruction) {
			c := cs.Common()
			if !isCallTo(c, "(*bufio.Reader).ReadSlice") {
				return
			}
			call, ok := cs.(*ssa.Call)
			if !ok {
				return
			}
			if !tolerates {
				return
			}
			n++
			key := fmt.Sprintf("%s | chunked ReadSlice #%d: no multi-byte pattern test on one chunk", fnName(f), n)
			at := p.posStr(instrPos(cs))
			bad := ""
			var follow func(v ssa.Value, d int)
			seen := map[ssa.Value]bool{}
			follow = func(v ssa.Value, d int) {
				if seen[v] || d > 6 || bad != "" {
					return
				}
				seen[v] = true
				for _, rf := range refs(v) {
					switch x := rf.(type) {
					case *ssa.Extract:
						if x.Index == 0 {
							follow(x, d+1)
						}
					case *ssa.Phi:
						follow(x, d+1)
					case *ssa.Slice:
						follow(x, d+1)
					case *ssa.Store:
						// spilled to a local: follow the loads
						if al, ok := x.Addr.(*ssa.Alloc); ok && x.Val == v {
							for _, r2 := range refs(al) {
								if ld, ok := r2.(*ssa.UnOp); ok && ld.Op == token.MUL {
									follow(ld, d+1)
								}
							}
						}
					case ssa.CallInstruction:
						sc := x.Common().StaticCallee()
						if sc == nil || sc.Pkg == nil || sc.Pkg.Pkg.Path() != "bytes" {
							continue
						}
						switch sc.Name() {
						case "HasSuffix", "HasPrefix", "Contains", "Index", "LastIndex", "Equal":
						default:
							continue
						}
						for _, a := range x.Common().Args {
							if a == v {
								continue
							}
							ln, ok := p.E3().constLen(a)
							if !ok {
								ln, ok = initBytesLen(a)
							}
							if ok && ln >= 2 {
								bad = fmt.Sprintf("bytes.%s at %s tests one chunk for a %d-byte pattern", sc.Name(), p.posStr(instrPos(x)), ln)
							}
						}
					}
				}
			}
			follow(call, 0)
			if bad != "" {
				r.Bad("CHUNKPAT", key, at, bad+": when the pattern straddles the boundary between two chunks (the delimiter was not within one buffer) it is missed - a comment whose closing \"--\" ends a full buffer never ends, and the elements behind it are swallowed")
			} else {
				r.OK("CHUNKPAT", key, at, "the chunk is not tested for a multi-byte pattern")
			}
		})
	}
	r.Extra("chunkpat_sites", n)
}

// initBytesLen: v is the load of a package-level []byte (or string) variable that the package initialiser sets once
// from a constant string (`var end = []byte("-->")`): the length of that constant.
func initBytesLen(v ssa.Value) (int64, bool) {
	u, ok := v.(*ssa.UnOp)
	if !ok || u.Op != token.MUL {
		return 0, false
	}
	g, ok := u.X.(*ssa.Global)
	if !ok || g.Pkg == nil {
		return 0, false
	}
	init := g.Pkg.Func("init")
	if init == nil {
		return 0, false
	}
	n, stores := int64(0), 0
	eachInstr(init, func(_ *ssa.BasicBlock, _ int, in ssa.Instruction) {
		st, ok := in.(*ssa.Store)
		if !ok || st.Addr != ssa.Value(g) {
			return
		}
		stores++
		val := st.Val
		if cv, ok := val.(*ssa.Convert); ok {
			val = cv.X
		}
		if c, ok := val.(*ssa.Const); ok && c.Value != nil && c.Value.Kind() == constant.String {
			n = int64(len(constant.StringVal(c.Value)))
		}
	})
	// written anywhere else?
	for _, rf := range refs(g) {
		if st, ok := rf.(*ssa.Store); ok && st.Addr == ssa.Value(g) && st.Parent() != init {
			return 0, false
		}
	}
	return n, stores == 1 && n > 0
}
