package main

import (
	"encoding/json"
	"flag"
	"fmt"
	"os"
	"runtime/debug"
	"sort"
	"strings"
)

type checkFn func(p *Prog, r *Report)

type propDef struct {
	id      string
	needSSA bool
	fn      checkFn
}

var props = map[string]*propDef{}

func register(id string, needSSA bool, fn checkFn) { props[id] = &propDef{id, needSSA, fn} }

func usage() {
	fmt.Fprintln(os.Stderr, "usage: imverif check <Cnn> [--tier quick|thorough] [--repo DIR]\n       imverif explain <replay.json>\n       imverif list")
	os.Exit(2)
}

func main() {
	if len(os.Args) < 2 {
		usage()
	}
	switch os.Args[1] {
	case "check":
		if len(os.Args) < 3 {
			usage()
		}
		id := os.Args[2]
		fs := flag.NewFlagSet("check", flag.ExitOnError)
		tier := fs.String("tier", "", "quick|thorough")
		repo := fs.String("repo", "/repo", "repository root")
		fs.Parse(os.Args[3:])
		if *tier == "" {
			*tier = os.Getenv("VERIF_TIER")
		}
		if *tier == "" {
			*tier = "quick"
		}
		os.Exit(runCheck(id, *tier, *repo))
	case "explain":
		if len(os.Args) < 3 {
			usage()
		}
		b, err := os.ReadFile(os.Args[2])
		if err != nil {
			fmt.Println(err)
			os.Exit(2)
		}
		var m map[string]any
		json.Unmarshal(b, &m)
		keys := []string{"property", "rule", "key", "at", "verdict", "detail"}
		for _, k := range keys {
			fmt.Printf("%-9s %v\n", k+":", m[k])
		}
		if p, ok := m["path"].([]any); ok {
			for _, s := range p {
				fmt.Printf("   path: %v\n", s)
			}
		}
	case "list":
		var ids []string
		for id := range props {
			ids = append(ids, id)
		}
		sort.Strings(ids)
		fmt.Println(strings.Join(ids, " "))
	default:
		usage()
	}
}

func runCheck(id, tier, repo string) (code int) {
	pd := props[id]
	if pd == nil {
		fmt.Fprintf(os.Stderr, "no check registered for %s\n", id)
		return 2
	}
	r := newReport(id, tier)
	r.Extra("repo", repo)
	func() {
		defer func() {
			if e := recover(); e != nil {
				r.Fatal(fmt.Sprintf("checker panic: %v\n%s", e, debug.Stack()))
			}
		}()
		p, err := loadProg(repo, pd.needSSA)
		if err != nil {
			r.Fatal(err.Error())
			return
		}
		r.Extra("packages", len(p.Initial))
		r.Extra("library_packages", len(p.Lib))
		r.Assume("single build configuration linux/amd64 (the only one that builds); int is 64 bit",
			"test files, package main tools and //go:build ignore generators are out of scope")
		pd.fn(p, r)
		if tier == "thorough" && os.Getenv("IMVERIF_NO_SELFTEST") == "" {
			selfTest(r, id, repo)
		}
	}()
	return r.finish()
}
