package main

// C10 — JPEG segment framing: CONS (segment-length conservation by affine path summation), ACC (absolute
// offsets mirror consumption), PFX (recogniser windows), MARKER (hand-offs only under APP1 + prefix), WINDOW
// (recognisers see the full look-ahead window of the current marker), HDR (shared with C06).

import (
	"fmt"
	"go/ast"
	"go/constant"
	"go/token"
	"go/types"
	"sort"
	"strings"

	"golang.org/x/tools/go/ssa"
)

func init() { register("C10", true, checkC10) }

func checkC10(p *Prog, r *Report) {
	r.Explain("CONS: every path through the body of ScanJPEG's marker loop — with the marker handlers inlined, paths that return ending the scan exempt — is enumerated and the byte counts it discards are summed as affine expressions in S = int(jr.size): the sum must be S + 2 for a length-bearing marker, 2 for SOI/EOI, 6 for DRI. A callback counts as consuming the window it was declared: ExifLength of the header for the Exif callback (the property's own proviso), limit − N for the io.LimitedReader given to the XMP callback whose residue N must then be discarded; the declared windows must themselves be S − 2 − len(prefix). Arithmetic that can wrap in a narrow type makes the amount undecided (a violation). ACC: on the same paths the amount added to jr.discarded equals the amount consumed, and only discard/peek touch the buffered reader. PFX: every string(buf[a:b]) == literal recogniser has b − a == len(literal) and starts after the 4 bytes of marker and length. PFXREC: each of the seven APP-segment recognisers, evaluated with the predicate grammar of C09, accepts exactly the headers whose bytes 4.. are its identifier constant — no fewer bytes compared (Extended XMP shares 16 bytes with XMP), none other. EXLEN: the library's own Exif callback, DecodeJPEGIfd, sets its length to the unmodified header.ExifLength and ends its success path with discard(exifLength − po) — it consumes exactly the window CONS credits it with. MARKER: the Exif and XMP hand-offs are reached only under marker == APP1 and the matching recogniser; the >>4 dispatch constants agree with the marker constants. WINDOW: when nextMarker reports a marker, jr.buf is the full result of the look-ahead peek taken at that marker. STOP: every return inside the marker loop is under marker == DQT, DHT or EOI (the scan never ends early because of what was already seen). HDR: the Exif header comes from the payload's own TIFF header with jr.discarded as its absolute offset. Behaviour over all marker sequences (fill bytes, nested thumbnails) is not decided — only these per-segment invariants.")
	r.Trusted("bufio Peek/Discard all-or-error", "JPEG: SOI/EOI carry no length, DRI has the fixed length 4; APP1 Exif prefix \"Exif\\0\\0\", XMP prefix \"http://ns.adobe.com/xap/1.0/\\0\"")
	rulePathSum(p, r)
	rulePFX(p, r, "jpeg", 4)
	rulePfxRec(p, r)
	ruleExLen(p, r)
	r.Floor("EXLEN", 1)
	ruleReadAhead(p, r)
	r.Floor("READAHEAD", 3)
	ruleStreamPos(p, r)
	r.Floor("STREAMPOS", 1)
	r.Floor("PFXREC", 7)
	ruleMarker(p, r)
	ruleFillByte(p, r)
	r.Floor("FILLBYTE", 1)
	ruleWindow(p, r)
	ruleHDR(p, r, "jpeg")
	ruleJpegOwn(p, r)
	ruleStop(p, r)
	r.Floor("STOP", 1)
	r.Floor("CONS", 8)
	r.Floor("ACC", 3)
	r.Floor("PFX", 1)
	r.Floor("MARKER", 3)
	r.Floor("WINDOW", 1)
	r.Floor("HDR", 1)
}

// ---- affine evaluation with symbols S and N -----------------------------------------------------------

type sAff struct {
	c    int64
	s, n int64 // coefficients of S = int(jr.size) and N = LimitedReader.N after the callback
	top  bool
	why  string
}

func (a sAff) add(b sAff) sAff {
	if a.top {
		return a
	}
	if b.top {
		return b
	}
	return sAff{c: a.c + b.c, s: a.s + b.s, n: a.n + b.n}
}
func (a sAff) neg() sAff {
	if a.top {
		return a
	}
	return sAff{c: -a.c, s: -a.s, n: -a.n}
}
func (a sAff) eq(b sAff) bool { return !a.top && !b.top && a.c == b.c && a.s == b.s && a.n == b.n }
func (a sAff) String() string {
	if a.top {
		return "⊤(" + a.why + ")"
	}
	var parts []string
	if a.s != 0 {
		parts = append(parts, fmt.Sprintf("%d·S", a.s))
	}
	if a.n != 0 {
		parts = append(parts, fmt.Sprintf("%d·N", a.n))
	}
	if a.c != 0 || len(parts) == 0 {
		parts = append(parts, fmt.Sprint(a.c))
	}
	return strings.Join(parts, " + ")
}

func topAff(why string) sAff { return sAff{top: true, why: why} }

type psFrame struct {
	f   *ssa.Function
	env map[ssa.Value]sAff // phis resolved on this path
}

// evalS: value as an affine form in S and N.
func evalS(fr *psFrame, v ssa.Value, depth int) sAff {
	if depth > 12 {
		return topAff("expression too deep")
	}
	if a, ok := fr.env[v]; ok {
		return a
	}
	if k, ok := constInt(v); ok {
		return sAff{c: k}
	}
	switch x := v.(type) {
	case *ssa.Convert:
		inner := evalS(fr, x.X, depth+1)
		if inner.top {
			return inner
		}
		// a narrowing conversion of a non-constant form may wrap
		if tr := typeRange(x.Type()); tr.hi < 1<<31 && !(inner.s == 0 && inner.n == 0) {
			// uint16/uint8 targets: S is a uint16 itself, so S alone fits; anything larger may not
			if !(inner.s == 1 && inner.c == 0 && inner.n == 0 && tr.hi >= 65535) {
				return topAff("conversion to " + typeStr(x.Type()) + " may wrap")
			}
		}
		return inner
	case *ssa.ChangeType:
		return evalS(fr, x.X, depth+1)
	case *ssa.BinOp:
		if !isIntType(x.Type()) {
			return topAff("non-integer")
		}
		l, rr := evalS(fr, x.X, depth+1), evalS(fr, x.Y, depth+1)
		if l.top {
			return l
		}
		if rr.top {
			return rr
		}
		var res sAff
		switch x.Op {
		case token.ADD:
			res = l.add(rr)
		case token.SUB:
			res = l.add(rr.neg())
		default:
			return topAff("operator " + x.Op.String())
		}
		// arithmetic in a type narrower than 32 bits on a form that involves S can wrap (jr.size + 2 in uint16)
		if tr := typeRange(x.Type()); tr.hi <= 65535 && (res.s != 0 || res.n != 0) && res.c != 0 {
			return topAff(fmt.Sprintf("%s arithmetic on the segment length can wrap", typeStr(x.Type())))
		}
		return res
	case *ssa.UnOp:
		if x.Op == token.MUL {
			if fa, ok := x.X.(*ssa.FieldAddr); ok {
				n := namedOfPtr(fa.X.Type())
				fn := fieldName(fa.X.Type(), fa.Field)
				if n != nil && n.Obj().Name() == "jpegReader" && fn == "size" {
					return sAff{s: 1}
				}
				if n != nil && n.Obj().Name() == "LimitedReader" && fn == "N" {
					return sAff{n: 1}
				}
			}
		}
		if x.Op == token.SUB {
			return evalS(fr, x.X, depth+1).neg()
		}
	case *ssa.Phi:
		return topAff("phi " + x.Comment + " not resolved on this path")
	case *ssa.Call:
		// a helper method of the reader that just computes a length: one block, one return
		if sc := x.Call.StaticCallee(); sc != nil && isRepoFn(sc) && len(sc.Blocks) == 1 && len(x.Call.Args) == 1 {
			if ret, ok := sc.Blocks[0].Instrs[len(sc.Blocks[0].Instrs)-1].(*ssa.Return); ok && len(ret.Results) == 1 {
				return evalS(&psFrame{f: sc, env: map[ssa.Value]sAff{}}, ret.Results[0], depth+1)
			}
		}
	}
	return topAff(shortVal(v))
}

// ---- path summation ----------------------------------------------------------------------------------

type psState struct {
	consumed, accounted sAff
	marker              int64 // constant the path established for jr.marker (-1 unknown)
	hi                  int64 // constant established for jr.marker >> 4 (-1 unknown)
	notes               []string
}

type pathSummer struct {
	p        *Prog
	jr       *types.Named
	discard  *ssa.Function
	results  []psState
	budget   int
	handlers map[*ssa.Function]bool
	loop     *Loop
	failed   string
}

func isJrMethod(f *ssa.Function, jr *types.Named) bool {
	if f == nil || f.Signature.Recv() == nil {
		return false
	}
	return namedOfPtr(f.Signature.Recv().Type()) == jr
}

// errBranch: cond is `e != nil` / `e == nil` with e an error value; returns (isErrTest, successor index of the nil branch)
func errBranch(ifi *ssa.If) (bool, int) {
	bo, ok := ifi.Cond.(*ssa.BinOp)
	if !ok || (bo.Op != token.NEQ && bo.Op != token.EQL) {
		return false, 0
	}
	if !(isErrorType(bo.X.Type()) && isNilConst(bo.Y)) && !(isErrorType(bo.Y.Type()) && isNilConst(bo.X)) {
		return false, 0
	}
	if bo.Op == token.NEQ {
		return true, 1
	}
	return true, 0
}

// markerCond: cond is load(jr.marker) == K or (load(jr.marker) >> 4) == K
func markerCond(v ssa.Value) (isHi bool, k int64, ok bool) {
	bo, isBo := v.(*ssa.BinOp)
	if !isBo || bo.Op != token.EQL {
		return false, 0, false
	}
	k, isK := constInt(bo.Y)
	if !isK {
		return false, 0, false
	}
	x := bo.X
	if sh, isSh := x.(*ssa.BinOp); isSh && sh.Op == token.SHR {
		if c, ok := constInt(sh.Y); ok && c == 4 && isFieldLoad(sh.X, "jpegReader", "marker") {
			return true, k, true
		}
		return false, 0, false
	}
	if isFieldLoad(x, "jpegReader", "marker") {
		return false, k, true
	}
	return false, 0, false
}

func (ps *pathSummer) walk(fr *psFrame, b, prev *ssa.BasicBlock, st psState, k func(st psState)) {
	if ps.failed != "" {
		return
	}
	ps.budget--
	if ps.budget < 0 {
		ps.failed = "path budget exhausted"
		return
	}
	// back at the loop header (through a jump or directly from a branch): one iteration has been walked
	if prev != nil && fr.f == ps.loop.Head.Parent() && b == ps.loop.Head {
		ps.results = append(ps.results, st)
		return
	}
	// resolve phis
	env := fr.env
	if prev != nil {
		first := true
		for _, in := range b.Instrs {
			phi, ok := in.(*ssa.Phi)
			if !ok {
				break
			}
			if first {
				env = map[ssa.Value]sAff{}
				for kk, vv := range fr.env {
					env[kk] = vv
				}
				first = false
			}
			for i, pr := range b.Preds {
				if pr == prev && isIntType(phi.Type()) {
					env[phi] = evalS(fr, phi.Edges[i], 0)
				}
			}
		}
	}
	fr2 := &psFrame{f: fr.f, env: env}
	ps.walkFrom(fr2, b, 0, st, k)
}

func (ps *pathSummer) walkFrom(fr *psFrame, b *ssa.BasicBlock, from int, st psState, k func(st psState)) {
	for i := from; i < len(b.Instrs); i++ {
		if ps.failed != "" {
			return
		}
		switch x := b.Instrs[i].(type) {
		case *ssa.Call:
			cc := &x.Call
			if sc := cc.StaticCallee(); sc != nil {
				switch {
				case sc == ps.discard:
					a := evalS(fr, cc.Args[1], 0)
					st.consumed = st.consumed.add(a)
					st.accounted = st.accounted.add(a)
					if a.top {
						st.notes = append(st.notes, "discard amount at "+ps.p.posStr(instrPos(x))+": "+a.why)
					}
					continue
				case ps.handlers[sc]:
					// inline
					rest := i + 1
					ps.walk(&psFrame{f: sc, env: map[ssa.Value]sAff{}}, sc.Blocks[0], nil, st, func(st2 psState) {
						ps.walkFrom(fr, b, rest, st2, k)
					})
					return
				}
				continue
			}
			// call through a function value: a callback
			if _, isB := cc.Value.(*ssa.Builtin); isB || cc.IsInvoke() {
				continue
			}
			if isFieldLoad(cc.Value, "jpegReader", "ExifReader") {
				// consumes the ExifLength it was given
				hd, ok := cc.Args[1].(*ssa.Call)
				if !ok || hd.Call.StaticCallee() == nil || fnName(hd.Call.StaticCallee()) != "meta.NewExifHeader" {
					st.consumed = topAff("Exif callback header is not built by NewExifHeader")
				} else {
					w := evalS(fr, hd.Call.Args[3], 0)
					st.consumed = st.consumed.add(w)
					st.notes = append(st.notes, "Exif window "+w.String())
				}
				continue
			}
			if isFieldLoad(cc.Value, "jpegReader", "XMPReader") {
				lr, ok := cc.Args[0].(*ssa.Call)
				if !ok || !isCallTo(&lr.Call, "io.LimitReader") {
					st.consumed = topAff("XMP callback reader is not an io.LimitReader")
				} else {
					w := evalS(fr, lr.Call.Args[1], 0)
					st.consumed = st.consumed.add(w).add(sAff{n: -1})
					st.notes = append(st.notes, "XMP window "+w.String())
				}
				continue
			}
		case *ssa.Store:
			// jr.discarded = jr.discarded + X
			if fa, ok := x.Addr.(*ssa.FieldAddr); ok && fieldName(fa.X.Type(), fa.Field) == "discarded" {
				if n := namedOfPtr(fa.X.Type()); n != nil && n == ps.jr {
					if bo, ok := x.Val.(*ssa.BinOp); ok && bo.Op == token.ADD && isFieldLoad(bo.X, "jpegReader", "discarded") {
						st.accounted = st.accounted.add(evalS(fr, bo.Y, 0))
					} else {
						st.accounted = topAff("jr.discarded assigned something other than itself plus an amount")
					}
				}
			}
		case *ssa.If:
			if isErr, nilIdx := errBranch(x); isErr {
				// the failing branch ends the scan: follow the nil branch only
				ps.walk(fr, b.Succs[nilIdx], b, st, k)
				return
			}
			if isHi, kc, ok := markerCond(x.Cond); ok {
				st1, st0 := st, st
				if isHi {
					st1.hi = kc
				} else {
					st1.marker = kc
				}
				// infeasible: a second equality with a different constant
				feasible := true
				if isHi && st.hi >= 0 && st.hi != kc {
					feasible = false
				}
				if !isHi && st.marker >= 0 && st.marker != kc {
					feasible = false
				}
				if !isHi && st.hi >= 0 && kc>>4 != st.hi {
					feasible = false
				}
				if feasible {
					ps.walk(fr, b.Succs[0], b, st1, k)
				}
				ps.walk(fr, b.Succs[1], b, st0, k)
				return
			}
			ps.walk(fr, b.Succs[0], b, st, k)
			ps.walk(fr, b.Succs[1], b, st, k)
			return
		case *ssa.Jump:
			s := b.Succs[0]
			if fr.f == ps.loop.Head.Parent() && s == ps.loop.Head {
				ps.results = append(ps.results, st)
				return
			}
			ps.walk(fr, s, b, st, k)
			return
		case *ssa.Return:
			if fr.f == ps.loop.Head.Parent() {
				return // the scan ends: exempt
			}
			// a handler returning an error value that is definitely non-nil ends the scan too; handlers store into jr.err, so
			// simply continue in the caller
			k(st)
			return
		case *ssa.Panic:
			return
		}
	}
}

func rulePathSum(p *Prog, r *Report) {
	f := p.Func("jpeg", "", "ScanJPEG")
	if f == nil {
		r.Undecided("CONS", "jpeg.ScanJPEG", "-", "anchor not resolved")
		return
	}
	sp := p.SSAPkg("jpeg")
	jrObj, _ := sp.Pkg.Scope().Lookup("jpegReader").(*types.TypeName)
	if jrObj == nil {
		r.Undecided("CONS", "jpeg.jpegReader", "-", "type not found")
		return
	}
	jr := jrObj.Type().(*types.Named)
	discard := p.Func("jpeg", "*jpegReader", "discard")
	next := p.Func("jpeg", "*jpegReader", "nextMarker")
	if discard == nil || next == nil {
		r.Undecided("CONS", "jpeg.(*jpegReader).discard/nextMarker", "-", "anchor not resolved")
		return
	}
	// discard's own contract: forwards to bufio.Discard and adds the returned count to discarded
	okFwd := false
	eachInstr(discard, func(_ *ssa.BasicBlock, _ int, in ssa.Instruction) {
		if st, ok := in.(*ssa.Store); ok {
			if fa, ok := st.Addr.(*ssa.FieldAddr); ok && fieldName(fa.X.Type(), fa.Field) == "discarded" {
				if bo, ok := st.Val.(*ssa.BinOp); ok && bo.Op == token.ADD {
					y := bo.Y
					if cv, ok := y.(*ssa.Convert); ok {
						y = cv.X
					}
					if ex, ok := y.(*ssa.Extract); ok && ex.Index == 0 {
						if c, ok := ex.Tuple.(*ssa.Call); ok && isCallTo(&c.Call, "(*bufio.Reader).Discard") && c.Call.Args[1] == ssa.Value(discard.Params[1]) {
							okFwd = true
						}
					}
				}
			}
		}
	})
	if okFwd {
		r.OK("ACC", "jpeg.(*jpegReader).discard | discarded += count returned by Discard(i)", p.posStr(discard.Pos()), "forwards its argument to bufio and accounts the returned count")
	} else {
		r.Bad("ACC", "jpeg.(*jpegReader).discard | discarded += count returned by Discard(i)", p.posStr(discard.Pos()), "discard does not add the count bufio returned for exactly its argument to jr.discarded: absolute offsets drift")
	}
	// the marker loop: the loop whose header calls nextMarker
	var loop *Loop
	for _, l := range findLoops(f) {
		for _, in := range l.Head.Instrs {
			if c, ok := in.(*ssa.Call); ok && c.Call.StaticCallee() == next {
				loop = l
			}
		}
	}
	if loop == nil {
		r.Undecided("CONS", "jpeg.ScanJPEG | marker loop", p.posStr(f.Pos()), "loop calling nextMarker not found")
		return
	}
	// handlers: methods of jpegReader reachable from the loop body that (transitively) reach discard or a callback
	handlers := map[*ssa.Function]bool{}
	var reachesDiscard func(g *ssa.Function, seen map[*ssa.Function]bool) bool
	reachesDiscard = func(g *ssa.Function, seen map[*ssa.Function]bool) bool {
		if g == discard {
			return true
		}
		if seen[g] || g.Blocks == nil || !isJrMethod(g, jr) {
			return false
		}
		seen[g] = true
		res := false
		eachCall(g, func(site ssa.CallInstruction) {
			c := site.Common()
			if sc := c.StaticCallee(); sc != nil {
				if reachesDiscard(sc, seen) {
					res = true
				}
			} else if isFieldLoad(c.Value, "jpegReader", "ExifReader") || isFieldLoad(c.Value, "jpegReader", "XMPReader") {
				res = true
			}
		})
		return res
	}
	for g := range p.AllFns() {
		if isJrMethod(g, jr) && g != discard && g != next && g.Blocks != nil && reachesDiscard(g, map[*ssa.Function]bool{}) {
			handlers[g] = true
		}
	}
	var hn []string
	for g := range handlers {
		hn = append(hn, fnName(g))
	}
	sort.Strings(hn)
	r.Extra("cons_handlers_inlined", hn)
	ps := &pathSummer{p: p, jr: jr, discard: discard, budget: 100000, handlers: handlers, loop: loop}
	start := loop.Head.Succs[0]
	if !loop.Blocks[start] {
		start = loop.Head.Succs[1]
	}
	ps.walk(&psFrame{f: f, env: map[ssa.Value]sAff{}}, start, loop.Head, psState{marker: -1, hi: -1}, func(psState) {})
	if ps.failed != "" {
		r.Undecided("CONS", "jpeg.ScanJPEG | marker loop", p.posStr(f.Pos()), ps.failed)
		return
	}
	r.Extra("cons_paths_enumerated", len(ps.results))
	r.Extra("cons_walk_steps", 100000-ps.budget)
	// marker constants
	mk := func(name string) int64 {
		if c, ok := sp.Pkg.Scope().Lookup(name).(*types.Const); ok && c.Val().Kind() == constant.Int {
			v, _ := constant.Int64Val(c.Val())
			return v
		}
		return -2
	}
	soi, eoi, dri := mk("markerSOI"), mk("markerEOI"), mk("markerDRI")
	type agg struct {
		n           int
		badCons     string
		badAcc      string
		sample, exp string
	}
	groups := map[string]*agg{}
	for _, st := range ps.results {
		label := "other marker (length-bearing)"
		want := sAff{c: 2, s: 1}
		switch {
		case st.marker == soi && soi >= 0:
			label, want = "SOI", sAff{c: 2}
		case st.marker == eoi && eoi >= 0:
			label, want = "EOI", sAff{c: 2}
		case st.marker == dri && dri >= 0:
			label, want = "DRI", sAff{c: 6}
		case st.hi == 12:
			label = "SOFn"
		case st.hi == 14:
			label = "APPn"
			if st.marker >= 0 {
				label = fmt.Sprintf("APP%d", st.marker&15)
			}
		case st.marker >= 0:
			label = fmt.Sprintf("marker 0x%02X", st.marker)
		}
		g := groups[label]
		if g == nil {
			g = &agg{exp: want.String()}
			groups[label] = g
		}
		g.n++
		g.sample = st.consumed.String()
		if !st.consumed.eq(want) {
			g.badCons = fmt.Sprintf("a path consumes %s, the segment occupies %s", st.consumed, want)
			if len(st.notes) > 0 {
				g.badCons += " (" + strings.Join(st.notes, "; ") + ")"
			}
		}
		if !st.accounted.eq(st.consumed) {
			g.badAcc = fmt.Sprintf("a path consumes %s but adds %s to jr.discarded", st.consumed, st.accounted)
		}
	}
	var labels []string
	for l := range groups {
		labels = append(labels, l)
	}
	sort.Strings(labels)
	for _, l := range labels {
		g := groups[l]
		key := "jpeg.ScanJPEG | " + l
		at := p.posStr(f.Pos())
		if g.badCons != "" {
			r.Bad("CONS", key, at, g.badCons+": scanning resumes inside the segment or past the next marker")
		} else {
			r.OK("CONS", key, at, fmt.Sprintf("%d paths, each consumes %s", g.n, g.exp))
		}
		if g.badAcc != "" {
			r.Bad("ACC", key, at, g.badAcc+": absolute offsets reported for later segments are wrong")
		} else {
			r.OK("ACC", key, at, fmt.Sprintf("%d paths: amount added to jr.discarded equals the amount consumed", g.n))
		}
	}
	if len(ps.results) < 8 {
		r.Bad("CONS", "jpeg.ScanJPEG | marker loop", p.posStr(f.Pos()), fmt.Sprintf("only %d paths reach the back edge (anchor lost)", len(ps.results)))
	}
}

// ---- PFX ---------------------------------------------------------------------------------------------

// rulePFX: every `string(buf[a:b]) == lit` in package rel: b − a == len(lit) and a == start.
func rulePFX(p *Prog, r *Report, rel string, start int64) {
	sp := p.SSAPkg(rel)
	if sp == nil {
		return
	}
	for _, f := range pkgFns(sp, p) {
		eachInstr(f, func(_ *ssa.BasicBlock, _ int, in ssa.Instruction) {
			bo, ok := in.(*ssa.BinOp)
			if !ok || (bo.Op != token.EQL && bo.Op != token.NEQ) {
				return
			}
			var lit string
			var other ssa.Value
			if s, ok := constString(bo.Y); ok {
				lit, other = s, bo.X
			} else if s, ok := constString(bo.X); ok {
				lit, other = s, bo.Y
			} else {
				return
			}
			cv, ok := other.(*ssa.Convert)
			if !ok {
				return
			}
			sl, ok := cv.X.(*ssa.Slice)
			if !ok {
				return
			}
			lo, hi := int64(0), int64(-1)
			if sl.Low != nil {
				if k, ok := constInt(sl.Low); ok {
					lo = k
				} else {
					return
				}
			}
			if sl.High != nil {
				if k, ok := constInt(sl.High); ok {
					hi = k
				} else {
					return
				}
			}
			key := fmt.Sprintf("%s | string(buf[%d:%d]) == %q", fnName(f), lo, hi, lit)
			at := p.posStr(instrPos(in))
			switch {
			case hi < 0:
				r.Undecided("PFX", key, at, "open-ended window")
			case hi-lo != int64(len(lit)):
				r.Bad("PFX", key, at, fmt.Sprintf("window of %d bytes compared with a %d-byte literal: the recogniser can never be true, the segment is silently not recognised", hi-lo, len(lit)))
			case start >= 0 && lo != start:
				r.Bad("PFX", key, at, fmt.Sprintf("prefix compared at offset %d, the payload starts %d bytes after the marker", lo, start))
			default:
				r.OK("PFX", key, at, "window width equals the literal, window starts after marker and length")
			}
		})
	}
	if rel == "jpeg" {
		// constant relations
		for _, rel2 := range [][3]string{{"exifPrefixLength", "exifPrefix", "2"}, {"xmpPrefixLength", "xmpPrefix", "0"}} {
			lc, ok1 := sp.Pkg.Scope().Lookup(rel2[0]).(*types.Const)
			sc, ok2 := sp.Pkg.Scope().Lookup(rel2[1]).(*types.Const)
			key := fmt.Sprintf("jpeg.%s == %s + len(%s)", rel2[0], rel2[2], rel2[1])
			if !ok1 || !ok2 {
				r.Undecided("PFX", key, "-", "constants not found")
				continue
			}
			l, _ := constant.Int64Val(lc.Val())
			add := int64(0)
			if rel2[2] == "2" {
				add = 2
			}
			if l == add+int64(len(constant.StringVal(sc.Val()))) {
				r.OK("PFX", key, "-", fmt.Sprintf("%d", l))
			} else {
				r.Bad("PFX", key, "-", fmt.Sprintf("%s is %d but the prefix has %d bytes: the payload window handed to the callback is shifted", rel2[0], l, len(constant.StringVal(sc.Val()))))
			}
		}
	}
}

// ---- MARKER ----------------------------------------------------------------------------------------

func ruleMarker(p *Prog, r *Report) {
	sp := p.SSAPkg("jpeg")
	app1 := int64(-1)
	if c, ok := sp.Pkg.Scope().Lookup("markerAPP1").(*types.Const); ok {
		app1, _ = constant.Int64Val(c.Val())
	}
	for _, h := range []struct{ handler, recog string }{{"readExif", "isExifPrefix"}, {"readXMP", "isXMPPrefix"}} {
		hf := p.Func("jpeg", "*jpegReader", h.handler)
		key := "jpeg.(*jpegReader)." + h.handler + " | reached only under APP1 and " + h.recog
		if hf == nil {
			r.Undecided("MARKER", key, "-", "anchor not resolved")
			continue
		}
		sites := p.Callers(hf)
		if len(sites) == 0 {
			r.Bad("MARKER", key, p.posStr(hf.Pos()), "the hand-off is never called: the segment type is silently ignored")
			continue
		}
		for _, site := range sites {
			at := p.posStr(instrPos(site))
			okRecog := false
			for _, cd := range condsAt(site.Block()) {
				if c, ok := cd.V.(*ssa.Call); ok && cd.True {
					if sc := c.Call.StaticCallee(); sc != nil && sc.Name() == h.recog && isFieldLoad(c.Call.Args[0], "jpegReader", "buf") {
						okRecog = true
					}
				}
			}
			// the enclosing function must itself be reached only under marker == APP1
			okApp1 := false
			encl := site.Parent()
			for _, s2 := range p.Callers(encl) {
				for _, cd := range condsAt(s2.Block()) {
					if isHi, k, ok := markerCond(cd.V); ok && !isHi && cd.True && k == app1 {
						okApp1 = true
					}
				}
			}
			switch {
			case !okRecog:
				r.Bad("MARKER", key, at, "the hand-off is not dominated by the prefix recogniser on jr.buf: a non-metadata segment can be taken for metadata")
			case !okApp1:
				r.Bad("MARKER", key, at, "the hand-off is not restricted to marker == APP1")
			default:
				r.OK("MARKER", key, at, "under marker == APP1 and the prefix recogniser")
			}
		}
	}
	// dispatch nibble constants agree with the marker constants
	f := p.Func("jpeg", "", "ScanJPEG")
	if f != nil {
		eachInstr(f, func(_ *ssa.BasicBlock, _ int, in ssa.Instruction) {
			ifi, ok := in.(*ssa.If)
			if !ok {
				return
			}
			if isHi, k, ok := markerCond(ifi.Cond); ok && isHi {
				want := ""
				prefix := ""
				switch k {
				case 12:
					want, prefix = "SOFn", "markerSOF"
				case 14:
					want, prefix = "APPn", "markerAPP"
				}
				key := fmt.Sprintf("jpeg.ScanJPEG | marker>>4 == %d", k)
				if want == "" {
					r.Bad("MARKER", key, p.posStr(instrPos(in)), "dispatch on an unexpected high nibble")
					return
				}
				sp := p.SSAPkg("jpeg")
				bad := ""
				cnt := 0
				for _, nme := range sp.Pkg.Scope().Names() {
					if !strings.HasPrefix(nme, prefix) {
						continue
					}
					if c, ok := sp.Pkg.Scope().Lookup(nme).(*types.Const); ok {
						v, _ := constant.Int64Val(c.Val())
						cnt++
						if v>>4 != k {
							bad = fmt.Sprintf("%s = 0x%X has high nibble %d", nme, v, v>>4)
						}
					}
				}
				if bad != "" || cnt == 0 {
					r.Bad("MARKER", key, p.posStr(instrPos(in)), "the "+want+" dispatch constant disagrees with the marker constants: "+bad)
				} else {
					r.OK("MARKER", key, p.posStr(instrPos(in)), fmt.Sprintf("all %d %s constants have high nibble %d", cnt, want, k))
				}
			}
		})
	}
}

// ---- WINDOW ----------------------------------------------------------------------------------------

// ruleWindow: on every path on which nextMarker returns true, the value last stored to jr.buf is the complete
// result of jr.peek(K) (K a constant ≥ the largest recogniser window) and no discard lies between that peek and
// the return.
func ruleWindow(p *Prog, r *Report) {
	f := p.Func("jpeg", "*jpegReader", "nextMarker")
	key := "jpeg.(*jpegReader).nextMarker | jr.buf is the full look-ahead window of the reported marker"
	if f == nil {
		r.Undecided("WINDOW", key, "-", "anchor not resolved")
		return
	}
	e := p.E3()
	// required window: the largest requirement of any function that receives jr.buf
	need := int64(4)
	sp := p.SSAPkg("jpeg")
	for _, g := range pkgFns(sp, p) {
		eachCall(g, func(site ssa.CallInstruction) {
			sc := site.Common().StaticCallee()
			if sc == nil || !isRepoFn(sc) {
				return
			}
			for i, a := range callArgs(site.Common()) {
				if isFieldLoad(a, "jpegReader", "buf") {
					if rq := e.Req(sc)[i]; rq > need {
						need = rq
					}
				}
			}
		})
		// direct constant indexes/slices of jr.buf
		eachInstr(g, func(_ *ssa.BasicBlock, _ int, in ssa.Instruction) {
			switch x := in.(type) {
			case *ssa.IndexAddr:
				if isFieldLoad(x.X, "jpegReader", "buf") {
					if k, ok := constInt(x.Index); ok && k+1 > need {
						need = k + 1
					}
				}
			case *ssa.Slice:
				if isFieldLoad(x.X, "jpegReader", "buf") && x.High != nil {
					if k, ok := constInt(x.High); ok && k > need {
						need = k
					}
				}
			}
		})
	}
	r.Extra("window_bytes_needed_by_recognisers", need)
	bad := ""
	nRet := 0
	eachInstr(f, func(b *ssa.BasicBlock, _ int, in ssa.Instruction) {
		ret, ok := in.(*ssa.Return)
		if !ok {
			return
		}
		c, isC := ret.Results[0].(*ssa.Const)
		if !isC {
			bad = "nextMarker returns a computed boolean"
			return
		}
		if bv, _ := boolConst(c); !bv {
			return
		}
		nRet++
		// the dominating assignment of jr.buf from the look-ahead peek
		var st *ssa.Store
		for x := b; x != nil && st == nil; x = x.Idom() {
			for i := len(x.Instrs) - 1; i >= 0 && st == nil; i-- {
				if y, ok := x.Instrs[i].(*ssa.Store); ok {
					if fa, ok := y.Addr.(*ssa.FieldAddr); ok && fieldName(fa.X.Type(), fa.Field) == "buf" {
						if ex, ok := y.Val.(*ssa.Extract); ok {
							if pc, ok := ex.Tuple.(*ssa.Call); ok && pc.Call.StaticCallee() != nil && pc.Call.StaticCallee().Name() == "peek" {
								st = y
							}
						}
					}
				}
			}
		}
		if st == nil {
			bad = "no assignment jr.buf = jr.peek(K) dominates the report of a marker"
			return
		}
		// every block on a path from that assignment to this return: no other store to jr.buf, no discard
		P := st.Block()
		fwd := map[*ssa.BasicBlock]bool{P: true}
		work := []*ssa.BasicBlock{P}
		for len(work) > 0 {
			x := work[len(work)-1]
			work = work[:len(work)-1]
			for _, sx := range x.Succs {
				if !fwd[sx] && !sx.Dominates(P) { // do not go around the loop
					fwd[sx] = true
					work = append(work, sx)
				}
			}
		}
		bwd := map[*ssa.BasicBlock]bool{b: true}
		work = []*ssa.BasicBlock{b}
		for len(work) > 0 {
			x := work[len(work)-1]
			work = work[:len(work)-1]
			if x == P {
				continue
			}
			for _, px := range x.Preds {
				if !bwd[px] && fwd[px] {
					bwd[px] = true
					work = append(work, px)
				}
			}
		}
		for x := range bwd {
			if !fwd[x] {
				continue
			}
			for i, y := range x.Instrs {
				if x == P && i <= instrIndex(st) {
					continue
				}
				switch z := y.(type) {
				case *ssa.Store:
					if fa, ok := z.Addr.(*ssa.FieldAddr); ok && fieldName(fa.X.Type(), fa.Field) == "buf" {
						bad = "jr.buf is re-assigned " + shortVal(z.Val) + " (" + p.posStr(instrPos(z)) + ") on a path between the look-ahead peek and the report of the marker: recognisers see a shortened window and miss metadata segments"
					}
				case *ssa.Call:
					if sc := z.Call.StaticCallee(); sc != nil && (sc.Name() == "discard" || sc.Name() == "Discard") {
						bad = "input is discarded between the look-ahead peek and the report of the marker (" + p.posStr(instrPos(z)) + "): the window no longer starts at the marker"
					}
				}
			}
		}
		if bad != "" {
			return
		}
		ex, ok := st.Val.(*ssa.Extract)
		if !ok {
			bad = "jr.buf is assigned " + shortVal(st.Val) + " (" + p.posStr(instrPos(st)) + "), not the complete result of the look-ahead peek: recognisers see a shortened window and miss metadata segments"
			return
		}
		pc, ok := ex.Tuple.(*ssa.Call)
		if !ok || pc.Call.StaticCallee() == nil || pc.Call.StaticCallee().Name() != "peek" {
			bad = "jr.buf does not come from jr.peek"
			return
		}
		k, ok := constInt(pc.Call.Args[1])
		if !ok || k < need {
			bad = fmt.Sprintf("the look-ahead window is %d bytes but the recognisers look at %d", k, need)
		}
	})
	switch {
	case bad != "":
		r.Bad("WINDOW", key, p.posStr(f.Pos()), bad)
	case nRet == 0:
		r.Undecided("WINDOW", key, p.posStr(f.Pos()), "no `return true` found")
	default:
		r.OK("WINDOW", key, p.posStr(f.Pos()), fmt.Sprintf("every `return true` is dominated by jr.buf = jr.peek(K) with K ≥ %d and no discard in between", need))
	}
}

// ---- who may touch jr.br --------------------------------------------------------------------------------

func ruleJpegOwn(p *Prog, r *Report) {
	sp := p.SSAPkg("jpeg")
	allowed := map[string]bool{"jpeg.(*jpegReader).peek": true, "jpeg.(*jpegReader).discard": true}
	n := 0
	for _, f := range pkgFns(sp, p) {
		eachCall(f, func(site ssa.CallInstruction) {
			c := site.Common()
			sc := c.StaticCallee()
			if sc == nil || sc.Signature.Recv() == nil || sc.Signature.Recv().Type().String() != "*bufio.Reader" || len(c.Args) == 0 {
				return
			}
			if !isFieldLoad(c.Args[0], "jpegReader", "br") {
				return
			}
			n++
			key := fmt.Sprintf("%s | jr.br.%s", fnName(f), sc.Name())
			if allowed[fnName(f)] {
				r.OK("ACC", key, p.posStr(instrPos(site)), "accounting primitive")
			} else {
				r.Bad("ACC", key, p.posStr(instrPos(site)), "the buffered reader is used outside jr.peek/jr.discard: consumption is not added to jr.discarded")
			}
		})
	}
	_ = n
}

// ---- PFXREC: each APP-segment recogniser is exactly "the payload starts with this identifier" -------------------
//
// The recognisers decide which APP segments are metadata: isExifPrefix and isXMPPrefix gate the two callbacks,
// isXMPPrefixExt / isICCProfilePrefix / isPhotoshopPrefix / isJFIFPrefix / isJFIFPrefixExt name segments that are
// skipped. Each one is evaluated with the predicate grammar of C09 (E7) into a set of accepted headers and must be
// EQUAL to "bytes 4..4+len(id) are the identifier constant" — comparing fewer bytes accepts a foreign segment whose
// identifier shares the compared part (Extended XMP shares the first 16 bytes with XMP), comparing other bytes
// rejects genuine ones.
var jpegRecognisers = [][2]string{
	{"isExifPrefix", "exifPrefix"},
	{"isXMPPrefix", "xmpPrefix"},
	{"isXMPPrefixExt", "xmpPrefixExt"},
	{"isICCProfilePrefix", "iccPrefix"},
	{"isPhotoshopPrefix", "photoshopPrefix"},
	{"isJFIFPrefix", "jfifPrefix"},
	{"isJFIFPrefixExt", "jfifPrefixExt"},
}

func rulePfxRec(p *Prog, r *Report) {
	pk := p.LibPkg("jpeg")
	if pk == nil {
		r.Undecided("PFXREC", "jpeg", "-", "package not loaded")
		return
	}
	for _, rc := range jpegRecognisers {
		key := fmt.Sprintf("jpeg.%s == (payload starts with %s)", rc[0], rc[1])
		fobj, _ := pk.Types.Scope().Lookup(rc[0]).(*types.Func)
		cobj, _ := pk.Types.Scope().Lookup(rc[1]).(*types.Const)
		if fobj == nil || cobj == nil || cobj.Val().Kind() != constant.String {
			r.Undecided("PFXREC", key, "-", "unresolved anchor: recogniser or identifier constant not found")
			continue
		}
		fd, fpk := p.declOf(fobj)
		if fd == nil || fd.Body == nil || fd.Type.Params.NumFields() != 1 || len(fd.Type.Params.List[0].Names) != 1 {
			r.Undecided("PFXREC", key, "-", "recogniser has no body or an unexpected signature")
			continue
		}
		at := p.posStr(fd.Pos())
		env := &predEnv{pkg: fpk, wins: map[types.Object]window{}, strs: map[types.Object]string{}, p: p,
			ints: map[types.Object]int64{}, defs: map[types.Object]ast.Expr{}}
		env.wins[fpk.TypesInfo.Defs[fd.Type.Params.List[0].Names[0]]] = window{off: 0, length: -1, minLen: 1 << 16}
		lit := constant.StringVal(cobj.Val())
		got, err := env.evalStmts(fd.Body.List, rc[0])
		if err != nil {
			// outside the grammar (word compares, helper tables): the bytes it looks at are still decidable on SSA
			if sf := p.SSA.FuncValue(fobj); sf != nil && len(sf.Params) == 1 {
				read := map[int64]bool{}
				unb := bufReadSet(p, sf, sf.Params[0], bufWin{0, -1}, read, map[string]bool{}, 0)
				var missing, extra []string
				for i := 0; i < len(lit); i++ {
					if !read[int64(4+i)] {
						missing = append(missing, fmt.Sprint(4+i))
					}
				}
				for k := range read {
					if k < 4 || k >= int64(4+len(lit)) {
						extra = append(extra, fmt.Sprint(k))
					}
				}
				sort.Strings(extra)
				if unb == "" && len(missing) > 0 {
					r.Bad("PFXREC", key, at, fmt.Sprintf("the recogniser never looks at byte(s) %s of the %d-byte identifier %q: a segment of another kind whose identifier agrees on the bytes that are compared is taken for this one", strings.Join(missing, ", "), len(lit), lit))
					continue
				}
				if unb == "" && len(extra) > 0 {
					r.Bad("PFXREC", key, at, fmt.Sprintf("the recogniser also depends on byte(s) %s outside the identifier %q", strings.Join(extra, ", "), lit))
					continue
				}
			}
			r.Undecided("PFXREC", key, at, "recogniser outside the predicate grammar: "+err.Error())
			continue
		}
		want := cube{}
		for i := 0; i < len(lit); i++ {
			var bs byteset
			bs.set(lit[i])
			want[4+i] = bs
		}
		wd := dnf{want}
		switch {
		case got.equiv(wd):
			r.OK("PFXREC", key, at, fmt.Sprintf("accepts exactly the headers whose bytes 4..%d are %q", 4+len(lit)-1, lit))
		case wd.subsetOf(got):
			r.Bad("PFXREC", key, at, fmt.Sprintf("accepts more than the identifier %q: %s — a segment of another kind whose identifier shares the compared bytes is taken for this one", lit, got.String()))
		default:
			r.Bad("PFXREC", key, at, fmt.Sprintf("does not accept every payload starting with %q (accepts %s): genuine segments are not recognised", lit, got.String()))
		}
	}
}
