package main

// C19 — perceptual hash: SIZEG, BITS, ORIGIN, HAMMING (+ pool rules shared with C04).

import (
	"fmt"
	"go/token"
	"go/types"
	"sort"
	"strings"

	"golang.org/x/tools/go/ssa"
)

func init() { register("C19", true, checkC19) }

func checkC19(p *Prog, r *Report) {
	r.Explain("SIZEG: in each NewPHash* the pool Get is dominated by branch conditions implying img != nil, Dx == N and Dy == N with N*N the pool's slice length. BITS: the bit-assembly loop sets bit (W-1)-(idx mod W) of word idx div W (MSB first, row-major) and the DCT flatteners copy row j, column i of the top-left KxK block to K*j+i. ORIGIN: every gray converter addresses the image in image coordinates (loop index + Bounds().Min) while the destination stays 0-based. DISPATCH: each fast path of the converter dispatchers is handed the type-asserted image itself, never a part of it (an embedded YCbCr of an NYCbCrA). HAMMING: Distance is OnesCount64 of the XOR of corresponding words, each word once. The numerical clauses (median threshold, agreement of the two implementations within rounding) are run-time arithmetic and are not decided. ROWPASS: each portable DCT2DHash64/256 runs its 1-D kernel on input[i*N : i*N+N] for i = 0..N-1 in a unit-step loop with a constant bound, on every iteration, before every return (a delegation of the whole buffer to the assembly kernel excepted) — no row reaches the column pass untransformed. LUMA: the per-pixel luminance helpers of the two families (transforms.pixel2Gray, transforms32.pixelToGray) are each one straight-line expression of r, g, b that never consults alpha, and the two expressions are identical up to the final float32 conversion. COLPASS: each then gathers col[j] = input[N*j + i] for j = 0..N-1 and hands the whole buffer to the 1-D kernel once for every i = 0..K-1, after the gather. SIBLING: the median selection of the two families (quickSelectMedian, MedianOfPixels64, MedianOfPixels256 in transforms and transforms32) has one canonical SSA form up to the float width — both families mean the same threshold.")
	r.Trusted("image.Image implementations honour Bounds()", "math/bits.OnesCount64")
	ruleSizeG(p, r)
	ruleHamming(p, r)
	ruleBits(p, r)
	ruleOrigin(p, r, "C19")
	ruleSiblings(p, r)
	ruleFill(p, r)
	ruleOffs(p, r)
	ruleConvDispatch(p, r)
	ruleTblFill(p, r)
	rulePix16(p, r)
	r.Floor("DISPATCH", 3)
	r.Floor("FILL", 4)
	r.Floor("OFFS", 3)
	r.Floor("SIZEG", 4)
	r.Floor("HAMMING", 2)
	r.Floor("BITS", 4)
	r.Floor("ORIGIN", 4)
}

var phashFns = []string{"NewPHash64", "NewPHash64Alt", "NewPHash256", "NewPHash256Alt"}

// dimKind classifies an int SSA value as the width/height of parameter img's bounds.
type dimAlt struct {
	kind string // "DX", "DY", "const"
	k    int64
	nil_ bool // alternative arises only when img == nil
}

func isBoundsCall(v ssa.Value, img ssa.Value) bool {
	c, ok := v.(*ssa.Call)
	if !ok {
		return false
	}
	if c.Call.IsInvoke() && c.Call.Method.Name() == "Bounds" && c.Call.Value == img {
		return true
	}
	return false
}

func dimOf(v ssa.Value, img ssa.Value, depth int) []dimAlt {
	if depth > 8 {
		return []dimAlt{{kind: "?"}}
	}
	switch x := v.(type) {
	case *ssa.Const:
		if k, ok := constInt(x); ok {
			return []dimAlt{{kind: "const", k: k}}
		}
	case *ssa.Call:
		if f := x.Call.StaticCallee(); f != nil && len(x.Call.Args) == 1 && isBoundsCall(x.Call.Args[0], img) {
			switch f.String() {
			case "(image.Rectangle).Dx":
				return []dimAlt{{kind: "DX"}}
			case "(image.Rectangle).Dy":
				return []dimAlt{{kind: "DY"}}
			}
		}
	case *ssa.Field:
		return pointField(x.X, x.Field, img, depth+1)
	case *ssa.UnOp:
		if x.Op == token.MUL {
			if fa, ok := x.X.(*ssa.FieldAddr); ok {
				if a, ok := fa.X.(*ssa.Alloc); ok {
					return allocField(a, fa.Field, img, depth+1)
				}
			}
		}
	case *ssa.BinOp:
		if x.Op == token.SUB {
			// b.Max.X - b.Min.X
			mx, ok1 := rectCoord(x.X, img)
			mn, ok2 := rectCoord(x.Y, img)
			if ok1 && ok2 && mx == "Max.X" && mn == "Min.X" {
				return []dimAlt{{kind: "DX"}}
			}
			if ok1 && ok2 && mx == "Max.Y" && mn == "Min.Y" {
				return []dimAlt{{kind: "DY"}}
			}
		}
	case *ssa.Phi:
		var alts []dimAlt
		for _, e := range x.Edges {
			alts = append(alts, dimOf(e, img, depth+1)...)
		}
		return alts
	}
	return []dimAlt{{kind: "?"}}
}

// pointField: field #field of an image.Point-valued SSA value.
func pointField(s ssa.Value, field int, img ssa.Value, depth int) []dimAlt {
	if depth > 8 {
		return []dimAlt{{kind: "?"}}
	}
	switch y := s.(type) {
	case *ssa.Call:
		if f := y.Call.StaticCallee(); f != nil && f.String() == "(image.Rectangle).Size" && len(y.Call.Args) == 1 && isBoundsCall(y.Call.Args[0], img) {
			if field == 0 {
				return []dimAlt{{kind: "DX"}}
			}
			return []dimAlt{{kind: "DY"}}
		}
	case *ssa.Const:
		return []dimAlt{{kind: "const", k: 0, nil_: true}} // zero value of image.Point
	case *ssa.Phi:
		var alts []dimAlt
		for _, e := range y.Edges {
			alts = append(alts, pointField(e, field, img, depth+1)...)
		}
		return alts
	case *ssa.UnOp:
		if y.Op == token.MUL {
			if a, ok := y.X.(*ssa.Alloc); ok {
				return allocField(a, field, img, depth+1)
			}
		}
	}
	return []dimAlt{{kind: "?"}}
}

// allocField: the values field #field of local struct variable a may hold (zero value included).
func allocField(a *ssa.Alloc, field int, img ssa.Value, depth int) []dimAlt {
	alts := []dimAlt{{kind: "const", k: 0, nil_: true}}
	for _, rf := range refs(a) {
		switch x := rf.(type) {
		case *ssa.Store:
			if x.Addr == ssa.Value(a) {
				alts = append(alts, pointField(x.Val, field, img, depth+1)...)
			} else {
				return []dimAlt{{kind: "?"}} // the variable's address is stored somewhere
			}
		case *ssa.FieldAddr:
			for _, rf2 := range refs(x) {
				switch y := rf2.(type) {
				case *ssa.Store:
					if y.Addr == ssa.Value(x) && x.Field == field {
						alts = append(alts, dimOf(y.Val, img, depth+1)...)
					} else if y.Addr != ssa.Value(x) {
						return []dimAlt{{kind: "?"}}
					}
				case *ssa.UnOp, *ssa.DebugRef:
				default:
					return []dimAlt{{kind: "?"}}
				}
			}
		case *ssa.UnOp, *ssa.DebugRef:
		default:
			return []dimAlt{{kind: "?"}}
		}
	}
	return alts
}

// rectCoord: v is Bounds().Max.X etc.
func rectCoord(v ssa.Value, img ssa.Value) (string, bool) {
	f1, ok := v.(*ssa.Field)
	if !ok {
		return "", false
	}
	f2, ok := f1.X.(*ssa.Field)
	if !ok {
		return "", false
	}
	if !isBoundsCall(f2.X, img) {
		return "", false
	}
	return []string{"Min", "Max"}[f2.Field] + "." + []string{"X", "Y"}[f1.Field], true
}

func poolSliceLen(p *Prog, pool *ssa.Global) (int64, bool) {
	// find the initialiser: Store to FieldAddr(pool, New) of a function whose body has MakeSlice with const len;
	// a constructor built by a helper (`New: allocator(n)`) is followed through the closure binding to the
	// constant argument of that helper call
	var n int64
	found := false
	scan := func(fn *ssa.Function, subst map[ssa.Value]ssa.Value) {
		resolve := func(v ssa.Value) (int64, bool) {
			for i := 0; i < 4; i++ {
				if k, ok := constInt(v); ok {
					return k, true
				}
				if cv, ok := v.(*ssa.Convert); ok {
					v = cv.X
					continue
				}
				if u, ok := v.(*ssa.UnOp); ok && u.Op == token.MUL {
					if w, ok := subst[u.X]; ok {
						v = w
						continue
					}
				}
				w, ok := subst[v]
				if !ok {
					break
				}
				v = w
			}
			return 0, false
		}
		eachInstr(fn, func(_ *ssa.BasicBlock, _ int, in ssa.Instruction) {
			if ms, ok := in.(*ssa.MakeSlice); ok {
				if k, ok := resolve(ms.Len); ok {
					n, found = k, true
				}
			}
			// make with a constant size is lowered to new [N]T + slice[:N]
			if sl, ok := in.(*ssa.Slice); ok && sl.High != nil {
				if _, isAlloc := sl.X.(*ssa.Alloc); isAlloc {
					if k, ok := resolve(sl.High); ok {
						n, found = k, true
					}
				}
			}
		})
	}
	var fromVal func(v ssa.Value, subst map[ssa.Value]ssa.Value, depth int)
	fromVal = func(v ssa.Value, subst map[ssa.Value]ssa.Value, depth int) {
		if depth > 3 {
			return
		}
		switch x := v.(type) {
		case *ssa.Function:
			scan(x, subst)
		case *ssa.MakeClosure:
			fn, _ := x.Fn.(*ssa.Function)
			if fn == nil {
				return
			}
			s2 := map[ssa.Value]ssa.Value{}
			for k, w := range subst {
				s2[k] = w
			}
			for i, bnd := range x.Bindings {
				if i >= len(fn.FreeVars) {
					break
				}
				// a binding is the address of the captured variable: the stored value is what the closure reads
				var val ssa.Value
				if al, ok := bnd.(*ssa.Alloc); ok {
					cnt := 0
					for _, rf := range refs(al) {
						if st, ok := rf.(*ssa.Store); ok && st.Addr == ssa.Value(al) {
							val = st.Val
							cnt++
						}
					}
					if cnt != 1 {
						val = nil
					}
				} else {
					val = bnd
				}
				if val != nil {
					s2[fn.FreeVars[i]] = val
				}
			}
			scan(fn, s2)
		case *ssa.Call:
			sc := x.Call.StaticCallee()
			if sc == nil {
				return
			}
			s2 := map[ssa.Value]ssa.Value{}
			for i, a := range x.Call.Args {
				if i < len(sc.Params) {
					s2[sc.Params[i]] = a
				}
			}
			eachInstr(sc, func(_ *ssa.BasicBlock, _ int, in ssa.Instruction) {
				if rt, ok := in.(*ssa.Return); ok && len(rt.Results) == 1 {
					fromVal(rt.Results[0], s2, depth+1)
				}
			})
		}
	}
	for _, f := range p.AllLibFns() {
		if !isInitFn(f) {
			continue
		}
		eachInstr(f, func(_ *ssa.BasicBlock, _ int, in ssa.Instruction) {
			st, ok := in.(*ssa.Store)
			if !ok {
				return
			}
			fa, ok := st.Addr.(*ssa.FieldAddr)
			if !ok || fa.X != ssa.Value(pool) {
				return
			}
			fromVal(st.Val, map[ssa.Value]ssa.Value{}, 0)
		})
	}
	return n, found
}

func ruleSizeG(p *Prog, r *Report) {
	for _, name := range phashFns {
		f := p.Func("imagehash", "", name)
		if f == nil {
			r.Undecided("SIZEG", "imagehash."+name, "-", "unresolved anchor: hash entry point not found")
			continue
		}
		if len(f.Params) != 1 {
			r.Undecided("SIZEG", fnName(f), p.posStr(f.Pos()), "unexpected signature")
			continue
		}
		img := ssa.Value(f.Params[0])
		gets := 0
		eachCall(f, func(site ssa.CallInstruction) {
			c := site.Common()
			if !isCallTo(c, "(*sync.Pool).Get") {
				return
			}
			pool, _ := c.Args[0].(*ssa.Global)
			if pool == nil {
				return
			}
			gets++
			key := fmt.Sprintf("%s | Get %s", fnName(f), globalName(pool))
			at := p.posStr(instrPos(site))
			L, ok := poolSliceLen(p, pool)
			if !ok {
				r.Undecided("SIZEG", key, at, "cannot determine the pool's slice length from its New function")
				return
			}
			// facts
			var dx, dy *int64
			nonNil := false
			var seen []string
			for _, cd := range condsAt(site.Block()) {
				bo, ok := cd.V.(*ssa.BinOp)
				if !ok || (bo.Op != token.EQL && bo.Op != token.NEQ) {
					continue
				}
				eq := (bo.Op == token.EQL) == cd.True
				// nil test
				if isNilConst(bo.Y) && bo.X == img || isNilConst(bo.X) && bo.Y == img {
					if !eq {
						nonNil = true
						seen = append(seen, "img != nil")
					}
					continue
				}
				if !eq {
					continue
				}
				x, y := bo.X, bo.Y
				if _, ok := x.(*ssa.Const); ok {
					x, y = y, x
				}
				k, ok := constInt(y)
				if !ok {
					continue
				}
				alts := dimOf(x, img, 0)
				// every alternative must either be contradicted (const != k) or be DX/DY
				kind := ""
				okAll := len(alts) > 0
				for _, a := range alts {
					switch a.kind {
					case "const":
						if a.k == k {
							okAll = false
						}
					case "DX", "DY":
						if kind != "" && kind != a.kind {
							okAll = false
						}
						kind = a.kind
					default:
						okAll = false
					}
				}
				if !okAll || kind == "" {
					continue
				}
				kk := k
				if kind == "DX" {
					dx = &kk
				} else {
					dy = &kk
				}
				// the equality excludes the nil alternative (zero size) when k != 0
				hasNilAlt := false
				for _, a := range alts {
					if a.nil_ {
						hasNilAlt = true
					}
				}
				if hasNilAlt && k != 0 {
					nonNil = true
				}
				seen = append(seen, fmt.Sprintf("%s == %d", kind, k))
			}
			// img.Bounds() itself dominating the Get with img used as invoke receiver does not prove non-nil (it panics) — so require a fact.
			var missing []string
			if !nonNil {
				missing = append(missing, "img != nil")
			}
			if dx == nil {
				missing = append(missing, "Dx == N")
			}
			if dy == nil {
				missing = append(missing, "Dy == N")
			}
			if len(missing) == 0 && (*dx != *dy || *dx**dx != L) {
				missing = append(missing, fmt.Sprintf("N*N == pool slice length (Dx=%d Dy=%d len=%d)", *dx, *dy, L))
			}
			if len(missing) > 0 {
				r.Bad("SIZEG", key, at, fmt.Sprintf("pool buffer of %d elements acquired without dominating guard facts: missing %s (established: %s)", L, strings.Join(missing, ", "), strings.Join(seen, ", ")))
			} else {
				r.OK("SIZEG", key, at, fmt.Sprintf("dominated by img != nil, Dx == Dy == %d, %d² == %d", *dx, *dx, L))
			}
		})
		if gets == 0 {
			r.Undecided("SIZEG", fnName(f), p.posStr(f.Pos()), "no pool Get found in the hash entry point (anchor lost)")
		}
	}
}

// ---- HAMMING ----------------------------------------------------------------------------

func ruleHamming(p *Prog, r *Report) {
	for _, tn := range []string{"PHash64", "PHash256"} {
		f := p.Func("imagehash", tn, "Distance")
		if f == nil {
			r.Undecided("HAMMING", "imagehash.("+tn+").Distance", "-", "unresolved anchor")
			continue
		}
		key := fnName(f)
		at := p.posStr(f.Pos())
		words := int64(1)
		if arr, ok := f.Params[0].Type().Underlying().(*types.Array); ok {
			words = arr.Len()
		}
		// collect popcount calls (through one level of repo wrapper)
		used := map[int64]int{}
		bad := ""
		npop := 0
		eachCall(f, func(site ssa.CallInstruction) {
			c := site.Common()
			callee := c.StaticCallee()
			if callee == nil {
				return
			}
			var xa, xb ssa.Value
			switch {
			case len(c.Args) == 1 && isPopcount(callee):
				x, ok := c.Args[0].(*ssa.BinOp)
				if !ok || x.Op != token.XOR {
					npop++
					bad = "popcount argument is not an XOR"
					return
				}
				xa, xb = x.X, x.Y
			case len(c.Args) == 2 && isPopPair(callee):
				// helper(a, b) = OnesCount64(a ^ b)
				xa, xb = c.Args[0], c.Args[1]
				if hi := typeRange(callee.Signature.Results().At(0).Type()).hi; hi < 64 {
					bad = fmt.Sprintf("the per-word helper %s returns a type that cannot hold 64", fnName(callee))
				}
			default:
				return
			}
			npop++
			ia, oka := wordIndex(xa, f.Params[0])
			ib, okb := wordIndex(xb, f.Params[1])
			if !oka || !okb {
				// maybe swapped
				ia, oka = wordIndex(xa, f.Params[1])
				ib, okb = wordIndex(xb, f.Params[0])
			}
			if !oka || !okb {
				bad = "XOR operands are not words of the two hashes"
				return
			}
			if ia != ib {
				bad = fmt.Sprintf("XOR of word %d with word %d", ia, ib)
				return
			}
			used[ia]++
		})
		if bad == "" {
			for i := int64(0); i < words; i++ {
				if used[i] != 1 {
					bad = fmt.Sprintf("word %d used %d times (want exactly once)", i, used[i])
				}
			}
			if int64(len(used)) != words {
				bad = fmt.Sprintf("%d words compared, hash has %d", len(used), words)
			}
		}
		// result must be the sum of the popcounts (no other arithmetic): every BinOp in f is XOR or ADD; the sum and
		// every conversion of a count must be able to hold 64 bits per word (a narrower accumulator wraps for
		// hashes that differ in every bit)
		eachInstr(f, func(_ *ssa.BasicBlock, _ int, in ssa.Instruction) {
			if bo, ok := in.(*ssa.BinOp); ok && bo.Op != token.XOR && bo.Op != token.ADD {
				bad = "unexpected arithmetic " + bo.Op.String() + " in Distance"
			}
			if bo, ok := in.(*ssa.BinOp); ok && bo.Op == token.ADD && isIntType(bo.Type()) {
				if hi := typeRange(bo.Type()).hi; hi < 64*words {
					bad = fmt.Sprintf("the counts of %d words are summed in %s, which cannot hold %d: the distance of a hash and its complement wraps", words, bo.Type(), 64*words)
				}
			}
		})
		if res := f.Signature.Results(); res.Len() == 1 {
			if hi := typeRange(res.At(0).Type()).hi; hi < 64*words {
				bad = fmt.Sprintf("the result type %s cannot hold %d", res.At(0).Type(), 64*words)
			}
		}
		if bad != "" {
			r.Bad("HAMMING", key, at, bad)
		} else {
			r.OK("HAMMING", key, at, fmt.Sprintf("sum of OnesCount64(a[i]^b[i]) over %d word(s), each once", words))
		}
	}
}

func isPopcount(f *ssa.Function) bool {
	if f.String() == "math/bits.OnesCount64" {
		return true
	}
	if !isRepoFn(f) || len(f.Blocks) != 1 || len(f.Params) != 1 {
		return false
	}
	// wrapper: return int(bits.OnesCount64(x))
	ok := false
	eachCall(f, func(site ssa.CallInstruction) {
		if isCallTo(site.Common(), "math/bits.OnesCount64") && site.Common().Args[0] == ssa.Value(f.Params[0]) {
			ok = true
		}
	})
	return ok
}

// isPopPair: f(a, b uint64) = (conversion of) OnesCount64(a ^ b), in one block.
func isPopPair(f *ssa.Function) bool {
	if !isRepoFn(f) || len(f.Blocks) != 1 || len(f.Params) != 2 {
		return false
	}
	ok := false
	eachCall(f, func(site ssa.CallInstruction) {
		if !isCallTo(site.Common(), "math/bits.OnesCount64") {
			return
		}
		if x, isX := site.Common().Args[0].(*ssa.BinOp); isX && x.Op == token.XOR {
			if (x.X == ssa.Value(f.Params[0]) && x.Y == ssa.Value(f.Params[1])) || (x.X == ssa.Value(f.Params[1]) && x.Y == ssa.Value(f.Params[0])) {
				ok = true
			}
		}
	})
	return ok
}

// wordIndex: v is (uint64 conversion of) param (scalar hash → word 0) or param[i] for constant i.
func wordIndex(v ssa.Value, param *ssa.Parameter) (int64, bool) {
	for {
		switch x := v.(type) {
		case *ssa.Convert:
			v = x.X
			continue
		case *ssa.ChangeType:
			v = x.X
			continue
		}
		break
	}
	if v == ssa.Value(param) {
		return 0, true
	}
	switch x := v.(type) {
	case *ssa.Index:
		if x.X == ssa.Value(param) {
			return constInt(x.Index)
		}
	case *ssa.UnOp:
		// load of IndexAddr(alloc holding param copy, const)
		if x.Op == token.MUL {
			if ia, ok := x.X.(*ssa.IndexAddr); ok {
				if a, ok := ia.X.(*ssa.Alloc); ok {
					for _, rf := range refs(a) {
						if st, ok := rf.(*ssa.Store); ok && st.Addr == ssa.Value(a) && st.Val == ssa.Value(param) {
							return constInt(ia.Index)
						}
					}
				}
			}
		}
	}
	return 0, false
}

// ---- sibling agreement (primary vs Alt) ---------------------------------------------------

func ruleSiblings(p *Prog, r *Report) {
	// structural fingerprint: sequence of (callee-kind) ignoring package of transforms
	fp := func(f *ssa.Function) string {
		var parts []string
		eachInstr(f, func(_ *ssa.BasicBlock, _ int, in ssa.Instruction) {
			switch x := in.(type) {
			case *ssa.BinOp:
				switch x.Op {
				case token.SHL, token.OR, token.QUO, token.REM, token.SUB, token.GTR, token.LSS:
					s := x.Op.String()
					if k, ok := constInt(x.Y); ok {
						s += fmt.Sprint(k)
					} else if k, ok := constInt(x.X); ok {
						s = fmt.Sprint(k) + s
					}
					parts = append(parts, s)
				}
			}
		})
		sort.Strings(parts)
		return strings.Join(parts, " ")
	}
	for _, pair := range [][2]string{{"NewPHash64", "NewPHash64Alt"}, {"NewPHash256", "NewPHash256Alt"}} {
		a, b := p.Func("imagehash", "", pair[0]), p.Func("imagehash", "", pair[1])
		if a == nil || b == nil {
			r.Undecided("BITS", "siblings | "+pair[0], "-", "unresolved anchor")
			continue
		}
		if fa, fb := fp(a), fp(b); fa != fb {
			r.Bad("BITS", "siblings | "+pair[0]+" vs "+pair[1], p.posStr(b.Pos()), fmt.Sprintf("primary and alternative implementation differ in their bit-assembly arithmetic: {%s} vs {%s}", fa, fb))
		} else {
			r.OK("BITS", "siblings | "+pair[0]+" vs "+pair[1], p.posStr(b.Pos()), "identical guard / bit-assembly operator multiset")
		}
	}
}

// ---- BITS ----------------------------------------------------------------------------------

func ruleBits(p *Prog, r *Report) {
	for _, name := range phashFns {
		f := p.Func("imagehash", "", name)
		if f == nil {
			r.Undecided("BITS", "imagehash."+name+" | bit-assembly", "-", "unresolved anchor")
			continue
		}
		key := fnName(f) + " | bit-assembly"
		// find the comparison coefficient > median
		var shl *ssa.BinOp
		eachInstr(f, func(_ *ssa.BasicBlock, _ int, in ssa.Instruction) {
			if bo, ok := in.(*ssa.BinOp); ok && bo.Op == token.SHL {
				if k, ok := constInt(bo.X); ok && k == 1 {
					shl = bo
				}
			}
		})
		if shl == nil {
			r.Undecided("BITS", key, p.posStr(f.Pos()), "no `1 << amount` found in the hash entry point")
			continue
		}
		at := p.posStr(instrPos(shl))
		// the block of the shift must be entered on the true edge of coeff > median
		var elemIdx ssa.Value
		var cmpBad string
		found := false
		for _, cd := range condsAt(shl.Block()) {
			bo, ok := cd.V.(*ssa.BinOp)
			if !ok || !isFloat(bo.X.Type()) {
				continue
			}
			// normalise to coeff OP median
			x, y, op := bo.X, bo.Y, bo.Op
			ix, okx := elementIndex(x)
			if !okx {
				if iy, oky := elementIndex(y); oky {
					x, y, ix = y, x, iy
					switch op {
					case token.GTR:
						op = token.LSS
					case token.LSS:
						op = token.GTR
					case token.GEQ:
						op = token.LEQ
					case token.LEQ:
						op = token.GEQ
					}
					okx = true
				}
			}
			if !okx {
				continue
			}
			found = true
			elemIdx = ix
			if !cd.True {
				switch op {
				case token.GTR:
					op = token.LEQ
				case token.LSS:
					op = token.GEQ
				case token.GEQ:
					op = token.LSS
				case token.LEQ:
					op = token.GTR
				}
			}
			if op != token.GTR && op != token.GEQ {
				cmpBad = "bit is set when the coefficient is " + op.String() + " the threshold (must be > or >=)"
			}
			// threshold must be the result of a MedianOfPixels* call
			if c, ok := y.(*ssa.Call); !ok || c.Call.StaticCallee() == nil || !strings.HasPrefix(c.Call.StaticCallee().Name(), "MedianOfPixels") {
				cmpBad = "threshold is not the result of MedianOfPixels*"
			}
		}
		if !found {
			r.Bad("BITS", key, at, "the bit-setting block is not guarded by a comparison of a coefficient with the threshold")
			continue
		}
		if cmpBad != "" {
			r.Bad("BITS", key, at, cmpBad)
			continue
		}
		idx := affineOf(elemIdx, 0)
		amt := affineOf(shl.Y, 0)
		const W = 64
		// array length
		n := int64(0)
		if ia := elementArrayLen(shl, f); ia > 0 {
			n = ia
		}
		okAmt := false
		want := ""
		if n == W {
			// amt == 63 - idx
			okAmt = amt.addScaled(idx, 1).equal(newAff(W - 1))
			want = "63 - idx"
		}
		if !okAmt {
			// amt == 63 - rem(idx,64)
			remKey := fmt.Sprintf("rem(%s,%d)", idx.String(), W)
			wantA := newAff(W - 1)
			wantA.Terms[remKey] = -1
			okAmt = amt.equal(wantA)
			want = "63 - idx%64"
		}
		if !okAmt {
			r.Bad("BITS", key, at, fmt.Sprintf("shift amount is %s, want %s (most significant bit first) with idx = %s", amt, want, idx))
			continue
		}
		// word index
		wordOK := true
		wordDetail := "scalar hash"
		var orDst ssa.Value
		for _, rf := range refs(shl) {
			if bo, ok := rf.(*ssa.BinOp); ok && bo.Op == token.OR {
				other := bo.X
				if other == ssa.Value(shl) {
					other = bo.Y
				}
				orDst = other
			}
		}
		if orDst == nil {
			r.Bad("BITS", key, at, "the shifted bit is not OR-ed into the hash")
			continue
		}
		if u, ok := orDst.(*ssa.UnOp); ok && u.Op == token.MUL {
			if ia, ok := u.X.(*ssa.IndexAddr); ok {
				w := affineOf(ia.Index, 0)
				quoKey := fmt.Sprintf("quo(%s,%d)", idx.String(), W)
				wantW := newAff(0)
				wantW.Terms[quoKey] = 1
				wordOK = w.equal(wantW)
				wordDetail = "word index " + w.String()
			}
		}
		if n > W && !wordOK {
			r.Bad("BITS", key, at, "word index is "+wordDetail+", want idx/64")
			continue
		}
		if n > W {
			if _, isPhi := orDst.(*ssa.Phi); isPhi {
				r.Bad("BITS", key, at, "multi-word hash assembled into a scalar")
				continue
			}
		}
		r.OK("BITS", key, at, fmt.Sprintf("bit (63 - idx mod 64) of word idx div 64 set iff coefficient[idx] > median; %d coefficients", n))
	}
	// flatteners
	for _, sp := range []struct {
		rel, name string
		K, N      int64
	}{{"imagehash/transforms", "DCT2DHash64", 8, 64}, {"imagehash/transforms", "DCT2DHash256", 16, 256},
		{"imagehash/transforms32", "DCT2DHash64", 8, 64}, {"imagehash/transforms32", "DCT2DHash256", 16, 256}} {
		f := p.Func(sp.rel, "", sp.name)
		key := sp.rel + "." + sp.name + " | flatten"
		if f == nil {
			r.Undecided("BITS", key, "-", "unresolved anchor")
			continue
		}
		checkFlattener(p, r, "BITS", f, key, sp.K, sp.N)
		checkRowPass(p, r, "ROWPASS", f, sp.rel+"."+sp.name+" | row pass", sp.N)
		checkColPass(p, r, "COLPASS", f, sp.rel+"."+sp.name+" | column pass", sp.K, sp.N)
	}
	r.Floor("ROWPASS", 4)
	r.Floor("COLPASS", 4)
	ruleLuma(p, r)
	r.Floor("LUMA", 1)
	ruleSibling(p, r)
	r.Floor("SIBLING", 4)
}

func isFloat(t types.Type) bool {
	b, ok := t.Underlying().(*types.Basic)
	return ok && b.Info()&types.IsFloat != 0
}

// elementIndex: v = A[i] (Index on array value, or load of IndexAddr) → i
func elementIndex(v ssa.Value) (ssa.Value, bool) {
	switch x := v.(type) {
	case *ssa.Index:
		return x.Index, true
	case *ssa.UnOp:
		if x.Op == token.MUL {
			if ia, ok := x.X.(*ssa.IndexAddr); ok {
				return ia.Index, true
			}
		}
	}
	return nil, false
}

func elementArrayLen(shl *ssa.BinOp, f *ssa.Function) int64 {
	var n int64
	for _, cd := range condsAt(shl.Block()) {
		if bo, ok := cd.V.(*ssa.BinOp); ok {
			for _, v := range []ssa.Value{bo.X, bo.Y} {
				switch x := v.(type) {
				case *ssa.Index:
					if a, ok := x.X.Type().Underlying().(*types.Array); ok {
						n = a.Len()
					}
				case *ssa.UnOp:
					if ia, ok := x.X.(*ssa.IndexAddr); ok {
						if a, ok := derefType(ia.X.Type()).Underlying().(*types.Array); ok {
							n = a.Len()
						}
					}
				}
			}
		}
	}
	return n
}

// substInit replaces induction phis by their initial value (value at the first iteration).
func substInit(a *Aff, depth int) *Aff {
	if depth > 6 {
		return a
	}
	out := newAff(a.C)
	for k, c := range a.Terms {
		if phi, ok := k.(*ssa.Phi); ok {
			if ind, ok := inductionOf(phi); ok && ind.Init != nil {
				out = out.addScaled(substInit(ind.Init, depth+1), c)
				continue
			}
		}
		if bo, ok := k.(*ssa.BinOp); ok && bo.Op == token.MUL {
			x, y := substInit(affineOf(bo.X, 0), depth+1), substInit(affineOf(bo.Y, 0), depth+1)
			if kx, ok := x.isConst(); ok {
				out = out.addScaled(y, c*kx)
				continue
			}
			if ky, ok := y.isConst(); ok {
				out = out.addScaled(x, c*ky)
				continue
			}
		}
		out.Terms[k] += c
	}
	for k, v := range a.Leaf {
		out.Leaf[k] = v
	}
	return out
}

func checkFlattener(p *Prog, r *Report, rule string, f *ssa.Function, key string, K, N int64) {
	at := p.posStr(f.Pos())
	// find the flattens array: local Alloc of [K*K]float
	var flat *ssa.Alloc
	eachInstr(f, func(_ *ssa.BasicBlock, _ int, in ssa.Instruction) {
		if a, ok := in.(*ssa.Alloc); ok {
			if arr, ok := derefType(a.Type()).Underlying().(*types.Array); ok && arr.Len() == K*K {
				// the flattened result is the array that is returned
				for _, rf := range refs(a) {
					if u, ok := rf.(*ssa.UnOp); ok && u.Op == token.MUL {
						for _, rf2 := range refs(u) {
							if _, ok := rf2.(*ssa.Return); ok {
								flat = a
							}
						}
					}
				}
			}
		}
	})
	if flat == nil {
		r.Undecided(rule, key, at, fmt.Sprintf("no local [%d] array found", K*K))
		return
	}
	n := 0
	bad := ""
	eachInstr(f, func(_ *ssa.BasicBlock, _ int, in ssa.Instruction) {
		st, ok := in.(*ssa.Store)
		if !ok {
			return
		}
		ia, ok := st.Addr.(*ssa.IndexAddr)
		if !ok || ia.X != ssa.Value(flat) {
			return
		}
		n++
		src, ok := elementIndex(st.Val)
		if !ok {
			bad = "stored value is not an element of the column buffer"
			return
		}
		dst := affineOf(ia.Index, 0)
		j := affineOf(src, 0)
		// j must be a single induction variable with range [0,K)
		if len(j.Terms) != 1 || j.C != 0 {
			bad = "source index is " + j.String() + ", want the row counter j"
			return
		}
		var jphi *ssa.Phi
		for k, c := range j.Terms {
			if ph, ok := k.(*ssa.Phi); ok && c == 1 {
				jphi = ph
			}
		}
		if jphi == nil {
			bad = "source index is not a loop counter"
			return
		}
		ind, ok := inductionOf(jphi)
		lo, hi, okr := int64(0), int64(0), false
		if ok {
			lo, hi, okr = ind.constRange()
		}
		if !okr || lo != 0 || hi != K-1 {
			bad = fmt.Sprintf("row counter does not range over [0,%d)", K)
			return
		}
		// dst = K*j + i, i another counter with range [0,K)
		rest := dst.addScaled(j, -K)
		if len(rest.Terms) != 1 || rest.C != 0 {
			bad = fmt.Sprintf("destination index is %s, want %d*j + i", dst, K)
			return
		}
		for k, c := range rest.Terms {
			ph, ok := k.(*ssa.Phi)
			if !ok || c != 1 || ph == jphi {
				bad = fmt.Sprintf("destination index is %s, want %d*j + i", dst, K)
				return
			}
			ind2, ok := inductionOf(ph)
			if !ok {
				bad = "column counter is not a counted loop variable"
				return
			}
			lo2, hi2, ok2 := ind2.constRange()
			if !ok2 || lo2 != 0 || hi2 != K-1 {
				bad = fmt.Sprintf("column counter does not range over [0,%d)", K)
			}
		}
	})
	// copy(flattens[low:], column[:K]) writes the column buffer contiguously: flattens[low+j] = column[j]
	eachCall(f, func(site ssa.CallInstruction) {
		c := site.Common()
		if b, ok := c.Value.(*ssa.Builtin); !ok || b.Name() != "copy" || len(c.Args) != 2 {
			return
		}
		dst := c.Args[0]
		low := newAff(0)
		for i := 0; i < 4; i++ {
			sl, ok := dst.(*ssa.Slice)
			if !ok {
				break
			}
			if sl.Low != nil {
				low = low.addScaled(affineOf(sl.Low, 0), 1)
			}
			dst = sl.X
		}
		if dst != ssa.Value(flat) {
			return
		}
		n++
		if K > 1 {
			bad = fmt.Sprintf("copy stores the column buffer contiguously (flattens[%s + j] = column[j]): the block comes out transposed, want %d*j + i", low, K)
		}
	})
	if n == 0 {
		// the asm path returns directly; a flattener with no store into the result is undecided
		r.Undecided(rule, key, at, "no store into the flattened result found")
		return
	}
	if bad != "" {
		r.Bad(rule, key, at, bad)
		return
	}
	r.OK(rule, key, at, fmt.Sprintf("flattens[%d*j+i] = column_i[j] for i,j in [0,%d)", K, K))
}

// ---- ORIGIN ---------------------------------------------------------------------------------

var coordMethods = map[string]bool{"At": true, "YCbCrAt": true, "RGBAAt": true, "NRGBAAt": true, "GrayAt": true,
	"YOffset": true, "COffset": true, "PixOffset": true, "RGBA64At": true}

// minCoordAxis: v is <image>.Rect.Min.{X,Y} / <image>.Bounds().Min.{X,Y}, possibly through a local copy
// (min := img.Rect.Min; b := img.Bounds()) → axis 0/1 and the image value the rectangle belongs to.
func minCoordAxis(v ssa.Value) (int, ssa.Value, bool) {
	var chain []string // innermost first: X, Min, [Rect]
	cur := v
	for step := 0; step < 12; step++ {
		switch x := cur.(type) {
		case *ssa.UnOp:
			if x.Op != token.MUL {
				return 0, nil, false
			}
			cur = x.X
			continue
		case *ssa.FieldAddr:
			chain = append(chain, fieldName(x.X.Type(), x.Field))
			cur = x.X
			continue
		case *ssa.Field:
			chain = append(chain, fieldNameV(x.X.Type(), x.Field))
			cur = x.X
			continue
		case *ssa.Alloc:
			// a local copy: exactly one store of the whole value, everything else loads/field addresses
			var st *ssa.Store
			n := 0
			for _, rf := range refs(x) {
				if s, ok := rf.(*ssa.Store); ok && s.Addr == x {
					st = s
					n++
				}
			}
			if n != 1 {
				return 0, nil, false
			}
			cur = st.Val
			continue
		}
		break
	}
	if len(chain) < 2 || chain[1] != "Min" {
		return 0, nil, false
	}
	var root ssa.Value
	switch len(chain) {
	case 2:
		// root must be a Bounds() call (Rectangle value) on the image
		c, ok := cur.(*ssa.Call)
		if !ok {
			return 0, nil, false
		}
		if c.Call.IsInvoke() && c.Call.Method.Name() == "Bounds" {
			root = c.Call.Value
		} else if sc := c.Call.StaticCallee(); sc != nil && sc.Name() == "Bounds" && len(c.Call.Args) == 1 {
			root = c.Call.Args[0]
		} else {
			return 0, nil, false
		}
	case 3:
		if chain[2] != "Rect" {
			return 0, nil, false
		}
		root = cur
	default:
		return 0, nil, false
	}
	switch chain[0] {
	case "X":
		return 0, root, true
	case "Y":
		return 1, root, true
	}
	return 0, nil, false
}

// sameImage: the rectangle's image and the accessor's receiver are the same value (through interface
// wrapping / type switches of the same parameter).
func sameImage(a, b ssa.Value) bool {
	strip := func(v ssa.Value) ssa.Value {
		for i := 0; i < 8; i++ {
			switch x := v.(type) {
			case *ssa.MakeInterface:
				v = x.X
			case *ssa.ChangeInterface:
				v = x.X
			case *ssa.TypeAssert:
				v = x.X
			case *ssa.ChangeType:
				v = x.X
			case *ssa.Extract:
				if ta, ok := x.Tuple.(*ssa.TypeAssert); ok && x.Index == 0 {
					v = ta.X
				} else {
					return v
				}
			default:
				return v
			}
		}
		return v
	}
	return strip(a) == strip(b)
}

func ruleOrigin(p *Prog, r *Report, prop string) {
	hash, err := p.HashEntries()
	if err != nil {
		r.Fatal(err.Error())
		return
	}
	fs := p.LibReach(hash)
	for _, f := range fs {
		type site struct {
			call ssa.CallInstruction
			name string
			x, y ssa.Value
			recv ssa.Value
		}
		var sites []site
		eachCall(f, func(cs ssa.CallInstruction) {
			c := cs.Common()
			var name string
			var args []ssa.Value
			if c.IsInvoke() {
				name, args = c.Method.Name(), c.Args
				if !strings.HasPrefix(c.Value.Type().String(), "image.") && c.Value.Type().String() != "image.Image" {
					// interface from another package with an At method: still an image accessor if sig matches
				}
			} else if sc := c.StaticCallee(); sc != nil && sc.Signature.Recv() != nil && sc.Pkg != nil && sc.Pkg.Pkg.Path() == "image" {
				name, args = sc.Name(), c.Args[1:]
			} else {
				return
			}
			if !coordMethods[name] || len(args) != 2 || !isIntType(args[0].Type()) || !isIntType(args[1].Type()) {
				return
			}
			var recv ssa.Value
			if c.IsInvoke() {
				recv = c.Value
			} else {
				recv = c.Args[0]
			}
			sites = append(sites, site{cs, name, args[0], args[1], recv})
		})
		if len(sites) == 0 {
			continue
		}
		// all sites of one function fold into one obligation per accessor
		for _, s := range sites {
			key := fmt.Sprintf("%s | %s(x,y)", fnName(f), s.name)
			at := p.posStr(instrPos(s.call))
			bad := ""
			for axis, v := range []ssa.Value{s.x, s.y} {
				lo := substInit(affineOf(v, 0), 0)
				an := []string{"x", "y"}[axis]
				okAxis := false
				if len(lo.Terms) == 1 && lo.C == 0 {
					for k, c := range lo.Terms {
						if lv, ok := k.(ssa.Value); ok && c == 1 {
							if ax, root, ok := minCoordAxis(lv); ok && ax == axis && sameImage(root, s.recv) {
								okAxis = true
							}
						}
					}
				}
				if !okAxis {
					bad += fmt.Sprintf("%s coordinate at the first iteration is %s, want Bounds().Min.%s (image coordinates, not 0-based offsets); ", an, lo, strings.ToUpper(an))
				}
			}
			if bad != "" {
				r.Bad("ORIGIN", key, at, bad+"a sub-image whose rectangle does not start at (0,0) is read at the wrong pixels")
			} else {
				r.OK("ORIGIN", key, at, "coordinates are loop index + Bounds().Min")
			}
		}
		// destination index 0-based: every store into a float slice parameter
		eachInstr(f, func(_ *ssa.BasicBlock, _ int, in ssa.Instruction) {
			st, ok := in.(*ssa.Store)
			if !ok {
				return
			}
			ia, ok := st.Addr.(*ssa.IndexAddr)
			if !ok {
				return
			}
			sl, ok := ia.X.Type().Underlying().(*types.Slice)
			if !ok || !isFloat(sl.Elem()) {
				return
			}
			if _, isParam := ia.X.(*ssa.Parameter); !isParam {
				return
			}
			lo := substInit(affineOf(ia.Index, 0), 0)
			key := fmt.Sprintf("%s | dst index", fnName(f))
			// allow s*0 + 0 style leftovers: all leaf coefficients multiplied by zero already vanish
			if c, ok := lo.isConst(); ok && c == 0 {
				r.OK("ORIGIN", key, p.posStr(instrPos(in)), "destination index is 0 at the first iteration (0-based)")
			} else {
				r.Bad("ORIGIN", key, p.posStr(instrPos(in)), "destination index at the first iteration is "+lo.String()+", want 0")
			}
		})
	}
}

// ---- FILL: converters overwrite every element of the recycled buffer ---------------------------

func innermostLoop(loops []*Loop, b *ssa.BasicBlock) *Loop {
	var best *Loop
	for _, l := range loops {
		if l.Blocks[b] && (best == nil || len(l.Blocks) < len(best.Blocks)) {
			best = l
		}
	}
	return best
}

// fillBase follows the slice chain of a destination (dst, dst[a:b], dst[a:b][c:d], …) back to the
// parameter it was cut from and returns the summed low bounds (the element offset of index 0).
func fillBase(v ssa.Value) (prm *ssa.Parameter, low *Aff, ok bool) {
	low = newAff(0)
	for i := 0; i < 8; i++ {
		switch x := v.(type) {
		case *ssa.Parameter:
			return x, low, true
		case *ssa.Slice:
			if x.Low != nil {
				low = low.addScaled(affineOf(x.Low, 0), 1)
			}
			v = x.X
		default:
			return nil, nil, false
		}
	}
	return nil, nil, false
}

// mulCanon maps products of the same two SSA operands onto one representative (go/ssa does no CSE,
// so i*s written twice is two BinOps).
type mulCanon map[[2]ssa.Value]*ssa.BinOp

func (mc mulCanon) of(a *Aff) *Aff {
	o := newAff(a.C)
	for k, v := range a.Leaf {
		o.Leaf[k] = v
	}
	for k, c := range a.Terms {
		if b, ok := k.(*ssa.BinOp); ok && b.Op == token.MUL {
			key := [2]ssa.Value{b.X, b.Y}
			if fmt.Sprintf("%p", b.X) > fmt.Sprintf("%p", b.Y) {
				key = [2]ssa.Value{b.Y, b.X}
			}
			if rep, ok := mc[key]; ok {
				k = rep
			} else {
				mc[key] = b
			}
		}
		o.Terms[k] += c
		if o.Terms[k] == 0 {
			delete(o.Terms, k)
		}
	}
	return o
}

// resolveLen replaces len(x[a:b]) terms by b-a.
func resolveLen(a *Aff) *Aff {
	o := a.clone()
	for k, c := range a.Terms {
		call, ok := k.(*ssa.Call)
		if !ok {
			continue
		}
		if b, ok := call.Call.Value.(*ssa.Builtin); !ok || b.Name() != "len" || len(call.Call.Args) != 1 {
			continue
		}
		sl, ok := call.Call.Args[0].(*ssa.Slice)
		if !ok || sl.High == nil {
			continue
		}
		delete(o.Terms, k)
		o = o.addScaled(affineOf(sl.High, 0), c)
		if sl.Low != nil {
			o = o.addScaled(affineOf(sl.Low, 0), -c)
		}
	}
	return o
}

func ruleFill(p *Prog, r *Report) {
	hash, err := p.HashEntries()
	if err != nil {
		r.Fatal(err.Error())
		return
	}
	for _, f := range p.LibReach(hash) {
		// only gray converters: the function must also read image data (have an image-typed parameter)
		isConv := false
		for _, q := range f.Params {
			ts := q.Type().String()
			if strings.HasPrefix(ts, "*image.") || ts == "image.Image" {
				isConv = true
			}
		}
		if !isConv {
			continue
		}
		loops := findLoops(f)
		mc := mulCanon{}
		type dstStore struct {
			st  *ssa.Store
			idx *Aff
		}
		byParam := map[*ssa.Parameter][]dstStore{}
		eachInstr(f, func(_ *ssa.BasicBlock, _ int, in ssa.Instruction) {
			st, ok := in.(*ssa.Store)
			if !ok {
				return
			}
			ia, ok := st.Addr.(*ssa.IndexAddr)
			if !ok {
				return
			}
			sl, ok := ia.X.Type().Underlying().(*types.Slice)
			if !ok || !isFloat(sl.Elem()) {
				return
			}
			prm, low, ok := fillBase(ia.X)
			if !ok {
				r.Undecided("FILL", fmt.Sprintf("%s | fill through %s", fnName(f), shortVal(ia.X)), p.posStr(instrPos(st)),
					"a float buffer is written through a value that is not a slice of a parameter: cannot tell which elements of the recycled buffer are overwritten")
				return
			}
			if innermostLoop(loops, st.Block()) == nil {
				return
			}
			byParam[prm] = append(byParam[prm], dstStore{st, mc.of(low.addScaled(affineOf(ia.Index, 0), 1))})
		})
		for prm, stores := range byParam {
			key := fmt.Sprintf("%s | fill %s", fnName(f), prm.Name())
			at := p.posStr(instrPos(stores[0].st))
			bad := ""
			inner := innermostLoop(loops, stores[0].st.Block())
			offsets := map[int64]bool{}
			var jphi *ssa.Phi
			for _, s := range stores {
				l := innermostLoop(loops, s.st.Block())
				if l != inner {
					bad = "stores into the destination are spread over different loops"
					break
				}
				for _, latch := range l.Latch {
					if !s.st.Block().Dominates(latch) {
						bad = fmt.Sprintf("the store at %s is skipped on some iterations (a path reaches the next iteration without writing the element): the recycled buffer keeps data from an earlier image", p.posStr(instrPos(s.st)))
					}
				}
				// inner induction variable = phi in the loop head with coefficient 1
				for k, c := range s.idx.Terms {
					if ph, ok := k.(*ssa.Phi); ok && ph.Block() == l.Head && c == 1 {
						jphi = ph
					}
				}
				offsets[s.idx.C] = true
			}
			if bad == "" {
				if jphi == nil {
					bad = "destination index does not advance with the innermost loop counter (coefficient 1)"
				} else if ind, ok := inductionOf(jphi); !ok || ind.CmpOn == nil {
					bad = "innermost loop counter is not a counted induction variable"
				} else {
					// the body runs for cmp = phi+d in [init+d, bound) (d = 1 for range loops, which test k+1 < len);
					// a store at phi+c writes cmp + (c-d)
					d := ind.CmpOn.C
					ind.Bound = mc.of(resolveLen(ind.Bound))
					for c := int64(0); c < ind.Step; c++ {
						if !offsets[c+d] {
							bad = fmt.Sprintf("inner loop advances by %d but offset +%d is never written", ind.Step, c)
						}
					}
					if int64(len(offsets)) != ind.Step {
						bad = fmt.Sprintf("inner loop advances by %d but %d distinct offsets are written", ind.Step, len(offsets))
					}
					if k, ok := ind.Init.isConst(); !ok || k+d != 0 {
						bad = "inner loop does not start at 0"
					}
					// row term: the remaining term must be (outer counter * bound of inner loop)
					rest := stores[0].idx.clone()
					delete(rest.Terms, jphi)
					rest.C = 0
					if len(rest.Terms) != 1 {
						bad = "destination index is not row*width + column: " + stores[0].idx.String()
					} else {
						for k, c := range rest.Terms {
							mul, ok := k.(*ssa.BinOp)
							if !ok || mul.Op != token.MUL || c != 1 {
								bad = "destination row term is not outer counter * width: " + stores[0].idx.String()
								break
							}
							var outer *ssa.Phi
							var width ssa.Value
							if ph, ok := mul.X.(*ssa.Phi); ok {
								outer, width = ph, mul.Y
							} else if ph, ok := mul.Y.(*ssa.Phi); ok {
								outer, width = ph, mul.X
							}
							if outer == nil {
								bad = "destination row term has no loop counter"
								break
							}
							oind, ok := inductionOf(outer)
							if !ok || oind.Step != 1 || oind.Bound == nil || ind.Bound == nil {
								bad = "outer loop is not a unit-step counted loop"
								break
							}
							w := affineOf(width, 0)
							if !w.equal(ind.Bound) || !w.equal(oind.Bound) || ind.Op != token.LSS || oind.Op != token.LSS {
								bad = fmt.Sprintf("row stride %s, inner bound %s and outer bound %s are not the same width", w, ind.Bound, oind.Bound)
							}
							if k0, ok := oind.Init.isConst(); !ok || k0 != 0 {
								bad = "outer loop does not start at 0"
							}
						}
					}
				}
			}
			if bad != "" {
				r.Bad("FILL", key, at, bad)
			} else {
				r.OK("FILL", key, at, "every iteration writes dst[row*w + col] for row, col in [0,w): all w*w elements are overwritten")
			}
		}
	}
}

// ---- OFFS: plane indexes come from the image's own offset methods -------------------------------

var planeFields = map[string]string{"Pix": "PixOffset", "Y": "YOffset", "Cb": "COffset", "Cr": "COffset"}

// planeOf: v is (a slice of) the load of field Pix/Y/Cb/Cr of an *image.T value → (field, the slice chain's low bounds)
func planeOf(v ssa.Value) (field string, lows []ssa.Value, ok bool) {
	for i := 0; i < 6; i++ {
		switch x := v.(type) {
		case *ssa.Slice:
			if x.Low != nil {
				lows = append(lows, x.Low)
			}
			v = x.X
			continue
		case *ssa.UnOp:
			if x.Op != token.MUL {
				return "", nil, false
			}
			fa, ok := x.X.(*ssa.FieldAddr)
			if !ok {
				return "", nil, false
			}
			n, ok := derefType(fa.X.Type()).(*types.Named)
			if !ok || n.Obj().Pkg() == nil || n.Obj().Pkg().Path() != "image" {
				return "", nil, false
			}
			fn := fieldName(fa.X.Type(), fa.Field)
			if _, ok := planeFields[fn]; !ok {
				return "", nil, false
			}
			return fn, lows, true
		}
		return "", nil, false
	}
	return "", nil, false
}

func offsetExprOK(v ssa.Value, method string) (bool, string) {
	a := affineOf(v, 0)
	hasMethod, hasStride := false, false
	for k := range a.Terms {
		val, ok := k.(ssa.Value)
		if !ok {
			continue
		}
		if c, ok := val.(*ssa.Call); ok {
			if sc := c.Call.StaticCallee(); sc != nil && sc.Name() == method && sc.Pkg != nil && sc.Pkg.Pkg.Path() == "image" {
				hasMethod = true
			}
		}
		if mul, ok := val.(*ssa.BinOp); ok && mul.Op == token.MUL {
			for _, o := range []ssa.Value{mul.X, mul.Y} {
				if u, ok := o.(*ssa.UnOp); ok && u.Op == token.MUL {
					if fa, ok := u.X.(*ssa.FieldAddr); ok && strings.HasSuffix(fieldName(fa.X.Type(), fa.Field), "Stride") {
						hasStride = true
					}
				}
			}
		}
	}
	// a row term that is a product of two run-time values must be a multiple of the plane's stride: i*width
	// addresses the wrong row whenever the stride exceeds the row width (sub-images, padded planes)
	for k := range a.Terms {
		if mul, ok := k.(*ssa.BinOp); ok && mul.Op == token.MUL {
			strideFactor := false
			for _, o := range []ssa.Value{mul.X, mul.Y} {
				if u, ok := o.(*ssa.UnOp); ok && u.Op == token.MUL {
					if fa, ok := u.X.(*ssa.FieldAddr); ok && strings.HasSuffix(fieldName(fa.X.Type(), fa.Field), "Stride") {
						strideFactor = true
					}
				}
			}
			if !strideFactor {
				return false, a.String() + " (row term " + shortVal(mul) + " is not a multiple of the stride)"
			}
		}
	}
	if hasMethod || hasStride {
		return true, ""
	}
	return false, a.String()
}

func ruleOffs(p *Prog, r *Report) {
	hash, err := p.HashEntries()
	if err != nil {
		r.Fatal(err.Error())
		return
	}
	n := 0
	for _, f := range hashPkgFns(p, hash) {
		eachInstr(f, func(_ *ssa.BasicBlock, _ int, in ssa.Instruction) {
			var base, idx ssa.Value
			switch x := in.(type) {
			case *ssa.IndexAddr:
				base, idx = x.X, x.Index
			case *ssa.Slice:
				// slicing a plane with a computed low bound is plane arithmetic too
				if x.Low == nil {
					return
				}
				if _, isConst := x.Low.(*ssa.Const); isConst {
					return
				}
				base, idx = x.X, x.Low
			default:
				return
			}
			field, lows, ok := planeOf(base)
			if !ok {
				return
			}
			n++
			key := fmt.Sprintf("%s | index %s", fnName(f), field)
			at := p.posStr(instrPos(in))
			method := planeFields[field]
			all := append([]ssa.Value{idx}, lows...)
			okAny := false
			detail := ""
			for _, v := range all {
				if ok, d := offsetExprOK(v, method); ok {
					okAny = true
				} else {
					detail = d
				}
			}
			if okAny {
				r.OK("OFFS", key, at, "index derives from "+method+" / the plane's stride")
			} else {
				r.Bad("OFFS", key, at, fmt.Sprintf("plane %s is indexed with hand-written arithmetic %s that uses neither %s nor the stride: wrong pixels for images whose stride exceeds the row width or whose rectangle does not start at the origin", field, detail, method))
			}
		})
		// raw planes handed to body-less (assembly) functions are PLANE's business (C20)
	}
	r.Extra("offs_sites", n)
}

// ---- DISPATCH: a fast path converts the image it was selected for ----------------------------------------------

// ruleConvDispatch: the gray-converter dispatchers (functions of the transform packages that type-switch on an
// image.Image) hand each fast path the asserted value itself. Passing a part of it (the embedded *image.YCbCr of
// an NYCbCrA, a field) converts a different image than the generic At() path would: planes the outer type adds
// (alpha) are ignored, so the two implementations and the definition disagree.
func ruleConvDispatch(p *Prog, r *Report) {
	hash, err := p.HashEntries()
	if err != nil {
		r.Fatal(err.Error())
		return
	}
	for _, f := range p.LibReach(hash) {
		asserted := map[ssa.Value]bool{}
		eachInstr(f, func(_ *ssa.BasicBlock, _ int, in ssa.Instruction) {
			ta, ok := in.(*ssa.TypeAssert)
			if !ok || ta.X.Type().String() != "image.Image" {
				return
			}
			if ta.CommaOk {
				for _, rf := range refs(ta) {
					if ex, ok := rf.(*ssa.Extract); ok && ex.Index == 0 {
						asserted[ex] = true
					}
				}
			} else {
				asserted[ta] = true
			}
		})
		if len(asserted) == 0 {
			continue
		}
		ruleNoSkip(p, r, f)
		eachCall(f, func(site ssa.CallInstruction) {
			// static callee, or the converter selected through a package-level function variable
			name := ""
			if sc := site.Common().StaticCallee(); sc != nil && isLibFn(sc) {
				name = fnName(sc)
			} else if g := loadOfGlobal(site.Common().Value); g != nil && g.Pkg != nil && strings.HasPrefix(g.Pkg.Pkg.Path(), modPath) {
				name = globalName(g)
			}
			if name == "" {
				return
			}
			for _, a := range site.Common().Args {
				if !strings.HasPrefix(a.Type().String(), "*image.") {
					continue
				}
				key := fmt.Sprintf("%s | %s converts the image it was selected for", fnName(f), name)
				at := p.posStr(instrPos(site))
				if asserted[a] {
					r.OK("DISPATCH", key, at, "the asserted value itself is converted")
					continue
				}
				// a part of an asserted value?
				part := false
				v := a
				for i := 0; i < 4; i++ {
					if fa, ok := v.(*ssa.FieldAddr); ok {
						part = part || asserted[fa.X]
						v = fa.X
					}
				}
				if part {
					r.Bad("DISPATCH", key, at, fmt.Sprintf("the fast path is given %s, a part of the image that was matched: what the outer type adds (an alpha plane) is ignored, unlike the generic path", shortVal(a)))
				} else {
					r.Undecided("DISPATCH", key, at, "the image handed to the converter is neither the asserted value nor a part of it")
				}
			}
		})
	}
}

// ruleNoSkip (reported under DISPATCH): a dispatcher returns without having called a converter only under a test of
// the image's dimensions (the non-square refusal that SIZEG's guard at the entry points makes unreachable). Any other
// early return - a plane-length "sanity" check, a type that is silently ignored - leaves the pooled pixel buffer as
// the previous image left it, and the hash is then computed from that.
func ruleNoSkip(p *Prog, r *Report, f *ssa.Function) {
	isImg := func(t types.Type) bool {
		s := t.String()
		return s == "image.Image" || strings.HasPrefix(s, "*image.")
	}
	conv := map[*ssa.BasicBlock]bool{}
	eachCall(f, func(site ssa.CallInstruction) {
		c := site.Common()
		if c.IsInvoke() {
			return
		}
		if _, isB := c.Value.(*ssa.Builtin); isB {
			return
		}
		// a converter gets the image and the destination buffer
		img, dst := false, false
		for _, a := range c.Args {
			if isImg(a.Type()) {
				img = true
			}
			if ts := a.Type().String(); strings.HasSuffix(ts, "[]float32") || strings.HasSuffix(ts, "[]float64") {
				dst = true
			}
		}
		if img && dst {
			conv[site.Block()] = true
		}
	})
	if len(conv) == 0 {
		return
	}
	key := fnName(f) + " | returns without converting only on a test of the image dimensions"
	var dimOnly func(v ssa.Value, d int) string
	dimOnly = func(v ssa.Value, d int) string {
		if d > 10 {
			return "a condition too deep to follow"
		}
		switch x := v.(type) {
		case *ssa.Const:
			return ""
		case *ssa.BinOp:
			if w := dimOnly(x.X, d+1); w != "" {
				return w
			}
			return dimOnly(x.Y, d+1)
		case *ssa.UnOp:
			return dimOnly(x.X, d+1)
		case *ssa.Convert:
			return dimOnly(x.X, d+1)
		case *ssa.Field:
			return dimOnly(x.X, d+1)
		case *ssa.FieldAddr:
			return dimOnly(x.X, d+1)
		case *ssa.Extract:
			return dimOnly(x.Tuple, d+1)
		case *ssa.Alloc:
			for _, rf := range refs(x) {
				if st, ok := rf.(*ssa.Store); ok && st.Addr == ssa.Value(x) {
					if w := dimOnly(st.Val, d+1); w != "" {
						return w
					}
				}
			}
			return ""
		case *ssa.Phi:
			for _, e := range x.Edges {
				if w := dimOnly(e, d+1); w != "" {
					return w
				}
			}
			return ""
		case *ssa.Call:
			c := &x.Call
			if c.IsInvoke() && c.Method.Name() == "Bounds" {
				return ""
			}
			if sc := c.StaticCallee(); sc != nil {
				switch sc.String() {
				case "(image.Rectangle).Dx", "(image.Rectangle).Dy", "(image.Rectangle).Size", "(image.Rectangle).Empty":
					return dimOnly(c.Args[0], d+1)
				}
				return "the result of " + shortCallee(c)
			}
			return "the result of a dynamic call"
		case *ssa.TypeAssert:
			return "" // the type switch itself selects the converter
		case *ssa.Parameter:
			return ""
		}
		return "the value " + shortVal(v)
	}
	bad := ""
	for _, b := range f.Blocks {
		if len(b.Instrs) == 0 || bad != "" {
			continue
		}
		rt, ok := b.Instrs[len(b.Instrs)-1].(*ssa.Return)
		if !ok {
			continue
		}
		dominated := false
		for cb := range conv {
			if cb.Dominates(b) {
				dominated = true
			}
		}
		if dominated {
			continue
		}
		// can the return be reached without passing a converter call at all?
		seen := map[*ssa.BasicBlock]bool{f.Blocks[0]: true}
		st := []*ssa.BasicBlock{f.Blocks[0]}
		reach := false
		for len(st) > 0 {
			x := st[len(st)-1]
			st = st[:len(st)-1]
			if x == b {
				reach = !conv[x]
				break
			}
			if conv[x] {
				continue
			}
			for _, s := range x.Succs {
				if !seen[s] {
					seen[s] = true
					st = append(st, s)
				}
			}
		}
		if !reach {
			continue
		}
		for _, cd := range condsAt(b) {
			if _, isTA := cd.V.(*ssa.Extract); isTA {
				continue // comma-ok of the type switch
			}
			if w := dimOnly(cd.V, 0); w != "" {
				bad = fmt.Sprintf("the return at %s leaves without converting under a condition on %s: the pooled pixel buffer keeps what the previous image left in it and the hash is computed from that", p.posStr(rt.Pos()), w)
			}
		}
	}
	if bad != "" {
		r.Bad("DISPATCH", key, p.posStr(f.Pos()), bad)
	} else {
		r.OK("DISPATCH", key, p.posStr(f.Pos()), "every return without a converter call is under a test of the bounds only")
	}
}

// checkRowPass: the separable 2-D transform first runs the 1-D kernel over every one of the N rows: a counted loop
// i = 0 .. N-1 (step 1, constant bound) that, on every iteration, calls a function on the window
// input[i*N : i*N+N] of the pixel buffer, and that loop is finished before the column pass starts (it dominates
// the function's return). A row pass that stops early, skips rows or is split into bands that do not add up to N
// leaves raw pixel values in the rows that the column pass then reads as coefficients.
func checkRowPass(p *Prog, r *Report, rule string, f *ssa.Function, key string, N int64) {
	at := p.posStr(f.Pos())
	loops := findLoops(f)
	found := ""
	why := "no call on a row window input[i*N : i*N+N] inside a counted loop was found"
	eachCall(f, func(site ssa.CallInstruction) {
		if found != "" {
			return
		}
		c := site.Common()
		if _, isGo := site.(*ssa.Go); isGo {
			return
		}
		for _, a := range c.Args {
			sl, ok := a.(*ssa.Slice)
			if !ok {
				continue
			}
			var lo, hi *Aff
			switch {
			case sl.Low != nil && sl.High != nil:
				lo, hi = affineOf(sl.Low, 0), affineOf(sl.High, 0)
			case sl.High != nil:
				// buf[i*N:][:N] — the window is cut in two steps
				in, ok := sl.X.(*ssa.Slice)
				if !ok || in.Low == nil || in.High != nil {
					continue
				}
				if sl.Low != nil {
					if k, ok := constInt(sl.Low); !ok || k != 0 {
						continue
					}
				}
				lo = affineOf(in.Low, 0)
				hi = lo.addScaled(affineOf(sl.High, 0), 1)
			default:
				continue
			}
			d := hi.addScaled(lo, -1)
			if k, ok := d.isConst(); !ok || k != N {
				continue
			}
			if lo.C != 0 || len(lo.Terms) != 1 {
				continue
			}
			var phi *ssa.Phi
			for k, co := range lo.Terms {
				if ph, ok := k.(*ssa.Phi); ok && co == N {
					phi = ph
				}
			}
			if phi == nil {
				continue
			}
			ind, ok := inductionOf(phi)
			if !ok || ind.Step != 1 {
				why = "the row counter is not a unit-step loop variable"
				continue
			}
			l0, h0, okr := ind.constRange()
			if !okr {
				why = "the row loop has no constant bound (" + p.posStr(instrPos(site)) + "): the rows visited depend on a run-time quantity"
				continue
			}
			if l0 != 0 || h0 != N-1 {
				why = fmt.Sprintf("the row loop visits rows %d..%d, not 0..%d", l0, h0, N-1)
				continue
			}
			var lp *Loop
			for _, l := range loops {
				if l.Head == phi.Block() {
					lp = l
				}
			}
			if lp == nil {
				continue
			}
			every := true
			for _, lt := range lp.Latch {
				if !site.Block().Dominates(lt) {
					every = false
				}
			}
			if !every {
				why = "the kernel call is skipped on some iterations of the row loop"
				continue
			}
			// the loop is on every path to the return
			dom := true
			eachInstr(f, func(b *ssa.BasicBlock, _ int, in ssa.Instruction) {
				if rt, ok := in.(*ssa.Return); ok && !lp.Head.Dominates(b) {
					// handing the whole buffer to another implementation (the assembly kernel) is a delegation
					if len(rt.Results) == 1 {
						if _, isCall := rt.Results[0].(*ssa.Call); isCall {
							return
						}
					}
					dom = false
				}
			})
			if !dom {
				why = "a return is reachable without the row pass"
				continue
			}
			found = fmt.Sprintf("%s on input[i*%d : i*%d+%d] for i = 0..%d, every iteration, before every return", calleeName(c), N, N, N, N-1)
		}
	})
	if found != "" {
		r.OK(rule, key, at, found)
	} else {
		r.Bad(rule, key, at, why+": rows that are not transformed enter the column pass as raw pixel values")
	}
}

// ---- LUMA: the two per-pixel luminance helpers are one formula ---------------------------------------------
//
// transforms.pixel2Gray (float64 path) and transforms32.pixelToGray (float32 path) turn the (r, g, b, a) of
// color.Color.RGBA into the luminance both hash families are defined on. "The primary and the alternative
// implementation agree" needs them to be the same function of the pixel: each is a single straight-line
// expression of r, g and b (no branch, alpha not consulted — RGBA is alpha-premultiplied and the hash is defined on
// what the image reports), and the two expressions are identical up to the final conversion to float32.
func ruleLuma(p *Prog, r *Report) {
	a := p.Func("imagehash/transforms", "", "pixel2Gray")
	b := p.Func("imagehash/transforms32", "", "pixelToGray")
	key := "imagehash/transforms.pixel2Gray == imagehash/transforms32.pixelToGray"
	if a == nil || b == nil {
		r.Undecided("LUMA", key, "-", "unresolved anchor")
		return
	}
	var canonS func(f *ssa.Function, v ssa.Value, d int, subst map[ssa.Value]string) string
	canonS = func(f *ssa.Function, v ssa.Value, d int, subst map[ssa.Value]string) string {
		if d > 20 {
			return "…"
		}
		if s, ok := subst[v]; ok {
			return s
		}
		switch x := v.(type) {
		case *ssa.Const:
			if x.Value != nil {
				return x.Value.ExactString()
			}
			return "nil"
		case *ssa.Parameter:
			for i, q := range f.Params {
				if q == x {
					return fmt.Sprintf("p%d", i)
				}
			}
		case *ssa.BinOp:
			return "(" + canonS(f, x.X, d+1, subst) + " " + x.Op.String() + " " + canonS(f, x.Y, d+1, subst) + ")"
		case *ssa.Convert:
			return x.Type().String() + "(" + canonS(f, x.X, d+1, subst) + ")"
		case *ssa.Call:
			// a straight-line library helper (channel8(v) = float64(v/257)) is expanded in place
			if sc := x.Call.StaticCallee(); sc != nil && isRepoFn(sc) && len(sc.Blocks) == 1 && len(sc.Params) == len(x.Call.Args) {
				var ret *ssa.Return
				for _, in := range sc.Blocks[0].Instrs {
					if rt, ok := in.(*ssa.Return); ok {
						ret = rt
					}
				}
				if ret != nil && len(ret.Results) == 1 {
					s2 := map[ssa.Value]string{}
					for i, prm := range sc.Params {
						s2[prm] = canonS(f, x.Call.Args[i], d+1, subst)
					}
					return canonS(sc, ret.Results[0], d+1, s2)
				}
			}
		}
		return "?" + shortVal(v)
	}
	canon := func(f *ssa.Function, v ssa.Value, d int) string { return canonS(f, v, d, nil) }
	form := func(f *ssa.Function) (string, string) {
		if len(f.Blocks) != 1 {
			return "", fmt.Sprintf("%s has %d basic blocks: the luminance of a pixel depends on a branch", fnName(f), len(f.Blocks))
		}
		if len(f.Params) != 4 {
			return "", fnName(f) + " does not take (r, g, b, a)"
		}
		if refs(f.Params[3]) != nil && len(refs(f.Params[3])) > 0 {
			n := 0
			for _, rf := range refs(f.Params[3]) {
				if _, dbg := rf.(*ssa.DebugRef); !dbg {
					n++
				}
			}
			if n > 0 {
				return "", fnName(f) + " consults the alpha channel"
			}
		}
		var ret *ssa.Return
		for _, in := range f.Blocks[0].Instrs {
			if rt, ok := in.(*ssa.Return); ok {
				ret = rt
			}
		}
		if ret == nil || len(ret.Results) != 1 {
			return "", fnName(f) + " has no single result"
		}
		v := ret.Results[0]
		if cv, ok := v.(*ssa.Convert); ok {
			if bt, ok := cv.Type().Underlying().(*types.Basic); ok && bt.Kind() == types.Float32 {
				v = cv.X
			}
		}
		return canon(f, v, 0), ""
	}
	fa, wa := form(a)
	fb, wb := form(b)
	at := p.posStr(a.Pos())
	switch {
	case wa != "":
		r.Bad("LUMA", key, at, wa+": the float64 and float32 hash families no longer see the same luminance")
	case wb != "":
		r.Bad("LUMA", key, p.posStr(b.Pos()), wb+": the float64 and float32 hash families no longer see the same luminance")
	case strings.Contains(fa, "?") || strings.Contains(fb, "?"):
		r.Undecided("LUMA", key, at, "expression outside the arithmetic grammar: "+fa+" / "+fb)
	case fa != fb:
		r.Bad("LUMA", key, at, "the two helpers compute different expressions: "+fa+" vs "+fb)
	default:
		r.OK("LUMA", key, at, "both are the straight-line expression "+fa)
	}
}

// checkColPass: after the row pass the first K columns are transformed: for i = 0..K-1 a buffer of N values is
// gathered as col[j] = input[N*j + i] for j = 0..N-1 (unit steps, constant bounds) and handed whole to the 1-D
// kernel once per column, on every iteration of the column loop. A gather with another stride, a shorter range or a
// kernel call outside the loop feeds the flattener coefficients of the wrong column.
func checkColPass(p *Prog, r *Report, rule string, f *ssa.Function, key string, K, N int64) {
	at := p.posStr(f.Pos())
	loops := findLoops(f)
	loopOf := func(phi *ssa.Phi) *Loop {
		for _, l := range loops {
			if l.Head == phi.Block() {
				return l
			}
		}
		return nil
	}
	why := fmt.Sprintf("no gather col[j] = input[%d*j + i] into a local [%d] buffer was found", N, N)
	found := ""
	eachInstr(f, func(_ *ssa.BasicBlock, _ int, in ssa.Instruction) {
		if found != "" {
			return
		}
		st, ok := in.(*ssa.Store)
		if !ok {
			return
		}
		dst, ok := st.Addr.(*ssa.IndexAddr)
		if !ok {
			return
		}
		col, ok := dst.X.(*ssa.Alloc)
		if !ok {
			return
		}
		if arr, ok := derefType(col.Type()).Underlying().(*types.Array); !ok || arr.Len() != N {
			return
		}
		srcIdx, ok := elementIndex(st.Val)
		if !ok {
			return
		}
		ja := affineOf(dst.Index, 0)
		if len(ja.Terms) != 1 || ja.C != 0 {
			return
		}
		var jphi *ssa.Phi
		for k, c := range ja.Terms {
			if ph, ok := k.(*ssa.Phi); ok && c == 1 {
				jphi = ph
			}
		}
		if jphi == nil {
			return
		}
		jind, ok := inductionOf(jphi)
		if !ok || jind.Step != 1 {
			why = "the gather counter is not a unit-step loop variable"
			return
		}
		if lo, hi, okr := jind.constRange(); !okr || lo != 0 || hi != N-1 {
			why = fmt.Sprintf("the gather loop does not run over j = 0..%d", N-1)
			return
		}
		sa := affineOf(srcIdx, 0)
		rest := sa.addScaled(ja, -N)
		if len(rest.Terms) != 1 || rest.C != 0 {
			why = fmt.Sprintf("the gather reads input[%s], want input[%d*j + i]", sa, N)
			return
		}
		var iphi *ssa.Phi
		for k, c := range rest.Terms {
			if ph, ok := k.(*ssa.Phi); ok && c == 1 && ph != jphi {
				iphi = ph
			}
		}
		if iphi == nil {
			why = fmt.Sprintf("the gather reads input[%s], want input[%d*j + i]", sa, N)
			return
		}
		iind, ok := inductionOf(iphi)
		if !ok || iind.Step != 1 {
			why = "the column counter is not a unit-step loop variable"
			return
		}
		if lo, hi, okr := iind.constRange(); !okr || lo != 0 || hi != K-1 {
			why = fmt.Sprintf("the column loop does not run over i = 0..%d", K-1)
			return
		}
		il, jl := loopOf(iphi), loopOf(jphi)
		if il == nil || jl == nil || !il.Blocks[jl.Head] {
			why = "the gather loop is not nested in the column loop"
			return
		}
		// every iteration of the gather loop stores; the kernel is called on the whole buffer once per column
		for _, lt := range jl.Latch {
			if !st.Block().Dominates(lt) {
				why = "the gather is skipped on some iterations"
				return
			}
		}
		kernel := ""
		eachCall(f, func(site ssa.CallInstruction) {
			if kernel != "" {
				return
			}
			b := site.Block()
			if !il.Blocks[b] || jl.Blocks[b] {
				return
			}
			for _, a := range site.Common().Args {
				sl, ok := a.(*ssa.Slice)
				if !ok || sl.X != ssa.Value(col) {
					continue
				}
				if sl.Low != nil {
					if k, ok := constInt(sl.Low); !ok || k != 0 {
						continue
					}
				}
				if sl.High != nil {
					if k, ok := constInt(sl.High); !ok || k != N {
						continue
					}
				}
				every := true
				for _, lt := range il.Latch {
					if !b.Dominates(lt) {
						every = false
					}
				}
				if every && jl.Head.Dominates(b) {
					kernel = calleeName(site.Common())
				}
			}
		})
		if kernel == "" {
			why = "the gathered column is not handed whole to a kernel once per iteration of the column loop, after the gather"
			return
		}
		found = fmt.Sprintf("col[j] = input[%d*j + i], j = 0..%d, then %s(col[:]) for i = 0..%d", N, N-1, kernel, K-1)
	})
	if found != "" {
		r.OK(rule, key, at, found)
	} else {
		r.Bad(rule, key, at, why+": the flattener then reads coefficients that are not those of column i")
	}
}

// ---- SIBLING: the threshold of the two hash families is computed by one algorithm ---------------------------------
//
// "The primary and the alternative implementation agree on every bit not within rounding distance of the threshold"
// needs both to mean the same thing by threshold. transforms (float64) and transforms32 (float32) each carry their
// own copy of the median selection (MedianOfPixels64, MedianOfPixels256, quickSelectMedian). Each pair is
// serialised from SSA into a canonical form — blocks in order, instructions with operands numbered by definition,
// constants by value, float32 and float64 unified, callees by bare name — and the forms must be identical: a
// change to one copy (an early exit that is right for the k-th element but not for the mean of the two middle ones)
// is a change of one family's threshold only. The price is that a deliberate rewrite has to be made in both copies.
func canonSSA(f *ssa.Function) string {
	ids := map[ssa.Value]string{}
	for i, prm := range f.Params {
		ids[prm] = fmt.Sprintf("p%d", i)
	}
	typ := func(t types.Type) string {
		s := t.String()
		s = strings.ReplaceAll(s, "float32", "F")
		s = strings.ReplaceAll(s, "float64", "F")
		return s
	}
	// a conversion between the two float widths is the identity once they are unified: it gets no number of its own
	alias := map[ssa.Value]ssa.Value{}
	n := 0
	for _, b := range f.Blocks {
		for _, in := range b.Instrs {
			if cv, ok := in.(*ssa.Convert); ok && typ(cv.Type()) == "F" && typ(cv.X.Type()) == "F" {
				alias[cv] = cv.X
				continue
			}
			if v, ok := in.(ssa.Value); ok {
				ids[v] = fmt.Sprintf("v%d", n)
				n++
			}
		}
	}
	for cv, x := range alias {
		for {
			if y, ok := alias[x]; ok {
				x = y
				continue
			}
			break
		}
		if id, ok := ids[x]; ok {
			ids[cv] = id
		}
	}
	name := func(v ssa.Value) string {
		if v == nil {
			return "_"
		}
		if id, ok := ids[v]; ok {
			return id
		}
		switch x := v.(type) {
		case *ssa.Const:
			if x.Value == nil {
				return "nil"
			}
			return x.Value.ExactString()
		case *ssa.Function:
			return "fn:" + x.Name()
		case *ssa.Builtin:
			return "builtin:" + x.Name()
		case *ssa.Global:
			return "g:" + x.Name()
		}
		return "?" + v.Name()
	}
	var sb strings.Builder
	for _, b := range f.Blocks {
		fmt.Fprintf(&sb, "B%d:", b.Index)
		for _, s := range b.Succs {
			fmt.Fprintf(&sb, " ->%d", s.Index)
		}
		sb.WriteString("\n")
		for _, in := range b.Instrs {
			if _, dbg := in.(*ssa.DebugRef); dbg {
				continue
			}
			if cv, ok := in.(*ssa.Convert); ok {
				if _, isAlias := alias[cv]; isAlias {
					continue
				}
			}
			op := fmt.Sprintf("%T", in)
			extra := ""
			switch x := in.(type) {
			case *ssa.BinOp:
				extra = x.Op.String()
			case *ssa.UnOp:
				extra = x.Op.String()
			case *ssa.FieldAddr:
				extra = fmt.Sprint(x.Field)
			case *ssa.Field:
				extra = fmt.Sprint(x.Field)
			case *ssa.Extract:
				extra = fmt.Sprint(x.Index)
			case *ssa.Alloc:
				extra = typ(x.Type())
			case *ssa.Convert:
				extra = typ(x.Type())
			case *ssa.MakeSlice:
				extra = typ(x.Type())
			}
			var ops []string
			var raw []*ssa.Value
			for _, o := range in.Operands(raw) {
				if o != nil {
					ops = append(ops, name(*o))
				}
			}
			lhs := ""
			if v, ok := in.(ssa.Value); ok {
				lhs = ids[v] + " = "
			}
			fmt.Fprintf(&sb, "  %s%s %s (%s)\n", lhs, op, extra, strings.Join(ops, ", "))
		}
	}
	return sb.String()
}

func ruleSibling(p *Prog, r *Report) {
	for _, pr := range [][2]string{{"quickSelectMedian", "quickSelectMedian"}, {"MedianOfPixels64", "MedianOfPixels64"}, {"MedianOfPixels256", "MedianOfPixels256"},
		// the portable YCbCr converters of the two families: the luminance both hashes are defined on
		{"PixelYCnCRGray", "yCbCrToGrayAlt"}} {
		a := p.Func("imagehash/transforms", "", pr[0])
		b := p.Func("imagehash/transforms32", "", pr[1])
		key := "imagehash/transforms." + pr[0] + " == imagehash/transforms32." + pr[1]
		if a == nil || b == nil || len(a.Blocks) == 0 || len(b.Blocks) == 0 {
			r.Undecided("SIBLING", key, "-", "unresolved anchor: one of the two copies is missing")
			continue
		}
		ca, cb := canonSSA(a), canonSSA(b)
		if ca == cb {
			r.OK("SIBLING", key, p.posStr(a.Pos()), fmt.Sprintf("identical canonical form (%d blocks)", len(a.Blocks)))
			continue
		}
		// first differing line, for the report
		la, lb := strings.Split(ca, "\n"), strings.Split(cb, "\n")
		diff := ""
		for i := 0; i < len(la) || i < len(lb); i++ {
			x, y := "", ""
			if i < len(la) {
				x = la[i]
			}
			if i < len(lb) {
				y = lb[i]
			}
			if x != y {
				diff = fmt.Sprintf("first difference at canonical line %d: float64 copy %q, float32 copy %q", i+1, strings.TrimSpace(x), strings.TrimSpace(y))
				break
			}
		}
		r.Bad("SIBLING", key, p.posStr(b.Pos()), "the float64 and the float32 copy are no longer the same algorithm ("+diff+"): the two hash families then compute different things from the same input (another threshold, another luminance); a deliberate change has to be made in both copies")
	}
}
