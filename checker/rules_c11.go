package main

// C11 — ISOBMFF box containment; CR3 payloads delivered whole: OWN, GUARD, ACCT, CLOSE, CMT, HANDOFF.

import (
	"fmt"
	"go/constant"
	"go/token"
	"go/types"
	"sort"
	"strings"

	"golang.org/x/tools/go/ssa"
)

func init() { register("C11", true, checkC11) }

func checkC11(p *Prog, r *Report) {
	r.Explain("OWN: the buffered reader of isobmff.Reader is touched only by Reader.peek, Reader.discard, box.Read and the constructor/Close; Reader.peek/discard are called only from the box methods that check the box (box.Peek, box.Discard) and from readBox; box.remain is stored only by the box methods and the three places that create a box — so no consumption can bypass the accounting. GUARD: box.Peek and box.Discard delegate (to the parent or the reader) only under remain >= n, through the parent when there is one; box.Read truncates its request to the minimum of remain over the whole parent chain. ACCT: box.Read charges exactly the count the underlying Read returned, to the box, its parents and Reader.offset; Reader.discard adds the returned count to Reader.offset. FRAME: every store to box.size (the 32-bit field or the 64-bit largesize) is followed on every continuing path by remain = int(that size) on the same box before the box is used or returned. BOXCOPY: no whole-struct load of a box through a pointer that is not the function's own local (a by-value copy of somebody else's box would be charged instead of the original), and box.outer is never the address of a by-value parameter's local copy. CLOSE: every iteration of a child-box loop closes the child before the next one is read, and ReadMetadata and ReadFTYP close (or hands to a closing handler) the top-level box on every path that can return a nil error — so the reader stands at the next box. ADJ: (*box).adjust hands its count to b.outer.adjust under b.outer != nil and nothing else, and writes no other box's remain directly — what a Read took is charged all the way out. NONNEG: every count handed to (*box).Discard or (*Reader).discard is proved non-negative — a negative one passes the remain >= n test and enlarges the box and all its parents. CBCLOSE: in the handler that invokes a callback (ExifReader, XMPReader, PreviewImageReader), every path from that call to a return — failing or not — passes (*box).close(), so a callback that stops reading early never leaves the reader inside a payload. CMT: the CR3 dispatch passes IFD0, ExifIFD, MakerNote, GPSIFD for CMT1..CMT4 (spec table). HANDOFF: the reader given to the Exif, XMP and preview callbacks is the box itself (whose Read is bounded by GUARD), never the raw buffered reader. Exact byte positions after arbitrary box trees are run-time sums and are not decided.")
	r.Trusted("bufio.Reader Peek/Discard/Read semantics", "CR3 layout: CMT1 root, CMT2 Exif, CMT3 maker note, CMT4 GPS (lclevy/canon_cr3)")
	sp := p.SSAPkg("isobmff")
	if sp == nil {
		r.Fatal("package isobmff not found")
		return
	}
	ruleOwn(p, r, sp)
	ruleGuardAcct(p, r)
	ruleCloseBoxes(p, r, sp)
	ruleCMT(p, r)
	ruleHandoff(p, r, sp)
	ruleFrame(p, r, sp)
	r.Floor("FRAME", 3)
	ruleBoxCopy(p, r, sp)
	ruleOuterLink(p, r, sp)
	ruleCallbackClose(p, r, sp)
	ruleDiscardNonNeg(p, r, sp)
	ruleAdjustChain(p, r)
	ruleBoxTbl(p, r)
	ruleBoxPure(p, r)
	ruleCursor(p, r)
	r.Floor("BOXPURE", 1)
	r.Floor("ADJ", 1)
	r.Floor("NONNEG", 8)
	r.Floor("CBCLOSE", 4)
	r.Floor("OWN", 6)
	r.Floor("GUARD", 3)
	r.Floor("ACCT", 2)
	r.Floor("CLOSE", 6)
	r.Floor("CMT", 4)
	r.Floor("HANDOFF", 3)
}

func pkgFns(sp *ssa.Package, p *Prog) []*ssa.Function {
	var out []*ssa.Function
	for _, f := range p.AllLibFns() {
		g := f
		for g.Parent() != nil {
			g = g.Parent()
		}
		if g.Pkg == sp {
			out = append(out, f)
		}
	}
	return out
}

func isFieldLoad(v ssa.Value, typeName, field string) bool {
	ld, ok := v.(*ssa.UnOp)
	if !ok || ld.Op != token.MUL {
		return false
	}
	fa, ok := ld.X.(*ssa.FieldAddr)
	if !ok {
		return false
	}
	n := namedOfPtr(fa.X.Type())
	return n != nil && n.Obj().Name() == typeName && fieldName(fa.X.Type(), fa.Field) == field
}

// ---- OWN -----------------------------------------------------------------------------------------

func ruleOwn(p *Prog, r *Report, sp *ssa.Package) {
	brUsers := map[string]bool{"isobmff.(*Reader).peek": true, "isobmff.(*Reader).discard": true, "isobmff.(*box).Read": true,
		"isobmff.NewReader": true, "isobmff.(*Reader).Close": true}
	peekCallers := map[string]bool{"isobmff.(*box).Peek": true, "isobmff.(*Reader).readBox": true}
	discardCallers := map[string]bool{"isobmff.(*box).Discard": true}
	remainWriters := map[string]bool{"isobmff.(*box).Discard": true, "isobmff.(*box).adjust": true, "isobmff.(*box).readInnerBox": true,
		"isobmff.(*Reader).readBox": true, "isobmff.(*Reader).newExifBox": true}
	nBr, nPD, nRem := 0, 0, 0
	for _, f := range pkgFns(sp, p) {
		fn := fnName(f)
		eachInstr(f, func(_ *ssa.BasicBlock, _ int, in ssa.Instruction) {
			at := p.posStr(instrPos(in))
			if site, ok := in.(ssa.CallInstruction); ok {
				c := site.Common()
				if sc := c.StaticCallee(); sc != nil {
					// methods of *bufio.Reader on Reader.br
					if sc.Signature.Recv() != nil && sc.Signature.Recv().Type().String() == "*bufio.Reader" && len(c.Args) > 0 && isFieldLoad(c.Args[0], "Reader", "br") {
						nBr++
						key := fmt.Sprintf("%s | Reader.br.%s", fn, sc.Name())
						if brUsers[fn] {
							r.OK("OWN", key, at, "one of the accounting primitives")
						} else {
							r.Bad("OWN", key, at, "the buffered reader is used outside Reader.peek/Reader.discard/box.Read: bytes are consumed or inspected without box accounting")
						}
					}
					switch fnName(sc) {
					case "isobmff.(*Reader).peek":
						nPD++
						key := fmt.Sprintf("%s | Reader.peek", fn)
						if peekCallers[fn] {
							r.OK("OWN", key, at, "called from the guarded box method / the top-level header reader")
						} else {
							r.Bad("OWN", key, at, "Reader.peek called outside box.Peek and readBox: the window is not checked against the enclosing boxes")
						}
					case "isobmff.(*Reader).discard":
						nPD++
						key := fmt.Sprintf("%s | Reader.discard", fn)
						if discardCallers[fn] {
							r.OK("OWN", key, at, "called from the guarded box method")
						} else {
							r.Bad("OWN", key, at, "Reader.discard called outside box.Discard: bytes are skipped without checking and charging the enclosing boxes")
						}
					}
				}
				// the raw reader handed to anything else
				for _, a := range callArgs(c) {
					v := a
					if mi, ok := v.(*ssa.MakeInterface); ok {
						v = mi.X
					}
					if isFieldLoad(v, "Reader", "br") {
						if sc := c.StaticCallee(); sc != nil && sc.Signature.Recv() != nil && sc.Signature.Recv().Type().String() == "*bufio.Reader" {
							continue
						}
						if isCallTo(c, "(*sync.Pool).Put") {
							continue
						}
						nBr++
						r.Bad("OWN", fmt.Sprintf("%s | Reader.br passed to %s", fn, shortCallee(c)), at, "the raw buffered reader escapes the accounting layer")
					}
				}
			}
			if st, ok := in.(*ssa.Store); ok {
				if fa, ok := st.Addr.(*ssa.FieldAddr); ok {
					if n := namedOfPtr(fa.X.Type()); n != nil && n.Obj().Name() == "box" && fieldName(fa.X.Type(), fa.Field) == "remain" {
						nRem++
						key := fmt.Sprintf("%s | store box.remain", fn)
						if al, fresh := fa.X.(*ssa.Alloc); fresh && !receivedWhole(al) {
							r.OK("OWN", key, at, "initialises a box that is being created in this function")
						} else if remainWriters[fn] {
							r.OK("OWN", key, at, "box method or box creation")
						} else if creationHelper(p, f, fa.X) {
							r.OK("OWN", key, at, "helper called only on boxes that its callers are creating (fresh locals); FRAME ties the value to the size")
						} else {
							r.Bad("OWN", key, at, "box.remain is written outside the box methods: the containment bookkeeping can be altered without consuming")
						}
					}
				}
			}
		})
	}
	r.Extra("own_br_uses", nBr)
	r.Extra("own_peek_discard_calls", nPD)
	r.Extra("own_remain_stores", nRem)
}

// creationHelper: the box written is a parameter of f and every caller passes the address of a local box it is
// creating (never one it obtained elsewhere).
func creationHelper(p *Prog, f *ssa.Function, boxPtr ssa.Value) bool {
	prm, ok := boxPtr.(*ssa.Parameter)
	if !ok {
		return false
	}
	idx := -1
	for i, q := range f.Params {
		if q == prm {
			idx = i
		}
	}
	callers := p.Callers(f)
	if idx < 0 || len(callers) == 0 {
		return false
	}
	for _, cs := range callers {
		args := callArgs(cs.Common())
		if idx >= len(args) {
			return false
		}
		al, ok := args[idx].(*ssa.Alloc)
		if !ok || receivedWhole(al) {
			return false
		}
	}
	return true
}

// receivedWhole: the local was (also) assigned a whole box obtained elsewhere (b := readInnerBox(...), inner = *p):
// a later store into one of its fields modifies an existing box, it does not create one.
func receivedWhole(al *ssa.Alloc) bool {
	for _, rf := range refs(al) {
		st, ok := rf.(*ssa.Store)
		if !ok || st.Addr != ssa.Value(al) {
			continue
		}
		switch v := st.Val.(type) {
		case *ssa.Const:
			// zero value
		case *ssa.UnOp:
			// `return inner, nil` with named results re-assigns the result variable to itself
			if v.Op == token.MUL && v.X == ssa.Value(al) {
				continue
			}
			return true
		case *ssa.Call, *ssa.Extract, *ssa.Phi, *ssa.Parameter:
			return true
		}
	}
	return false
}

// ---- GUARD / ACCT ----------------------------------------------------------------------------------

func ruleGuardAcct(p *Prog, r *Report) {
	e := p.E3()
	for _, m := range []string{"Peek", "Discard"} {
		f := p.Func("isobmff", "*box", m)
		key := "isobmff.(*box)." + m + " | delegation under remain >= n"
		if f == nil {
			r.Undecided("GUARD", key, "-", "anchor not resolved")
			continue
		}
		n := f.Params[1]
		bad := ""
		nDeleg := 0
		hasOuter, hasReader := false, false
		eachCall(f, func(site ssa.CallInstruction) {
			sc := site.Common().StaticCallee()
			if sc == nil {
				return
			}
			name := fnName(sc)
			if !(name == "isobmff.(*box)."+m || name == "isobmff.(*Reader).peek" || name == "isobmff.(*Reader).discard") {
				return
			}
			nDeleg++
			if name == "isobmff.(*box)."+m {
				hasOuter = true
				if !isFieldLoad(site.Common().Args[0], "box", "outer") {
					bad = "delegates to a box that is not the parent link"
				}
			} else {
				hasReader = true
				// reaching the reader directly only when there is no parent
				okNil := false
				for _, cd := range condsAt(site.Block()) {
					if bo, ok := cd.V.(*ssa.BinOp); ok && isFieldLoad(bo.X, "box", "outer") && isNilConst(bo.Y) {
						if (bo.Op == token.NEQ && !cd.True) || (bo.Op == token.EQL && cd.True) {
							okNil = true
						}
					}
				}
				if !okNil {
					bad = "goes to the reader although the box may have a parent: the parent's limit is not checked"
				}
			}
			// the amount delegated is the method's own n
			args := callArgs(site.Common())
			if args[len(args)-1] != ssa.Value(n) {
				bad = "delegates a different amount than it checked"
			}
			// guard remain >= n
			lt := (*ssa.UnOp)(nil)
			guard := false
			for _, cd := range condsAt(site.Block()) {
				bo, ok := cd.V.(*ssa.BinOp)
				if !ok {
					continue
				}
				if isFieldLoad(bo.X, "box", "remain") && bo.Y == ssa.Value(n) {
					if (bo.Op == token.GEQ && cd.True) || (bo.Op == token.LSS && !cd.True) {
						guard = true
						lt, _ = bo.X.(*ssa.UnOp)
					}
				}
			}
			_ = lt
			if !guard {
				bad = "delegation not dominated by remain >= n: a child that overstates its size reads past this box"
			}
		})
		_ = e
		switch {
		case nDeleg == 0:
			r.Undecided("GUARD", key, p.posStr(f.Pos()), "no delegation found")
		case bad != "":
			r.Bad("GUARD", key, p.posStr(f.Pos()), bad)
		case !hasOuter || !hasReader:
			r.Bad("GUARD", key, p.posStr(f.Pos()), "the method does not go through the parent chain and fall back to the reader only at the top")
		default:
			r.OK("GUARD", key, p.posStr(f.Pos()), "parent when there is one, reader otherwise, both only under remain >= n with the checked amount")
		}
		if m == "Discard" {
			// own remain decreases by exactly n under the guard
			ok := false
			eachInstr(f, func(b *ssa.BasicBlock, _ int, in ssa.Instruction) {
				st, isSt := in.(*ssa.Store)
				if !isSt {
					return
				}
				fa, isFa := st.Addr.(*ssa.FieldAddr)
				if !isFa || fieldName(fa.X.Type(), fa.Field) != "remain" {
					return
				}
				if bo, isBo := st.Val.(*ssa.BinOp); isBo && bo.Op == token.SUB && isFieldLoad(bo.X, "box", "remain") && bo.Y == ssa.Value(n) {
					ok = true
				}
			})
			if ok {
				r.OK("ACCT", "isobmff.(*box).Discard | remain -= n", p.posStr(f.Pos()), "charges exactly the discarded amount")
			} else {
				r.Bad("ACCT", "isobmff.(*box).Discard | remain -= n", p.posStr(f.Pos()), "the box is not charged exactly the amount it skips")
			}
		}
	}
	// box.Read
	f := p.Func("isobmff", "*box", "Read")
	key := "isobmff.(*box).Read | request truncated to the chain minimum"
	if f == nil {
		r.Undecided("GUARD", key, "-", "anchor not resolved")
		return
	}
	var rd *ssa.Call
	eachCall(f, func(site ssa.CallInstruction) {
		c := site.Common()
		if sc := c.StaticCallee(); sc != nil && sc.String() == "(*bufio.Reader).Read" {
			rd, _ = site.(*ssa.Call)
		}
	})
	if rd == nil {
		r.Bad("GUARD", key, p.posStr(f.Pos()), "box.Read does not read through the buffered reader")
		return
	}
	// chain-min pattern: a phi `limit` at a chain-walk loop header, initial value load(b.remain), updated by
	// load(o.remain) under load(o.remain) < limit
	limit := chainMinPhi(f)
	if limit == nil {
		r.Bad("GUARD", key, p.posStr(f.Pos()), "no minimum of remain over the parent chain is computed: a child can read past its parent")
	} else {
		// len(arg) ≤ limit at the read
		arg := rd.Call.Args[1]
		lt := termT{v: e.lenBase(arg), len: true}
		if e.ProveLE(rd.Block(), lt, e.termOf(limit), 0) {
			r.OK("GUARD", key, p.posStr(instrPos(rd)), "len(p) ≤ min(remain over the chain) proved at the read")
		} else {
			r.Bad("GUARD", key, p.posStr(instrPos(rd)), "the slice handed to the underlying Read is not proved ≤ the chain minimum of remain")
		}
	}
	// ACCT: adjust(n) with n the count returned; offset += n
	nX := tupleExtract(rd, 0)
	adjOK, offOK := false, false
	adjBad := ""
	eachInstr(f, func(_ *ssa.BasicBlock, _ int, in ssa.Instruction) {
		switch x := in.(type) {
		case *ssa.Call:
			if sc := x.Call.StaticCallee(); sc != nil && fnName(sc) == "isobmff.(*box).adjust" {
				if nX != nil && x.Call.Args[1] == ssa.Value(nX) {
					adjOK = true
				} else {
					adjBad = "adjust is called with " + shortVal(x.Call.Args[1]) + ", not the count the underlying Read returned"
				}
			}
		case *ssa.Store:
			if fa, ok := x.Addr.(*ssa.FieldAddr); ok && fieldName(fa.X.Type(), fa.Field) == "offset" {
				if bo, ok := x.Val.(*ssa.BinOp); ok && bo.Op == token.ADD && nX != nil && (bo.Y == ssa.Value(nX) || bo.X == ssa.Value(nX)) {
					offOK = true
				}
			}
		}
	})
	// the accounting must not depend on the error of the read: bytes delivered together with an error are consumed too
	errX := tupleExtract(rd, 1)
	condBad := ""
	if errX != nil {
		eachInstr(f, func(b *ssa.BasicBlock, _ int, in ssa.Instruction) {
			isAcct := false
			switch x := in.(type) {
			case *ssa.Call:
				if sc := x.Call.StaticCallee(); sc != nil && fnName(sc) == "isobmff.(*box).adjust" {
					isAcct = true
				}
			case *ssa.Store:
				if fa, ok := x.Addr.(*ssa.FieldAddr); ok && fieldName(fa.X.Type(), fa.Field) == "offset" {
					isAcct = true
				}
			}
			if !isAcct {
				return
			}
			for _, cd := range condsAt(b) {
				if bo, ok := cd.V.(*ssa.BinOp); ok && (bo.X == ssa.Value(errX) || bo.Y == ssa.Value(errX)) {
					condBad = "the accounting at " + p.posStr(instrPos(in)) + " only runs when the read returned no error: bytes delivered together with io.EOF are consumed but not charged"
				}
			}
		})
	}
	akey := "isobmff.(*box).Read | charges the count actually read"
	switch {
	case condBad != "":
		r.Bad("ACCT", akey, p.posStr(f.Pos()), condBad)
	case adjBad != "":
		r.Bad("ACCT", akey, p.posStr(f.Pos()), adjBad+": after a short read the box believes more (or less) was consumed than was")
	case !adjOK:
		r.Bad("ACCT", akey, p.posStr(f.Pos()), "the bytes read are not charged to the box and its parents")
	case !offOK:
		r.Bad("ACCT", akey, p.posStr(f.Pos()), "Reader.offset is not advanced by the count read")
	default:
		r.OK("ACCT", akey, p.posStr(f.Pos()), "adjust(n) and offset += n with n the count the underlying Read returned")
	}
	// Reader.discard: offset += returned count
	if g := p.Func("isobmff", "*Reader", "discard"); g != nil {
		ok := false
		eachInstr(g, func(_ *ssa.BasicBlock, _ int, in ssa.Instruction) {
			if st, isSt := in.(*ssa.Store); isSt {
				if fa, isFa := st.Addr.(*ssa.FieldAddr); isFa && fieldName(fa.X.Type(), fa.Field) == "offset" {
					if bo, isBo := st.Val.(*ssa.BinOp); isBo && bo.Op == token.ADD {
						if ex, isEx := bo.Y.(*ssa.Extract); isEx && ex.Index == 0 {
							if c, isC := ex.Tuple.(*ssa.Call); isC && isCallTo(&c.Call, "(*bufio.Reader).Discard") {
								ok = true
							}
						}
					}
				}
			}
		})
		k := "isobmff.(*Reader).discard | offset += count discarded"
		if ok {
			r.OK("ACCT", k, p.posStr(g.Pos()), "adds the count bufio returned")
		} else {
			r.Bad("ACCT", k, p.posStr(g.Pos()), "Reader.offset does not follow the bytes actually discarded")
		}
	}
}

func chainMinPhi(f *ssa.Function) *ssa.Phi {
	for _, l := range findLoops(f) {
		for _, in := range l.Head.Instrs {
			phi, ok := in.(*ssa.Phi)
			if !ok {
				break
			}
			if !isIntType(phi.Type()) {
				continue
			}
			initOK, updOK := false, true
			for k, pr := range l.Head.Preds {
				v := phi.Edges[k]
				if !l.Blocks[pr] {
					if isFieldLoad(v, "box", "remain") {
						initOK = true
					}
					continue
				}
				// back edge: φ(limit, load(o.remain)) or limit itself
				var vals []ssa.Value
				if ip, ok := v.(*ssa.Phi); ok {
					vals = ip.Edges
				} else {
					vals = []ssa.Value{v}
				}
				for _, x := range vals {
					if x == ssa.Value(phi) {
						continue
					}
					if !isFieldLoad(x, "box", "remain") {
						updOK = false
						continue
					}
					// must be under load < limit
					in2, _ := x.(ssa.Instruction)
					guard := false
					for _, cd := range condsAt(in2.Block()) {
						_ = cd
					}
					// the store happens in the block where the value is selected: check the defining phi's predecessor
					if ip, ok := v.(*ssa.Phi); ok {
						for j, ed := range ip.Edges {
							if ed != x {
								continue
							}
							for _, cd := range edgeConds(ip.Block().Preds[j], ip.Block()) {
								if bo, ok := cd.V.(*ssa.BinOp); ok && bo.Op == token.LSS && cd.True && isFieldLoad(bo.X, "box", "remain") && bo.Y == ssa.Value(phi) {
									guard = true
								}
							}
							for _, cd := range condsAt(ip.Block().Preds[j]) {
								if bo, ok := cd.V.(*ssa.BinOp); ok && bo.Op == token.LSS && cd.True && isFieldLoad(bo.X, "box", "remain") && bo.Y == ssa.Value(phi) {
									guard = true
								}
							}
						}
					}
					if !guard {
						updOK = false
					}
				}
			}
			if initOK && updOK {
				return phi
			}
		}
	}
	return nil
}

// ---- CLOSE ---------------------------------------------------------------------------------------

func isBoxClose(site ssa.CallInstruction, recv ssa.Value) bool {
	c := site.Common()
	sc := c.StaticCallee()
	return sc != nil && fnName(sc) == "isobmff.(*box).close" && len(c.Args) == 1 && c.Args[0] == recv
}

func ruleCloseBoxes(p *Prog, r *Report, sp *ssa.Package) {
	// closing handlers: functions with a *box parameter all of whose possibly-nil-error returns pass close(param)
	closers := map[*ssa.Function]bool{}
	e := p.E3()
	var mustClose func(f *ssa.Function, depth int) bool
	busy := map[*ssa.Function]bool{}
	mustClose = func(f *ssa.Function, depth int) bool {
		if v, ok := closers[f]; ok {
			return v
		}
		if busy[f] || depth > 6 || f.Blocks == nil {
			return false
		}
		busy[f] = true
		defer delete(busy, f)
		var bp *ssa.Parameter
		for _, prm := range f.Params {
			if n := namedOfPtr(prm.Type()); n != nil && n.Obj().Name() == "box" {
				bp = prm
			}
		}
		if bp == nil {
			closers[f] = false
			return false
		}
		closeBlocks := map[*ssa.BasicBlock]bool{}
		eachCall(f, func(site ssa.CallInstruction) {
			if isBoxClose(site, bp) {
				closeBlocks[site.Block()] = true
				return
			}
			if sc := site.Common().StaticCallee(); sc != nil && isLibFn(sc) && sc != f {
				for _, a := range callArgs(site.Common()) {
					if a == ssa.Value(bp) && mustClose(sc, depth+1) {
						// the callee closes only on its non-failing paths; its failing return propagates as our failing return
						closeBlocks[site.Block()] = true
					}
				}
			}
		})
		ok := len(closeBlocks) > 0
		if ok {
			errIdx := -1
			res := f.Signature.Results()
			for i := 0; i < res.Len(); i++ {
				if isErrorType(res.At(i).Type()) {
					errIdx = i
				}
			}
			seen := map[*ssa.BasicBlock]bool{f.Blocks[0]: true}
			st := []*ssa.BasicBlock{}
			if !closeBlocks[f.Blocks[0]] {
				st = append(st, f.Blocks[0])
			}
			for len(st) > 0 && ok {
				b := st[len(st)-1]
				st = st[:len(st)-1]
				if ret, isRet := b.Instrs[len(b.Instrs)-1].(*ssa.Return); isRet {
					if errIdx >= 0 {
						ev, eb := spilledResult(ret.Results[errIdx], b)
						if e.definitelyNonNil(ev, eb) {
							continue
						}
					}
					ok = false
					break
				}
				for _, s := range b.Succs {
					if !seen[s] && !closeBlocks[s] {
						seen[s] = true
						st = append(st, s)
					}
				}
			}
		}
		closers[f] = ok
		return ok
	}
	nLoops := 0
	for _, f := range pkgFns(sp, p) {
		// child-box loops: a loop whose cyclic path calls readInnerBox; the child (an Alloc of type box the results are stored
		// into) must be closed on every cyclic path
		for i, l := range findLoops(f) {
			var child ssa.Value
			for b := range l.Blocks {
				for _, in := range b.Instrs {
					c, ok := in.(*ssa.Call)
					if !ok {
						continue
					}
					if sc := c.Call.StaticCallee(); sc == nil || fnName(sc) != "isobmff.(*box).readInnerBox" {
						continue
					}
					if ex := tupleExtract(c, 0); ex != nil {
						for _, rf := range refs(ex) {
							if st, ok := rf.(*ssa.Store); ok {
								child = st.Addr
							}
						}
					}
				}
			}
			if child == nil {
				continue
			}
			nLoops++
			key := fmt.Sprintf("%s | child loop #%d closes each child", fnName(f), i+1)
			at := p.posStr(instrPos(l.Head.Instrs[0]))
			closeBlocks := map[*ssa.BasicBlock]bool{}
			for b := range l.Blocks {
				for _, in := range b.Instrs {
					if site, ok := in.(ssa.CallInstruction); ok && isBoxClose(site, child) {
						closeBlocks[b] = true
					}
				}
			}
			// a cycle through the header avoiding close blocks?
			H := l.Head
			seen := map[*ssa.BasicBlock]bool{}
			var st []*ssa.BasicBlock
			for _, s := range H.Succs {
				if l.Blocks[s] && !closeBlocks[s] && !seen[s] {
					seen[s] = true
					st = append(st, s)
				}
			}
			cyc := false
			if closeBlocks[H] {
				st = nil
			}
			for len(st) > 0 && !cyc {
				b := st[len(st)-1]
				st = st[:len(st)-1]
				for _, s := range b.Succs {
					if s == H {
						cyc = true
					}
					if l.Blocks[s] && !seen[s] && !closeBlocks[s] {
						seen[s] = true
						st = append(st, s)
					}
				}
			}
			if cyc {
				r.Bad("CLOSE", key, at, "an iteration can reach the next readInnerBox without closing the child: the next header is read from inside the child's payload")
			} else {
				r.OK("CLOSE", key, at, "every cyclic path passes close() on the child")
			}
		}
	}
	r.Extra("child_box_loops", nLoops)
	// the entry points that read one top-level box each: the local box must be closed when they succeed
	for _, entry := range []string{"ReadMetadata", "ReadFTYP"} {
		func() {
			f := p.Func("isobmff", "*Reader", entry)
			key := "isobmff.(*Reader)." + entry + " | top-level box closed on every non-failing path"
			if f == nil {
				r.Undecided("CLOSE", key, "-", "anchor not resolved")
				return
			}
			var boxAlloc ssa.Value
			eachInstr(f, func(_ *ssa.BasicBlock, _ int, in ssa.Instruction) {
				if a, ok := in.(*ssa.Alloc); ok {
					if n := namedOfPtr(a.Type()); n != nil && n.Obj().Name() == "box" {
						boxAlloc = a
					}
				}
			})
			if boxAlloc == nil {
				r.Undecided("CLOSE", key, p.posStr(f.Pos()), "local box not found")
				return
			}
			closeBlocks := map[*ssa.BasicBlock]bool{}
			var handlers []string
			eachCall(f, func(site ssa.CallInstruction) {
				if _, isDefer := site.(*ssa.Defer); isDefer {
					return
				}
				if isBoxClose(site, boxAlloc) {
					closeBlocks[site.Block()] = true
					return
				}
				if sc := site.Common().StaticCallee(); sc != nil && isLibFn(sc) {
					for _, a := range callArgs(site.Common()) {
						if a == boxAlloc && mustClose(sc, 0) {
							closeBlocks[site.Block()] = true
							handlers = append(handlers, fnName(sc))
						}
					}
				}
			})
			errIdx := 0
			seen := map[*ssa.BasicBlock]bool{f.Blocks[0]: true}
			st := []*ssa.BasicBlock{f.Blocks[0]}
			bad := ""
			// the box exists only after readBox succeeded: start from the blocks after the readBox call's nil-error edge — approximated by
			// requiring close on paths that reach a return whose error may be nil AND that pass the dispatch on boxType
			for len(st) > 0 && bad == "" {
				b := st[len(st)-1]
				st = st[:len(st)-1]
				if len(b.Instrs) > 0 {
					if ret, ok := b.Instrs[len(b.Instrs)-1].(*ssa.Return); ok {
						ev, eb := spilledResult(ret.Results[errIdx], b)
						if !e.definitelyNonNil(ev, eb) {
							bad = "a return that may carry a nil error is reached without closing the top-level box (" + p.posStr(instrPos(ret)) + "): the next call parses this box's payload as a box header"
						}
						continue
					}
				}
				for _, s := range b.Succs {
					if !seen[s] && !closeBlocks[s] {
						seen[s] = true
						st = append(st, s)
					}
				}
			}
			sort.Strings(handlers)
			if bad != "" {
				r.Bad("CLOSE", key, p.posStr(f.Pos()), bad)
			} else {
				r.OK("CLOSE", key, p.posStr(f.Pos()), "closed directly or by a handler that closes on all its non-failing paths ("+strings.Join(handlers, ", ")+")")
			}
			// failing paths too: once the box header has been read, every return — whatever a handler reported — is reached
			// through a close() of the top-level box made here (a handler's own close is not credited: its failing returns
			// skip it). "Bytes consumed per top-level box == its size" holds for every tree with well-formed sizes, also
			// when the content of a box is not what its handler expects.
			if entry != "ReadMetadata" {
				return
			}
			key2 := "isobmff.(*Reader)." + entry + " | top-level box closed on every path once its header was read"
			var start *ssa.BasicBlock
			eachCall(f, func(site ssa.CallInstruction) {
				sc := site.Common().StaticCallee()
				if sc == nil || sc.Name() != "readBox" {
					return
				}
				call, _ := site.(*ssa.Call)
				if call == nil {
					return
				}
				ex := tupleExtract(call, 1)
				if ex == nil {
					return
				}
				blk := site.Block()
				if ifi, ok := blk.Instrs[len(blk.Instrs)-1].(*ssa.If); ok {
					// the error may be tested directly or, with a deferred recover, after a round trip through the named result
					if bo, ok := ifi.Cond.(*ssa.BinOp); ok && (isErrorType(bo.X.Type()) || isErrorType(bo.Y.Type())) && (isNilConst(bo.X) || isNilConst(bo.Y)) {
						if bo.Op == token.NEQ {
							start = blk.Succs[1]
						} else if bo.Op == token.EQL {
							start = blk.Succs[0]
						}
					}
				}
			})
			if start == nil {
				r.Undecided("CLOSE", key2, p.posStr(f.Pos()), "the error test after readBox was not recognised")
				return
			}
			direct := map[*ssa.BasicBlock]bool{}
			eachCall(f, func(site ssa.CallInstruction) {
				// a deferred close counts from the point where it is registered: it runs at every exit reached from there
				if isBoxClose(site, boxAlloc) {
					direct[site.Block()] = true
				}
			})
			bad2 := ""
			seen2 := map[*ssa.BasicBlock]bool{start: true}
			st2 := []*ssa.BasicBlock{start}
			for len(st2) > 0 && bad2 == "" {
				b := st2[len(st2)-1]
				st2 = st2[:len(st2)-1]
				if direct[b] {
					continue
				}
				if len(b.Instrs) > 0 {
					if ret, ok := b.Instrs[len(b.Instrs)-1].(*ssa.Return); ok {
						bad2 = "the return at " + p.posStr(instrPos(ret)) + " is reached without ReadMetadata closing the box itself: when the handler of that box type fails before its own close, the reader is left inside the box and the next call parses payload bytes as a box header"
						continue
					}
				}
				for _, s := range b.Succs {
					if !seen2[s] {
						seen2[s] = true
						st2 = append(st2, s)
					}
				}
			}
			if bad2 != "" {
				r.Bad("CLOSE", key2, p.posStr(f.Pos()), bad2)
			} else {
				r.OK("CLOSE", key2, p.posStr(f.Pos()), "every path from the header to a return passes a close() made by ReadMetadata itself")
			}
			// and the path that is not a return: a panic in a handler unwinds past every close above and is turned into the
			// returned error by the deferred recover frame - which must then close the box itself
			key3 := "isobmff.(*Reader)." + entry + " | top-level box closed when a handler's panic is recovered"
			recovers, closes := false, false
			at3 := p.posStr(f.Pos())
			eachInstr(f, func(_ *ssa.BasicBlock, _ int, in ssa.Instruction) {
				df, ok := in.(*ssa.Defer)
				if !ok {
					return
				}
				mc, ok := df.Call.Value.(*ssa.MakeClosure)
				if !ok {
					return
				}
				fn, ok := mc.Fn.(*ssa.Function)
				if !ok {
					return
				}
				var fv ssa.Value
				for i, bnd := range mc.Bindings {
					if bnd == boxAlloc && i < len(fn.FreeVars) {
						fv = fn.FreeVars[i]
					}
				}
				var recBlocks []*ssa.BasicBlock
				eachCall(fn, func(site ssa.CallInstruction) {
					if bi, ok := site.Common().Value.(*ssa.Builtin); ok && bi.Name() == "recover" {
						recovers = true
						recBlocks = append(recBlocks, site.Block())
						at3 = p.posStr(instrPos(site))
					}
				})
				if fv == nil {
					return
				}
				eachCall(fn, func(site ssa.CallInstruction) {
					if !isBoxClose(site, fv) {
						return
					}
					// under the "something was recovered" branch: dominated by the block that calls recover, and not that block's
					// nil edge only - the test `state != nil` is what the branch is
					for _, rb := range recBlocks {
						if rb.Dominates(site.Block()) && rb != site.Block() {
							closes = true
						}
					}
				})
			})
			switch {
			case !recovers:
				r.OK("CLOSE", key3, at3, "no recover frame: a panic is not turned into a returned error here")
			case closes:
				r.OK("CLOSE", key3, at3, "the deferred recover frame closes the captured top-level box under the recovered branch")
			default:
				r.Bad("CLOSE", key3, at3, "the deferred function turns a handler's panic into the returned error but does not close the top-level box: the panic unwound past every close in the body, the reader is left inside the box and the next call parses payload bytes as a box header")
			}
		}()
	}
}

// ---- CMT -----------------------------------------------------------------------------------------

func constByName(p *Prog, rel, name string) (int64, bool) {
	pk := p.LibPkg(rel)
	if pk == nil {
		return 0, false
	}
	c, ok := pk.Types.Scope().Lookup(name).(*types.Const)
	if !ok || c.Val().Kind() != constant.Int {
		return 0, false
	}
	v, exact := constant.Int64Val(c.Val())
	return v, exact
}

func ruleCMT(p *Prog, r *Report) {
	f := p.Func("isobmff", "", "readCrxMoovBox")
	if f == nil {
		r.Undecided("CMT", "isobmff.readCrxMoovBox", "-", "anchor not resolved")
		return
	}
	want := map[string]string{"typeCMT1": "IFD0", "typeCMT2": "ExifIFD", "typeCMT3": "MknoteIFD", "typeCMT4": "GPSIFD"}
	boxConst := map[int64]string{}
	for bn := range want {
		v, ok := constByName(p, "isobmff", bn)
		if !ok {
			r.Undecided("CMT", "isobmff."+bn, "-", "constant not found")
			return
		}
		boxConst[v] = bn
	}
	ifdName := map[int64]string{}
	for _, in := range []string{"IFD0", "ExifIFD", "MknoteIFD", "GPSIFD", "NullIFD", "SubIfd0"} {
		if v, ok := constByName(p, "exif2/ifds", in); ok {
			if _, dup := ifdName[v]; !dup {
				ifdName[v] = in
			}
		}
	}
	found := map[string]bool{}
	eachCall(f, func(site ssa.CallInstruction) {
		sc := site.Common().StaticCallee()
		if sc == nil || fnName(sc) != "isobmff.readCMTBox" {
			return
		}
		args := site.Common().Args
		k, ok := constInt(args[len(args)-1])
		at := p.posStr(instrPos(site))
		// dominating boxType == const
		bt := ""
		for _, cd := range edgeCondsAll(site.Block()) {
			if bo, ok := cd.V.(*ssa.BinOp); ok && bo.Op == token.EQL && cd.True && isFieldLoad(bo.X, "box", "boxType") {
				if c, ok := constInt(bo.Y); ok {
					bt = boxConst[c]
				}
			}
		}
		if bt == "" {
			r.Undecided("CMT", "isobmff.readCrxMoovBox | readCMTBox call", at, "dispatch condition on boxType not recognised")
			return
		}
		key := "isobmff.readCrxMoovBox | " + bt
		found[bt] = true
		if !ok {
			r.Bad("CMT", key, at, "directory type is not a constant")
		} else if ifdName[k] != want[bt] {
			r.Bad("CMT", key, at, fmt.Sprintf("box %s is decoded as directory %s (%d), the CR3 layout assigns %s", bt, ifdName[k], k, want[bt]))
		} else {
			r.OK("CMT", key, at, "decoded as "+want[bt])
		}
	})
	for bn := range want {
		if !found[bn] {
			r.Bad("CMT", "isobmff.readCrxMoovBox | "+bn, p.posStr(f.Pos()), "no dispatch case hands this box to readCMTBox: its metadata is silently skipped")
		}
	}
}

// edgeCondsAll: conditions on the dominator chain of b (same as condsAt; switch cases are single-predecessor blocks).
func edgeCondsAll(b *ssa.BasicBlock) []Cond { return condsAt(b) }

// ---- HANDOFF --------------------------------------------------------------------------------------

func ruleHandoff(p *Prog, r *Report, sp *ssa.Package) {
	// every call through ExifReader / XMPReader / PreviewImageReader (field of Reader or a parameter of that func type)
	for _, f := range pkgFns(sp, p) {
		eachCall(f, func(site ssa.CallInstruction) {
			c := site.Common()
			if c.IsInvoke() || c.StaticCallee() != nil {
				return
			}
			if _, isB := c.Value.(*ssa.Builtin); isB {
				return
			}
			sig, ok := c.Value.Type().Underlying().(*types.Signature)
			if !ok || sig.Params().Len() == 0 || sig.Params().At(0).Type().String() != "io.Reader" {
				return
			}
			key := fmt.Sprintf("%s | callback %s", fnName(f), shortVal(c.Value))
			at := p.posStr(instrPos(site))
			arg := c.Args[0]
			if mi, ok := arg.(*ssa.MakeInterface); ok {
				arg = mi.X
			}
			n := namedOfPtr(arg.Type())
			if n != nil && n.Obj().Name() == "box" {
				r.OK("HANDOFF", key, at, "the callback reads through the box (bounded by GUARD)")
			} else {
				r.Bad("HANDOFF", key, at, "the callback is handed "+typeStr(arg.Type())+" instead of the box: it can read past the payload")
			}
		})
	}
}
