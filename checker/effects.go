package main

// E6: interprocedural write-effect summaries (field-insensitive, flow-insensitive inside a function).
//
// For every function reachable from library code (standard library and dependencies included — their
// SSA is built from source too) we compute through which parameters it may write memory, which
// package-level variables it may write, and which parameters its results may alias.
// Functions without a body (assembly, linkname) are summarised by a small table.

import (
	"fmt"
	"go/token"
	"go/types"
	"sort"
	"strings"

	"golang.org/x/tools/go/ssa"
)

type rootKind int

const (
	rParam rootKind = iota
	rGlobal
	rFree
	rUnknown
)

type root struct {
	kind rootKind
	idx  int
	g    *ssa.Global
	via  bool // for globals: reached through a pointer/slice/map/interface loaded from the variable
}

// GW identifies a write to a package-level variable: its own storage (Via=false) or memory
// reachable through a reference loaded from it (Via=true).
type GW struct {
	G   *ssa.Global
	Via bool
}

type rootSet map[root]struct{}

func (s rootSet) add(r root) bool {
	if _, ok := s[r]; ok {
		return false
	}
	s[r] = struct{}{}
	return true
}
func (s rootSet) addAll(o rootSet) bool {
	ch := false
	for r := range o {
		if s.add(r) {
			ch = true
		}
	}
	return ch
}

type Effect struct {
	WParams  map[int]uint8 // bit 0: writes the memory the argument points to; bit 1: writes memory reached through a reference loaded from it
	WGlobals map[GW]bool
	WOther   bool          // writes through free variables / unknown roots
	RetFrom  map[int]uint8 // results may alias these params (bit 0 directly, bit 1 through a loaded reference)
	RetGlob  map[GW]bool
	RetOther bool
}

func newEffect() *Effect {
	return &Effect{WParams: map[int]uint8{}, WGlobals: map[GW]bool{}, RetFrom: map[int]uint8{}, RetGlob: map[GW]bool{}}
}

// WSite is one instruction in a library function that writes non-local memory directly
// (a store, map update, copy/append, or a call into non-library code that writes through an argument).
type WSite struct {
	In    ssa.Instruction
	Roots rootSet
	What  string
}

type Effects struct {
	p       *Prog
	sum     map[*ssa.Function]*Effect
	derived map[*ssa.Function]map[ssa.Value]rootSet
	fns     []*ssa.Function
	direct  map[*ssa.Function][]WSite
	curSite ssa.Instruction
	curWhat string
}

// pointerLike reports whether values of type t can reference memory.
func pointerLike(t types.Type) bool {
	return ptrLike(t, 0)
}

func ptrLike(t types.Type, depth int) bool {
	if depth > 6 {
		return true
	}
	switch u := t.Underlying().(type) {
	case *types.Basic:
		return u.Kind() == types.UnsafePointer
	case *types.Pointer, *types.Slice, *types.Map, *types.Chan, *types.Interface, *types.Signature:
		return true
	case *types.Struct:
		for i := 0; i < u.NumFields(); i++ {
			if ptrLike(u.Field(i).Type(), depth+1) {
				return true
			}
		}
		return false
	case *types.Array:
		return ptrLike(u.Elem(), depth+1)
	case *types.Tuple:
		for i := 0; i < u.Len(); i++ {
			if ptrLike(u.At(i).Type(), depth+1) {
				return true
			}
		}
		return false
	}
	return true
}

// bodyless function table: which params are written. Default for unknown body-less functions: none
// for the packages listed as pure, all pointer-like params otherwise.
var bodylessPurePkgs = map[string]bool{
	"internal/bytealg": true, "math": true, "math/bits": true, "internal/cpu": true, "strings": true, "bytes": true,
	"internal/abi": true, "internal/goarch": true, "unicode/utf8": true, "internal/stringslite": true,
	"hash/crc32": true, "internal/race": true, "internal/msan": true, "internal/asan": true,
}

func (e *Effects) bodylessEffect(f *ssa.Function) *Effect {
	ef := newEffect()
	pk := ""
	if f.Pkg != nil {
		pk = f.Pkg.Pkg.Path()
	} else if f.Object() != nil && f.Object().Pkg() != nil {
		pk = f.Object().Pkg().Path()
	}
	if bodylessPurePkgs[pk] {
		return ef
	}
	if pk == "runtime" || strings.HasPrefix(pk, "runtime/") || strings.HasPrefix(pk, "internal/runtime") || pk == "sync/atomic" || pk == "internal/reflectlite" || pk == "reflect" || pk == "syscall" || pk == "time" || pk == "os" || pk == "internal/poll" || pk == "internal/syscall/unix" || pk == "sync" {
		// runtime services: may write through pointer params (atomics, memmove) but never into
		// unrelated library state; treat params as written.
		for i, p := range f.Params {
			if pointerLike(p.Type()) {
				ef.WParams[i] = 3
			}
		}
		return ef
	}
	for i, p := range f.Params {
		if pointerLike(p.Type()) {
			ef.WParams[i] = 3
		}
	}
	return ef
}

func (p *Prog) Effects() *Effects {
	if p.eff != nil {
		return p.eff
	}
	e := &Effects{p: p, sum: map[*ssa.Function]*Effect{}, derived: map[*ssa.Function]map[ssa.Value]rootSet{}, direct: map[*ssa.Function][]WSite{}}
	// functions: everything reachable from library functions
	var roots []*ssa.Function
	for f := range p.AllFns() {
		if isLibFn(f) {
			roots = append(roots, f)
		}
	}
	reach := p.Reach(roots)
	for f := range reach {
		e.fns = append(e.fns, f)
	}
	sort.Slice(e.fns, func(i, j int) bool { return e.fns[i].String() < e.fns[j].String() })
	for _, f := range e.fns {
		if f.Blocks == nil {
			e.sum[f] = e.bodylessEffect(f)
		} else {
			e.sum[f] = newEffect()
		}
	}
	for iter := 0; iter < 30; iter++ {
		changed := false
		for _, f := range e.fns {
			if f.Blocks == nil {
				continue
			}
			if e.analyse(f) {
				changed = true
			}
		}
		if !changed {
			break
		}
	}
	p.eff = e
	return e
}

func (e *Effects) Of(f *ssa.Function) *Effect {
	if s := e.sum[f]; s != nil {
		return s
	}
	// unknown function (not reached): conservative
	ef := newEffect()
	if f != nil {
		for i, p := range f.Params {
			if pointerLike(p.Type()) {
				ef.WParams[i] = 3
			}
		}
	}
	ef.WOther = true
	return ef
}

// Derived returns the roots the value may point into, as computed for its function.
func (e *Effects) Derived(f *ssa.Function, v ssa.Value) rootSet {
	m := e.derived[f]
	if m == nil {
		return nil
	}
	return e.valRoots(m, v)
}

func (e *Effects) valRoots(m map[ssa.Value]rootSet, v ssa.Value) rootSet {
	switch x := v.(type) {
	case *ssa.Global:
		return rootSet{root{kind: rGlobal, g: x}: {}}
	case *ssa.Const, *ssa.Function, *ssa.Builtin:
		return nil
	}
	return m[v]
}

// interface-method conventions for unresolved invokes
var ifaceWrites = map[string][]int{ // method name -> arg indices (0-based, excluding receiver) written
	"Read": {0}, "ReadAt": {0}, "ReadFull": {0},
}
var ifaceNoWrites = map[string]bool{"Write": true, "WriteString": true, "Error": true, "String": true, "Seek": true,
	"Close": true, "Len": true, "Less": true, "MarshalZerologObject": false}

func (e *Effects) analyse(f *ssa.Function) bool {
	m := e.derived[f]
	if m == nil {
		m = map[ssa.Value]rootSet{}
		e.derived[f] = m
		for i, p := range f.Params {
			if pointerLike(p.Type()) {
				m[p] = rootSet{root{kind: rParam, idx: i}: {}}
			}
		}
		for i, fv := range f.FreeVars {
			m[fv] = rootSet{root{kind: rFree, idx: i}: {}}
		}
	}
	get := func(v ssa.Value) rootSet { return e.valRoots(m, v) }
	addTo := func(v ssa.Value, rs rootSet) bool {
		if len(rs) == 0 {
			return false
		}
		if !pointerLike(v.Type()) {
			return false
		}
		s := m[v]
		if s == nil {
			s = rootSet{}
			m[v] = s
		}
		return s.addAll(rs)
	}
	sum := e.sum[f]
	changedSum := false
	e.direct[f] = nil
	lib := isLibFn(f)
	write := func(rs rootSet) {
		if lib && len(rs) > 0 && e.curSite != nil {
			e.direct[f] = append(e.direct[f], WSite{In: e.curSite, Roots: rs, What: e.curWhat})
		}
		for r := range rs {
			switch r.kind {
			case rParam:
				bit := uint8(1)
				if r.via {
					bit = 2
				}
				if sum.WParams[r.idx]&bit == 0 {
					sum.WParams[r.idx] |= bit
					changedSum = true
				}
			case rGlobal:
				if !sum.WGlobals[GW{r.g, r.via}] {
					sum.WGlobals[GW{r.g, r.via}] = true
					changedSum = true
				}
			default:
				if !sum.WOther {
					sum.WOther = true
					changedSum = true
				}
			}
		}
	}
	for pass := 0; pass < 20; pass++ {
		ch := false
		for _, b := range f.Blocks {
			for _, in := range b.Instrs {
				switch x := in.(type) {
				case *ssa.FieldAddr:
					ch = addTo(x, get(x.X)) || ch
				case *ssa.IndexAddr:
					ch = addTo(x, get(x.X)) || ch
				case *ssa.Field:
					ch = addTo(x, get(x.X)) || ch
				case *ssa.Index:
					ch = addTo(x, get(x.X)) || ch
				case *ssa.Slice:
					ch = addTo(x, get(x.X)) || ch
				case *ssa.UnOp:
					if x.Op == token.MUL {
						ch = addTo(x, viaSet(get(x.X))) || ch
					}
				case *ssa.ChangeType:
					ch = addTo(x, get(x.X)) || ch
				case *ssa.ChangeInterface:
					ch = addTo(x, get(x.X)) || ch
				case *ssa.MakeInterface:
					ch = addTo(x, get(x.X)) || ch
				case *ssa.TypeAssert:
					ch = addTo(x, get(x.X)) || ch
				case *ssa.SliceToArrayPointer:
					ch = addTo(x, get(x.X)) || ch
				case *ssa.Convert:
					// []byte <-> string copies; pointer<->unsafe keeps
					_, fromSlice := x.X.Type().Underlying().(*types.Slice)
					_, toSlice := x.Type().Underlying().(*types.Slice)
					if fromSlice == toSlice {
						ch = addTo(x, get(x.X)) || ch
					}
				case *ssa.Phi:
					for _, ed := range x.Edges {
						ch = addTo(x, get(ed)) || ch
					}
				case *ssa.Extract:
					ch = addTo(x, get(x.Tuple)) || ch
				case *ssa.Lookup:
					ch = addTo(x, get(x.X)) || ch
				case *ssa.Next:
					ch = addTo(x, get(x.Iter)) || ch
				case *ssa.Range:
					ch = addTo(x, get(x.X)) || ch
				case *ssa.MakeClosure:
					for _, bv := range x.Bindings {
						ch = addTo(x, get(bv)) || ch
					}
				case *ssa.Store:
					// storing a derived pointer into memory: the target memory now aliases; model by
					// making the address' roots also cover the value's roots for later loads is beyond
					// a flow-insensitive model; instead treat local Allocs as transparent containers.
					if a, ok := x.Addr.(*ssa.Alloc); ok {
						ch = addTo(a, get(x.Val)) || ch
					} else if fa, ok := x.Addr.(*ssa.FieldAddr); ok {
						if a, ok := fa.X.(*ssa.Alloc); ok {
							ch = addTo(a, get(x.Val)) || ch
						}
					} else if ia, ok := x.Addr.(*ssa.IndexAddr); ok {
						if a, ok := ia.X.(*ssa.Alloc); ok {
							ch = addTo(a, get(x.Val)) || ch
						}
					}
				case *ssa.Call:
					ch = e.callResult(f, m, x, &x.Call, addTo, get) || ch
				}
			}
		}
		if !ch {
			break
		}
	}
	// effects
	for _, b := range f.Blocks {
		for _, in := range b.Instrs {
			switch x := in.(type) {
			case *ssa.Store:
				if _, ok := x.Addr.(*ssa.Alloc); ok {
					// a store into a local cell writes the cell only
					continue
				}
				e.curSite, e.curWhat = in, "store"
				write(e.storeRoots(m, x.Addr))
			case *ssa.MapUpdate:
				e.curSite, e.curWhat = in, "map update"
				write(get(x.Map))
			case ssa.CallInstruction:
				e.curSite, e.curWhat = nil, ""
				e.callWrites(f, m, x, write)
			case *ssa.Return:
				for _, rv := range x.Results {
					for r := range get(rv) {
						switch r.kind {
						case rParam:
							bit := uint8(1)
							if r.via {
								bit = 2
							}
							if sum.RetFrom[r.idx]&bit == 0 {
								sum.RetFrom[r.idx] |= bit
								changedSum = true
							}
						case rGlobal:
							if !sum.RetGlob[GW{r.g, r.via}] {
								sum.RetGlob[GW{r.g, r.via}] = true
								changedSum = true
							}
						default:
							if !sum.RetOther {
								sum.RetOther = true
								changedSum = true
							}
						}
					}
				}
			}
		}
	}
	return changedSum
}

// storeRoots: roots written by a store to addr. A store to a field/element of a *local* Alloc writes
// only local memory, even if pointers were stored in that Alloc earlier (the Alloc's root set describes
// what its contents may point to, not where it lives).
func (e *Effects) storeRoots(m map[ssa.Value]rootSet, addr ssa.Value) rootSet {
	v := addr
	for {
		switch x := v.(type) {
		case *ssa.FieldAddr:
			v = x.X
			continue
		case *ssa.IndexAddr:
			// indexing a local array value: stays local; indexing a slice held in a local: not local
			if _, isArr := derefType(x.X.Type()).Underlying().(*types.Array); isArr {
				v = x.X
				continue
			}
		case *ssa.Alloc:
			return nil
		}
		break
	}
	return e.valRoots(m, addr)
}

// viaSet marks global roots as reached through a loaded reference.
func viaSet(s rootSet) rootSet {
	if len(s) == 0 {
		return s
	}
	out := rootSet{}
	for r := range s {
		r.via = true
		out[r] = struct{}{}
	}
	return out
}

func derefType(t types.Type) types.Type {
	if p, ok := t.Underlying().(*types.Pointer); ok {
		return p.Elem()
	}
	return t
}

func (e *Effects) callResult(f *ssa.Function, m map[ssa.Value]rootSet, res ssa.Value, c *ssa.CallCommon,
	addTo func(ssa.Value, rootSet) bool, get func(ssa.Value) rootSet) bool {
	if !pointerLike(res.Type()) {
		return false
	}
	ch := false
	if b, ok := c.Value.(*ssa.Builtin); ok {
		switch b.Name() {
		case "append":
			for _, a := range c.Args {
				ch = addTo(res, get(a)) || ch
			}
		case "recover":
			ch = addTo(res, rootSet{root{kind: rUnknown}: {}}) || ch
		}
		return ch
	}
	args := callArgs(c)
	callees := e.p.Callees(c2site(f, c))
	if len(callees) == 0 {
		// unresolved: result may alias any argument
		for _, a := range args {
			ch = addTo(res, get(a)) || ch
		}
		return ch
	}
	for _, g := range callees {
		s := e.sum[g]
		if s == nil {
			for _, a := range args {
				ch = addTo(res, get(a)) || ch
			}
			continue
		}
		for i, mask := range s.RetFrom {
			if i < len(args) {
				if mask&1 != 0 {
					ch = addTo(res, get(args[i])) || ch
				}
				if mask&2 != 0 {
					ch = addTo(res, viaSet(get(args[i]))) || ch
				}
			}
		}
		for gl := range s.RetGlob {
			ch = addTo(res, rootSet{root{kind: rGlobal, g: gl.G, via: gl.Via}: {}}) || ch
		}
		if s.RetOther {
			// results alias closure state or unknown memory
			ch = addTo(res, rootSet{root{kind: rUnknown}: {}}) || ch
		}
		// closures: results may alias bound variables
		if mc, ok := c.Value.(*ssa.MakeClosure); ok {
			ch = addTo(res, get(mc)) || ch
		}
	}
	return ch
}

// callArgs returns the arguments aligned with callee.Params (receiver first for methods and invokes).
func callArgs(c *ssa.CallCommon) []ssa.Value {
	if c.IsInvoke() {
		return append([]ssa.Value{c.Value}, c.Args...)
	}
	return c.Args
}

// c2site finds the CallInstruction for a CallCommon inside f (needed for call-graph lookup).
var siteCache = map[*ssa.CallCommon]ssa.CallInstruction{}

func c2site(f *ssa.Function, c *ssa.CallCommon) ssa.CallInstruction {
	if s, ok := siteCache[c]; ok {
		return s
	}
	for _, b := range f.Blocks {
		for _, in := range b.Instrs {
			if ci, ok := in.(ssa.CallInstruction); ok {
				siteCache[ci.Common()] = ci
			}
		}
	}
	return siteCache[c]
}

func (e *Effects) callWrites(f *ssa.Function, m map[ssa.Value]rootSet, site ssa.CallInstruction, write func(rootSet)) {
	c := site.Common()
	get := func(v ssa.Value) rootSet { return e.valRoots(m, v) }
	if b, ok := c.Value.(*ssa.Builtin); ok {
		e.curSite, e.curWhat = site, "builtin "+b.Name()
		switch b.Name() {
		case "copy":
			write(get(c.Args[0]))
		case "append":
			write(get(c.Args[0]))
		case "delete", "clear":
			write(get(c.Args[0]))
		}
		return
	}
	args := callArgs(c)
	callees := e.p.Callees(site)
	if _, isGo := site.(*ssa.Go); isGo {
		// goroutine: effects happen, attribute them here too
	}
	if len(callees) == 0 {
		e.curSite, e.curWhat = site, "unresolved call "+calleeName(c)
		if c.IsInvoke() {
			name := c.Method.Name()
			if idx, ok := ifaceWrites[name]; ok {
				for _, i := range idx {
					if i < len(c.Args) {
						write(get(c.Args[i]))
					}
				}
				write(get(c.Value)) // the receiver's own state
				return
			}
			// unknown interface method: receiver state may change; pointer args may be written
			write(get(c.Value))
			if !ifaceNoWrites[name] {
				for _, a := range c.Args {
					write(get(a))
				}
			}
			return
		}
		// dynamic function value with no resolved callee: all pointer-like args
		for _, a := range args {
			write(get(a))
		}
		write(get(c.Value))
		return
	}
	for _, g := range callees {
		s := e.sum[g]
		if s == nil {
			s = e.Of(g)
		}
		if isLibFn(g) {
			e.curSite = nil // attributed inside the callee
		} else {
			e.curSite, e.curWhat = site, "call "+g.String()
		}
		for i, mask := range s.WParams {
			if i < len(args) {
				if mask&1 != 0 {
					write(get(args[i]))
				}
				if mask&2 != 0 {
					write(viaSet(get(args[i])))
				}
			}
		}
		for gl := range s.WGlobals {
			write(rootSet{root{kind: rGlobal, g: gl.G, via: gl.Via}: {}})
		}
		if s.WOther {
			// writes through the callee's free variables: attribute to the closure's bindings
			if mc, ok := c.Value.(*ssa.MakeClosure); ok {
				write(get(mc))
			} else {
				write(get(c.Value))
			}
		}
	}
}

func (s rootSet) String() string {
	var out []string
	for r := range s {
		switch r.kind {
		case rParam:
			if r.via {
				out = append(out, fmt.Sprintf("via-param#%d", r.idx))
			} else {
				out = append(out, fmt.Sprintf("param#%d", r.idx))
			}
		case rGlobal:
			if r.via {
				out = append(out, "via-global:"+globalName(r.g))
			} else {
				out = append(out, "global:"+globalName(r.g))
			}
		case rFree:
			out = append(out, fmt.Sprintf("freevar#%d", r.idx))
		default:
			out = append(out, "unknown")
		}
	}
	sort.Strings(out)
	return strings.Join(out, ",")
}
