package main

import (
	"fmt"
	"go/types"
	"sort"

	"golang.org/x/tools/go/ssa"
)

// TBLFILL (C19, C20): a table that a counted loop fills is filled from its first to its last element.
//
// Instances: every store `T[e] = v` in the imagehash packages where T is a package-level array, the store happens on
// every iteration of its loop nest, and e is an affine form c + Σ k_j·i_j of induction variables of constant-bound
// unit-step loops. The index values the nest produces are computed exactly when the strides nest (each coefficient
// equals the span of the faster-running part, as in x + width*xc); they must be 0 .. len(T)-1. A loop that stops one
// short leaves the zero value in the last element - a channel value of 255 then contributes nothing.
// Stores whose index or bounds are not of this form are not fill loops in this sense and are skipped (counted in
// the evidence).
func ruleTblFill(p *Prog, r *Report) {
	r.Explain("TBLFILL: wherever a function of the imagehash packages stores into a package-level array on every iteration of a nest of constant-bound unit-step loops, at an index that is an affine form of the loop variables with nesting strides, the index values cover the whole array 0..len-1 (a fill loop that stops short leaves zero entries that later lookups take for data).")
	hash, err := p.HashEntries()
	if err != nil {
		r.Fatal(err.Error())
		return
	}
	skipped := 0
	type inst struct {
		key, at, bad, ok string
	}
	var out []inst
	for _, f := range hashPkgFns(p, hash) {
		loops := findLoops(f)
		eachInstr(f, func(_ *ssa.BasicBlock, _ int, in ssa.Instruction) {
			st, ok := in.(*ssa.Store)
			if !ok {
				return
			}
			ia, ok := st.Addr.(*ssa.IndexAddr)
			if !ok {
				return
			}
			g, ok := ia.X.(*ssa.Global)
			if !ok || g.Pkg == nil || !isRepoPath(g.Pkg.Pkg.Path()) {
				return
			}
			pt, ok := g.Type().Underlying().(*types.Pointer)
			if !ok {
				return
			}
			arr, ok := pt.Elem().Underlying().(*types.Array)
			if !ok {
				return
			}
			N := arr.Len()
			a := affineOf(ia.Index, 0)
			if len(a.Terms) == 0 {
				return // a single element
			}
			type term struct {
				coef, lo, hi int64
				lp           *Loop
			}
			var ts []term
			for v, co := range a.Terms {
				ph, ok := v.(*ssa.Phi)
				if !ok || co <= 0 {
					skipped++
					return
				}
				ind, ok := inductionOf(ph)
				if !ok || ind.Step != 1 {
					skipped++
					return
				}
				lo, hi, ok := ind.constRange()
				if !ok {
					skipped++
					return
				}
				d := int64(0)
				if ind.CmpOn != nil {
					d = ind.CmpOn.C
				}
				var lp *Loop
				for _, l := range loops {
					if l.Head == ph.Block() {
						lp = l
					}
				}
				if lp == nil {
					skipped++
					return
				}
				ts = append(ts, term{co, lo - d, hi - d, lp})
			}
			sort.Slice(ts, func(i, j int) bool { return ts[i].coef < ts[j].coef })
			// the store runs on every iteration of the innermost loop, and each inner loop (whose constant range is
			// not empty) on every iteration of the loop around it
			inner := st.Block()
			for _, t := range ts {
				for _, lt := range t.lp.Latch {
					if !inner.Dominates(lt) {
						skipped++
						return
					}
				}
				inner = t.lp.Head
			}
			// strides must nest: coef_j == span of the faster part
			lo, hi := a.C, a.C
			span := int64(1)
			for _, t := range ts {
				if t.coef != span || t.hi < t.lo {
					skipped++
					return
				}
				lo += t.coef * t.lo
				hi += t.coef * t.hi
				span *= t.hi - t.lo + 1
			}
			key := fmt.Sprintf("%s | fills %s", fnName(f), globalName(g))
			at := p.posStr(st.Pos())
			if lo <= 0 && hi >= N-1 {
				out = append(out, inst{key: key, at: at, ok: fmt.Sprintf("indices %d..%d cover the %d elements", lo, hi, N)})
			} else {
				out = append(out, inst{key: key, at: at, bad: fmt.Sprintf("the loop stores elements %d..%d of a table of %d: the others keep the zero value and are read as data by the lookups", lo, hi, N)})
			}
		})
	}
	for _, i := range out {
		if i.bad != "" {
			r.Bad("TBLFILL", i.key, i.at, i.bad)
		} else {
			r.OK("TBLFILL", i.key, i.at, i.ok)
		}
	}
	r.Extra("tblfill_stores_not_of_the_fill_form", skipped)
}
