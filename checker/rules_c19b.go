package main

import (
	"fmt"
	"go/token"
	"go/types"
	"sort"

	"golang.org/x/tools/go/ssa"
)

// TBLFILL (C19, C20): a table that a counted loop fills is filled from its first to its last element.
//
// Instances: every store `T[e] = v` in the imagehash packages where T is a package-level array, the store happens on
// every iteration of its loop nest, and e is an affine form c + Σ k_j·i_j of induction variables of constant-bound
// unit-step loops. The index values the nest produces are computed exactly when the strides nest (each coefficient
// equals the span of the faster-running part, as in x + width*xc); they must be 0 .. len(T)-1. A loop that stops one
// short leaves the zero value in the last element - a channel value of 255 then contributes nothing.
// Stores whose index or bounds are not of this form are not fill loops in this sense and are skipped (counted in
// the evidence).
func ruleTblFill(p *Prog, r *Report) {
	r.Explain("TBLFILL: wherever a function of the imagehash packages stores into a package-level array on every iteration of a nest of constant-bound unit-step loops, at an index that is an affine form of the loop variables with nesting strides, the index values cover the whole array 0..len-1 (a fill loop that stops short leaves zero entries that later lookups take for data).")
	hash, err := p.HashEntries()
	if err != nil {
		r.Fatal(err.Error())
		return
	}
	skipped := 0
	type inst struct {
		key, at, bad, ok string
	}
	var out []inst
	for _, f := range hashPkgFns(p, hash) {
		loops := findLoops(f)
		eachInstr(f, func(_ *ssa.BasicBlock, _ int, in ssa.Instruction) {
			st, ok := in.(*ssa.Store)
			if !ok {
				return
			}
			ia, ok := st.Addr.(*ssa.IndexAddr)
			if !ok {
				return
			}
			g, ok := ia.X.(*ssa.Global)
			if !ok || g.Pkg == nil || !isRepoPath(g.Pkg.Pkg.Path()) {
				return
			}
			pt, ok := g.Type().Underlying().(*types.Pointer)
			if !ok {
				return
			}
			arr, ok := pt.Elem().Underlying().(*types.Array)
			if !ok {
				return
			}
			N := arr.Len()
			a := affineOf(ia.Index, 0)
			if len(a.Terms) == 0 {
				return // a single element
			}
			type term struct {
				coef, lo, hi int64
				lp           *Loop
			}
			var ts []term
			for v, co := range a.Terms {
				ph, ok := v.(*ssa.Phi)
				if !ok || co <= 0 {
					skipped++
					return
				}
				ind, ok := inductionOf(ph)
				if !ok || ind.Step != 1 {
					skipped++
					return
				}
				lo, hi, ok := ind.constRange()
				if !ok {
					skipped++
					return
				}
				d := int64(0)
				if ind.CmpOn != nil {
					d = ind.CmpOn.C
				}
				var lp *Loop
				for _, l := range loops {
					if l.Head == ph.Block() {
						lp = l
					}
				}
				if lp == nil {
					skipped++
					return
				}
				ts = append(ts, term{co, lo - d, hi - d, lp})
			}
			sort.Slice(ts, func(i, j int) bool { return ts[i].coef < ts[j].coef })
			// the store runs on every iteration of the innermost loop, and each inner loop (whose constant range is
			// not empty) on every iteration of the loop around it
			inner := st.Block()
			for _, t := range ts {
				for _, lt := range t.lp.Latch {
					if !inner.Dominates(lt) {
						skipped++
						return
					}
				}
				inner = t.lp.Head
			}
			// strides must nest: coef_j == span of the faster part
			lo, hi := a.C, a.C
			span := int64(1)
			for _, t := range ts {
				if t.coef != span || t.hi < t.lo {
					skipped++
					return
				}
				lo += t.coef * t.lo
				hi += t.coef * t.hi
				span *= t.hi - t.lo + 1
			}
			key := fmt.Sprintf("%s | fills %s", fnName(f), globalName(g))
			at := p.posStr(st.Pos())
			if lo <= 0 && hi >= N-1 {
				out = append(out, inst{key: key, at: at, ok: fmt.Sprintf("indices %d..%d cover the %d elements", lo, hi, N)})
			} else {
				out = append(out, inst{key: key, at: at, bad: fmt.Sprintf("the loop stores elements %d..%d of a table of %d: the others keep the zero value and are read as data by the lookups", lo, hi, N)})
			}
		})
	}
	for _, i := range out {
		if i.bad != "" {
			r.Bad("TBLFILL", i.key, i.at, i.bad)
		} else {
			r.OK("TBLFILL", i.key, i.at, i.ok)
		}
	}
	r.Extra("tblfill_stores_not_of_the_fill_form", skipped)
}

// PIX16 (C19): 16-bit samples in Pix are big-endian.
//
// image.RGBA64, NRGBA64 and Gray16 store each sample high byte first. A converter (or a helper it calls with a window
// of Pix) that assembles a 16-bit value from two bytes of a []uint8 as lo | hi<<8 must take the byte at the lower
// index as the high one. Instances: in the imagehash packages, every `x | y<<8` (or +) over two loads s[i], s[j] of
// one byte slice with constant indices, in a function that has a parameter of one of those image types or is called
// from one with a window of its Pix. Samples promoted from 8-bit data have equal bytes, so tests on such images
// cannot tell.
func rulePix16(p *Prog, r *Report) {
	r.Explain("PIX16: wherever a function of the imagehash packages that handles *image.RGBA64, *image.NRGBA64 or *image.Gray16 (or a helper it hands a window of Pix) assembles a 16-bit sample from two bytes of one slice, the byte at the lower index is the one shifted left by 8: the samples are stored big-endian.")
	hash, err := p.HashEntries()
	if err != nil {
		r.Fatal(err.Error())
		return
	}
	is16 := func(t types.Type) bool {
		switch t.String() {
		case "*image.RGBA64", "*image.NRGBA64", "*image.Gray16":
			return true
		}
		return false
	}
	fns := hashPkgFns(p, hash)
	deep := map[*ssa.Function]bool{}
	for _, f := range fns {
		for _, prm := range f.Params {
			if is16(prm.Type()) {
				deep[f] = true
			}
		}
	}
	for _, f := range fns {
		if !deep[f] {
			continue
		}
		eachCall(f, func(site ssa.CallInstruction) {
			if sc := site.Common().StaticCallee(); sc != nil && isLibFn(sc) {
				for _, a := range site.Common().Args {
					if typeStr(a.Type()) == "[]uint8" || typeStr(a.Type()) == "[]byte" {
						deep[sc] = true
					}
				}
			}
		})
	}
	byteAt := func(v ssa.Value) (ssa.Value, int64, bool) {
		for i := 0; i < 3; i++ {
			if cv, ok := v.(*ssa.Convert); ok {
				v = cv.X
			}
		}
		ld, ok := v.(*ssa.UnOp)
		if !ok || ld.Op != token.MUL {
			return nil, 0, false
		}
		ia, ok := ld.X.(*ssa.IndexAddr)
		if !ok {
			return nil, 0, false
		}
		k, ok := constInt(ia.Index)
		if !ok {
			return nil, 0, false
		}
		return ia.X, k, true
	}
	n := 0
	for _, f := range fns {
		if !deep[f] {
			continue
		}
		eachInstr(f, func(_ *ssa.BasicBlock, _ int, in ssa.Instruction) {
			bo, ok := in.(*ssa.BinOp)
			if !ok || (bo.Op != token.OR && bo.Op != token.ADD) {
				return
			}
			for _, pr := range [][2]ssa.Value{{bo.X, bo.Y}, {bo.Y, bo.X}} {
				sh, ok := pr[1].(*ssa.BinOp)
				if !ok || sh.Op != token.SHL {
					continue
				}
				if k, ok := constInt(sh.Y); !ok || k != 8 {
					continue
				}
				sLo, iLo, ok1 := byteAt(pr[0])
				sHi, iHi, ok2 := byteAt(sh.X)
				if !ok1 || !ok2 || sLo != sHi {
					continue
				}
				n++
				key := fmt.Sprintf("%s | 16-bit sample from bytes %d and %d", fnName(f), iHi, iLo)
				at := p.posStr(bo.Pos())
				if iHi < iLo {
					r.OK("PIX16", key, at, "the byte at the lower index is the high byte")
				} else {
					r.Bad("PIX16", key, at, fmt.Sprintf("the byte at index %d is taken as the high byte and the one at %d as the low byte: Pix holds 16-bit samples high byte first, so every sample whose two bytes differ is read byte-swapped and the luminance is not that of the pixel", iHi, iLo))
				}
			}
		})
	}
	r.Extra("pix16_sample_assemblies", n)
}
