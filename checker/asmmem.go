package main

// E8b — memory-operand obligations for the straight-line / counted-loop kernels.

import (
	"fmt"
	"strconv"
	"strings"
)

type asmFinding struct {
	line int
	text string
	msg  string
}

type asmMemResult struct {
	operands  int
	byBase    map[string]int
	findings  []asmFinding
	undecided []asmFinding
	counters  map[string]string
}

type laneRange struct {
	lo, hi int64
	ok     bool
}

func isGP(r string) bool {
	return r != "" && !strings.HasPrefix(r, "X") && !strings.HasPrefix(r, "Y") && !strings.HasPrefix(r, "Z")
}

// tableDwords: the 4-byte integer entries of a DATA symbol, by offset.
func (af *asmFile) tableDwords(sym string) map[int64]int64 {
	out := map[int64]int64{}
	for _, d := range af.data {
		if d.sym != sym || d.size != 4 {
			continue
		}
		v, err := strconv.ParseInt(strings.TrimPrefix(d.val, "+"), 0, 64)
		if err != nil {
			continue
		}
		out[d.off] = v
	}
	return out
}

// asmMemCheck analyses one TEXT block. paramBytes: for each slice parameter, the number of bytes the Go callers
// guarantee behind its base pointer.
func asmMemCheck(af *asmFile, t *asmText, paramBytes map[string]int64) *asmMemResult {
	res := &asmMemResult{byBase: map[string]int{}, counters: map[string]string{}}
	bad := func(in asmInstr, f string, a ...any) {
		res.findings = append(res.findings, asmFinding{in.line, in.text, fmt.Sprintf(f, a...)})
	}
	und := func(in asmInstr, f string, a ...any) {
		res.undecided = append(res.undecided, asmFinding{in.line, in.text, fmt.Sprintf(f, a...)})
	}
	// ---- pre-pass: counted loops `L: CMPx R, $K; JE exit; ...; INCx R | ADDx $s, R; JMP L`
	type loopT struct {
		label      string
		start, end int // instruction index of the label and of the JMP back
		reg        string
		bound      int64
		boundReg   string
		step       int64
	}
	var loops []loopT
	for lbl, idx := range t.labels {
		if idx+1 >= len(t.instrs) {
			continue
		}
		c := t.instrs[idx]
		j := t.instrs[idx+1]
		if (c.mn != "CMPL" && c.mn != "CMPQ") || j.mn != "JE" || len(c.ops) != 2 || c.ops[0].kind != "reg" {
			continue
		}
		// the JMP back
		end := -1
		for k := idx + 2; k < len(t.instrs); k++ {
			if t.instrs[k].mn == "JMP" && len(t.instrs[k].ops) == 1 && t.instrs[k].ops[0].reg == lbl {
				end = k
				break
			}
		}
		if end < 0 {
			continue
		}
		lp := loopT{label: lbl, start: idx, end: end, reg: c.ops[0].reg}
		switch c.ops[1].kind {
		case "imm":
			lp.bound = c.ops[1].imm
		case "reg":
			lp.boundReg = c.ops[1].reg
		default:
			continue
		}
		// the increment: the last write to reg before the JMP (or, for nested loops, after the inner loop)
		for k := idx + 2; k < end; k++ {
			in := t.instrs[k]
			d := dstOperand(in)
			if d == nil || d.kind != "reg" || d.reg != lp.reg {
				continue
			}
			switch in.mn {
			case "INCL", "INCQ":
				lp.step = 1
			case "ADDQ", "ADDL":
				if in.ops[0].kind == "imm" {
					lp.step = in.ops[0].imm
				}
			case "XORL", "XORQ":
				// re-initialisation of an inner counter inside an outer loop: not the step
			default:
				lp.step = -1
			}
		}
		if lp.step > 0 {
			loops = append(loops, lp)
			if lp.boundReg != "" {
				res.counters[lp.reg] = fmt.Sprintf("0 ≤ %s < %s step %d (equality exit)", lp.reg, lp.boundReg, lp.step)
			} else {
				res.counters[lp.reg] = fmt.Sprintf("0 ≤ %s < %d step %d", lp.reg, lp.bound, lp.step)
			}
		}
	}
	counterOf := func(reg string, at int) *loopT {
		for i := range loops {
			if loops[i].reg == reg && at >= loops[i].start && at <= loops[i].end {
				return &loops[i]
			}
		}
		return nil
	}
	// ---- forward pass
	regs := map[string]aReg{}
	slots := map[int64]aReg{}
	lanes := map[string]laneRange{}
	bases := map[string]bool{}
	for idx, in := range t.instrs {
		if !asmKnownMnemonics[in.mn] {
			if strings.Contains(in.mn, "MXCSR") || in.mn == "FLDCW" {
				bad(in, "the kernel changes the floating-point control state (%s): flush-to-zero / rounding differ from the portable Go code", in.mn)
			} else {
				und(in, "mnemonic %s is not in the access-width table", in.mn)
			}
			continue
		}
		// memory operands
		for oi, o := range in.ops {
			if o.kind != "mem" {
				continue
			}
			w := memWidth(in, oi)
			if w == 0 {
				continue
			}
			if w < 0 {
				und(in, "access width of %s with this operand shape is unknown", in.mn)
				continue
			}
			res.operands++
			switch o.base {
			case "FP":
				res.byBase["FP"]++
				lo, hi := o.disp, o.disp
				if o.index != "" {
					r, ok := regs[o.index]
					cl := counterOf(o.index, idx)
					switch {
					case cl != nil && cl.boundReg == "":
						lo, hi = o.disp, o.disp+(cl.bound-cl.step)*o.scale
					case ok && r.kind == "const":
						lo, hi = o.disp+r.k*o.scale, o.disp+r.k*o.scale
					default:
						und(in, "index register %s of an argument-frame operand has no known range", o.index)
						continue
					}
				}
				if lo < 0 || hi+w > t.args {
					bad(in, "argument/result frame access [%d,%d) outside the %d bytes of arguments and results", lo, hi+w, t.args)
				}
			case "SP":
				res.byBase["SP"]++
				if o.index != "" {
					und(in, "indexed stack operand")
					continue
				}
				if o.disp < 0 || o.disp+w > t.frame {
					bad(in, "stack access [%d,%d) outside the declared frame of %d bytes", o.disp, o.disp+w, t.frame)
				}
			case "SB":
				res.byBase["SB"]++
				sz, ok := af.globl[o.sym]
				if !ok {
					bad(in, "data symbol %s has no GLOBL size", o.sym)
					continue
				}
				if o.disp < 0 || o.disp+w > sz {
					bad(in, "read of %s<>[%d,%d) outside its %d bytes", o.sym, o.disp, o.disp+w, sz)
				}
			default:
				r, ok := regs[o.base]
				if !ok || r.kind != "pbase" {
					und(in, "memory operand based on %s, which is not a parameter base pointer here (%v)", o.base, r)
					continue
				}
				res.byBase[r.name]++
				limit, known := paramBytes[r.name]
				if !known {
					und(in, "no guaranteed size for parameter %s", r.name)
					continue
				}
				ilo, ihi := int64(0), int64(0)
				if o.index != "" {
					if isGP(o.index) {
						ir, ok := regs[o.index]
						cl := counterOf(o.index, idx)
						switch {
						case cl != nil && cl.boundReg == "":
							ilo, ihi = 0, cl.bound-cl.step
						case ok && (ir.kind == "scaled" || ir.kind == "const"):
							if ir.kind == "const" {
								ilo, ihi = ir.k, ir.k
							} else {
								ilo, ihi = ir.lo, ir.hi
							}
						default:
							und(in, "index register %s has no known range", o.index)
							continue
						}
					} else {
						lr, ok := lanes[o.index]
						if !ok || !lr.ok {
							und(in, "gather index register %s has no known lane range", o.index)
							continue
						}
						ilo, ihi = lr.lo, lr.hi
					}
				}
				lo := o.disp + ilo*o.scale
				hi := o.disp + ihi*o.scale + w
				if lo < 0 || hi > limit {
					bad(in, "access to %s bytes [%d,%d) but the callers guarantee only %d bytes (%d elements): the kernel touches memory outside its argument", r.name, lo, hi, limit, limit/4)
				}
			}
		}
		// register effects
		d := dstOperand(in)
		if d == nil {
			continue
		}
		if d.kind == "mem" {
			if d.base == "SP" && (in.mn == "MOVL" || in.mn == "MOVQ") && len(in.ops) == 2 && in.ops[0].kind == "reg" {
				src := in.ops[0].reg
				if cl := counterOf(src, idx); cl != nil && cl.boundReg == "" {
					slots[d.disp] = aReg{kind: "scaled", lo: 0, hi: cl.bound - cl.step, step: cl.step}
				} else if r, ok := regs[src]; ok {
					slots[d.disp] = r
				} else {
					delete(slots, d.disp)
				}
			} else if d.base == "SP" {
				// vector stores overwrite slots: forget overlapping scalar slots
				for k := range slots {
					if k >= d.disp && k < d.disp+32 {
						delete(slots, k)
					}
				}
			}
			continue
		}
		if d.kind != "reg" {
			continue
		}
		reg := d.reg
		if !isGP(reg) {
			// vector registers: only gather indices are tracked
			switch in.mn {
			case "VPBROADCASTD":
				if in.ops[0].kind == "mem" && in.ops[0].base == "SP" {
					if s, ok := slots[in.ops[0].disp]; ok && (s.kind == "scaled" || s.kind == "const") {
						if s.kind == "const" {
							lanes[reg] = laneRange{s.k, s.k, true}
						} else {
							lanes[reg] = laneRange{s.lo, s.hi, true}
						}
						continue
					}
				}
				delete(lanes, reg)
			case "VPADDD":
				// VPADDD table<>+off(SB), Ysrc, Ydst
				if len(in.ops) == 3 && in.ops[0].kind == "mem" && in.ops[0].base == "SB" && in.ops[1].kind == "reg" {
					src, ok := lanes[in.ops[1].reg]
					tbl := af.tableDwords(in.ops[0].sym)
					if ok && src.ok && len(tbl) > 0 {
						mn, mx := int64(1<<62), int64(-1<<62)
						for k := int64(0); k < 8; k++ {
							v, ok := tbl[in.ops[0].disp+4*k]
							if !ok {
								mn, mx = 0, -1
								break
							}
							if v < mn {
								mn = v
							}
							if v > mx {
								mx = v
							}
						}
						if mx >= mn {
							lanes[reg] = laneRange{src.lo + mn, src.hi + mx, true}
							continue
						}
					}
				}
				delete(lanes, reg)
			default:
				delete(lanes, reg)
			}
			continue
		}
		// general-purpose destination
		if bases[reg] {
			bad(in, "register %s holds the base pointer of a parameter and is overwritten", reg)
		}
		switch {
		case in.mn == "MOVQ" && in.ops[0].kind == "mem" && in.ops[0].base == "FP":
			if strings.HasSuffix(in.ops[0].sym, "_base") {
				regs[reg] = aReg{kind: "pbase", name: strings.TrimSuffix(in.ops[0].sym, "_base")}
				bases[reg] = true
			} else {
				regs[reg] = aReg{kind: "param", name: in.ops[0].sym}
			}
		case (in.mn == "XORL" || in.mn == "XORQ") && in.ops[0].kind == "reg" && in.ops[0].reg == reg:
			regs[reg] = aReg{kind: "const", k: 0}
		case (in.mn == "MOVL" || in.mn == "MOVQ") && in.ops[0].kind == "imm":
			regs[reg] = aReg{kind: "const", k: in.ops[0].imm}
		case (in.mn == "IMULL" || in.mn == "IMULQ") && in.ops[0].kind == "reg":
			cur, ok := regs[reg]
			cl := counterOf(in.ops[0].reg, idx)
			if ok && cur.kind == "const" && cl != nil && cl.boundReg == "" && cur.k >= 0 {
				regs[reg] = aReg{kind: "scaled", lo: 0, hi: cur.k * (cl.bound - cl.step), step: cur.k * cl.step}
			} else {
				regs[reg] = aReg{kind: "unknown"}
			}
		case in.mn == "INCL" || in.mn == "INCQ" || in.mn == "ADDQ" || in.mn == "ADDL":
			if counterOf(reg, idx) == nil {
				regs[reg] = aReg{kind: "unknown"}
			}
		default:
			regs[reg] = aReg{kind: "unknown"}
		}
	}
	return res
}
