package main

// C05 — concurrent calls are race-free: INV (inventory of shared state), LOCK, NOGO.

import (
	"fmt"
	"go/token"
	"go/types"
	"sort"
	"strings"

	"golang.org/x/tools/go/ssa"
)

func init() { register("C05", true, checkC05) }

func checkC05(p *Prog, r *Report) {
	r.Explain("INV: every package-level variable of every library package is classified (immutable / synchronised type / lock-guarded / configuration); a variable written on a path reachable from a decode or hash entry point without a lock is a violation. LOCK: for each lock-guarded variable every access lies in a region where its mutex is must-held (write mode for writes), every Lock is released on all paths, no nesting. NOGO: no goroutine, channel or WaitGroup use reachable from the entry points. POOL-UAR (shared with C04): no use of a pooled object after its non-deferred Put.")
	r.Trusted("sync.Pool, sync.RWMutex, bufio, zerolog are race-free per their documentation", "the configured log writer is safe for concurrent use", "callers pass independent readers/images")
	dec, err := p.DecEntries()
	if err != nil {
		r.Fatal(err.Error())
		return
	}
	hash, err := p.StateEntries()
	if err != nil {
		r.Fatal(err.Error())
		return
	}
	entries := append(append([]*ssa.Function{}, dec...), hash...)
	reach := p.Reach(entries)
	ruleINV(p, r, reach)
	ruleNOGO(p, r, entries, reach)
	rulePoolUAR(p, r, "C05")
	rulePoolOwn(p, r)
	rulePoolNew(p, r)
	rulePoolNil(p, r)
	ruleLogCtx(p, r)
	r.Floor("LOGCTX", 1)
	r.Floor("POOL-NIL", 6)
	r.Floor("POOL-OWN", 6)
	r.Floor("INV", 100)
	r.Floor("LOCK", 1)
	r.Floor("NOGO", len(entries))
}

type globClass string

func classifyGlobalType(t types.Type) globClass {
	if n, ok := t.(*types.Named); ok && n.Obj().Pkg() != nil {
		switch n.Obj().Pkg().Path() {
		case "sync":
			return "sync"
		case "github.com/rs/zerolog":
			if n.Obj().Name() == "Logger" {
				return "logger"
			}
		}
	}
	if isErrorType(t) {
		return "error"
	}
	return "data"
}

func isInitFn(f *ssa.Function) bool {
	for f.Parent() != nil {
		f = f.Parent()
	}
	return f.Name() == "init" || strings.HasPrefix(f.Name(), "init#")
}

// libGlobals lists package-level variables of library packages, sorted.
func libGlobals(p *Prog) []*ssa.Global {
	var gs []*ssa.Global
	for _, pk := range p.Lib {
		sp := p.SSA.Package(pk.Types)
		if sp == nil {
			continue
		}
		for _, m := range sp.Members {
			if g, ok := m.(*ssa.Global); ok {
				if g.Name() == "init$guard" || g.Name() == "_" {
					continue
				}
				gs = append(gs, g)
			}
		}
	}
	sort.Slice(gs, func(i, j int) bool { return globalName(gs[i]) < globalName(gs[j]) })
	return gs
}

func ruleINV(p *Prog, r *Report, reach map[*ssa.Function]bool) {
	eff := p.Effects()
	gs := libGlobals(p)
	// writers per global from direct write sites
	type wr struct {
		f    *ssa.Function
		site WSite
		via  bool
	}
	writers := map[*ssa.Global][]wr{}
	for _, f := range p.AllLibFns() {
		for _, s := range eff.direct[f] {
			for rt := range s.Roots {
				if rt.kind == rGlobal && isRepoPath(rt.g.Pkg.Pkg.Path()) {
					writers[rt.g] = append(writers[rt.g], wr{f, s, rt.via})
				}
			}
		}
	}
	classCount := map[string]int{}
	for _, g := range gs {
		elem := g.Type().(*types.Pointer).Elem()
		cls := classifyGlobalType(elem)
		key := globalName(g)
		at := p.posStr(g.Pos())
		var nonInit []wr
		for _, w := range writers[g] {
			if isInitFn(w.f) {
				continue
			}
			nonInit = append(nonInit, w)
		}
		switch cls {
		case "sync":
			// only method calls on &g, plus field stores inside the initialiser
			bad := ""
			for _, f := range p.AllLibFns() {
				eachInstr(f, func(_ *ssa.BasicBlock, _ int, in ssa.Instruction) {
					var ops []*ssa.Value
					uses := false
					for _, op := range in.Operands(ops) {
						if *op == ssa.Value(g) {
							uses = true
						}
					}
					if !uses {
						return
					}
					switch x := in.(type) {
					case ssa.CallInstruction:
						c := x.Common()
						if sc := c.StaticCallee(); sc != nil && sc.Pkg != nil && sc.Pkg.Pkg.Path() == "sync" && len(c.Args) > 0 && c.Args[0] == ssa.Value(g) {
							return
						}
						bad = fmt.Sprintf("%s passes %s to %s", fnName(f), key, calleeName(c))
					case *ssa.FieldAddr:
						if isInitFn(f) {
							return
						}
						bad = fmt.Sprintf("%s accesses a field of %s directly", fnName(f), key)
					case *ssa.Store:
						if isInitFn(f) {
							return
						}
						bad = fmt.Sprintf("%s overwrites %s", fnName(f), key)
					default:
						if u, ok := in.(*ssa.UnOp); ok && u.Op == token.MUL {
							bad = fmt.Sprintf("%s copies %s by value", fnName(f), key)
							return
						}
						bad = fmt.Sprintf("%s uses %s in %T", fnName(f), key, in)
					}
				})
			}
			if bad != "" {
				r.Bad("INV", key, at, "synchronised type misused: "+bad)
			} else {
				r.OK("INV", key, at, "synchronised type "+typeStr(elem)+", method calls only")
				classCount["synchronised"]++
			}
			continue
		case "error":
			own := 0
			for _, w := range nonInit {
				if !w.via {
					own++
				}
			}
			if own > 0 {
				r.Bad("INV", key, at, fmt.Sprintf("error variable reassigned outside init by %s", fnName(nonInit[0].f)))
			} else {
				r.OK("INV", key, at, "error value, never reassigned")
				classCount["immutable"]++
			}
			continue
		}
		// logger and data
		if len(nonInit) == 0 {
			r.OK("INV", key, at, "immutable: no store, map update, element store or mutating callee outside init")
			classCount["immutable"]++
			continue
		}
		// writers exist outside init: on entry-point paths?
		var onPath []wr
		for _, w := range nonInit {
			if reach[w.f] {
				onPath = append(onPath, w)
			}
		}
		if cls == "logger" {
			// writes through the logger (the writer it wraps) are the trusted base; own-storage writes
			// must not be on entry-point paths
			var own []wr
			for _, w := range onPath {
				if !w.via {
					own = append(own, w)
				}
			}
			if len(own) > 0 {
				r.Bad("INV", key, at, fmt.Sprintf("logger variable assigned on a decode/hash path by %s at %s", fnName(own[0].f), p.posStr(instrPos(own[0].site.In))))
			} else {
				r.OK("INV", key, at, "configuration: zerolog.Logger assigned only by setters / initialisers")
				classCount["configuration"]++
			}
			continue
		}
		if len(onPath) == 0 {
			// configuration: written only by exported setters or init, or exported variable
			names := map[string]bool{}
			for _, w := range nonInit {
				names[fnName(w.f)] = true
			}
			var ns []string
			for n := range names {
				ns = append(ns, n)
			}
			sort.Strings(ns)
			r.OK("INV", key, at, "configuration: written only outside decode/hash paths by "+strings.Join(ns, ","))
			classCount["configuration"]++
			continue
		}
		// written on an entry-point path: must be lock guarded
		mu, detail := lockGuard(p, r, g)
		if mu == nil {
			w := onPath[0]
			r.Add(Ob{Rule: "INV", Key: key, At: at, Verdict: Violation,
				Detail: fmt.Sprintf("package-level variable written on a decode/hash path without a must-held lock: %s (%s at %s); %s", fnName(w.f), w.site.What, p.posStr(instrPos(w.site.In)), detail)})
			continue
		}
		r.OK("INV", key, at, "lock-guarded by "+globalName(mu))
		classCount["lock-guarded"]++
	}
	r.Extra("inventory_classes", classCount)
}

// ---- LOCK --------------------------------------------------------------------

type lockState map[*ssa.Global]int // 1 = read-held, 2 = write-held

func (s lockState) clone() lockState {
	o := lockState{}
	for k, v := range s {
		o[k] = v
	}
	return o
}

func meet(a, b lockState) lockState {
	o := lockState{}
	for k, v := range a {
		if w, ok := b[k]; ok {
			if w < v {
				v = w
			}
			o[k] = v
		}
	}
	return o
}

func eqState(a, b lockState) bool {
	if len(a) != len(b) {
		return false
	}
	for k, v := range a {
		if b[k] != v {
			return false
		}
	}
	return true
}

// lockOp classifies a call as a lock operation on a package-level mutex.
func lockOp(c *ssa.CallCommon) (mu *ssa.Global, op string) {
	f := c.StaticCallee()
	if f == nil || f.Pkg == nil || f.Pkg.Pkg.Path() != "sync" || len(c.Args) == 0 {
		return nil, ""
	}
	switch f.Name() {
	case "Lock", "RLock", "Unlock", "RUnlock":
	default:
		return nil, ""
	}
	g, _ := c.Args[0].(*ssa.Global)
	if g == nil {
		return nil, f.Name() // a non-global mutex
	}
	return g, f.Name()
}

// heldAt computes, per instruction, the must-held lock state before it. Also returns problems
// (nesting, unlock without lock, lock held at return).
func heldAnalysis(f *ssa.Function) (before map[ssa.Instruction]lockState, problems []string) {
	before = map[ssa.Instruction]lockState{}
	in := map[*ssa.BasicBlock]lockState{}
	out := map[*ssa.BasicBlock]lockState{}
	deferred := map[*ssa.Global]bool{}
	transfer := func(b *ssa.BasicBlock, st lockState, record bool) lockState {
		st = st.clone()
		for _, ins := range b.Instrs {
			if record {
				before[ins] = st.clone()
			}
			ci, ok := ins.(ssa.CallInstruction)
			if !ok {
				if _, isRet := ins.(*ssa.Return); isRet && record {
					for mu := range st {
						if !deferred[mu] {
							problems = append(problems, fmt.Sprintf("%s returns with %s held", fnName(f), globalName(mu)))
						}
					}
				}
				continue
			}
			mu, op := lockOp(ci.Common())
			if op == "" {
				continue
			}
			if mu == nil {
				if record {
					problems = append(problems, fmt.Sprintf("%s locks a mutex that is not a package-level variable (not modelled)", fnName(f)))
				}
				continue
			}
			if _, isDefer := ins.(*ssa.Defer); isDefer {
				if op == "Unlock" || op == "RUnlock" {
					deferred[mu] = true
				}
				continue
			}
			switch op {
			case "Lock", "RLock":
				if record && len(st) > 0 {
					problems = append(problems, fmt.Sprintf("%s acquires %s while holding another lock (nesting)", fnName(f), globalName(mu)))
				}
				if op == "Lock" {
					st[mu] = 2
				} else {
					st[mu] = 1
				}
			case "Unlock", "RUnlock":
				if record {
					if _, held := st[mu]; !held {
						problems = append(problems, fmt.Sprintf("%s releases %s on a path where it is not must-held", fnName(f), globalName(mu)))
					}
				}
				delete(st, mu)
			}
		}
		return st
	}
	if len(f.Blocks) == 0 {
		return
	}
	visited := map[*ssa.BasicBlock]bool{}
	in[f.Blocks[0]] = lockState{}
	work := []*ssa.BasicBlock{f.Blocks[0]}
	for len(work) > 0 {
		b := work[0]
		work = work[1:]
		st := transfer(b, in[b], false)
		if visited[b] && eqState(out[b], st) {
			continue
		}
		visited[b] = true
		out[b] = st
		for _, s := range b.Succs {
			if prev, ok := in[s]; ok {
				m := meet(prev, st)
				if !eqState(m, prev) || !visited[s] {
					in[s] = m
					work = append(work, s)
				}
			} else {
				in[s] = st.clone()
				work = append(work, s)
			}
		}
	}
	for _, b := range f.Blocks {
		if visited[b] {
			transfer(b, in[b], true)
		}
	}
	return
}

// lockGuard checks that every access to g (own storage, or the reference stored in it) lies inside a
// region where one package-level mutex is must-held; returns that mutex.
func lockGuard(p *Prog, r *Report, g *ssa.Global) (*ssa.Global, string) {
	type access struct {
		f     *ssa.Function
		in    ssa.Instruction
		write bool
	}
	var accs []access
	escape := ""
	for _, f := range p.AllLibFns() {
		if isInitFn(f) {
			continue
		}
		// handles: values equal to the content of g
		handles := map[ssa.Value]bool{}
		for changed := true; changed; {
			changed = false
			eachInstr(f, func(_ *ssa.BasicBlock, _ int, in ssa.Instruction) {
				switch x := in.(type) {
				case *ssa.UnOp:
					if x.Op == token.MUL && x.X == ssa.Value(g) && !handles[x] {
						handles[x] = true
						changed = true
					}
				case *ssa.Phi:
					for _, e := range x.Edges {
						if handles[e] && !handles[x] {
							handles[x] = true
							changed = true
						}
					}
				case *ssa.ChangeType:
					if handles[x.X] && !handles[x] {
						handles[x] = true
						changed = true
					}
				}
			})
		}
		eachInstr(f, func(_ *ssa.BasicBlock, _ int, in ssa.Instruction) {
			switch x := in.(type) {
			case *ssa.UnOp:
				if x.Op == token.MUL && x.X == ssa.Value(g) {
					accs = append(accs, access{f, in, false})
				}
			case *ssa.Store:
				if globalOf(x.Addr) == g {
					accs = append(accs, access{f, in, true})
				}
				if handles[x.Val] {
					escape = fmt.Sprintf("the reference held in %s is stored elsewhere in %s", globalName(g), fnName(f))
				}
			case *ssa.Lookup:
				if handles[x.X] {
					accs = append(accs, access{f, in, false})
				}
			case *ssa.MapUpdate:
				if handles[x.Map] {
					accs = append(accs, access{f, in, true})
				}
			case *ssa.Range:
				if handles[x.X] {
					accs = append(accs, access{f, in, false})
					escape = fmt.Sprintf("%s iterates %s (iteration outside the lock not modelled)", fnName(f), globalName(g))
				}
			case *ssa.IndexAddr:
				if handles[x.X] || globalOf(x.X) == g {
					accs = append(accs, access{f, in, true})
				}
			case *ssa.Slice:
				if handles[x.X] {
					escape = fmt.Sprintf("%s slices %s", fnName(f), globalName(g))
				}
			case *ssa.Return:
				for _, rv := range x.Results {
					if handles[rv] {
						escape = fmt.Sprintf("%s returns the reference held in %s", fnName(f), globalName(g))
					}
				}
			case ssa.CallInstruction:
				c := x.Common()
				for _, a := range c.Args {
					if handles[a] || a == ssa.Value(g) {
						if b, ok := c.Value.(*ssa.Builtin); ok && (b.Name() == "len" || b.Name() == "cap") {
							accs = append(accs, access{f, in, false})
						} else if b, ok := c.Value.(*ssa.Builtin); ok && b.Name() == "delete" {
							accs = append(accs, access{f, in, true})
						} else {
							escape = fmt.Sprintf("%s passes %s to %s", fnName(f), globalName(g), calleeName(c))
						}
					}
				}
			}
		})
	}
	if escape != "" {
		return nil, escape
	}
	var guard *ssa.Global
	first := true
	cache := map[*ssa.Function]map[ssa.Instruction]lockState{}
	probs := map[string]bool{}
	for _, a := range accs {
		h, ok := cache[a.f]
		if !ok {
			var pr []string
			h, pr = heldAnalysis(a.f)
			cache[a.f] = h
			for _, s := range pr {
				probs[s] = true
			}
		}
		st := h[a.in]
		need := 1
		if a.write {
			need = 2
		}
		var okMus []*ssa.Global
		for mu, mode := range st {
			if mode >= need {
				okMus = append(okMus, mu)
			}
		}
		key := fmt.Sprintf("%s | %s | %s", globalName(g), fnName(a.f), accessKind(a.in, a.write))
		if len(okMus) == 0 {
			r.Add(Ob{Rule: "LOCK", Key: key, At: p.posStr(instrPos(a.in)), Verdict: Violation,
				Detail: fmt.Sprintf("access to %s (%s) not inside a region where a package-level mutex is must-held in %s mode", globalName(g), accessKind(a.in, a.write), map[bool]string{false: "read", true: "write"}[a.write])})
			return nil, "unguarded access in " + fnName(a.f)
		}
		r.OK("LOCK", key, p.posStr(instrPos(a.in)), "must-held: "+globalName(okMus[0]))
		if first {
			guard = okMus[0]
			first = false
		} else {
			found := false
			for _, m := range okMus {
				if m == guard {
					found = true
				}
			}
			if !found {
				return nil, "accesses are guarded by different mutexes"
			}
		}
	}
	for s := range probs {
		r.Add(Ob{Rule: "LOCK", Key: "discipline | " + s, Verdict: Violation, Detail: s})
	}
	if len(probs) > 0 {
		return nil, "lock discipline problem"
	}
	if guard != nil {
		for f := range cache {
			r.OK("LOCK", "discipline | "+fnName(f), p.posStr(f.Pos()), "every Lock/RLock released on all paths, no nesting")
		}
	}
	return guard, ""
}

func accessKind(in ssa.Instruction, write bool) string {
	switch in.(type) {
	case *ssa.UnOp:
		return "load"
	case *ssa.Store:
		return "store"
	case *ssa.Lookup:
		return "map read"
	case *ssa.MapUpdate:
		return "map write"
	case *ssa.IndexAddr:
		return "element"
	case *ssa.Range:
		return "range"
	}
	if write {
		return "write"
	}
	return "read"
}

// ---- NOGO ----------------------------------------------------------------------

func ruleNOGO(p *Prog, r *Report, entries []*ssa.Function, reach map[*ssa.Function]bool) {
	bad := map[*ssa.Function]string{}
	n := 0
	for f := range reach {
		if !isLibFn(f) || f.Blocks == nil {
			continue
		}
		n++
		eachInstr(f, func(_ *ssa.BasicBlock, _ int, in ssa.Instruction) {
			switch x := in.(type) {
			case *ssa.Go:
				bad[f] = "go statement at " + p.posStr(instrPos(in))
			case *ssa.Send, *ssa.Select, *ssa.MakeChan:
				bad[f] = fmt.Sprintf("channel operation %T at %s", in, p.posStr(instrPos(in)))
			case *ssa.UnOp:
				if x.Op == token.ARROW {
					bad[f] = "channel receive at " + p.posStr(instrPos(in))
				}
			case ssa.CallInstruction:
				if isCallTo(x.Common(), "time.Sleep", "(*sync.WaitGroup).Add", "(*sync.WaitGroup).Wait", "(*sync.WaitGroup).Done") {
					bad[f] = calleeName(x.Common()) + " at " + p.posStr(instrPos(in))
				}
			}
		})
	}
	r.Extra("nogo_functions_scanned", n)
	for _, e := range entries {
		er := p.Reach([]*ssa.Function{e})
		found := false
		var names []string
		for f := range bad {
			if er[f] {
				names = append(names, fnName(f))
			}
		}
		sort.Strings(names)
		for _, nm := range names {
			for f, d := range bad {
				if fnName(f) == nm {
					r.Add(Ob{Rule: "NOGO", Key: fnName(e) + " | " + nm, At: p.posStr(f.Pos()), Verdict: Violation,
						Detail: "concurrency construct reachable from entry point: " + d})
					found = true
				}
			}
		}
		if !found {
			r.OK("NOGO", fnName(e), p.posStr(e.Pos()), fmt.Sprintf("no go/chan/WaitGroup/Sleep in %d reachable library functions", countLib(er)))
		}
	}
}

func countLib(m map[*ssa.Function]bool) int {
	n := 0
	for f := range m {
		if isLibFn(f) && f.Blocks != nil {
			n++
		}
	}
	return n
}
