package main

// E9: obligations, verdicts, known findings, reviewed table, evidence, replay files.

import (
	"encoding/json"
	"fmt"
	"os"
	"path/filepath"
	"sort"
	"strings"
	"time"
)

type Verdict string

const (
	Discharged Verdict = "discharged"
	Known      Verdict = "known-finding"
	Reviewed   Verdict = "reviewed"
	Violation  Verdict = "violation"
	Undecided  Verdict = "undecided" // violation-class
)

// Ob is one obligation = (rule, construct key) with its verdict.
type Ob struct {
	Rule    string   `json:"rule"`
	Key     string   `json:"key"`
	At      string   `json:"at"` // file:line:col (informational, never part of the key)
	Verdict Verdict  `json:"verdict"`
	By      string   `json:"by,omitempty"`     // how it was discharged / why it fails
	Detail  string   `json:"detail,omitempty"` // missing fact, path, call chain
	Sites   int      `json:"sites,omitempty"`  // number of source sites folded into this key
	Path    []string `json:"path,omitempty"`
}

type KnownFinding struct {
	Property string `json:"property"`
	Rule     string `json:"rule"`
	Key      string `json:"key"`
	What     string `json:"what"`             // what fails (failing input / call site)
	Status   string `json:"status,omitempty"` // "" = open finding; "fixed" = repaired, suppresses nothing
	Commit   string `json:"commit,omitempty"`
}

type ReviewedEntry struct {
	Rule   string `json:"rule"`
	Key    string `json:"key"`
	Reason string `json:"reason"`
}

type RuleStat struct {
	Instances  int `json:"instances"`
	Discharged int `json:"discharged"`
	Known      int `json:"known"`
	Reviewed   int `json:"reviewed"`
	Violations int `json:"violations"`
}

type Report struct {
	Prop     string
	Tier     string
	Seed     int64
	start    time.Time
	obs      []*Ob
	floors   map[string]int // rule -> minimum instance count
	notes    []string
	assume   []string
	trusted  []string
	explain  []string
	extra    map[string]any
	known    []KnownFinding
	reviewed []ReviewedEntry
	verifDir string
	fatal    []string
}

func verifRoot() string {
	if d := os.Getenv("IMVERIF_ROOT"); d != "" {
		return d
	}
	exe, err := os.Executable()
	if err == nil {
		d := filepath.Dir(filepath.Dir(exe))
		if _, err := os.Stat(filepath.Join(d, "properties.jsonl")); err == nil {
			return d
		}
	}
	wd, _ := os.Getwd()
	for d := wd; d != "/" && d != "."; d = filepath.Dir(d) {
		if _, err := os.Stat(filepath.Join(d, "properties.jsonl")); err == nil {
			return d
		}
	}
	return "/verif"
}

func newReport(prop, tier string) *Report {
	r := &Report{Prop: prop, Tier: tier, start: time.Now(), floors: map[string]int{}, extra: map[string]any{}}
	r.verifDir = verifRoot()
	if s := os.Getenv("VERIF_SEED"); s != "" {
		fmt.Sscan(s, &r.Seed)
	}
	// known findings
	if b, err := os.ReadFile(filepath.Join(r.verifDir, "known_findings.json")); err == nil {
		var kf struct {
			Findings []KnownFinding `json:"findings"`
		}
		if err := json.Unmarshal(b, &kf); err != nil {
			r.Fatal("known_findings.json does not parse: " + err.Error())
		}
		r.known = kf.Findings
	}
	if b, err := os.ReadFile(filepath.Join(r.verifDir, "tables", "reviewed.json")); err == nil {
		var rv struct {
			Reviewed []ReviewedEntry `json:"reviewed"`
		}
		if err := json.Unmarshal(b, &rv); err != nil {
			r.Fatal("tables/reviewed.json does not parse: " + err.Error())
		}
		r.reviewed = rv.Reviewed
	}
	return r
}

func (r *Report) Fatal(msg string)           { r.fatal = append(r.fatal, msg) }
func (r *Report) Note(f string, a ...any)    { r.notes = append(r.notes, fmt.Sprintf(f, a...)) }
func (r *Report) Assume(s ...string)         { r.assume = append(r.assume, s...) }
func (r *Report) Trusted(s ...string)        { r.trusted = append(r.trusted, s...) }
func (r *Report) Explain(f string, a ...any) { r.explain = append(r.explain, fmt.Sprintf(f, a...)) }
func (r *Report) Floor(rule string, n int)   { r.floors[rule] = n }
func (r *Report) Extra(k string, v any)      { r.extra[k] = v }

// Add records an obligation. Obligations with the same (rule,key) are merged:
// the worst verdict wins and Sites is summed.
func (r *Report) Add(o Ob) *Ob {
	if o.Sites == 0 {
		o.Sites = 1
	}
	for _, e := range r.obs {
		if e.Rule == o.Rule && e.Key == o.Key {
			e.Sites += o.Sites
			if rank(o.Verdict) > rank(e.Verdict) {
				e.Verdict, e.By, e.Detail, e.At, e.Path = o.Verdict, o.By, o.Detail, o.At, o.Path
			}
			return e
		}
	}
	c := o
	r.obs = append(r.obs, &c)
	return &c
}

func rank(v Verdict) int {
	switch v {
	case Discharged:
		return 0
	case Reviewed:
		return 1
	case Known:
		return 2
	case Violation:
		return 3
	case Undecided:
		return 4
	}
	return 5
}

// Discharge turns the violations of one rule whose key starts with prefix into discharged obligations
// (used when a stronger, function-level argument covers what the per-site prover could not show).
func (r *Report) Discharge(rule, prefix, by string) int {
	n := 0
	for _, o := range r.obs {
		if o.Rule == rule && o.Verdict == Violation && strings.HasPrefix(o.Key, prefix) {
			o.Verdict, o.By, o.Detail = Discharged, by, ""
			n++
		}
	}
	return n
}

// OK / Bad are shorthands.
func (r *Report) OK(rule, key, at, by string) {
	r.Add(Ob{Rule: rule, Key: key, At: at, Verdict: Discharged, By: by})
}
func (r *Report) Bad(rule, key, at, detail string) {
	r.Add(Ob{Rule: rule, Key: key, At: at, Verdict: Violation, Detail: detail})
}
func (r *Report) Undecided(rule, key, at, detail string) {
	r.Add(Ob{Rule: rule, Key: key, At: at, Verdict: Undecided, Detail: detail})
}

// finish applies the known-findings and reviewed tables, prints lines, writes evidence, returns exit code.
func (r *Report) finish() int {
	stats := map[string]*RuleStat{}
	st := func(rule string) *RuleStat {
		if stats[rule] == nil {
			stats[rule] = &RuleStat{}
		}
		return stats[rule]
	}
	sort.SliceStable(r.obs, func(i, j int) bool {
		if r.obs[i].Rule != r.obs[j].Rule {
			return r.obs[i].Rule < r.obs[j].Rule
		}
		return r.obs[i].Key < r.obs[j].Key
	})
	usedKnown := map[int]bool{}
	var viol []*Ob
	for _, o := range r.obs {
		s := st(o.Rule)
		s.Instances++
		if o.Verdict == Violation {
			// reviewed?
			for _, rv := range r.reviewed {
				if rv.Rule == o.Rule && rv.Key == o.Key {
					o.Verdict, o.By = Reviewed, rv.Reason
				}
			}
		}
		if o.Verdict == Violation {
			for i, k := range r.known {
				if k.Property == r.Prop && k.Rule == o.Rule && k.Key == o.Key && k.Status != "fixed" {
					o.Verdict = Known
					o.By = k.What
					usedKnown[i] = true
				}
			}
		}
		switch o.Verdict {
		case Discharged:
			s.Discharged++
		case Known:
			s.Known++
		case Reviewed:
			s.Reviewed++
		default:
			s.Violations++
			viol = append(viol, o)
		}
	}
	// floors
	for rule, n := range r.floors {
		if st(rule).Instances < n {
			r.Fatal(fmt.Sprintf("rule %s matched %d instances, floor is %d (anchor lost or rule vacuous)", rule, st(rule).Instances, n))
		}
	}
	// known findings that no longer match anything: report as note (stale), never fail
	for i, k := range r.known {
		if k.Property == r.Prop && k.Status != "fixed" && !usedKnown[i] {
			r.Note("stale known finding (no longer reported by %s): %s", k.Rule, k.Key)
		}
	}
	// print
	for _, o := range r.obs {
		if o.Verdict == Known {
			fmt.Printf("KNOWN-FINDING: property=%s rule=%s %s — %s [%s]\n", r.Prop, o.Rule, o.Key, o.By, o.At)
		}
	}
	evDir := filepath.Join(r.verifDir, "evidence")
	if d := os.Getenv("IMVERIF_EVIDENCE"); d != "" {
		evDir = d // scratch runs against variants must not overwrite the evidence of /repo
	}
	vdir := filepath.Join(evDir, "violations")
	// clear old replay files of this property
	if ents, err := os.ReadDir(vdir); err == nil {
		for _, e := range ents {
			if strings.HasPrefix(e.Name(), r.Prop+"-") {
				os.Remove(filepath.Join(vdir, e.Name()))
			}
		}
	}
	nviol := 0
	writeReplay := func(o *Ob) string {
		os.MkdirAll(vdir, 0o755)
		nviol++
		path := filepath.Join(vdir, fmt.Sprintf("%s-%d.json", r.Prop, nviol))
		b, _ := json.MarshalIndent(map[string]any{"property": r.Prop, "rule": o.Rule, "key": o.Key, "at": o.At,
			"verdict": o.Verdict, "detail": o.Detail, "path": o.Path}, "", " ")
		os.WriteFile(path, b, 0o644)
		return path
	}
	for _, o := range viol {
		path := writeReplay(o)
		fmt.Printf("VIOLATION property=%s replay=%s\n", r.Prop, path)
		fmt.Printf("  rule=%s verdict=%s key=%s at=%s\n  %s\n", o.Rule, o.Verdict, o.Key, o.At, o.Detail)
	}
	for _, f := range r.fatal {
		o := &Ob{Rule: "CHECKER", Key: "fatal", Verdict: Undecided, Detail: f}
		path := writeReplay(o)
		fmt.Printf("VIOLATION property=%s replay=%s\n  checker failure (treated as violation): %s\n", r.Prop, path, f)
	}
	// evidence
	total, disch := 0, 0
	rs := map[string]RuleStat{}
	var ruleNames []string
	for k, v := range stats {
		rs[k] = *v
		total += v.Instances
		disch += v.Discharged + v.Reviewed
		ruleNames = append(ruleNames, k)
	}
	sort.Strings(ruleNames)
	// samples: up to 25, spread over rules, prefer non-discharged first
	var samples []*Ob
	for _, o := range r.obs {
		if o.Verdict != Discharged {
			samples = append(samples, o)
		}
	}
	perRule := map[string]int{}
	for _, o := range r.obs {
		if o.Verdict == Discharged && perRule[o.Rule] < 4 {
			perRule[o.Rule]++
			samples = append(samples, o)
		}
	}
	if len(samples) > 40 {
		samples = samples[:40]
	}
	cov := map[string]any{
		"explanation": strings.Join(r.explain, " "),
		"exhaustive":  true,
		"rules":       rs,
		"obligations": total,
		"discharged":  disch,
		"known_findings": func() int {
			n := 0
			for _, v := range stats {
				n += v.Known
			}
			return n
		}(),
		"samples":      samples,
		"trusted_base": r.trusted,
		"notes":        r.notes,
		"checker_cmd":  fmt.Sprintf("bin/imverif check %s --tier %s", r.Prop, r.Tier),
		"violation_keys": func() []string {
			var ks []string
			for _, o := range viol {
				ks = append(ks, o.Rule+" | "+o.Key)
			}
			for _, f := range r.fatal {
				ks = append(ks, "CHECKER | "+f)
			}
			return ks
		}(),
	}
	for k, v := range r.extra {
		cov[k] = v
	}
	ev := map[string]any{
		"property_id": r.Prop,
		"tier":        r.Tier,
		"seed":        r.Seed,
		"level":       "other",
		"coverage":    cov,
		"assumptions": r.assume,
		"wall_s":      time.Since(r.start).Seconds(),
		"violations":  len(viol) + len(r.fatal),
	}
	b, _ := json.MarshalIndent(ev, "", " ")
	os.MkdirAll(evDir, 0o755)
	if err := os.WriteFile(filepath.Join(evDir, r.Prop+".json"), b, 0o644); err != nil {
		fmt.Println("cannot write evidence:", err)
		return 2
	}
	// summary
	fmt.Printf("%s [%s]: %d obligations over %d rules: ", r.Prop, r.Tier, total, len(ruleNames))
	for _, n := range ruleNames {
		s := rs[n]
		fmt.Printf("%s=%d/%d", n, s.Discharged+s.Reviewed, s.Instances)
		if s.Known > 0 {
			fmt.Printf("(known %d)", s.Known)
		}
		if s.Violations > 0 {
			fmt.Printf("(VIOL %d)", s.Violations)
		}
		fmt.Print(" ")
	}
	fmt.Printf("wall=%.1fs\n", time.Since(r.start).Seconds())
	if len(viol)+len(r.fatal) > 0 {
		return 1
	}
	return 0
}
