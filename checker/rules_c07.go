package main

// C07 — byte order is transparent: BO-SRC, BO-BRANCH, BO-WHOLE, BO-PAIR, BO-SYM.

import (
	"fmt"
	"go/token"
	"go/types"
	"strings"

	"golang.org/x/tools/go/ssa"
)

func init() { register("C07", true, checkC07) }

func isByteOrderType(t types.Type) bool {
	n, ok := t.(*types.Named)
	return ok && n.Obj().Name() == "ByteOrder" && n.Obj().Pkg() != nil && relPkg(n.Obj().Pkg().Path()) == "meta/utils"
}

// payloadPkgs: packages that decode Exif payload bytes (endianness given by the payload's own TIFF header).
func payloadPkg(rel string) bool {
	return rel == "exif2" || strings.HasPrefix(rel, "exif2/") || rel == "tiff"
}

func checkC07(p *Prog, r *Report) {
	r.Explain("Byte order enters the Exif decoders in exactly one way — a utils.ByteOrder value taken from the payload's TIFF header — and the rules decide that nothing else can make a result depend on it. BO-SRC: the payload packages (exif2 and its sub-packages, tiff) never name encoding/binary's byte orders; every call of a utils.ByteOrder method in the library has a receiver that flows from a ByteOrder field (Tag, Ifd, ExifHeader), a BinaryOrder result or a parameter — never a constant; every NewTag/NewIFD passes such an order. BO-BRANCH: outside meta/utils no utils.ByteOrder value is compared with BigEndian or LittleEndian (only the validity test against UnknownEndian is allowed), so no code path is chosen by the order. BO-WHOLE: the result of an order-aware read (Uint16/32/64) and the raw offset slot Tag.ValueOffset are never shifted or masked in the payload packages — splitting a value by hand is only right for one order. BO-PAIR: where Tag.EmbeddedValue re-serialises the offset slot into the scratch buffer, every order-aware read of that buffer in the same function uses the same tag's order. BO-NEST: where the payload decoder parses a nested TIFF header (utils.BinaryOrder on a window of a value, as in the Nikon maker note), every directory read under the `order != UnknownEndian` test is a NewIFD built with exactly that order — not with the order of the enclosing block. HDRFLOW (shared with C06): every ExifHeader passed on or returned is constructed for the payload at hand on every flow path, so the order a directory is decoded with is the one its own TIFF header states, not one remembered from another block. BO-SYM: in meta/utils each ByteOrder method calls the same-named method of binary.BigEndian exactly when the receiver is BigEndian and binary.LittleEndian otherwise, and BinaryOrder maps \"MM\\0*\"/\"II*\\0\" to BigEndian/LittleEndian. Equality of decoded values across the two orders is then a consequence; it is not computed.")
	r.Trusted("encoding/binary's two byte orders", "TIFF 6.0: II = little-endian, MM = big-endian")
	ruleHdrFlow(p, r)
	r.Floor("HDRFLOW", 8)
	nSrc, nCalls := 0, 0
	decomp := decomposingParams(p)
	for _, f := range p.AllLibFns() {
		rel := ""
		g := f
		for g.Parent() != nil {
			g = g.Parent()
		}
		if g.Pkg != nil {
			rel = relPkg(g.Pkg.Pkg.Path())
		}
		inPayload := payloadPkg(rel)
		eachInstr(f, func(b *ssa.BasicBlock, _ int, in ssa.Instruction) {
			at := p.posStr(instrPos(in))
			// BO-SRC (a): encoding/binary orders named in payload packages
			if inPayload {
				var ops []*ssa.Value
				for _, op := range in.Operands(ops) {
					if gl, ok := (*op).(*ssa.Global); ok && gl.Pkg != nil && gl.Pkg.Pkg.Path() == "encoding/binary" && (gl.Name() == "BigEndian" || gl.Name() == "LittleEndian") {
						nSrc++
						r.Bad("BO-SRC", fmt.Sprintf("%s | binary.%s", fnName(f), gl.Name()), at, "a fixed byte order is used on Exif payload bytes: the other order decodes to different values")
					}
				}
			}
			switch x := in.(type) {
			case *ssa.Call:
				sc := x.Call.StaticCallee()
				if sc == nil {
					return
				}
				// BO-WHOLE across a call: an order-read value handed to a parameter the callee takes apart
				if inPayload || rel == "meta/utils" {
					for ai, a := range x.Call.Args {
						if src := orderedSource(a, 0); src != "" && decomp[sc] != nil && decomp[sc][ai] != "" {
							r.Bad("BO-WHOLE", fmt.Sprintf("%s | %s passed to %s, which takes it apart (%s)", fnName(f), src, fnName(sc), decomp[sc][ai]), at, "a value read with the payload's byte order (or the raw offset slot) is taken apart with shifts/masks/truncation in the callee: that is only right for one of the two orders")
						}
					}
				}
				// calls of ByteOrder methods
				if sc.Signature.Recv() != nil && isByteOrderType(sc.Signature.Recv().Type()) && rel != "meta/utils" {
					m := sc.Name()
					if strings.HasPrefix(m, "Uint") || strings.HasPrefix(m, "PutUint") {
						nCalls++
						key := fmt.Sprintf("%s | ByteOrder.%s on %s", fnName(f), m, shortVal(x.Call.Args[0]))
						if why := orderProvenance(x.Call.Args[0], 0); why != "" {
							r.Bad("BO-SRC", key, at, "the byte order used here is "+why+", not the payload's own")
						} else {
							r.OK("BO-SRC", key, at, "order flows from a ByteOrder field, BinaryOrder or a parameter")
						}
					}
				}
				// constructors that carry an order
				switch fnName(sc) {
				case "exif2.NewTag", "exif2/ifds.NewIFD":
					for _, a := range x.Call.Args {
						if isByteOrderType(a.Type()) {
							nCalls++
							key := fmt.Sprintf("%s | %s(order = %s)", fnName(f), sc.Name(), shortVal(a))
							if why := orderProvenance(a, 0); why != "" {
								r.Bad("BO-SRC", key, at, "constructed with "+why+" as byte order")
							} else {
								r.OK("BO-SRC", key, at, "order flows from the payload")
							}
						}
					}
				}
			case *ssa.Convert:
				// BO-WHOLE: truncation to a narrower integer keeps the low bytes only
				if (inPayload || rel == "meta/utils") && narrowing(x) {
					if src := orderedSource(x.X, 0); src != "" && src == "Tag.ValueOffset" {
						r.Bad("BO-WHOLE", fmt.Sprintf("%s | truncation of %s to %s", fnName(f), src, x.Type()), at, "the raw offset slot is cut down to its low bytes: an embedded value sits in different bytes of the slot per byte order")
					}
				}
			case *ssa.BinOp:
				// BO-BRANCH
				if (x.Op == token.EQL || x.Op == token.NEQ) && rel != "meta/utils" && (isByteOrderType(x.X.Type()) || isByteOrderType(x.Y.Type())) {
					var k int64 = -1
					if c, ok := constInt(x.Y); ok {
						k = c
					} else if c, ok := constInt(x.X); ok {
						k = c
					}
					key := fmt.Sprintf("%s | compare ByteOrder with %d", fnName(f), k)
					if k == 0 {
						r.OK("BO-BRANCH", key, at, "validity test against UnknownEndian")
					} else {
						r.Bad("BO-BRANCH", key, at, "code outside meta/utils branches on which byte order a payload uses: the two orders take different paths")
					}
				}
				// BO-WHOLE
				if (inPayload || rel == "meta/utils") && (x.Op == token.SHR || x.Op == token.SHL || x.Op == token.AND) {
					// a signature recogniser of meta/utils has no order to respect: it reads with the one order it tests for, and
					// BO-SYM decides its accept set byte by byte (a word compare split by shifts is an exact test there)
					fixedOrderRecogniser := false
					if rel == "meta/utils" {
						fixedOrderRecogniser = true
						if rc := f.Signature.Recv(); rc != nil && isByteOrderType(rc.Type()) {
							fixedOrderRecogniser = false
						}
						for i := 0; i < f.Signature.Params().Len(); i++ {
							if isByteOrderType(f.Signature.Params().At(i).Type()) {
								fixedOrderRecogniser = false
							}
						}
					}
					if src := orderedSource(x.X, 0); src != "" && !(fixedOrderRecogniser && src != "Tag.ValueOffset") {
						r.Bad("BO-WHOLE", fmt.Sprintf("%s | %s on %s", fnName(f), x.Op, src), at, "a value read with the payload's byte order (or the raw offset slot) is taken apart with shifts/masks: that is only right for one of the two orders")
					}
				}
			}
		})
	}
	r.Extra("byteorder_call_sites", nCalls)
	if nCalls < 20 {
		r.Fatal(fmt.Sprintf("only %d order-aware call sites found (anchor lost)", nCalls))
	}
	r.OK("BO-SRC", "payload packages | no fixed encoding/binary order", "-", "exif2/*, tiff scanned")
	r.OK("BO-WHOLE", "payload packages | no shift or mask on order-read values", "-", "exif2/*, tiff scanned")
	r.OK("BO-BRANCH", "library | no branch on Big/LittleEndian outside meta/utils", "-", "all library functions scanned")
	ruleBOPair(p, r)
	ruleBONest(p, r)
	ruleBOSym(p, r)
	ruleStreamPos(p, r)
	r.Floor("STREAMPOS", 1)
	r.Floor("BO-SRC", 20)
	r.Floor("BO-PAIR", 4)
	r.Floor("BO-SYM", 6)
}

// orderProvenance: "" if v flows from a ByteOrder field / BinaryOrder / parameter; else a description.
func orderProvenance(v ssa.Value, depth int) string {
	if depth > 8 {
		return "of unknown origin"
	}
	switch x := v.(type) {
	case *ssa.Const:
		return fmt.Sprintf("the constant %s", x.Value)
	case *ssa.Parameter, *ssa.FreeVar:
		return ""
	case *ssa.Field:
		return ""
	case *ssa.UnOp:
		if x.Op == token.MUL {
			return "" // load of a field / local holding an order
		}
	case *ssa.Call:
		if sc := x.Call.StaticCallee(); sc != nil && fnName(sc) == "meta/utils.BinaryOrder" {
			return ""
		}
		return "the result of " + shortCallee(&x.Call)
	case *ssa.Phi:
		for _, e := range x.Edges {
			if w := orderProvenance(e, depth+1); w != "" {
				return w
			}
		}
		return ""
	case *ssa.ChangeType:
		return orderProvenance(x.X, depth+1)
	case *ssa.Extract:
		return ""
	}
	return "of unknown origin (" + shortVal(v) + ")"
}

// narrowing: an integer conversion to a type of smaller size.
func narrowing(c *ssa.Convert) bool {
	from, ok1 := c.X.Type().Underlying().(*types.Basic)
	to, ok2 := c.Type().Underlying().(*types.Basic)
	if !ok1 || !ok2 || from.Info()&types.IsInteger == 0 || to.Info()&types.IsInteger == 0 {
		return false
	}
	sz := func(b *types.Basic) int {
		switch b.Kind() {
		case types.Int8, types.Uint8:
			return 1
		case types.Int16, types.Uint16:
			return 2
		case types.Int32, types.Uint32:
			return 4
		}
		return 8
	}
	return sz(to) < sz(from)
}

// decomposingParams: for every library function, the integer parameters that the function (or a callee it hands them
// to) shifts, masks or truncates — param index → what is done. Fixpoint over the call graph's static edges.
func decomposingParams(p *Prog) map[*ssa.Function]map[int]string {
	out := map[*ssa.Function]map[int]string{}
	var fromParamD func(f *ssa.Function, v ssa.Value, depth int, seen map[ssa.Value]bool) int
	fromParamD = func(f *ssa.Function, v ssa.Value, depth int, seen map[ssa.Value]bool) int {
		if depth > 10 || seen[v] {
			return -1
		}
		seen[v] = true
		switch x := v.(type) {
		case *ssa.Parameter:
			for i, q := range f.Params {
				if q == x {
					return i
				}
			}
		case *ssa.Convert:
			if !narrowing(x) {
				return fromParamD(f, x.X, depth+1, seen)
			}
		case *ssa.ChangeType:
			return fromParamD(f, x.X, depth+1, seen)
		case *ssa.Phi:
			// a loop variable that starts as the parameter (v = param; …; v >>= 8)
			for _, e := range x.Edges {
				if i := fromParamD(f, e, depth+1, seen); i >= 0 {
					return i
				}
			}
		case *ssa.BinOp:
			// the remainder of a value that is being taken apart
			if x.Op == token.SHR || x.Op == token.SHL || x.Op == token.AND {
				return fromParamD(f, x.X, depth+1, seen)
			}
		}
		return -1
	}
	fromParam := func(f *ssa.Function, v ssa.Value) int {
		return fromParamD(f, v, 0, map[ssa.Value]bool{})
	}
	set := func(f *ssa.Function, i int, why string) bool {
		if i < 0 || !isIntType(f.Params[i].Type()) {
			return false
		}
		if out[f] == nil {
			out[f] = map[int]string{}
		}
		if out[f][i] != "" {
			return false
		}
		out[f][i] = why
		return true
	}
	for changed, round := true, 0; changed && round < 8; round++ {
		changed = false
		for _, f := range p.AllLibFns() {
			eachInstr(f, func(_ *ssa.BasicBlock, _ int, in ssa.Instruction) {
				switch x := in.(type) {
				case *ssa.BinOp:
					if x.Op == token.SHR || x.Op == token.SHL || x.Op == token.AND {
						if set(f, fromParam(f, x.X), x.Op.String()+" in "+fnName(f)) {
							changed = true
						}
					}
				case *ssa.Convert:
					if narrowing(x) {
						if set(f, fromParam(f, x.X), "truncation to "+x.Type().String()+" in "+fnName(f)) {
							changed = true
						}
					}
				case *ssa.Call:
					if sc := x.Call.StaticCallee(); sc != nil && out[sc] != nil {
						for ai, a := range x.Call.Args {
							if why := out[sc][ai]; why != "" {
								if set(f, fromParam(f, a), why) {
									changed = true
								}
							}
						}
					}
				}
			})
		}
	}
	return out
}

// orderedSource: v derives (through conversions) from a ByteOrder.UintN result or a load of Tag.ValueOffset.
func orderedSource(v ssa.Value, depth int) string {
	if depth > 4 {
		return ""
	}
	switch x := v.(type) {
	case *ssa.Convert:
		return orderedSource(x.X, depth+1)
	case *ssa.ChangeType:
		return orderedSource(x.X, depth+1)
	case *ssa.Call:
		if sc := x.Call.StaticCallee(); sc != nil && sc.Signature.Recv() != nil && isByteOrderType(sc.Signature.Recv().Type()) && strings.HasPrefix(sc.Name(), "Uint") && sc.Name() != "Uint8" {
			return "ByteOrder." + sc.Name() + "(…)"
		}
		if sc := x.Call.StaticCallee(); sc != nil && sc.Pkg != nil && sc.Pkg.Pkg.Path() == "encoding/binary" && strings.HasPrefix(sc.Name(), "Uint") {
			return "binary." + sc.Name() + "(…)"
		}
	case *ssa.Phi:
		for _, e := range x.Edges {
			if s := orderedSource(e, depth+1); s != "" {
				return s
			}
		}
	case *ssa.UnOp:
		if x.Op == token.MUL {
			if fa, ok := x.X.(*ssa.FieldAddr); ok && fieldName(fa.X.Type(), fa.Field) == "ValueOffset" {
				return "Tag.ValueOffset"
			}
		}
	case *ssa.Field:
		if fieldNameV(x.X.Type(), x.Field) == "ValueOffset" {
			return "Tag.ValueOffset"
		}
	}
	return ""
}

// ruleBOPair: in every function that calls (Tag).EmbeddedValue(w) — w a window of the scratch array — every
// ByteOrder read whose argument is a window of the same array uses the ByteOrder field of the same Tag value.
func ruleBOPair(p *Prog, r *Report) {
	emb := p.Func("exif2", "Tag", "EmbeddedValue")
	if emb == nil {
		r.Undecided("BO-PAIR", "exif2.(Tag).EmbeddedValue", "-", "anchor not resolved")
		return
	}
	// EmbeddedValue itself: writes ValueOffset with the tag's own order
	ok := false
	eachCall(emb, func(site ssa.CallInstruction) {
		sc := site.Common().StaticCallee()
		if sc != nil && sc.Name() == "PutUint32" && sc.Signature.Recv() != nil && isByteOrderType(sc.Signature.Recv().Type()) {
			a := site.Common().Args
			if tagFieldOf(a[0], "ByteOrder") != nil && tagFieldOf(a[2], "ValueOffset") != nil && tagFieldOf(a[0], "ByteOrder") == tagFieldOf(a[2], "ValueOffset") {
				ok = true
			}
		}
	})
	if ok {
		r.OK("BO-PAIR", "exif2.(Tag).EmbeddedValue | t.ByteOrder.PutUint32(buf, t.ValueOffset)", p.posStr(emb.Pos()), "re-serialises the offset slot with the tag's own order")
	} else {
		r.Bad("BO-PAIR", "exif2.(Tag).EmbeddedValue | t.ByteOrder.PutUint32(buf, t.ValueOffset)", p.posStr(emb.Pos()), "the offset slot is not written back with the order it was read with")
	}
	for _, site := range p.Callers(emb) {
		f := site.Parent()
		if !isLibFn(f) {
			continue
		}
		tagV := site.Common().Args[0]
		key := fmt.Sprintf("%s | reads after EmbeddedValue use the same tag's order", fnName(f))
		at := p.posStr(instrPos(site))
		bad := ""
		eachCall(f, func(s2 ssa.CallInstruction) {
			sc := s2.Common().StaticCallee()
			if sc == nil || sc.Signature.Recv() == nil || !isByteOrderType(sc.Signature.Recv().Type()) || !strings.HasPrefix(sc.Name(), "Uint") {
				return
			}
			// buffer argument is a window of a pooled scratch array?
			sl, ok := s2.Common().Args[1].(*ssa.Slice)
			if !ok {
				return
			}
			if _, isFA := sl.X.(*ssa.FieldAddr); !isFA {
				return
			}
			recv := s2.Common().Args[0]
			root := tagFieldOf(recv, "ByteOrder")
			if root == nil || !sameTag(root, tagV) {
				bad = fmt.Sprintf("%s at %s reads the re-serialised slot with %s", sc.Name(), p.posStr(instrPos(s2)), shortVal(recv))
			}
		})
		if bad != "" {
			r.Bad("BO-PAIR", key, at, bad+", not the order of the tag whose slot was written: embedded values of the other order decode wrongly")
		} else {
			r.OK("BO-PAIR", key, at, "same tag on both sides")
		}
	}
}

// tagFieldOf: v is the field `name` of some Tag value → that Tag value (parameter / alloc) else nil.
func tagFieldOf(v ssa.Value, name string) ssa.Value {
	switch x := v.(type) {
	case *ssa.Field:
		if fieldNameV(x.X.Type(), x.Field) == name {
			return x.X
		}
	case *ssa.UnOp:
		if x.Op == token.MUL {
			if fa, ok := x.X.(*ssa.FieldAddr); ok && fieldName(fa.X.Type(), fa.Field) == name {
				return fa.X
			}
		}
	case *ssa.Convert:
		return tagFieldOf(x.X, name)
	}
	return nil
}

// sameTag: a is (the spill alloc of) the tag value b or vice versa.
func sameTag(a, b ssa.Value) bool {
	if a == b {
		return true
	}
	deref := func(v ssa.Value) ssa.Value {
		if u, ok := v.(*ssa.UnOp); ok && u.Op == token.MUL {
			return u.X
		}
		return v
	}
	a2, b2 := deref(a), deref(b)
	if a2 == b2 {
		return true
	}
	// parameter spilled into an alloc: `*t0 = t`
	spill := func(al, val ssa.Value) bool {
		if alloc, ok := al.(*ssa.Alloc); ok {
			for _, rf := range refs(alloc) {
				if st, ok := rf.(*ssa.Store); ok && st.Addr == ssa.Value(alloc) && st.Val == val {
					return true
				}
			}
		}
		return false
	}
	return spill(a2, b) || spill(b2, a) || spill(a, b) || spill(b, a)
}

// ruleBONest: a nested TIFF header carries its own byte order; the directory under it must be read with it.
func ruleBONest(p *Prog, r *Report) {
	bof := p.Func("meta/utils", "", "BinaryOrder")
	if bof == nil {
		r.Undecided("BO-NEST", "meta/utils.BinaryOrder", "-", "unresolved anchor")
		return
	}
	for _, f := range p.AllLibFns() {
		g := f
		for g.Parent() != nil {
			g = g.Parent()
		}
		if g.Pkg == nil || !strings.HasPrefix(relPkg(g.Pkg.Pkg.Path()), "exif2") {
			continue
		}
		eachCall(f, func(site ssa.CallInstruction) {
			bo, ok := site.(*ssa.Call)
			if !ok || bo.Call.StaticCallee() != bof {
				return
			}
			// reads of a directory under `bo != UnknownEndian`
			eachCall(f, func(s2 ssa.CallInstruction) {
				sc := s2.Common().StaticCallee()
				if sc == nil || sc.Name() != "readIfdHeader" {
					return
				}
				under := false
				for _, cd := range condsAt(s2.Block()) {
					if b, ok := cd.V.(*ssa.BinOp); ok && (b.X == ssa.Value(bo) || b.Y == ssa.Value(bo)) && (b.Op == token.NEQ) == cd.True {
						under = true
					}
				}
				if !under {
					return
				}
				key := fmt.Sprintf("%s | directory under the nested header at %s is read with its order", fnName(f), shortVal(bo.Call.Args[0]))
				at := p.posStr(instrPos(s2))
				arg := s2.Common().Args[len(s2.Common().Args)-1]
				if u, ok := arg.(*ssa.UnOp); ok && u.Op == token.MUL {
					// a local Ifd: look at what was stored into it as a whole
					if al, ok := u.X.(*ssa.Alloc); ok {
						for _, rf := range refs(al) {
							if st, ok := rf.(*ssa.Store); ok && st.Addr == ssa.Value(al) {
								arg = st.Val
							}
						}
					}
				}
				nc, ok := arg.(*ssa.Call)
				if ok && nc.Call.StaticCallee() != nil && nc.Call.StaticCallee().Name() == "NewIFD" && len(nc.Call.Args) > 0 && nc.Call.Args[0] == ssa.Value(bo) {
					r.OK("BO-NEST", key, at, "NewIFD(order of the nested header, …)")
				} else {
					r.Bad("BO-NEST", key, at, "the nested header's byte order is computed and tested, but the directory below it is read with an Ifd that does not carry it ("+shortVal(arg)+"): a maker note whose order differs from the enclosing block is read byte-swapped")
				}
			})
		})
	}
}
