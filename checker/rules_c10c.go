package main

import (
	"go/token"

	"golang.org/x/tools/go/ssa"
)

// FILLBYTE (C10): fill bytes in front of a marker are skipped.
//
// ITU-T T.81 B.1.1.2: any marker may be preceded by any number of fill bytes X'FF'. After the scanner has found
// 0xFF at the start of its window, a second 0xFF is therefore not a marker code: it must step over one byte and
// look again. Obligation: in the marker scanner (the method of the JPEG reader that sets the marker field) there is
// a test of window byte 1 against 0xFF whose true edge reaches a discard of exactly one byte before anything reads
// a segment length. Without it "FF FF E1 …" is framed as a segment of type 0xFF whose length is taken from the
// marker code and the first length byte, and the segment behind it is skipped or misframed.
func ruleFillByte(p *Prog, r *Report) {
	r.Explain("FILLBYTE: the JPEG marker scanner compares the byte after the 0xFF it found with 0xFF and, when equal, discards one byte and looks again (T.81 B.1.1.2 allows any number of X'FF' fill bytes in front of a marker); otherwise a filled marker is framed with a bogus type and length.")
	f := p.Func("jpeg", "*jpegReader", "nextMarker")
	key := "jpeg.(*jpegReader).nextMarker | a second 0xFF is a fill byte, not a marker code"
	if f == nil {
		r.Undecided("FILLBYTE", key, "-", "unresolved anchor")
		return
	}
	found := false
	eachInstr(f, func(b *ssa.BasicBlock, _ int, in ssa.Instruction) {
		ifi, ok := in.(*ssa.If)
		if !ok {
			return
		}
		bo, ok := ifi.Cond.(*ssa.BinOp)
		if !ok || (bo.Op != token.EQL && bo.Op != token.NEQ) {
			return
		}
		var other ssa.Value
		if k, ok := constInt(bo.Y); ok && k == 0xff {
			other = bo.X
		} else if k, ok := constInt(bo.X); ok && k == 0xff {
			other = bo.Y
		} else {
			return
		}
		ld, ok := other.(*ssa.UnOp)
		if !ok || ld.Op != token.MUL {
			return
		}
		ia, ok := ld.X.(*ssa.IndexAddr)
		if !ok {
			return
		}
		if k, ok := constInt(ia.Index); !ok || k != 1 {
			return
		}
		// the equal edge leads to a discard(1)
		eq := b.Succs[0]
		if bo.Op == token.NEQ {
			eq = b.Succs[1]
		}
		for _, in2 := range eq.Instrs {
			if c, ok := in2.(ssa.CallInstruction); ok {
				if sc := c.Common().StaticCallee(); sc != nil && sc.Name() == "discard" {
					for _, a := range c.Common().Args {
						if k, ok := constInt(a); ok && k == 1 {
							found = true
						}
					}
				}
			}
		}
	})
	// second clause: no step of two bytes (the skip of a marker, the framing of a segment) is taken before the
	// fill-byte question is answered: every discard of a constant ≥ 2 and every store to the marker field sits
	// under the "not 0xFF" edge of that test, or under a test that pins byte 1 to another value (isSOIMarker).
	isFillTest := func(v ssa.Value) (eqIsTrue bool, ok bool) {
		bo, ok := v.(*ssa.BinOp)
		if !ok || (bo.Op != token.EQL && bo.Op != token.NEQ) {
			return false, false
		}
		var other ssa.Value
		if k, ok := constInt(bo.Y); ok && k == 0xff {
			other = bo.X
		} else if k, ok := constInt(bo.X); ok && k == 0xff {
			other = bo.Y
		} else {
			return false, false
		}
		ld, ok := other.(*ssa.UnOp)
		if !ok || ld.Op != token.MUL {
			return false, false
		}
		ia, ok := ld.X.(*ssa.IndexAddr)
		if !ok {
			return false, false
		}
		if k, ok := constInt(ia.Index); !ok || k != 1 {
			return false, false
		}
		return bo.Op == token.EQL, true
	}
	// pinsByte1: a boolean helper that can only return true when byte 1 of its slice parameter equals a constant
	// other than 0xFF (`buf[0] == 0xFF && buf[1] == 0xD8`)
	pinsByte1 := func(g *ssa.Function) bool {
		if g == nil || g.Blocks == nil || len(g.Params) != 1 {
			return false
		}
		var pins func(v ssa.Value, seen map[ssa.Value]bool) bool
		pins = func(v ssa.Value, seen map[ssa.Value]bool) bool {
			if seen[v] {
				return true
			}
			seen[v] = true
			switch x := v.(type) {
			case *ssa.Const:
				b, isB := boolConst(x)
				return isB && !b
			case *ssa.Phi:
				for _, ed := range x.Edges {
					if !pins(ed, seen) {
						return false
					}
				}
				return true
			case *ssa.BinOp:
				if x.Op != token.EQL {
					return false
				}
				k, ok := constInt(x.Y)
				if !ok || k == 0xff {
					return false
				}
				ld, ok := x.X.(*ssa.UnOp)
				if !ok || ld.Op != token.MUL {
					return false
				}
				ia, ok := ld.X.(*ssa.IndexAddr)
				if !ok || ia.X != ssa.Value(g.Params[0]) {
					return false
				}
				i, ok := constInt(ia.Index)
				return ok && i == 1
			}
			return false
		}
		okAll, any := true, false
		eachInstr(g, func(_ *ssa.BasicBlock, _ int, in ssa.Instruction) {
			if ret, ok := in.(*ssa.Return); ok && len(ret.Results) == 1 {
				any = true
				if !pins(ret.Results[0], map[ssa.Value]bool{}) {
					okAll = false
				}
			}
		})
		return okAll && any
	}
	answered := func(b *ssa.BasicBlock) bool {
		for _, cd := range condsAt(b) {
			if eqIsTrue, ok := isFillTest(cd.V); ok && cd.True != eqIsTrue {
				return true
			}
			if c, ok := cd.V.(*ssa.Call); ok && cd.True && pinsByte1(c.Call.StaticCallee()) {
				return true
			}
		}
		return false
	}
	early := ""
	eachInstr(f, func(b *ssa.BasicBlock, _ int, in ssa.Instruction) {
		if early != "" {
			return
		}
		switch x := in.(type) {
		case ssa.CallInstruction:
			if sc := x.Common().StaticCallee(); sc != nil && sc.Name() == "discard" {
				for _, a := range x.Common().Args {
					if k, ok := constInt(a); ok && k >= 2 && !answered(b) {
						early = "discard(" + shortVal(a) + ") at " + p.posStr(instrPos(in))
					}
				}
			}
		case *ssa.Store:
			if fa, ok := x.Addr.(*ssa.FieldAddr); ok && fieldName(fa.X.Type(), fa.Field) == "marker" && !answered(b) {
				early = "the store of the marker code at " + p.posStr(instrPos(in))
			}
		}
	})
	if found && early != "" {
		r.Bad("FILLBYTE", key, p.posStr(f.Pos()), "the fill-byte test exists but "+early+" is reached without its answer: with byte 1 still possibly 0xFF a step of two bytes goes over the first byte of the real marker (\"FF FF D8\" in front of the image loses the SOI)")
		return
	}
	if found {
		r.OK("FILLBYTE", key, p.posStr(f.Pos()), "byte 1 of the window is compared with 0xFF and one byte is discarded when it matches")
	} else {
		r.Bad("FILLBYTE", key, p.posStr(f.Pos()), "the byte after 0xFF is taken for a marker code whatever it is: in \"FF FF E1 …\" (a marker preceded by a fill byte, legal by T.81 B.1.1.2) the scanner frames a segment of type 0xFF with the length E1xx and the APP1 segment behind it is never delivered")
	}
}
