package main

import (
	"go/token"

	"golang.org/x/tools/go/ssa"
)

// FILLBYTE (C10): fill bytes in front of a marker are skipped.
//
// ITU-T T.81 B.1.1.2: any marker may be preceded by any number of fill bytes X'FF'. After the scanner has found
// 0xFF at the start of its window, a second 0xFF is therefore not a marker code: it must step over one byte and
// look again. Obligation: in the marker scanner (the method of the JPEG reader that sets the marker field) there is
// a test of window byte 1 against 0xFF whose true edge reaches a discard of exactly one byte before anything reads
// a segment length. Without it "FF FF E1 …" is framed as a segment of type 0xFF whose length is taken from the
// marker code and the first length byte, and the segment behind it is skipped or misframed.
func ruleFillByte(p *Prog, r *Report) {
	r.Explain("FILLBYTE: the JPEG marker scanner compares the byte after the 0xFF it found with 0xFF and, when equal, discards one byte and looks again (T.81 B.1.1.2 allows any number of X'FF' fill bytes in front of a marker); otherwise a filled marker is framed with a bogus type and length.")
	f := p.Func("jpeg", "*jpegReader", "nextMarker")
	key := "jpeg.(*jpegReader).nextMarker | a second 0xFF is a fill byte, not a marker code"
	if f == nil {
		r.Undecided("FILLBYTE", key, "-", "unresolved anchor")
		return
	}
	found := false
	eachInstr(f, func(b *ssa.BasicBlock, _ int, in ssa.Instruction) {
		ifi, ok := in.(*ssa.If)
		if !ok {
			return
		}
		bo, ok := ifi.Cond.(*ssa.BinOp)
		if !ok || (bo.Op != token.EQL && bo.Op != token.NEQ) {
			return
		}
		var other ssa.Value
		if k, ok := constInt(bo.Y); ok && k == 0xff {
			other = bo.X
		} else if k, ok := constInt(bo.X); ok && k == 0xff {
			other = bo.Y
		} else {
			return
		}
		ld, ok := other.(*ssa.UnOp)
		if !ok || ld.Op != token.MUL {
			return
		}
		ia, ok := ld.X.(*ssa.IndexAddr)
		if !ok {
			return
		}
		if k, ok := constInt(ia.Index); !ok || k != 1 {
			return
		}
		// the equal edge leads to a discard(1)
		eq := b.Succs[0]
		if bo.Op == token.NEQ {
			eq = b.Succs[1]
		}
		for _, in2 := range eq.Instrs {
			if c, ok := in2.(ssa.CallInstruction); ok {
				if sc := c.Common().StaticCallee(); sc != nil && sc.Name() == "discard" {
					for _, a := range c.Common().Args {
						if k, ok := constInt(a); ok && k == 1 {
							found = true
						}
					}
				}
			}
		}
	})
	if found {
		r.OK("FILLBYTE", key, p.posStr(f.Pos()), "byte 1 of the window is compared with 0xFF and one byte is discarded when it matches")
	} else {
		r.Bad("FILLBYTE", key, p.posStr(f.Pos()), "the byte after 0xFF is taken for a marker code whatever it is: in \"FF FF E1 …\" (a marker preceded by a fill byte, legal by T.81 B.1.1.2) the scanner frames a segment of type 0xFF with the length E1xx and the APP1 segment behind it is never delivered")
	}
}
