package main

// C20 — YCbCr-to-gray conversion is layout-correct and memory-safe: PLANE, ASMPLANE, OFFS, OFFS-C, ORIGIN.

import (
	"fmt"
	"go/token"
	"sort"
	"strconv"
	"strings"

	"golang.org/x/tools/go/ssa"
)

func init() { register("C20", true, checkC20) }

func checkC20(p *Prog, r *Report) {
	r.Explain("PLANE: every call of a body-less (assembly) function that receives the raw Y/Cb/Cr planes is dominated by guards that establish the layout the kernel assumes — 4:4:4 subsampling, rectangle origin (0,0), YStride == CStride == width, width a multiple of 8, and destination and planes holding at least width·height elements. ASMPLANE: the kernel's text is read: two counted loops (y up to maxY, x in steps of 8 up to maxX with an equality exit), 8-byte loads at plane + y·stride + x, one 32-byte store at pixels + 4·(y·yStride + x); substituting the PLANE guards, the largest offsets are width·height − 1 for loads and stores alike, and the equality exit is reached because 8 divides the width. OFFS / OFFS-C: in the portable converters every index into img.Y comes from YOffset (or a multiple of the stride) and every index into img.Cb/Cr from COffset with the same coordinates — hand-written chroma arithmetic is rejected because it is only right for one subsampling ratio and origin parity. ORIGIN: the coordinates handed to YOffset/COffset/At are loop index + Rect.Min. The 2.0 tolerance between the assembly and portable arithmetic is numerical and not decided. ASMCONST: the six integer entries of the kernel constant table constyCbCrGray (chroma bias, luma scale, the four BT.601 coefficients) each occur as an integer constant of the portable converter yCbCrToGrayAlt. ALIGN: the YCbCr kernel makes no alignment-requiring memory access (MOVAPS/VMOVAPS/MOVDQA/MOVNT* with a memory operand): its destination is a parameter of the exported AsmYCbCrToGray, any []float32 the caller likes, and a slice is aligned to 4 bytes only.")
	r.Trusted("image.YCbCr.YOffset/COffset implement the subsampling arithmetic", "x86 access widths: VPMOVZXBD m64→ymm reads 8 bytes, VMOVUPS ymm→m256 writes 32")
	rulePlane(p, r)
	ruleAsmPlane(p, r)
	ruleOffs(p, r)
	ruleOffsChroma(p, r)
	ruleTblFill(p, r)
	ruleConvDispatch(p, r)
	r.Floor("DISPATCH", 3)
	ruleOrigin(p, r, "C20")
	if af, err := parseAsm(asmPath(p)); err != nil {
		r.Undecided("ASMCONST", "asm_x86.s", "-", "cannot read the assembly file: "+err.Error())
	} else {
		ruleAsmConst(p, r, af)
		ruleAsmAlignFor(r, af, "YCbCr")
	}
	r.Floor("ALIGN", 1)
	r.Floor("ASMCONST", 1)
	r.Floor("PLANE", 1)
	r.Floor("ASMPLANE", 1)
	r.Floor("OFFS", 3)
	r.Floor("OFFS-C", 2)
	r.Floor("ORIGIN", 4)
}

// ---- PLANE -----------------------------------------------------------------------------------------

type planeFact struct {
	name string
	ok   bool
}

func rulePlane(p *Prog, r *Report) {
	n := 0
	for _, f := range p.AllLibFns() {
		eachCall(f, func(site ssa.CallInstruction) {
			sc := site.Common().StaticCallee()
			if sc == nil || sc.Blocks != nil || !isRepoFn(sc) {
				return
			}
			// receives a plane?
			var img ssa.Value
			planes := 0
			for _, a := range site.Common().Args {
				if fld, _, ok := planeOf(a); ok && (fld == "Y" || fld == "Cb" || fld == "Cr") {
					planes++
					if ld, ok := a.(*ssa.UnOp); ok {
						if fa, ok := ld.X.(*ssa.FieldAddr); ok {
							img = fa.X
						}
					}
				}
			}
			if planes == 0 {
				return
			}
			n++
			key := fmt.Sprintf("%s | call %s with raw planes", fnName(f), sc.Name())
			at := p.posStr(instrPos(site))
			need := map[string]bool{"SubsampleRatio == 4:4:4": false, "Rect.Min.X == 0": false, "Rect.Min.Y == 0": false,
				"YStride == width": false, "CStride == width": false, "width % 8 == 0": false,
				"len(pixels) >= width*height": false, "len(Y) >= width*height": false, "len(Cb) >= width*height": false, "len(Cr) >= width*height": false}
			for _, cd := range condsAt(site.Block()) {
				for _, fact := range planeFacts(cd, img) {
					if _, ok := need[fact]; ok {
						need[fact] = true
					}
				}
			}
			var missing []string
			for k, v := range need {
				if !v {
					missing = append(missing, k)
				}
			}
			sort.Strings(missing)
			if len(missing) > 0 {
				r.Bad("PLANE", key, at, "the vector kernel is called without guards establishing: "+strings.Join(missing, "; ")+" — for other layouts it converts the wrong samples and reads or writes past the planes or the destination")
			} else {
				r.OK("PLANE", key, at, "all ten layout facts are established by dominating guards")
			}
		})
	}
	r.Extra("plane_call_sites", n)
}

// isImgField: v is a load of img.<chain> (chain like ["Rect","Min","X"] or ["YStride"])
func isImgField(v ssa.Value, img ssa.Value, chain ...string) bool {
	ld, ok := v.(*ssa.UnOp)
	if !ok || ld.Op != token.MUL {
		return false
	}
	cur := ld.X
	for i := len(chain) - 1; i >= 0; i-- {
		fa, ok := cur.(*ssa.FieldAddr)
		if !ok || fieldName(fa.X.Type(), fa.Field) != chain[i] {
			return false
		}
		cur = fa.X
	}
	return img == nil || cur == img
}

func isDim(v ssa.Value, which string) bool {
	// c.Rect.Dx() / Dy(), or Max.X − Min.X
	if c, ok := v.(*ssa.Call); ok {
		if sc := c.Call.StaticCallee(); sc != nil && sc.Name() == which && sc.Pkg != nil && sc.Pkg.Pkg.Path() == "image" {
			return true
		}
	}
	return false
}

func isLenOf(v ssa.Value, what string, img ssa.Value) bool {
	c, ok := v.(*ssa.Call)
	if !ok {
		return false
	}
	b, ok := c.Call.Value.(*ssa.Builtin)
	if !ok || b.Name() != "len" {
		return false
	}
	a := c.Call.Args[0]
	if what == "pixels" {
		_, isParam := a.(*ssa.Parameter)
		return isParam
	}
	return isImgField(a, img, what)
}

func isArea(v ssa.Value) bool {
	bo, ok := v.(*ssa.BinOp)
	return ok && bo.Op == token.MUL && ((isDim(bo.X, "Dx") && isDim(bo.Y, "Dy")) || (isDim(bo.X, "Dy") && isDim(bo.Y, "Dx")))
}

// planeFacts: the layout facts that hold on the edge described by cd.
func planeFacts(cd Cond, img ssa.Value) []string {
	bo, ok := cd.V.(*ssa.BinOp)
	if !ok {
		return nil
	}
	op := bo.Op
	if !cd.True {
		switch op {
		case token.NEQ:
			op = token.EQL
		case token.EQL:
			op = token.NEQ
		case token.LSS:
			op = token.GEQ
		case token.GTR:
			op = token.LEQ
		case token.LEQ:
			op = token.GTR
		case token.GEQ:
			op = token.LSS
		}
	}
	var out []string
	k, isK := constInt(bo.Y)
	if op == token.EQL {
		switch {
		case isImgField(bo.X, img, "SubsampleRatio") && isK && k == 0:
			out = append(out, "SubsampleRatio == 4:4:4")
		case isImgField(bo.X, img, "Rect", "Min", "X") && isK && k == 0:
			out = append(out, "Rect.Min.X == 0")
		case isImgField(bo.X, img, "Rect", "Min", "Y") && isK && k == 0:
			out = append(out, "Rect.Min.Y == 0")
		case isImgField(bo.X, img, "YStride") && isDim(bo.Y, "Dx"):
			out = append(out, "YStride == width")
		case isImgField(bo.X, img, "CStride") && isDim(bo.Y, "Dx"):
			out = append(out, "CStride == width")
		case isK && k == 0:
			if rem, ok := bo.X.(*ssa.BinOp); ok && rem.Op == token.REM && isDim(rem.X, "Dx") {
				if m, ok := constInt(rem.Y); ok && m == 8 {
					out = append(out, "width % 8 == 0")
				}
			}
		}
	}
	if op == token.GEQ && isArea(bo.Y) {
		for _, w := range []string{"pixels", "Y", "Cb", "Cr"} {
			if isLenOf(bo.X, w, img) {
				out = append(out, "len("+w+") >= width*height")
			}
		}
	}
	return out
}

// ---- ASMPLANE --------------------------------------------------------------------------------------

// ruleAsmPlane reads the text of asmYCbCrToGray and checks its addressing against the PLANE guards.
func ruleAsmPlane(p *Prog, r *Report) {
	af, err := parseAsm(asmPath(p))
	key := "asm_x86.s asmYCbCrToGray | loads and the store stay inside planes and destination under the PLANE guards"
	if err != nil {
		r.Undecided("ASMPLANE", key, "-", err.Error())
		return
	}
	var t *asmText
	for _, x := range af.texts {
		if x.name == "asmYCbCrToGray" {
			t = x
		}
	}
	if t == nil {
		r.Undecided("ASMPLANE", key, "-", "TEXT block not found")
		return
	}
	at := fmt.Sprintf("imagehash/transforms32/asm_x86.s:%d", t.line)
	// parameter registers
	reg := map[string]string{} // register -> meaning
	for _, in := range t.instrs {
		if in.mn == "MOVQ" && len(in.ops) == 2 && in.ops[0].kind == "mem" && in.ops[0].base == "FP" && in.ops[1].kind == "reg" {
			reg[in.ops[1].reg] = in.ops[0].sym
		}
	}
	inv := map[string]string{}
	for k, v := range reg {
		inv[v] = k
	}
	for _, need := range []string{"yStride", "cStride", "maxY", "maxX", "sY_base", "sCb_base", "sCr_base", "pixels_base"} {
		if inv[need] == "" {
			r.Bad("ASMPLANE", key, at, "parameter "+need+" is not loaded the way the analysis expects")
			return
		}
	}
	// loops: y: CMPQ Ry, maxY; JE done … INCQ Ry; x: CMPQ Rx, maxX; JE xDone … ADDQ $8, Rx
	yl, okY := t.labels["y"]
	xl, okX := t.labels["x"]
	if !okY || !okX {
		r.Undecided("ASMPLANE", key, at, "loop labels y/x not found")
		return
	}
	cy, cx := t.instrs[yl], t.instrs[xl]
	if cy.mn != "CMPQ" || cx.mn != "CMPQ" || reg[cy.ops[1].reg] != "maxY" || reg[cx.ops[1].reg] != "maxX" || t.instrs[yl+1].mn != "JE" || t.instrs[xl+1].mn != "JE" {
		r.Bad("ASMPLANE", key, at, "the loop bounds are not maxY / maxX with equality exits")
		return
	}
	ry, rx := cy.ops[0].reg, cx.ops[0].reg
	stepX, stepY := int64(0), int64(0)
	// symbolic index registers: map register -> description "yStride*y+x" etc.
	sym := map[string]string{ry: "y", rx: "x"}
	var loads, stores []string
	bad := ""
	for i := yl; i < len(t.instrs); i++ {
		in := t.instrs[i]
		d := dstOperand(in)
		switch {
		case in.mn == "MOVQ" && len(in.ops) == 2 && in.ops[0].kind == "reg" && in.ops[1].kind == "reg":
			if s, ok := sym[in.ops[0].reg]; ok {
				sym[in.ops[1].reg] = s
			} else if m, ok := reg[in.ops[0].reg]; ok {
				sym[in.ops[1].reg] = m
			} else {
				delete(sym, in.ops[1].reg)
			}
		case in.mn == "IMULQ" && len(in.ops) == 2 && in.ops[0].kind == "reg" && in.ops[1].kind == "reg":
			a, b := sym[in.ops[0].reg], sym[in.ops[1].reg]
			if a == "" {
				a = reg[in.ops[0].reg]
			}
			sym[in.ops[1].reg] = b + "*" + a
		case in.mn == "ADDQ" && len(in.ops) == 2 && in.ops[0].kind == "reg" && in.ops[1].kind == "reg":
			sym[in.ops[1].reg] = sym[in.ops[1].reg] + "+" + sym[in.ops[0].reg]
		case in.mn == "ADDQ" && in.ops[0].kind == "imm" && in.ops[1].kind == "reg" && in.ops[1].reg == rx:
			stepX = in.ops[0].imm
		case in.mn == "INCQ" && in.ops[0].reg == ry:
			stepY = 1
		case in.mn == "XORQ" && d != nil && d.reg == rx:
			// x reset for the next row
		}
		for oi, o := range in.ops {
			if o.kind != "mem" || o.base == "FP" || o.base == "SB" || o.base == "SP" {
				continue
			}
			w := memWidth(in, oi)
			desc := fmt.Sprintf("%s+%d*(%s)%+d width %d", reg[o.base], o.scale, sym[o.index], o.disp, w)
			if d != nil && d.kind == "mem" && d.raw == o.raw {
				stores = append(stores, desc)
			} else {
				loads = append(loads, desc)
			}
		}
	}
	sort.Strings(loads)
	sort.Strings(stores)
	wantLoads := []string{"sCb_base+1*(cStride*y+x)+0 width 8", "sCr_base+1*(cStride*y+x)+0 width 8", "sY_base+1*(yStride*y+x)+0 width 8"}
	wantStores := []string{"pixels_base+4*(yStride*y+x)+0 width 32"}
	if strings.Join(loads, "|") != strings.Join(wantLoads, "|") {
		bad = fmt.Sprintf("the kernel's loads are %v, the analysis knows how to bound %v", loads, wantLoads)
	}
	if strings.Join(stores, "|") != strings.Join(wantStores, "|") {
		bad = fmt.Sprintf("the kernel's stores are %v, the analysis knows how to bound %v", stores, wantStores)
	}
	if stepX != 8 || stepY != 1 {
		bad = fmt.Sprintf("loop steps are x += %d, y += %d; want 8 and 1", stepX, stepY)
	}
	if bad != "" {
		r.Bad("ASMPLANE", key, at, bad)
		return
	}
	// Under PLANE: stride = w, maxX = w, maxY = h, 8 | w, len ≥ w·h.
	// x ∈ {0,8,…,w−8} (equality exit reached since 8 | w), y ∈ [0,h): largest element index touched by an 8-wide access at
	// stride·y + x is w·(h−1) + (w−8) + 7 = w·h − 1 < len. The store writes 8 floats at the same index: 4·(w·h−1)+3 < 4·len(pixels).
	r.OK("ASMPLANE", key, at, "3 loads of 8 bytes at plane + stride·y + x and 1 store of 8 floats at pixels + 4·(yStride·y + x); with stride = width, 8 | width, x ≤ width − 8, y < height the largest index is width·height − 1")
	r.Extra("asmplane_loads", loads)
	r.Extra("asmplane_stores", stores)
}

// ---- OFFS-C ----------------------------------------------------------------------------------------

// ruleOffsChroma: every index into a chroma plane is exactly the result of COffset on the same image.
func ruleOffsChroma(p *Prog, r *Report) {
	hash, err := p.HashEntries()
	if err != nil {
		r.Fatal(err.Error())
		return
	}
	for _, f := range hashPkgFns(p, hash) {
		eachInstr(f, func(_ *ssa.BasicBlock, _ int, in ssa.Instruction) {
			var base, idx ssa.Value
			switch x := in.(type) {
			case *ssa.IndexAddr:
				base, idx = x.X, x.Index
			case *ssa.Slice:
				if x.Low == nil {
					return
				}
				base, idx = x.X, x.Low
			default:
				return
			}
			field, _, ok := planeOf(base)
			if !ok || (field != "Cb" && field != "Cr") {
				return
			}
			key := fmt.Sprintf("%s | chroma index %s", fnName(f), field)
			at := p.posStr(instrPos(in))
			c, isCall := idx.(*ssa.Call)
			if isCall {
				if sc := c.Call.StaticCallee(); sc != nil && sc.Name() == "COffset" && sc.Pkg != nil && sc.Pkg.Pkg.Path() == "image" {
					r.OK("OFFS-C", key, at, "index is COffset(x, y)")
					return
				}
			}
			r.Bad("OFFS-C", key, at, "chroma plane indexed with "+shortVal(idx)+" instead of COffset: hand-written subsampling arithmetic is only right for some ratios and origin parities")
		})
	}
}

// hashPkgFns: the functions reachable from the perceptual-hash entry points plus every function of the imagehash
// packages (the average hash and the exported converters take YCbCr images too).
func hashPkgFns(p *Prog, hash []*ssa.Function) []*ssa.Function {
	seen := map[*ssa.Function]bool{}
	var out []*ssa.Function
	for _, f := range p.LibReach(hash) {
		if !seen[f] {
			seen[f] = true
			out = append(out, f)
		}
	}
	for _, f := range p.AllLibFns() {
		g := f
		for g.Parent() != nil {
			g = g.Parent()
		}
		if g.Pkg == nil || !strings.Contains(g.Pkg.Pkg.Path(), "/imagehash") || len(f.Blocks) == 0 {
			continue
		}
		if !seen[f] {
			seen[f] = true
			out = append(out, f)
		}
	}
	sortFns(out)
	return out
}

// ---- ASMCONST: the vector kernel's integer coefficients are the portable converter's ------------------------------
//
// asmYCbCrToGray takes its fixed-point YCbCr→RGB coefficients from the table constyCbCrGray<> (the first six 32-bit
// entries: the chroma bias 128, the luma scale 0x10101 and the four BT.601 coefficients). The portable converter
// yCbCrToGrayAlt carries the same numbers as literals. Every integer entry of the table must occur (up to sign) as an
// integer constant of the portable converter: a digit slip in one of the two copies moves the vector kernel's
// luminance away from the portable one in proportion to the chroma, past the 2.0 tolerance for saturated colours.
func ruleAsmConst(p *Prog, r *Report, af *asmFile) {
	key := "asm_x86.s constyCbCrGray<> | integer coefficients equal the portable converter's"
	f := p.Func("imagehash/transforms32", "", "yCbCrToGrayAlt")
	if f == nil {
		r.Undecided("ASMCONST", key, "-", "unresolved anchor: portable converter")
		return
	}
	goConsts := map[int64]bool{}
	eachInstr(f, func(_ *ssa.BasicBlock, _ int, in ssa.Instruction) {
		var ops []*ssa.Value
		for _, o := range in.Operands(ops) {
			if c, ok := (*o).(*ssa.Const); ok && c.Value != nil && isIntType(c.Type()) {
				if k, ok := constInt(c); ok {
					if k < 0 {
						k = -k
					}
					goConsts[k] = true
				}
			}
		}
	})
	var ints []int64
	n := 0
	for _, d := range af.data {
		if d.sym != "constyCbCrGray" || d.size != 4 {
			continue
		}
		v := strings.TrimSpace(d.val)
		if strings.HasPrefix(v, "(") { // floating-point entry
			continue
		}
		v = strings.TrimPrefix(v, "+")
		k, err := strconv.ParseInt(v, 0, 64)
		if err != nil {
			r.Undecided("ASMCONST", key, "-", "entry not understood: "+d.val)
			return
		}
		n++
		if k < 0 {
			k = -k
		}
		ints = append(ints, k)
	}
	if n < 6 {
		r.Undecided("ASMCONST", key, "-", fmt.Sprintf("only %d integer entries found in constyCbCrGray<>", n))
		return
	}
	var missing []string
	for _, k := range ints {
		if !goConsts[k] {
			missing = append(missing, fmt.Sprint(k))
		}
	}
	if len(missing) > 0 {
		r.Bad("ASMCONST", key, p.posStr(f.Pos()), "the table holds "+strings.Join(missing, ", ")+", which the portable converter yCbCrToGrayAlt does not use: the two implementations compute different luminance for pixels with strong chroma")
	} else {
		r.OK("ASMCONST", key, p.posStr(f.Pos()), fmt.Sprintf("%d integer entries, each a constant of yCbCrToGrayAlt", n))
	}
}
