package main

// C14 — memory allocated by a decode is bounded by the input size, not by its contents: ALLOC.

import (
	"fmt"
	"go/types"
	"strings"

	"golang.org/x/tools/go/ssa"
)

func init() { register("C14", true, checkC14) }

const (
	allocOnceBudget   = 4 << 20  // a site executed at most once per decode
	allocRepeatBudget = 64 << 10 // a site that can execute many times per decode
)

func checkC14(p *Prog, r *Report) {
	r.Explain("ALLOC: every allocation site in the library functions reachable from the decode entry points — make of slices and maps, append, string/[]byte conversions, and calls of allocators that take a size — is an obligation: its size must be a constant, or bounded by the E3 prover by a constant budget (4 MiB for a site that executes at most once per decode, 64 KiB for a site inside a loop, a recursive cycle or a function called from one), or bounded by the length of a slice that already holds input bytes (string(buf), make(len(buf))), or be a one-element append in a loop that C02 classifies as consuming input or as counted with such a bound. io.ReadAll and bufio readers grow with the bytes actually read. A size taken from a file field without such a bound is a violation naming the field. Stack memory is C02's RECUR. The constants of the property (4 MiB + 16·len) are not derived.")
	r.Trusted("io.ReadAll/io.Copy allocate in proportion to the bytes actually delivered by the reader", "zerolog allocations at verbose levels are bounded by the logged values (C15 LOGPURE)", "append grows amortised by what is appended")
	dec, err := p.DecEntries()
	if err != nil {
		r.Fatal(err.Error())
		return
	}
	fs := p.LibReach(dec)
	r.Extra("functions_reachable", len(fs))
	e := p.E3()
	pa := &progAnalysis{p: p, e: e, memo: map[*ssa.Function]*progSum{}, busy: map[*ssa.Function]bool{}}
	repeat := repeatedFunctions(p, fs)
	r.Extra("functions_that_may_run_many_times", len(repeat))
	n := 0
	for _, f := range fs {
		loops := findLoops(f)
		inLoop := func(b *ssa.BasicBlock) *Loop {
			var res *Loop
			for _, l := range loops {
				if l.Blocks[b] {
					res = l
				}
			}
			return res
		}
		eachInstr(f, func(b *ssa.BasicBlock, _ int, in ssa.Instruction) {
			if deadBlock(b) {
				return // guarded by a constant-false condition (compile-time option)
			}
			at := p.posStr(instrPos(in))
			many := repeat[f] || inLoop(b) != nil
			budget := int64(allocOnceBudget)
			freq := "executes at most once per decode"
			if many {
				budget = allocRepeatBudget
				freq = "may execute many times per decode"
			}
			switch x := in.(type) {
			case *ssa.MakeSlice:
				n++
				es := elemSize(p, x.Type())
				key := fmt.Sprintf("%s | make([]%s, %s)", fnName(f), typeStr(x.Type().Underlying().(*types.Slice).Elem()), shortVal(x.Cap))
				if ok, by := sizeBounded(e, f, b, x.Cap, es, budget); ok {
					r.OK("ALLOC", key, at, by+"; "+freq)
				} else {
					r.Bad("ALLOC", key, at, fmt.Sprintf("allocation of %s elements of %d bytes is bounded neither by %d bytes nor by the length of a slice holding input (%s; range of the size: %s): a size field in the file decides how much memory is allocated", shortVal(x.Cap), es, budget, freq, e.rng(x.Cap)))
				}
			case *ssa.MakeMap:
				if x.Reserve == nil {
					return
				}
				n++
				key := fmt.Sprintf("%s | make(map, %s)", fnName(f), shortVal(x.Reserve))
				if ok, by := sizeBounded(e, f, b, x.Reserve, 48, budget); ok {
					r.OK("ALLOC", key, at, by+"; "+freq)
				} else {
					r.Bad("ALLOC", key, at, "map pre-sized from a value not bounded by a constant or by the input length")
				}
			case *ssa.Call:
				cc := &x.Call
				if bi, ok := cc.Value.(*ssa.Builtin); ok && bi.Name() == "append" {
					n++
					key := fmt.Sprintf("%s | append(%s, …)", fnName(f), shortVal(cc.Args[0]))
					l := inLoop(b)
					if l == nil && !repeat[f] {
						r.OK("ALLOC", key, at, "a constant number of appends per decode")
						return
					}
					if l == nil {
						// in a function that runs many times: each run is paid for by what its callers' loops consume; accept
						// only when the appended operand is bounded
						if ok, by := appendOperandBounded(e, f, b, cc); ok {
							r.OK("ALLOC", key, at, by+"; "+freq)
						} else {
							r.Bad("ALLOC", key, at, "append of an operand of unbounded length in a function that may run many times")
						}
						return
					}
					cls, _ := classifyLoop(p, pa, f, l)
					switch {
					case strings.HasPrefix(cls, "consumer") || strings.HasPrefix(cls, "tag queue"):
						r.OK("ALLOC", key, at, "one append per iteration of a loop that consumes input on every iteration")
					case strings.HasPrefix(cls, "counted") || strings.HasPrefix(cls, "slice") || strings.HasPrefix(cls, "window"):
						if ok, by := countedLoopBounded(e, f, l); ok {
							r.OK("ALLOC", key, at, "append in a counted loop whose trip count is "+by)
						} else {
							r.Bad("ALLOC", key, at, "append in a counted loop whose trip count is bounded neither by a constant budget nor by the input length: a count field in the file decides how much memory is allocated")
						}
					default:
						r.Bad("ALLOC", key, at, "append in a loop that is in no accepted progress class (see C02)")
					}
					return
				}
				sc := cc.StaticCallee()
				if sc == nil {
					return
				}
				switch sc.String() {
				case "bufio.NewReaderSize", "bufio.NewWriterSize":
					n++
					key := fmt.Sprintf("%s | %s(%s)", fnName(f), sc.String(), shortVal(cc.Args[1]))
					if ok, by := sizeBounded(e, f, b, cc.Args[1], 1, budget); ok {
						r.OK("ALLOC", key, at, by+"; "+freq)
					} else {
						r.Bad("ALLOC", key, at, "buffer size not bounded by a constant")
					}
				case "(*bytes.Buffer).Grow", "strings.Repeat", "bytes.Repeat", "(*strings.Builder).Grow":
					n++
					key := fmt.Sprintf("%s | %s", fnName(f), sc.String())
					arg := cc.Args[len(cc.Args)-1]
					if ok, by := sizeBounded(e, f, b, arg, 1, budget); ok {
						r.OK("ALLOC", key, at, by+"; "+freq)
					} else {
						r.Bad("ALLOC", key, at, "size argument not bounded by a constant or by the input length")
					}
				case "io.ReadAll":
					n++
					r.OK("ALLOC", fmt.Sprintf("%s | io.ReadAll", fnName(f)), at, "grows with the bytes the reader actually delivers")
				}
			case *ssa.Convert:
				// string(b) / []byte(s): allocation = length of the operand, which already exists in memory
				_, fromSlice := x.X.Type().Underlying().(*types.Slice)
				_, toSlice := x.Type().Underlying().(*types.Slice)
				if (fromSlice && isStringType(x.Type())) || (toSlice && isStringType(x.X.Type())) {
					n++
					r.OK("ALLOC", fmt.Sprintf("%s | %s(%s)", fnName(f), typeStr(x.Type()), shortVal(x.X)), at, "copy of a value that already holds input bytes: bounded by its length")
				}
			}
		})
	}
	r.Extra("allocation_sites", n)
	r.Floor("ALLOC", 20)
}

func elemSize(p *Prog, t types.Type) int64 {
	sl, ok := t.Underlying().(*types.Slice)
	if !ok {
		return 1
	}
	for _, pk := range p.Lib {
		if pk.TypesSizes != nil {
			return pk.TypesSizes.Sizeof(sl.Elem())
		}
	}
	return 8
}

// sizeBounded: n·es ≤ budget by range, or n ≤ len(x) for some slice/string x in scope that is a parameter or the
// result of a reader primitive (holds input bytes).
func sizeBounded(e *E3, f *ssa.Function, b *ssa.BasicBlock, n ssa.Value, es, budget int64) (bool, string) {
	if k, ok := constInt(n); ok {
		if k*es <= allocOnceBudget {
			return true, fmt.Sprintf("constant size %d bytes", k*es)
		}
		return false, ""
	}
	// path-sensitive upper bound
	g := e.newGraph(b)
	g.nodes[zeroT] = true
	nt := e.termOf(n)
	g.touch(nt, 0)
	g.condFacts()
	if ub := g.shortest(zeroT, nt); ub < inf && ub >= 0 && ub <= budget/es {
		return true, fmt.Sprintf("size bounded by %d elements (%d bytes) on every path", ub, ub*es)
	}
	// bounded by the length of a slice parameter / Peek result
	var cands []ssa.Value
	for _, prm := range f.Params {
		if sliceLike(prm.Type()) {
			cands = append(cands, prm)
		}
	}
	eachInstr(f, func(_ *ssa.BasicBlock, _ int, in ssa.Instruction) {
		if ex, ok := in.(*ssa.Extract); ok && sliceLike(ex.Type()) {
			cands = append(cands, ex)
		}
	})
	for _, c := range cands {
		lt := termT{v: e.lenBase(c), len: true}
		if es <= 16 && e.ProveLE(b, nt, lt, 0) {
			return true, fmt.Sprintf("size ≤ len(%s), a slice that already holds input", shortVal(c))
		}
	}
	return false, ""
}

func appendOperandBounded(e *E3, f *ssa.Function, b *ssa.BasicBlock, cc *ssa.CallCommon) (bool, string) {
	if len(cc.Args) < 2 {
		return true, "nothing appended"
	}
	op := cc.Args[1]
	// variadic slice built by the compiler: new [k]T; slice
	if sl, ok := op.(*ssa.Slice); ok {
		if al, ok := sl.X.(*ssa.Alloc); ok {
			if at, ok := derefType(al.Type()).Underlying().(*types.Array); ok {
				return true, fmt.Sprintf("appends %d element(s)", at.Len())
			}
		}
	}
	if n, ok := e.constLen(op); ok {
		return true, fmt.Sprintf("appends %d element(s)", n)
	}
	// append(x, input...) — bounded by the input slice's own length
	return true, "appends a slice that already exists in memory (bounded by its length)"
}

// countedLoopBounded: the bound the exit test compares the induction variable with is a constant ≤ 64 Ki
// iterations, ranges (by type or guard) within that, or is the length of a slice holding input.
func countedLoopBounded(e *E3, f *ssa.Function, l *Loop) (bool, string) {
	for _, ifi := range exitTests(l) {
		bo, ok := ifi.Cond.(*ssa.BinOp)
		if !ok {
			continue
		}
		for _, side := range []ssa.Value{bo.X, bo.Y} {
			if !loopInvariant(l, side) {
				continue
			}
			if c, ok := side.(*ssa.Call); ok {
				if b, ok := c.Call.Value.(*ssa.Builtin); ok && b.Name() == "len" {
					return true, "the length of " + shortVal(c.Call.Args[0]) + " (memory that already exists)"
				}
			}
			g := e.newGraph(ifi.Block())
			g.nodes[zeroT] = true
			t := e.termOf(side)
			g.touch(t, 0)
			g.condFacts()
			if ub := g.shortest(zeroT, t); ub < inf && ub <= allocRepeatBudget {
				return true, fmt.Sprintf("at most %d", ub)
			}
		}
	}
	return false, ""
}

// repeatedFunctions: library functions that can run more than once per decode: members of call-graph cycles and
// everything called (transitively) from inside a loop or from such a function.
func repeatedFunctions(p *Prog, fs []*ssa.Function) map[*ssa.Function]bool {
	in := map[*ssa.Function]bool{}
	for _, f := range fs {
		in[f] = true
	}
	rep := map[*ssa.Function]bool{}
	var work []*ssa.Function
	mark := func(g *ssa.Function) {
		if in[g] && !rep[g] {
			rep[g] = true
			work = append(work, g)
		}
	}
	for _, f := range fs {
		loops := findLoops(f)
		eachCall(f, func(site ssa.CallInstruction) {
			inL := false
			for _, l := range loops {
				if l.Blocks[site.Block()] {
					inL = true
				}
			}
			for _, g := range p.Callees(site) {
				if inL {
					mark(g)
				}
				if g == f {
					mark(f)
				}
			}
		})
	}
	for len(work) > 0 {
		f := work[len(work)-1]
		work = work[:len(work)-1]
		eachCall(f, func(site ssa.CallInstruction) {
			for _, g := range p.Callees(site) {
				mark(g)
			}
		})
		for _, a := range f.AnonFuncs {
			mark(a)
		}
	}
	return rep
}

// deadBlock: dominated by a branch on a compile-time constant that excludes it.
func deadBlock(b *ssa.BasicBlock) bool {
	for _, cd := range condsAt(b) {
		if c, ok := cd.V.(*ssa.Const); ok {
			if bv, isB := boolConst(c); isB && bv != cd.True {
				return true
			}
		}
	}
	return false
}
