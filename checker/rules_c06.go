package main

// C06 — the container does not change the metadata: HDR, SIB, SWITCH.

import (
	"fmt"
	"go/constant"
	"go/token"
	"go/types"
	"sort"
	"strings"

	"golang.org/x/tools/go/ssa"
)

func init() { register("C06", true, checkC06) }

func checkC06(p *Prog, r *Report) {
	r.Explain("HDR: every construction of a meta.ExifHeader takes ByteOrder from utils.BinaryOrder(x) and FirstIfdOffset from <that order>.Uint32(x[4:8]) — the payload's own TIFF header — in every container scanner. SIB: the three Exif entry points stored in ExifReader slots (DecodeTiff, DecodeJPEGIfd, DecodeIfd) initialise the same reader state (reset, image type, first-IFD offset, length, position) and start readIfd on NewIFD(h.ByteOrder, h.FirstIfd, ...). SWITCH: every decoding case of imagemeta.Decode funnels into one of these siblings. CAP: every reader handed to DecodeTiff/DecodeJPEGIfd/DecodeIfd, directly or through an ExifReader callback, is of a type implementing exif2.BufferedReader (all containers take the decoder's buffered path; the unbuffered one refuses long values). POS: the ISOBMFF hand-off consumes exactly the FirstIfdOffset it read from the payload's header before DecodeIfd (po = FirstIfdOffset) takes over. PAYSEEK: every Seek in package exif2 is relative to the current position, except the one that positions the stream at ExifHeader.TiffHeaderOffset (the payload decoder never computes absolute positions, which differ per container). PNGWALK: every exit of the PNG chunk walk is under a failed read/seek or under chunkType == \"eXIf\" (no other chunk, before or after the image data, influences the result). HDRFLOW: every ExifHeader passed on or returned is, on every flow path, constructed for the payload at hand (a call result, a by-value parameter or a local holding one) — never loaded from a pointer parameter, field, global or captured variable, where an earlier payload's byte order and offset would be reused. WALKERR: in every loop that steps through the children of an ISOBMFF box, no exit of the loop is reachable from the failing side of a test of a child handler's error without rejoining the no-error path (a sibling box that fails, metadata or not, does not keep the Exif boxes after it from being read). Equality of decoded values across containers is a run-time fact and is not decided; C10/C11/C12 cover the hand-offs.")
	r.Trusted("the decoders are deterministic functions of the reader state these rules pin down")
	ruleHDR(p, r, "")
	ruleSIB(p, r)
	ruleSwitch(p, r)
	rulePngWalk(p, r)
	r.Floor("PNGWALK", 1)
	rulePaySeek(p, r)
	r.Floor("PAYSEEK", 1)
	ruleCapPos(p, r)
	r.Floor("CAP", 5)
	r.Floor("POS", 1)
	ruleWalkErr(p, r)
	ruleHdrFlow(p, r)
	ruleBoxTbl(p, r)
	ruleBoxPure(p, r)
	ruleCursor(p, r)
	ruleTopWalk(p, r)
	r.Floor("TOPWALK", 2)
	ruleWalkPanic(p, r)
	r.Floor("WALKPANIC", 1)
	r.Floor("BOXPURE", 1)
	r.Floor("HDRFLOW", 8)
	r.Floor("WALKERR", 5)
	r.Floor("HDR", 4)
	r.Floor("SIB", 3)
	r.Floor("SWITCH", 3)
}

// windowBase strips slicing to find the underlying buffer value and start offset.
func windowBase(v ssa.Value) (ssa.Value, int64, bool) {
	off := int64(0)
	for i := 0; i < 6; i++ {
		sl, ok := v.(*ssa.Slice)
		if !ok {
			return v, off, true
		}
		if sl.Low != nil {
			k, ok := constInt(sl.Low)
			if !ok {
				return v, off, false
			}
			off += k
		}
		v = sl.X
	}
	return v, off, true
}

// ruleHDR checks every NewExifHeader call (and direct ExifHeader field stores) in library code; onlyPkg restricts to one package.
// ruleHdrCtor: meta.NewExifHeader stores its parameters unchanged (a constructor that clamps or rewrites a field
// makes every header differ from what the payload says).
func ruleHdrCtor(p *Prog, r *Report) {
	f := p.Func("meta", "", "NewExifHeader")
	key := "meta.NewExifHeader | fields are the parameters, unchanged"
	if f == nil {
		r.Undecided("HDR", key, "-", "anchor not resolved")
		return
	}
	want := map[string]string{"ByteOrder": "byteOrder", "FirstIfdOffset": "firstIfdOffset", "TiffHeaderOffset": "tiffHeaderOffset", "ExifLength": "exifLength", "ImageType": "imageType"}
	got := map[string]string{}
	if len(f.Blocks) != 1 {
		r.Bad("HDR", key, p.posStr(f.Pos()), "the constructor branches: a field of the header depends on a condition instead of being the parameter")
		return
	}
	eachInstr(f, func(_ *ssa.BasicBlock, _ int, in ssa.Instruction) {
		if st, ok := in.(*ssa.Store); ok {
			if fa, ok := st.Addr.(*ssa.FieldAddr); ok {
				name := fieldName(fa.X.Type(), fa.Field)
				if prm, ok := st.Val.(*ssa.Parameter); ok {
					got[name] = prm.Name()
				} else {
					got[name] = shortVal(st.Val)
				}
			}
		}
	})
	for fld, prm := range want {
		if got[fld] != prm {
			r.Bad("HDR", key, p.posStr(f.Pos()), fmt.Sprintf("field %s is set to %s, not to the parameter %s", fld, got[fld], prm))
			return
		}
	}
	r.OK("HDR", key, p.posStr(f.Pos()), "five fields copied from the parameters in a single block")
}

func ruleHDR(p *Prog, r *Report, onlyPkg string) {
	if onlyPkg == "" || onlyPkg == "tiff" {
		ruleHdrCtor(p, r)
	}
	n := 0
	for _, f := range p.AllLibFns() {
		if onlyPkg != "" && (f.Pkg == nil || relPkg(f.Pkg.Pkg.Path()) != onlyPkg) {
			continue
		}
		if fnName(f) == "meta.NewExifHeader" {
			continue
		}
		eachInstr(f, func(_ *ssa.BasicBlock, _ int, in ssa.Instruction) {
			switch x := in.(type) {
			case *ssa.Call:
				sc := x.Call.StaticCallee()
				if sc == nil || fnName(sc) != "meta.NewExifHeader" {
					return
				}
				n++
				key := fnName(f) + " | NewExifHeader"
				at := p.posStr(instrPos(in))
				bo := x.Call.Args[0]
				off := x.Call.Args[1]
				boCall, ok := bo.(*ssa.Call)
				if !ok || boCall.Call.StaticCallee() == nil || fnName(boCall.Call.StaticCallee()) != "meta/utils.BinaryOrder" {
					r.Bad("HDR", key, at, "ByteOrder is "+shortVal(bo)+", not the result of utils.BinaryOrder on the payload's TIFF header")
					return
				}
				base, boOff, ok1 := windowBase(boCall.Call.Args[0])
				offCall, ok := off.(*ssa.Call)
				if !ok || offCall.Call.StaticCallee() == nil || fnName(offCall.Call.StaticCallee()) != "meta/utils.(ByteOrder).Uint32" {
					r.Bad("HDR", key, at, "FirstIfdOffset is "+shortVal(off)+", not <byte order>.Uint32(header[4:8])")
					return
				}
				if offCall.Call.Args[0] != bo {
					r.Bad("HDR", key, at, "FirstIfdOffset is decoded with a different byte order than the one detected")
					return
				}
				base2, o2, ok2 := windowBase(offCall.Call.Args[1])
				if !ok1 || !ok2 || base != base2 || o2 != boOff+4 {
					r.Bad("HDR", key, at, fmt.Sprintf("FirstIfdOffset is read at offset %d of %s, want 4 bytes after the signature (offset %d of %s)", o2, shortVal(base2), boOff+4, shortVal(base)))
					return
				}
				// ExifLength taken from a box's remaining size must be read where the TIFF header still lies ahead: the Exif
				// readers count their position from the TIFF header, so a length measured after the header was consumed
				// ends 8 bytes early
				if len(x.Call.Args) > 3 {
					lv := x.Call.Args[3]
					for i := 0; i < 4; i++ {
						if cv, ok := lv.(*ssa.Convert); ok {
							lv = cv.X
						}
					}
					if ld, ok := lv.(*ssa.UnOp); ok && ld.Op == token.MUL {
						if fa, ok := ld.X.(*ssa.FieldAddr); ok && fieldName(fa.X.Type(), fa.Field) == "remain" {
							consumedBefore := ""
							eachCall(f, func(site ssa.CallInstruction) {
								sc := site.Common().StaticCallee()
								if sc == nil || len(site.Common().Args) == 0 || site.Common().Args[0] != fa.X {
									return
								}
								if sc.Name() != "Discard" && sc.Name() != "Read" && sc.Name() != "close" {
									return
								}
								sb, lb := site.Block(), ld.Block()
								if (sb == lb && instrIndex(site) < instrIndex(ld)) || (sb != lb && sb.Dominates(lb)) {
									consumedBefore = sc.Name() + " at " + p.posStr(instrPos(site))
								}
							})
							if consumedBefore != "" {
								r.Bad("HDR", key, at, "ExifLength is the box's remaining size measured after "+consumedBefore+" consumed the TIFF header: the Exif reader counts from the header, so the last bytes of the payload are refused")
								return
							}
						}
					}
				}
				r.OK("HDR", key, at, "ByteOrder = BinaryOrder(w), FirstIfdOffset = order.Uint32(w[4:8])")
			case *ssa.Store:
				fa, ok := x.Addr.(*ssa.FieldAddr)
				if !ok {
					return
				}
				st, ok := derefType(fa.X.Type()).(*types.Named)
				if !ok || st.Obj().Name() != "ExifHeader" || st.Obj().Pkg() == nil || relPkg(st.Obj().Pkg().Path()) != "meta" {
					return
				}
				fn := fieldName(fa.X.Type(), fa.Field)
				if fn == "ByteOrder" || fn == "FirstIfdOffset" {
					n++
					r.Bad("HDR", fnName(f)+" | store ExifHeader."+fn, p.posStr(instrPos(in)), "header field assigned directly instead of through NewExifHeader from the payload's TIFF header")
				}
			}
		})
	}
}

// ---- SIB ---------------------------------------------------------------------------------------

func ruleSIB(p *Prog, r *Report) {
	sibs := []string{"DecodeTiff", "DecodeJPEGIfd", "DecodeIfd"}
	type facts map[string]string
	all := map[string]facts{}
	for _, name := range sibs {
		f := p.Func("exif2", "*ifdReader", name)
		if f == nil {
			r.Undecided("SIB", "exif2.(*ifdReader)."+name, "-", "unresolved anchor")
			return
		}
		fc := facts{}
		recv := ssa.Value(f.Params[0])
		h := ssa.Value(f.Params[2])
		hfield := func(v ssa.Value) string {
			// v derives from a field of parameter h
			for i := 0; i < 6; i++ {
				switch x := v.(type) {
				case *ssa.Convert:
					v = x.X
					continue
				case *ssa.ChangeType:
					v = x.X
					continue
				case *ssa.Field:
					if x.X == h {
						return "h." + fieldNameV(h.Type(), x.Field)
					}
				case *ssa.UnOp:
					if fa, ok := x.X.(*ssa.FieldAddr); ok {
						// h spilled to an alloc
						if a, ok := fa.X.(*ssa.Alloc); ok {
							for _, rf := range refs(a) {
								if st, ok := rf.(*ssa.Store); ok && st.Val == h {
									return "h." + fieldName(fa.X.Type(), fa.Field)
								}
							}
						}
						if fa.X == recv {
							return "ir." + fieldName(fa.X.Type(), fa.Field)
						}
					}
				}
				break
			}
			if k, ok := constInt(v); ok {
				return fmt.Sprintf("const:%d", k)
			}
			return shortVal(v)
		}
		eachInstr(f, func(_ *ssa.BasicBlock, _ int, in ssa.Instruction) {
			switch x := in.(type) {
			case *ssa.Store:
				if fa, ok := x.Addr.(*ssa.FieldAddr); ok {
					// ir.F = ... or ir.Exif.F = ...
					path := ""
					cur := ssa.Value(fa)
					for {
						fa2, ok := cur.(*ssa.FieldAddr)
						if !ok {
							break
						}
						path = "." + fieldName(fa2.X.Type(), fa2.Field) + path
						cur = fa2.X
					}
					if cur == recv {
						fc["store ir"+path] = hfield(x.Val)
					}
				}
			case ssa.CallInstruction:
				c := x.Common()
				sc := c.StaticCallee()
				if sc == nil {
					return
				}
				switch fnName(sc) {
				case "exif2.(*ifdReader).ResetReader":
					if len(c.Args) == 2 && c.Args[1] == ssa.Value(f.Params[1]) {
						fc["ResetReader"] = "r"
					} else {
						fc["ResetReader"] = "other"
					}
				case "exif2.(*ifdReader).discard":
					if _, isDefer := in.(*ssa.Defer); !isDefer {
						k := "discard"
						if _, seen := fc[k]; seen {
							k = "discard#2"
						}
						fc[k] = hfield(c.Args[1])
					}
				case "exif2.(*ifdReader).readIfd":
					// argument must be NewIFD(h.ByteOrder, IfdType(h.FirstIfd), 0, ir.tiffHeaderOffset, 0)
					if nc, ok := c.Args[1].(*ssa.Call); ok && nc.Call.StaticCallee() != nil && fnName(nc.Call.StaticCallee()) == "exif2/ifds.NewIFD" {
						var parts []string
						for _, a := range nc.Call.Args {
							parts = append(parts, hfield(a))
						}
						fc["readIfd"] = "NewIFD(" + strings.Join(parts, ",") + ")"
					} else {
						fc["readIfd"] = "other"
					}
				}
			}
		})
		all[name] = fc
	}
	// required facts per sibling
	for _, name := range sibs {
		fc := all[name]
		key := "exif2.(*ifdReader)." + name
		f := p.Func("exif2", "*ifdReader", name)
		at := p.posStr(f.Pos())
		var bad []string
		if fc["ResetReader"] != "r" {
			bad = append(bad, "does not reset the reader state with its reader argument")
		}
		if fc["store ir.Exif.ImageType"] != "h.ImageType" {
			bad = append(bad, "Exif.ImageType is not taken from the header ("+fc["store ir.Exif.ImageType"]+")")
		}
		if fc["store ir.firstIfdOffset"] != "h.FirstIfdOffset" {
			bad = append(bad, "firstIfdOffset is not taken from the header")
		}
		if _, ok := fc["store ir.exifLength"]; !ok {
			bad = append(bad, "exifLength is not initialised")
		}
		// position: either discard(h.FirstIfdOffset) or po = h.FirstIfdOffset
		if fc["discard"] != "h.FirstIfdOffset" && fc["store ir.po"] != "h.FirstIfdOffset" {
			bad = append(bad, "the read position is not established from h.FirstIfdOffset (neither discard nor po store)")
		}
		if !strings.HasPrefix(fc["readIfd"], "NewIFD(h.ByteOrder,h.FirstIfd,const:0,ir.tiffHeaderOffset,const:0)") {
			bad = append(bad, "readIfd is not started on NewIFD(h.ByteOrder, h.FirstIfd, 0, ir.tiffHeaderOffset, 0): "+fc["readIfd"])
		}
		if len(bad) > 0 {
			r.Bad("SIB", key, at, strings.Join(bad, "; "))
		} else {
			var ks []string
			for k, v := range fc {
				ks = append(ks, k+"="+v)
			}
			sort.Strings(ks)
			r.OK("SIB", key, at, strings.Join(ks, " "))
		}
	}
	// sibling agreement on the set of state fields written
	fields := func(fc facts) string {
		var ks []string
		for k := range fc {
			if strings.HasPrefix(k, "store ir.") && k != "store ir.po" {
				ks = append(ks, k)
			}
		}
		sort.Strings(ks)
		return strings.Join(ks, ",")
	}
	base := fields(all[sibs[0]])
	for _, name := range sibs[1:] {
		if fields(all[name]) != base {
			r.Bad("SIB", "agreement | "+name, "-", fmt.Sprintf("state fields written differ from DecodeTiff: {%s} vs {%s}", fields(all[name]), base))
		} else {
			r.OK("SIB", "agreement | "+name, "-", "writes the same state fields as DecodeTiff")
		}
	}
}

// ---- SWITCH ------------------------------------------------------------------------------------

func ruleSwitch(p *Prog, r *Report) {
	f := p.Func("", "", "Decode")
	if f == nil {
		r.Fatal("unresolved anchor imagemeta.Decode")
		return
	}
	sibNames := map[string]bool{"exif2.(*ifdReader).DecodeTiff": true, "exif2.(*ifdReader).DecodeJPEGIfd": true, "exif2.(*ifdReader).DecodeIfd": true}
	// every value that flows into an ExifReader slot or ExifReader parameter must be a bound method of a sibling
	n := 0
	for _, fn := range p.AllLibFns() {
		if fn.Pkg == nil || relPkg(fn.Pkg.Pkg.Path()) != "imagemeta" {
			continue
		}
		eachInstr(fn, func(_ *ssa.BasicBlock, _ int, in ssa.Instruction) {
			check := func(v ssa.Value, what string) {
				if isNilConst(v) {
					return
				}
				sig, ok := v.Type().Underlying().(*types.Signature)
				if !ok || sig.Params().Len() != 2 {
					return
				}
				if nm, ok := sig.Params().At(1).Type().(*types.Named); !ok || nm.Obj().Name() != "ExifHeader" {
					return
				}
				n++
				key := fnName(fn) + " | " + what
				mc, ok := v.(*ssa.MakeClosure)
				if !ok {
					r.Bad("SWITCH", key, p.posStr(instrPos(in)), "Exif callback is not a bound method of the ifdReader: "+shortVal(v))
					return
				}
				bound := mc.Fn.(*ssa.Function)
				target := ""
				eachCall(bound, func(cs ssa.CallInstruction) {
					if sc := cs.Common().StaticCallee(); sc != nil {
						target = fnName(sc)
					}
				})
				if !sibNames[target] {
					r.Bad("SWITCH", key, p.posStr(instrPos(in)), "Exif callback is "+target+", not one of the sibling Exif entry points")
				} else {
					r.OK("SWITCH", key, p.posStr(instrPos(in)), "callback = "+target)
				}
			}
			switch x := in.(type) {
			case *ssa.Store:
				if fa, ok := x.Addr.(*ssa.FieldAddr); ok && fieldName(fa.X.Type(), fa.Field) == "ExifReader" {
					check(x.Val, "store ExifReader")
				}
			case ssa.CallInstruction:
				c := x.Common()
				if sc := c.StaticCallee(); sc != nil && fnName(sc) == "jpeg.ScanJPEG" {
					check(c.Args[1], "ScanJPEG exifReader")
				}
			}
		})
		// direct calls of sibling methods
		eachCall(fn, func(cs ssa.CallInstruction) {
			if sc := cs.Common().StaticCallee(); sc != nil && sibNames[fnName(sc)] {
				n++
				// header argument must come from a scanner of the same stream
				h := cs.Common().Args[2]
				src := ""
				if ex, ok := h.(*ssa.Extract); ok {
					if c, ok := ex.Tuple.(*ssa.Call); ok && c.Call.StaticCallee() != nil {
						src = fnName(c.Call.StaticCallee())
					}
				}
				key := fnName(fn) + " | " + fnName(sc)
				if src != "tiff.ScanTiffHeader" && src != "png.ScanPngHeader" {
					r.Bad("SWITCH", key, p.posStr(instrPos(cs)), "header passed to the Exif entry point does not come from a header scanner: "+shortVal(h))
				} else {
					r.OK("SWITCH", key, p.posStr(instrPos(cs)), "header from "+src)
				}
			}
		})
	}
	// the TIFF-family case constants are exactly those with a TIFF-based signature
	_ = token.NoPos
}

// ---- PNGWALK: no chunk other than eXIf ends or redirects the PNG chunk walk ------------------------------------

// rulePngWalk: in png.ScanPngHeader every way out of the chunk loop (a return inside it, an edge leaving it) is
// under a failed read/seek (an error value compared with nil) or under chunkType == "eXIf". Any other chunk — IDAT,
// IEND, ancillary chunks before or after the image data — is skipped and has no influence on the result.
func rulePngWalk(p *Prog, r *Report) {
	f := p.Func("png", "", "ScanPngHeader")
	key := "png.ScanPngHeader | only eXIf or an I/O error leaves the chunk walk"
	if f == nil {
		r.Undecided("PNGWALK", key, "-", "unresolved anchor")
		return
	}
	loops := findLoops(f)
	if len(loops) == 0 {
		r.Undecided("PNGWALK", key, p.posStr(f.Pos()), "no chunk loop found")
		return
	}
	okCond := func(cs []Cond) bool {
		for _, cd := range cs {
			bo, ok := cd.V.(*ssa.BinOp)
			if !ok {
				continue
			}
			// err != nil (true) / err == nil (false)
			if isErrorType(bo.X.Type()) && (isNilConst(bo.Y) || isNilConst(bo.X)) {
				if (bo.Op == token.NEQ) == cd.True {
					return true
				}
			}
			// chunkType == "eXIf" (true)
			if bo.Op == token.EQL && cd.True {
				for _, v := range []ssa.Value{bo.X, bo.Y} {
					if s, ok := constString(v); ok && s == "eXIf" {
						return true
					}
				}
			}
			// a failed signature inside the eXIf chunk is covered by the eXIf condition above
		}
		return false
	}
	n := 0
	bad := ""
	for _, l := range loops {
		for b := range l.Blocks {
			if len(b.Instrs) == 0 {
				continue
			}
			last := b.Instrs[len(b.Instrs)-1]
			if rt, ok := last.(*ssa.Return); ok {
				n++
				if !okCond(condsAt(b)) {
					bad = fmt.Sprintf("return at %s inside the chunk walk depends neither on an I/O error nor on the eXIf chunk", p.posStr(instrPos(rt)))
				}
			}
			for _, s := range b.Succs {
				if l.Blocks[s] {
					continue
				}
				n++
				if !okCond(edgeConds(b, s)) {
					bad = fmt.Sprintf("the chunk walk is left from %s (block %q) under a condition that is neither an I/O error nor the eXIf chunk", p.posStr(instrPos(last)), b.Comment)
				}
			}
		}
	}
	if bad != "" {
		r.Bad("PNGWALK", key, p.posStr(f.Pos()), bad+": another chunk decides whether the Exif payload is found")
	} else if n == 0 {
		r.Undecided("PNGWALK", key, p.posStr(f.Pos()), "the chunk loop has no exit")
	} else {
		r.OK("PNGWALK", key, p.posStr(f.Pos()), fmt.Sprintf("%d exits of the chunk loop, each under err != nil or chunkType == \"eXIf\"", n))
	}
}

// ---- PAYSEEK: the payload decoder never addresses the stream absolutely ---------------------------------------

// rulePaySeek: the Exif decoder (package exif2) gets a stream positioned by a container scanner; the same payload
// sits at different absolute offsets in different containers. Every Seek in exif2 must therefore be relative to the
// current position (whence == io.SeekCurrent), with one exception: positioning the stream at the header the scanner
// reported (offset = ExifHeader.TiffHeaderOffset, whence == io.SeekStart).
func rulePaySeek(p *Prog, r *Report) {
	sp := p.SSAPkg("exif2")
	if sp == nil {
		r.Undecided("PAYSEEK", "exif2 | seeks", "-", "package not loaded")
		return
	}
	n := 0
	for _, f := range pkgFns(sp, p) {
		eachCall(f, func(site ssa.CallInstruction) {
			c := site.Common()
			name := ""
			if c.IsInvoke() {
				name = c.Method.Name()
			} else if sc := c.StaticCallee(); sc != nil && sc.Signature.Recv() != nil {
				name = sc.Name()
			}
			if name != "Seek" {
				return
			}
			args := c.Args
			if !c.IsInvoke() {
				args = args[1:]
			}
			if len(args) != 2 {
				return
			}
			n++
			key := fmt.Sprintf("%s | Seek(%s, %s)", fnName(f), shortVal(args[0]), shortVal(args[1]))
			at := p.posStr(instrPos(site))
			wh, okW := constInt(args[1])
			switch {
			case okW && wh == 1:
				r.OK("PAYSEEK", key, at, "relative to the current position")
			case okW && wh == 0:
				// offset must be exactly <header>.TiffHeaderOffset
				v := stripConv(args[0])
				okHdr := false
				switch x := v.(type) {
				case *ssa.Field:
					okHdr = fieldNameV(x.X.Type(), x.Field) == "TiffHeaderOffset" && strings.HasSuffix(x.X.Type().String(), "meta.ExifHeader")
				case *ssa.UnOp:
					if fa, ok := x.X.(*ssa.FieldAddr); ok && x.Op == token.MUL {
						okHdr = fieldName(fa.X.Type(), fa.Field) == "TiffHeaderOffset" && strings.HasSuffix(derefType(fa.X.Type()).String(), "meta.ExifHeader")
					}
				}
				if okHdr {
					r.OK("PAYSEEK", key, at, "positions the stream at the header the container scanner reported")
				} else {
					r.Bad("PAYSEEK", key, at, "absolute seek to a position computed inside the payload decoder: the payload's absolute offset differs per container (TIFF 0, PNG inside the eXIf chunk, …)")
				}
			default:
				r.Bad("PAYSEEK", key, at, "seek that is neither relative nor the initial positioning at the reported header")
			}
		})
	}
	r.Extra("payseek_sites", n)
}

// ---- CAP / POS: every container hands the decoder the same kind of reader, at the position it expects ----------

// ruleCapPos.
// CAP: the Exif decoder takes one of two read paths, chosen by whether its reader offers Peek/Discard
// (exif2.BufferedReader). The unbuffered path refuses values over 1 024 bytes and directories over 85 entries, so a
// container whose hand-off passes a plain reader decodes long values differently from the others. Every reader
// handed to DecodeTiff / DecodeJPEGIfd / DecodeIfd — directly or through an ExifReader callback — must be of a
// type that implements exif2.BufferedReader.
// POS: DecodeIfd starts with po = FirstIfdOffset, i.e. it expects the stream at the first directory: the ISOBMFF
// hand-off must have consumed exactly FirstIfdOffset bytes of the payload (the offset it read from the header),
// not a constant.
func ruleCapPos(p *Prog, r *Report) {
	ex := p.LibPkg("exif2")
	if ex == nil {
		r.Undecided("CAP", "exif2.BufferedReader", "-", "package exif2 not loaded")
		return
	}
	obj, _ := ex.Types.Scope().Lookup("BufferedReader").(*types.TypeName)
	if obj == nil {
		r.Undecided("CAP", "exif2.BufferedReader", "-", "interface not found")
		return
	}
	iface, _ := obj.Type().Underlying().(*types.Interface)
	if iface == nil {
		r.Undecided("CAP", "exif2.BufferedReader", "-", "not an interface")
		return
	}
	isHdr := func(t types.Type) bool { return strings.HasSuffix(t.String(), "meta.ExifHeader") }
	n := 0
	for _, f := range p.AllLibFns() {
		eachCall(f, func(site ssa.CallInstruction) {
			c := site.Common()
			var rd ssa.Value
			what := ""
			if sc := c.StaticCallee(); sc != nil {
				if sc.Signature.Recv() == nil || !strings.HasPrefix(sc.Name(), "Decode") || len(c.Args) != 3 || !isHdr(c.Args[2].Type()) {
					return
				}
				if n := namedOfPtr(sc.Signature.Recv().Type()); n == nil || n.Obj().Name() != "ifdReader" {
					return
				}
				rd, what = c.Args[1], "exif2."+sc.Name()
			} else if !c.IsInvoke() {
				if _, isB := c.Value.(*ssa.Builtin); isB {
					return
				}
				sig, ok := c.Value.Type().Underlying().(*types.Signature)
				if !ok || sig.Params().Len() != 2 || !isHdr(sig.Params().At(1).Type()) || sig.Params().At(0).Type().String() != "io.Reader" {
					return
				}
				rd, what = c.Args[0], "the Exif callback "+shortVal(c.Value)
			} else {
				return
			}
			n++
			t := rd.Type()
			if mi, ok := rd.(*ssa.MakeInterface); ok {
				t = mi.X.Type()
			}
			key := fmt.Sprintf("%s | reader handed to %s", fnName(f), what)
			at := p.posStr(instrPos(site))
			if types.Implements(t, iface) {
				r.OK("CAP", key, at, fmt.Sprintf("%s implements exif2.BufferedReader", t))
			} else {
				r.Bad("CAP", key, at, fmt.Sprintf("a %s is handed over, which has no Peek/Discard: the decoder takes its unbuffered path, which refuses values over 1 024 bytes and large directories that the other containers decode", t))
			}
		})
	}
	r.Extra("cap_handoffs", n)

	// POS
	sp := p.SSAPkg("isobmff")
	if sp == nil {
		return
	}
	for _, f := range pkgFns(sp, p) {
		var hdr *ssa.Call
		eachCall(f, func(site ssa.CallInstruction) {
			if c, ok := site.(*ssa.Call); ok && c.Call.StaticCallee() != nil && fnName(c.Call.StaticCallee()) == "meta.NewExifHeader" {
				hdr = c
			}
		})
		if hdr == nil {
			continue
		}
		first := stripConv(hdr.Call.Args[1])
		eachCall(f, func(site ssa.CallInstruction) {
			sc := site.Common().StaticCallee()
			if sc == nil || sc.Name() != "Discard" || len(site.Common().Args) != 2 || !instrDominates(hdr, site.(ssa.Instruction)) {
				return
			}
			key := fmt.Sprintf("%s | bytes consumed before the hand-off = FirstIfdOffset", fnName(f))
			at := p.posStr(instrPos(site))
			amt := stripConv(site.Common().Args[1])
			same := amt == first
			if !same {
				// the offset read from the header field that NewExifHeader stored
				if pth, ok := fieldPathOf(amt); ok && strings.HasSuffix(pth, "FirstIfdOffset") {
					same = true
				}
			}
			if same {
				r.OK("POS", key, at, "the hand-off skips exactly the first-directory offset read from the payload's header")
			} else {
				r.Bad("POS", key, at, fmt.Sprintf("the hand-off skips %s while the decoder it feeds (DecodeIfd: po = FirstIfdOffset) assumes FirstIfdOffset bytes were consumed: a payload whose first directory is not at offset 8 decodes from a bare TIFF but not from this container", shortVal(site.Common().Args[1])))
			}
		})
	}
}

// ---- WALKERR: a sibling box that fails does not end the walk over its siblings --------------------------
//
// Every loop that steps through the children of a box with (*box).readInnerBox dispatches each child to a
// handler and then closes it. "Other container content has no influence" requires that the outcome of a
// handler — the child may be any box, metadata or not — decides nothing about the walk: no edge that leaves
// the loop, and no return, may be reachable from the err != nil side of a test of a handler's error without
// first rejoining the path the err == nil side takes. (The errors of readInnerBox itself and of the child's
// close() do end the walk: after them the position in the parent is unknown.)
func ruleWalkErr(p *Prog, r *Report) {
	step := p.Func("isobmff", "*box", "readInnerBox")
	cls := p.Func("isobmff", "*box", "close")
	if step == nil || cls == nil {
		r.Undecided("WALKERR", "isobmff.(*box).readInnerBox", "-", "unresolved anchor")
		return
	}
	for _, f := range p.AllLibFns() {
		if f.Pkg == nil || len(f.Blocks) == 0 || !strings.HasSuffix(f.Pkg.Pkg.Path(), "/isobmff") {
			continue
		}
		for li, l := range findLoops(f) {
			walks := false
			for b := range l.Blocks {
				for _, in := range b.Instrs {
					if c, ok := in.(*ssa.Call); ok && c.Call.StaticCallee() == step {
						walks = true
					}
				}
			}
			if !walks {
				continue
			}
			key := fmt.Sprintf("%s | child walk #%d", fnName(f), li+1)
			at := p.posStr(blockPos0(l.Head))
			nTests, nHandlers := 0, 0
			bad := ""
			for b := range l.Blocks {
				if len(b.Instrs) == 0 {
					continue
				}
				ifi, ok := b.Instrs[len(b.Instrs)-1].(*ssa.If)
				if !ok {
					continue
				}
				bo, ok := ifi.Cond.(*ssa.BinOp)
				if !ok || (bo.Op != token.NEQ && bo.Op != token.EQL) {
					continue
				}
				var ev ssa.Value
				if isNilConst(bo.Y) && isErrorType(bo.X.Type()) {
					ev = bo.X
				} else if isNilConst(bo.X) && isErrorType(bo.Y.Type()) {
					ev = bo.Y
				}
				if ev == nil {
					continue
				}
				handler := ""
				seen := map[ssa.Value]bool{}
				var trace func(v ssa.Value, d int)
				trace = func(v ssa.Value, d int) {
					if seen[v] || d > 8 {
						return
					}
					seen[v] = true
					switch x := v.(type) {
					case *ssa.Phi:
						for _, e := range x.Edges {
							trace(e, d+1)
						}
					case *ssa.Extract:
						trace(x.Tuple, d+1)
					case *ssa.Call:
						sc := x.Call.StaticCallee()
						if sc == step || sc == cls {
							return
						}
						if l.Blocks[x.Block()] {
							handler = calleeName(&x.Call)
						}
					}
				}
				trace(ev, 0)
				if handler == "" {
					continue
				}
				nTests++
				nHandlers++
				nonnil, nilS := b.Succs[0], b.Succs[1]
				if bo.Op == token.EQL {
					nonnil, nilS = nilS, nonnil
				}
				// blocks of the loop the err == nil side reaches before the next iteration
				rNil := map[*ssa.BasicBlock]bool{}
				var mark func(x *ssa.BasicBlock)
				mark = func(x *ssa.BasicBlock) {
					if rNil[x] || !l.Blocks[x] || x == l.Head {
						return
					}
					rNil[x] = true
					for _, s := range x.Succs {
						mark(s)
					}
				}
				mark(nilS)
				vis := map[*ssa.BasicBlock]bool{}
				var walk func(x *ssa.BasicBlock)
				walk = func(x *ssa.BasicBlock) {
					if vis[x] || bad != "" {
						return
					}
					vis[x] = true
					if !l.Blocks[x] {
						bad = fmt.Sprintf("the error of %s (tested at %s) leads out of the walk at %s without rejoining the path taken when there is no error: a child box that fails keeps the remaining children — the Exif boxes among them — from being read", handler, p.posStr(instrPos(ifi)), p.posStr(blockPos0(x)))
						return
					}
					if rNil[x] || x == l.Head {
						return
					}
					for _, s := range x.Succs {
						walk(s)
					}
				}
				walk(nonnil)
			}
			// and no exit at all that is not about the walk itself: the loop may leave on the step's own results
			// (readInnerBox's error or its "no more children" flag) and on the error of the child's close(), on nothing else
			if bad == "" {
				for _, ifi := range exitTests(l) {
					okCond := true
					why := ""
					seenV := map[ssa.Value]bool{}
					var src func(v ssa.Value, d int)
					src = func(v ssa.Value, d int) {
						if seenV[v] || d > 8 || !okCond {
							return
						}
						seenV[v] = true
						switch x := v.(type) {
						case *ssa.BinOp:
							src(x.X, d+1)
							src(x.Y, d+1)
						case *ssa.UnOp:
							if x.Op == token.NOT {
								src(x.X, d+1)
							} else {
								okCond, why = false, shortVal(x)
							}
						case *ssa.Phi:
							for _, e := range x.Edges {
								src(e, d+1)
							}
						case *ssa.Extract:
							src(x.Tuple, d+1)
						case *ssa.Call:
							sc := x.Call.StaticCallee()
							if sc != nil && strings.HasPrefix(sc.Name(), "logLevel") {
								return // a level test next to an error test: C15 LOGFLOW decides that the level changes nothing
							}
							if sc != step && sc != cls {
								// a handler's result: the reachability clause above has dealt with error tests; a loop exit
								// directly on it is an early end of the walk
								okCond, why = false, "the result of "+calleeName(&x.Call)
							}
						case *ssa.Const:
							if x.Value != nil {
								// a literal true/false assigned to a flag inside the loop
								if _, isPhiEdge := v.(*ssa.Const); isPhiEdge && x.Value.Kind() == constant.Bool {
									okCond, why = false, "a flag set inside the loop"
								}
							}
						default:
							okCond, why = false, shortVal(v)
						}
					}
					src(ifi.Cond, 0)
					if !okCond {
						bad = fmt.Sprintf("the walk can end at %s on %s — not on the end of the children, a failing step or a failing close: the children after that point, the Exif boxes among them, are never read", p.posStr(instrPos(ifi)), why)
						break
					}
				}
			}
			if bad != "" {
				r.Bad("WALKERR", key, at, bad)
			} else {
				r.OK("WALKERR", key, at, fmt.Sprintf("%d tests of handler errors inside the walk, none decides whether the walk continues", nTests))
			}
			_ = nHandlers
		}
	}
}

// blockPos0: first valid position of an instruction in the block.
func blockPos0(b *ssa.BasicBlock) token.Pos {
	for _, in := range b.Instrs {
		if ps := instrPos(in); ps.IsValid() {
			return ps
		}
	}
	return token.NoPos
}

// ---- HDRFLOW: the header handed to the Exif decoder is the one read from this payload ---------------------
//
// Every meta.ExifHeader value that is passed on in a call or returned must, on every flow path, be the result of a
// header construction made for the payload at hand (a call returning an ExifHeader, ultimately
// meta.NewExifHeader over the payload's own bytes — which HDR checks), a by-value parameter, or a local variable
// holding such a value. A header loaded from memory that outlives the payload — a pointer parameter, a field, a
// package-level variable, a captured variable — is some other payload's header: its byte order and
// first-directory offset need not be this payload's.
func ruleHdrFlow(p *Prog, r *Report) {
	isHdr := func(t types.Type) bool {
		n, ok := t.(*types.Named)
		return ok && n.Obj().Name() == "ExifHeader" && n.Obj().Pkg() != nil && strings.HasSuffix(n.Obj().Pkg().Path(), "/meta")
	}
	var origin func(f *ssa.Function, v ssa.Value, d int, seen map[ssa.Value]bool) string
	origin = func(f *ssa.Function, v ssa.Value, d int, seen map[ssa.Value]bool) string {
		if seen[v] || d > 8 {
			return ""
		}
		seen[v] = true
		switch x := v.(type) {
		case *ssa.Call, *ssa.Const, *ssa.Parameter:
			return ""
		case *ssa.Extract:
			if _, ok := x.Tuple.(*ssa.Call); ok {
				return ""
			}
			return "a value of unrecognised origin"
		case *ssa.Phi:
			for _, e := range x.Edges {
				if w := origin(f, e, d+1, seen); w != "" {
					return w
				}
			}
			return ""
		case *ssa.UnOp:
			if x.Op != token.MUL {
				return "a value of unrecognised origin"
			}
			switch a := x.X.(type) {
			case *ssa.Alloc:
				for _, rf := range refs(a) {
					switch u := rf.(type) {
					case *ssa.Store:
						if u.Addr == ssa.Value(a) {
							if w := origin(f, u.Val, d+1, seen); w != "" {
								return w
							}
						}
					case *ssa.Call:
						// the address of the local handed to a callee: anything may be written into it
						return "a local variable whose address is passed to " + calleeName(&u.Call)
					}
				}
				return ""
			case *ssa.Parameter:
				return "the header behind the pointer parameter " + a.Name() + " (written by an earlier payload)"
			case *ssa.FreeVar:
				return "the captured variable " + a.Name()
			case *ssa.Global:
				return "the package-level variable " + globalName(a)
			case *ssa.FieldAddr:
				return "the field " + fieldName(a.X.Type(), a.Field) + " of a longer-lived object"
			case *ssa.IndexAddr:
				return "an element of a longer-lived array"
			}
			return "memory of unrecognised origin"
		}
		return "a value of unrecognised origin (" + shortVal(v) + ")"
	}
	n := 0
	for _, f := range p.AllLibFns() {
		if len(f.Blocks) == 0 {
			continue
		}
		eachInstr(f, func(b *ssa.BasicBlock, _ int, in ssa.Instruction) {
			var vals []ssa.Value
			what := ""
			switch x := in.(type) {
			case ssa.CallInstruction:
				c := x.Common()
				if sc := c.StaticCallee(); sc != nil && sc.Signature.Recv() != nil && isHdr(derefT(sc.Signature.Recv().Type())) {
					return // a method of the header itself
				}
				for _, a := range c.Args {
					if isHdr(a.Type()) {
						vals = append(vals, a)
					}
				}
				what = "passed to " + calleeName(c)
			case *ssa.Return:
				for _, a := range x.Results {
					if isHdr(a.Type()) {
						vals = append(vals, a)
					}
				}
				what = "returned"
			}
			for _, v := range vals {
				n++
				key := fmt.Sprintf("%s | header %s", fnName(f), what)
				if w := origin(f, v, 0, map[ssa.Value]bool{}); w != "" {
					r.Bad("HDRFLOW", key, p.posStr(instrPos(in)), "the header "+what+" is "+w+": its byte order and first-directory offset are not read from the payload being handed over")
				} else {
					r.OK("HDRFLOW", key, p.posStr(instrPos(in)), "constructed for this payload on every flow path")
				}
			}
		})
	}
	_ = n
}

func derefT(t types.Type) types.Type {
	if pt, ok := t.Underlying().(*types.Pointer); ok {
		return pt.Elem()
	}
	return t
}
