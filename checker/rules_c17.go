package main

// C17 — every enum and tag value formats without panicking; known values by their name.
// STRTOTAL (E3 bounds proving over every String/Extension/TagName/Name method and what it calls, no recover
// credit), STRFOLD (constant folding of the stringers on every declared constant and on boundary values:
// no panic), DOCNAME (documented `N: "Name"` rows), RT (FromString(String(v)) == v for image types and
// XMP namespace prefixes).

import (
	"fmt"
	"go/ast"
	"go/constant"
	"go/types"
	"sort"
	"strings"

	"golang.org/x/tools/go/ssa"
)

func init() { register("C17", true, checkC17) }

var strMethodNames = map[string]bool{"String": true, "Extension": true, "TagName": true, "Name": true}

// strMethods: methods of library types named String/Extension/TagName/Name that return exactly one string.
func strMethods(p *Prog) []*ssa.Function {
	var out []*ssa.Function
	for _, pk := range p.Lib {
		sp := p.SSA.Package(pk.Types)
		if sp == nil {
			continue
		}
		for _, mem := range sp.Members {
			tn, ok := mem.(*ssa.Type)
			if !ok {
				continue
			}
			named, ok := tn.Type().(*types.Named)
			if !ok {
				continue
			}
			for _, t := range []types.Type{named, types.NewPointer(named)} {
				ms := p.SSA.MethodSets.MethodSet(t)
				for i := 0; i < ms.Len(); i++ {
					sel := ms.At(i)
					if !strMethodNames[sel.Obj().Name()] {
						continue
					}
					f := p.SSA.MethodValue(sel)
					if f == nil || f.Blocks == nil || f.Synthetic != "" {
						continue
					}
					res := f.Signature.Results()
					if res.Len() != 1 || !isStringType(res.At(0).Type()) {
						continue
					}
					out = append(out, f)
				}
			}
		}
	}
	// exported package-level name lookups: func(enum, enum…) string (TagExifIfdString, TagSubIfdString, …)
	for _, pk := range p.Lib {
		sp := p.SSA.Package(pk.Types)
		if sp == nil {
			continue
		}
		for name, mem := range sp.Members {
			f, ok := mem.(*ssa.Function)
			if !ok || f.Blocks == nil || !ast.IsExported(name) || f.Signature.Recv() != nil {
				continue
			}
			res := f.Signature.Results()
			if res.Len() != 1 || !isStringType(res.At(0).Type()) || f.Signature.Params().Len() == 0 {
				continue
			}
			allEnum := true
			for i := 0; i < f.Signature.Params().Len(); i++ {
				pt := f.Signature.Params().At(i).Type()
				if _, isNamed := pt.(*types.Named); !isNamed || !isIntType(pt.Underlying()) {
					allEnum = false
				}
			}
			if allEnum {
				out = append(out, f)
			}
		}
	}
	seen := map[*ssa.Function]bool{}
	var uniq []*ssa.Function
	for _, f := range out {
		if !seen[f] {
			seen[f] = true
			uniq = append(uniq, f)
		}
	}
	sortFns(uniq)
	return uniq
}

// declaredConsts: package-level constants whose type is exactly named, sorted by value.
type declConst struct {
	name string
	val  int64
}

func declaredConsts(named *types.Named) []declConst {
	var out []declConst
	pk := named.Obj().Pkg()
	if pk == nil {
		return nil
	}
	for _, n := range pk.Scope().Names() {
		c, ok := pk.Scope().Lookup(n).(*types.Const)
		if !ok || !types.Identical(c.Type(), named) || c.Val().Kind() != constant.Int {
			continue
		}
		v, exact := constant.Int64Val(c.Val())
		if !exact {
			if u, ok := constant.Uint64Val(c.Val()); ok {
				v = int64(u)
			}
		}
		out = append(out, declConst{n, v})
	}
	sort.Slice(out, func(i, j int) bool {
		if out[i].val != out[j].val {
			return out[i].val < out[j].val
		}
		return out[i].name < out[j].name
	})
	return out
}

func recvNamed(f *ssa.Function) *types.Named {
	recv := f.Signature.Recv()
	if recv == nil {
		return nil
	}
	t := recv.Type()
	if pt, ok := t.(*types.Pointer); ok {
		t = pt.Elem()
	}
	n, _ := t.(*types.Named)
	return n
}

func checkC17(p *Prog, r *Report) {
	r.Explain("STRTOTAL: every index, slice, division and type assertion in every String/Extension/TagName/Name method of a library type and in the library functions it calls is an obligation for the E3 bounds prover, with the receiver ranging over its whole type (negative values of signed types included) and no credit for recover frames; slices of a name string by an offset table are discharged by IDXTBL (table non-decreasing, last entry within the string, index+1 proved in range). NILF: a call through a function value in these functions is dominated by its nil test or goes through a gap-free package-level function table. INITORD: walking each package initialiser in the compiler's order, no initialiser calls (through static calls or the String/Error methods of values boxed for fmt) a function that reads a table of the same package initialised later. NARROW: a stringer never narrows its receiver to a smaller integer type before looking it up unless the value is proved to fit (two values that differ only in the dropped bits would get the same name). STRFOLD: the stringer of every integer-based type is constant-folded (loop-free decision tree over immutable tables: comparisons, table/map/string indexing, returns) on every declared constant and on the boundary values of the type; a fold that ends in a panic is a violation with the value as witness. TBLNAME: where a String method looks its receiver up directly in a package-level table of names (array, slice or map), folding String(k) for every non-empty row k gives exactly that row's name — no row is cut off by a guard or shadowed. SUBTAG: IfdType.TagName folded on the rows of spec/subifd_tag_names.json (the strip pointers are PreviewImageStart/Length in the numbered sub-directories, JpgFromRawStart/Length in SubIfd2, StripOffsets/ByteCounts in IFD0). DOCNAME: where the type's doc comment lists N: \"Name\" rows the folded name of N equals the documented one. RT: FromString(String(v)) == v for every declared image type and IdentifyNamespace(String(ns)) == ns for every declared XMP namespace.")
	r.Trusted("map reads never panic", "fmt.Sprintf with a constant verb-free format returns the format", "strings.ToLower on ASCII", "strings/bytes Index*, LastIndex*: -1 <= r <= len(s)-1 (<= len(s) for substring searches)")
	ms := strMethods(p)
	r.Extra("stringer_methods", len(ms))
	if len(ms) < 30 {
		r.Fatal(fmt.Sprintf("only %d stringer methods found (anchor lost)", len(ms)))
	}
	entry := map[*ssa.Function]bool{}
	for _, f := range ms {
		entry[f] = true
	}
	fs := p.LibReachDirect(ms)
	r.Extra("functions_analysed", len(fs))
	emptyCont := &contInfo{frames: map[*ssa.Function]bool{}, contained: map[*ssa.Function]bool{}, badFrames: map[*ssa.Function]string{}}
	ruleEXP(p, r, fs, emptyCont)
	ruleBND(p, r, fs, nil, entry, "STRTOTAL", false)
	if r.Tier == "thorough" {
		bceCrossRef(p, r, fs)
	}
	ruleTA(p, r, fs, emptyCont)
	ruleNILF(p, r, fs) // a lookup through a table of functions must not meet an unset entry
	ruleNarrow(p, r, ms)
	ruleInitOrd(p, r)
	r.Floor("STRTOTAL", 20)

	fd := &folder{p: p}
	folded, undec := 0, 0
	for _, f := range ms {
		named := recvNamed(f)
		if named == nil || !isIntType(named.Underlying()) || f.Signature.Recv() == nil {
			continue
		}
		if _, isPtr := f.Signature.Recv().Type().(*types.Pointer); isPtr {
			continue
		}
		if len(f.Params) != 1 {
			continue // TagName(id) etc.: covered by STRTOTAL only
		}
		tr := typeRange(named.Underlying())
		consts := declaredConsts(named)
		type probe struct {
			label string
			v     int64
		}
		var probes []probe
		seenV := map[int64]bool{}
		addP := func(l string, v int64) {
			if v < tr.lo || v > tr.hi || seenV[v] {
				return
			}
			seenV[v] = true
			probes = append(probes, probe{l, v})
		}
		for _, c := range consts {
			addP(c.name, c.val)
		}
		rows, _ := p.Tables().DocRows(relPkg(named.Obj().Pkg().Path()), named.Obj().Name())
		for k := range rows {
			if n, ok := atoi(k); ok {
				addP("doc "+k, n)
			}
		}
		maxC := int64(0)
		for v := range seenV {
			if v > maxC {
				maxC = v
			}
		}
		for _, b := range []int64{tr.lo, -1, 0, maxC + 1, maxC + 2, tr.hi} {
			addP("boundary", b)
		}
		// the values between the declared ones too: a sparse table (zero-width index entries for unassigned
		// numbers) formats them as the empty string unless the stringer tests for it
		if maxC <= 512 {
			for v := int64(0); v < maxC; v++ {
				addP("gap", v)
			}
		}
		key := fmt.Sprintf("%s | fold over %s", fnName(f), "declared constants and boundary values")
		at := p.posStr(f.Pos())
		bad, und := "", ""
		names := map[int64]string{}
		for _, pr := range probes {
			res := fd.fold(f, []cval{{kind: "int", i: pr.v}})
			switch {
			case res.panics != "":
				bad += fmt.Sprintf("%s(%d) [%s]: %s; ", named.Obj().Name(), pr.v, pr.label, res.panics)
			case res.undecided != "":
				und = res.undecided
			default:
				names[pr.v] = res.val.s
			}
		}
		if bad != "" {
			r.Bad("STRFOLD", key, at, "formatting panics: "+bad)
		} else if und != "" {
			undec++
			r.OK("STRFOLD", key, at, "not a foldable table lookup ("+und+"): totality decided by STRTOTAL alone")
		} else {
			folded++
			r.OK("STRFOLD", key, at, fmt.Sprintf("%d values folded without panic", len(probes)))
		}
		// ONEFALLBACK: the values that have no name of their own all format the same way
		if f.Name() == "String" && und == "" && bad == "" {
			declared := map[int64]bool{}
			for _, c := range consts {
				declared[c.val] = true
			}
			for k := range rows {
				if n, ok := atoi(k); ok {
					declared[n] = true
				}
			}
			byName := map[string][]int64{}
			for _, pr := range probes {
				nm, ok := names[pr.v]
				if !ok || declared[pr.v] || strings.Contains(nm, fmt.Sprint(pr.v)) {
					continue // a numbered fallback ("Unknown(7)") differs by construction
				}
				byName[nm] = append(byName[nm], pr.v)
			}
			nk := fnName(f) + " | values without a name of their own share one fallback"
			if len(byName) > 1 && len(consts) > 0 {
				var parts []string
				for nm, vs := range byName {
					sort.Slice(vs, func(i, j int) bool { return vs[i] < vs[j] })
					if len(vs) > 4 {
						vs = vs[:4]
					}
					parts = append(parts, fmt.Sprintf("%q for %v", nm, vs))
				}
				sort.Strings(parts)
				r.Bad("ONEFALLBACK", nk, at, "undeclared values format differently: "+strings.Join(parts, ", ")+" - an unassigned number inside a sparse table gets a zero-width or foreign name instead of the fallback the other unknown values get")
			} else {
				r.OK("ONEFALLBACK", nk, at, fmt.Sprintf("%d undeclared values probed, one fallback", func() int {
					n := 0
					for _, v := range byName {
						n += len(v)
					}
					return n
				}()))
			}
		}
		// DOCNAME
		if f.Name() == "String" && len(rows) > 0 {
			var ks []string
			for k := range rows {
				ks = append(ks, k)
			}
			sort.Strings(ks)
			for _, k := range ks {
				n, ok := atoi(k)
				if !ok {
					continue
				}
				dk := fmt.Sprintf("%s | documented %s: %q", fnName(f), k, rows[k])
				got, have := names[n]
				switch {
				case !have && und != "":
					r.Undecided("DOCNAME", dk, at, "the stringer is not a foldable table lookup ("+und+"), the documented row cannot be compared")
				case !have:
					r.Bad("DOCNAME", dk, at, "formatting the documented value panics")
				case got != rows[k]:
					r.Bad("DOCNAME", dk, at, fmt.Sprintf("String() of the documented value %s is %q, the documentation says %q", k, got, rows[k]))
				default:
					r.OK("DOCNAME", dk, at, "table name equals the documented name")
				}
			}
		}
	}
	ruleTblName(p, r, fd, ms)
	ruleSubTag(p, r, fd)
	ruleCmpName(p, r, fd)
	r.Floor("CMPNAME", 40)
	r.Floor("SUBTAG", 15)
	r.Floor("TBLNAME", 5)
	r.Extra("stringers_folded", folded)
	r.Extra("stringers_not_foldable", undec)
	r.Floor("STRFOLD", 15)
	r.Floor("DOCNAME", 20)
	ruleRoundTrip(p, r, fd, "RT", "imagetype", "ImageType", "String", "FromString", false)
	ruleRoundTrip(p, r, fd, "RT", "xmp/xmpns", "Namespace", "String", "IdentifyNamespace", true)
	r.Floor("RT", 30)
}

// ruleRoundTrip: parse(format(c)) == c for every declared constant c of rel.typeName whose name is not shared
// with a smaller constant (aliases / fallback names are compared for the first constant only).
func ruleRoundTrip(p *Prog, r *Report, fd *folder, rule, rel, typeName, format, parse string, bytesArg bool) {
	ruleRoundTripOpt(p, r, fd, rule, rel, typeName, format, parse, bytesArg, false)
}

// ruleRoundTripOpt: with skipUnnamed, a constant whose formatted name is the formatter's answer for an undeclared
// value (it has no name of its own, like a zero "unknown" member) is not required to parse back.
func ruleRoundTripOpt(p *Prog, r *Report, fd *folder, rule, rel, typeName, format, parse string, bytesArg, skipUnnamed bool) {
	pk := p.LibPkg(rel)
	if pk == nil {
		r.Undecided(rule, rel+"."+typeName+" | round trip", "-", "package not found")
		return
	}
	obj, _ := pk.Types.Scope().Lookup(typeName).(*types.TypeName)
	if obj == nil {
		r.Undecided(rule, rel+"."+typeName+" | round trip", "-", "type not found")
		return
	}
	named := obj.Type().(*types.Named)
	ff := p.Func(rel, typeName, format)
	pf := p.Func(rel, "", parse)
	if ff == nil || pf == nil {
		r.Undecided(rule, rel+"."+typeName+" | round trip", "-", "anchor "+format+"/"+parse+" not resolved")
		return
	}
	if why, _ := impureWhy(p, pf); why != "" {
		r.Bad(rule, rel+"."+typeName+" | "+parse+" is a function of the name alone", p.posStr(pf.Pos()), why+": what a name parses to then depends on earlier calls, so no statement about parse(format(c)) holds")
		return
	}
	firstWithName := map[string]string{}
	fallback, haveFallback := "", false
	if skipUnnamed {
		var mx int64
		for _, c := range declaredConsts(named) {
			if c.val > mx {
				mx = c.val
			}
		}
		if fr := fd.fold(ff, []cval{{kind: "int", i: mx + 1}}); fr.panics == "" && fr.undecided == "" {
			fallback, haveFallback = fr.val.s, true
		}
	}
	for _, c := range declaredConsts(named) {
		key := fmt.Sprintf("%s.%s | %s(%s(%s))", rel, typeName, parse, format, c.name)
		at := p.posStr(pf.Pos())
		fr := fd.fold(ff, []cval{{kind: "int", i: c.val}})
		if haveFallback && fr.panics == "" && fr.undecided == "" && fr.val.s == fallback {
			r.OK(rule, key, at, fmt.Sprintf("has no name of its own (formats as %q like an undeclared value)", fallback))
			continue
		}
		if fr.panics != "" {
			r.Bad(rule, key, at, "formatting panics: "+fr.panics)
			continue
		}
		if fr.undecided != "" {
			r.Undecided(rule, key, at, "formatter not foldable: "+fr.undecided)
			continue
		}
		name := fr.val.s
		if other, dup := firstWithName[name]; dup {
			r.OK(rule, key, at, fmt.Sprintf("shares its name %q with %s (compared there)", name, other))
			continue
		}
		firstWithName[name] = c.name
		arg := cval{kind: "str", s: name}
		if bytesArg {
			arg.kind = "bytes"
		}
		pr := fd.fold(pf, []cval{arg})
		if pr.panics != "" {
			r.Bad(rule, key, at, "parsing the name panics: "+pr.panics)
			continue
		}
		if pr.undecided != "" {
			r.Undecided(rule, key, at, "parser not foldable: "+pr.undecided)
			continue
		}
		got := pr.val
		if got.kind == "tuple" && len(got.tuple) > 0 {
			got = got.tuple[0]
		}
		if got.kind != "int" || got.i != c.val {
			r.Bad(rule, key, at, fmt.Sprintf("%s(%q) returns %s, not %s (=%d): the documented name does not parse back to the value it names", parse, name, got, c.name, c.val))
		} else {
			r.OK(rule, key, at, fmt.Sprintf("%q parses back to %d", name, c.val))
		}
	}
}

// ruleNarrow: in a stringer, a narrowing integer conversion of (a value derived from) the receiver must be proved
// lossless at that point; otherwise values outside the narrow type alias documented ones.
func ruleNarrow(p *Prog, r *Report, ms []*ssa.Function) {
	e := p.E3()
	for _, f := range ms {
		if len(f.Params) == 0 || !isIntType(f.Params[0].Type()) {
			continue
		}
		recv := f.Params[0]
		fromRecv := func(v ssa.Value) bool {
			for i := 0; i < 6; i++ {
				switch x := v.(type) {
				case *ssa.Parameter:
					return x == recv
				case *ssa.Convert:
					v = x.X
				case *ssa.ChangeType:
					v = x.X
				default:
					return false
				}
			}
			return false
		}
		eachInstr(f, func(b *ssa.BasicBlock, _ int, in ssa.Instruction) {
			cv, ok := in.(*ssa.Convert)
			if !ok || !narrowing(cv) || !fromRecv(cv.X) {
				return
			}
			key := fmt.Sprintf("%s | %s narrowed to %s", fnName(f), recv.Name(), cv.Type())
			at := p.posStr(instrPos(cv))
			tr := typeRange(cv.Type())
			t := e.termOf(cv.X)
			if e.ProveLE(b, t, zeroT, tr.hi) && e.ProveLE(b, zeroT, t, -tr.lo) {
				r.OK("NARROW", key, at, "the value is proved to fit the narrower type here")
			} else {
				r.Bad("NARROW", key, at, fmt.Sprintf("the receiver is cut down to %s before the lookup without a range check: every value that differs from a documented one only in the dropped bits gets that value's name instead of the fallback", cv.Type()))
			}
		})
	}
}
