package main

// C09 — SIGPOS: each recogniser looks only at the bytes its signature defines.
//
// The decision list of imagetype (parseBuffer) returns a type under a condition built from recogniser calls
// (isTiff(buf), isFTYPBox(buf) && isHeif(buf) …). For every rule "… return ImageT" the bytes of the header window
// that the recognisers named in its conditions read — transitively, through helpers handed constant windows of the
// buffer — must be among the positions that spec/signatures.json constrains for T. A recogniser that reads further
// (the first-directory offset behind the TIFF signature, the rest of the buffer behind the 24-byte window) makes the
// type depend on bytes that are not part of the signature: the same signature is then classified differently
// depending on what follows, and differently through Buf, Scan and ReadAt when it reads past the window.
// This rule needs no predicate grammar: it is decided on the SSA read sets, so it also covers recognisers that E7
// cannot evaluate.

import (
	"fmt"
	"go/ast"
	"go/types"
	"sort"
	"strings"

	"golang.org/x/tools/go/ssa"
)

type bufWin struct {
	off int64
	n   int64 // length when known, -1 otherwise
}

// bufReadSet: the set of window positions that f reads from its slice parameter prm (which denotes window
// positions base.off …), or a reason why the set is unbounded.
func bufReadSet(p *Prog, f *ssa.Function, prm ssa.Value, base bufWin, out map[int64]bool, seen map[string]bool, depth int) string {
	k := fmt.Sprintf("%s@%d", fnName(f), base.off)
	if seen[k] {
		return ""
	}
	seen[k] = true
	if depth > 6 {
		return "helper calls nested too deeply"
	}
	wins := map[ssa.Value]bufWin{prm: base}
	unb := ""
	for ch := true; ch && unb == ""; {
		ch = false
		eachInstr(f, func(_ *ssa.BasicBlock, _ int, in ssa.Instruction) {
			sl, ok := in.(*ssa.Slice)
			if !ok || unb != "" {
				return
			}
			w, ok := wins[sl.X]
			if !ok {
				return
			}
			if _, done := wins[sl]; done {
				return
			}
			lo := int64(0)
			if sl.Low != nil {
				c, ok := constInt(sl.Low)
				if !ok {
					unb = "a window of the buffer with a computed start at " + p.posStr(instrPos(sl))
					return
				}
				lo = c
			}
			nw := bufWin{off: w.off + lo, n: -1}
			if sl.High != nil {
				if c, ok := constInt(sl.High); ok {
					nw.n = c - lo
				} else {
					unb = "a window of the buffer with a computed end at " + p.posStr(instrPos(sl))
					return
				}
			} else if w.n >= 0 {
				nw.n = w.n - lo
			}
			wins[sl] = nw
			ch = true
		})
	}
	if unb != "" {
		return unb
	}
	whole := func(w bufWin, at string) string {
		if w.n < 0 {
			return "the open-ended rest of the buffer is read as a whole at " + at
		}
		for i := int64(0); i < w.n; i++ {
			out[w.off+i] = true
		}
		return ""
	}
	eachInstr(f, func(_ *ssa.BasicBlock, _ int, in ssa.Instruction) {
		if unb != "" {
			return
		}
		at := p.posStr(instrPos(in))
		switch x := in.(type) {
		case *ssa.IndexAddr:
			if w, ok := wins[x.X]; ok {
				if c, ok := constInt(x.Index); ok {
					out[w.off+c] = true
				} else {
					unb = "a byte at a computed index is read at " + at
				}
			}
		case *ssa.Index:
			if w, ok := wins[x.X]; ok {
				if c, ok := constInt(x.Index); ok {
					out[w.off+c] = true
				} else {
					unb = "a byte at a computed index is read at " + at
				}
			}
		case *ssa.Convert:
			if w, ok := wins[x.X]; ok {
				unb = whole(w, at)
			}
		case *ssa.Range:
			if w, ok := wins[x.X]; ok {
				unb = whole(w, at)
			}
		case ssa.CallInstruction:
			c := x.Common()
			if b, isB := c.Value.(*ssa.Builtin); isB && (b.Name() == "len" || b.Name() == "cap") {
				return
			}
			for i, a := range c.Args {
				w, ok := wins[a]
				if !ok {
					continue
				}
				sc := c.StaticCallee()
				if sc != nil && isRepoFn(sc) && len(sc.Blocks) > 0 && i < len(sc.Params) {
					if u := bufReadSet(p, sc, sc.Params[i], w, out, seen, depth+1); u != "" {
						unb = u
					}
					continue
				}
				// encoding/binary's fixed-width loads read exactly the first 2, 4 or 8 bytes of what they are given
				if sc != nil && sc.Pkg != nil && sc.Pkg.Pkg.Path() == "encoding/binary" {
					if n := map[string]int64{"Uint16": 2, "Uint32": 4, "Uint64": 8}[sc.Name()]; n > 0 {
						for k := int64(0); k < n; k++ {
							out[w.off+k] = true
						}
						continue
					}
				}
				if u := whole(w, at); u != "" {
					unb = "the buffer is handed to " + calleeName(c) + ": " + u
				}
			}
		}
	})
	return unb
}

func ruleSigPos(p *Prog, r *Report) {
	sp, spec := loadSigSpec(r)
	if sp == nil {
		return
	}
	bufFn := p.Func("imagetype", "", "Buf")
	if bufFn == nil {
		r.Undecided("SIGPOS", "imagetype.Buf", "-", "unresolved anchor")
		return
	}
	var dec *ssa.Function
	eachCall(bufFn, func(site ssa.CallInstruction) {
		c := site.Common()
		if sc := c.StaticCallee(); sc != nil && isRepoFn(sc) && len(c.Args) == 1 && c.Args[0] == ssa.Value(bufFn.Params[0]) {
			if n, ok := sc.Signature.Results().At(0).Type().(*types.Named); ok && n.Obj().Name() == "ImageType" && dec == nil {
				dec = sc
			}
		}
	})
	if dec == nil {
		r.Undecided("SIGPOS", "imagetype.Buf | decision function", p.posStr(bufFn.Pos()), "not found")
		return
	}
	fd, pk := p.declOf(dec.Object().(*types.Func))
	if fd == nil || fd.Body == nil {
		r.Undecided("SIGPOS", "decision function", "-", "no declaration")
		return
	}
	// rules: for each `return ImageT`, the recogniser functions called in the enclosing if conditions
	type rule struct {
		typ   string
		preds []*types.Func
		pos   ast.Node
	}
	var rules []rule
	var walk func(stmts []ast.Stmt, ctx []*types.Func)
	walk = func(stmts []ast.Stmt, ctx []*types.Func) {
		for _, s := range stmts {
			switch x := s.(type) {
			case *ast.IfStmt:
				c2 := append([]*types.Func{}, ctx...)
				ast.Inspect(x.Cond, func(n ast.Node) bool {
					ce, ok := n.(*ast.CallExpr)
					if !ok {
						return true
					}
					var fo *types.Func
					switch fn := ce.Fun.(type) {
					case *ast.Ident:
						fo, _ = pk.TypesInfo.Uses[fn].(*types.Func)
					case *ast.SelectorExpr:
						fo, _ = pk.TypesInfo.Uses[fn.Sel].(*types.Func)
					}
					if fo != nil {
						c2 = append(c2, fo)
					}
					return true
				})
				walk(x.Body.List, c2)
				if x.Else != nil {
					if bl, ok := x.Else.(*ast.BlockStmt); ok {
						walk(bl.List, ctx)
					} else {
						walk([]ast.Stmt{x.Else}, ctx)
					}
				}
			case *ast.BlockStmt:
				walk(x.List, ctx)
			case *ast.SwitchStmt:
				if x.Body != nil {
					for _, cc := range x.Body.List {
						if cl, ok := cc.(*ast.CaseClause); ok {
							c2 := append([]*types.Func{}, ctx...)
							for _, e := range cl.List {
								ast.Inspect(e, func(n ast.Node) bool {
									if ce, ok := n.(*ast.CallExpr); ok {
										if id, ok := ce.Fun.(*ast.Ident); ok {
											if fo, ok := pk.TypesInfo.Uses[id].(*types.Func); ok {
												c2 = append(c2, fo)
											}
										}
									}
									return true
								})
							}
							walk(cl.Body, c2)
						}
					}
				}
			case *ast.ReturnStmt:
				if len(x.Results) == 1 {
					if name := exprConstName(pk, x.Results[0]); name != "" && name != sp.Unknown && len(ctx) > 0 {
						rules = append(rules, rule{name, ctx, x})
					}
				}
			}
		}
	}
	walk(fd.Body.List, nil)
	if len(rules) == 0 {
		r.Undecided("SIGPOS", "decision list", p.posStr(fd.Pos()), "no rule of the form `if recogniser(buf) { return ImageT }` found")
		return
	}
	byType := map[string][]rule{}
	for _, rl := range rules {
		byType[rl.typ] = append(byType[rl.typ], rl)
	}
	var typs []string
	for t := range byType {
		typs = append(typs, t)
	}
	sort.Strings(typs)
	for _, t := range typs {
		key := "imagetype | recognisers of " + t + " read only signature bytes"
		allowed := map[int]bool{}
		d, ok := spec[t]
		if !ok {
			r.Undecided("SIGPOS", key, "-", "type not in spec/signatures.json")
			continue
		}
		for _, c := range d {
			for pos := range c {
				allowed[pos] = true
			}
		}
		read := map[int64]bool{}
		unb := ""
		var names []string
		for _, rl := range byType[t] {
			for _, fo := range rl.preds {
				sf := p.SSA.FuncValue(fo)
				if sf == nil || len(sf.Blocks) == 0 {
					continue
				}
				if len(sf.Params) == 0 {
					continue
				}
				if _, isSl := sf.Params[0].Type().Underlying().(*types.Slice); !isSl {
					continue
				}
				names = append(names, fo.Name())
				if u := bufReadSet(p, sf, sf.Params[0], bufWin{0, -1}, read, map[string]bool{}, 0); u != "" && unb == "" {
					unb = fo.Name() + ": " + u
				}
			}
		}
		at := p.posStr(byType[t][0].pos.Pos())
		if unb != "" {
			r.Bad("SIGPOS", key, at, "the bytes read are not bounded ("+unb+"): the type then depends on bytes behind the signature, and on how much of the file the caller happens to pass")
			continue
		}
		var extra []string
		var ks []int64
		for k := range read {
			ks = append(ks, k)
		}
		sort.Slice(ks, func(i, j int) bool { return ks[i] < ks[j] })
		for _, k := range ks {
			if !allowed[int(k)] {
				extra = append(extra, fmt.Sprint(k))
			}
		}
		if len(extra) > 0 {
			r.Bad("SIGPOS", key, at, fmt.Sprintf("%s read byte(s) %s, which the signature of %s does not define: files with the same signature are classified differently depending on what follows it", strings.Join(uniqStrings(names), ", "), strings.Join(extra, ", "), t))
		} else {
			r.OK("SIGPOS", key, at, fmt.Sprintf("%s read %d positions, all constrained by the signature", strings.Join(uniqStrings(names), ", "), len(ks)))
		}
	}
}

func uniqStrings(in []string) []string {
	seen := map[string]bool{}
	var out []string
	for _, s := range in {
		if !seen[s] {
			seen[s] = true
			out = append(out, s)
		}
	}
	sort.Strings(out)
	return out
}

// rulePrefix: imagetype.Buf is a function of the first `window` bytes of its argument. The read set of Buf and of
// every library function it hands the buffer to — computed on SSA — is bounded and lies below the window of
// spec/signatures.json. Scan, ScanBuf and ReadAt only ever pass that many bytes; a Buf that looks further gives
// another answer for the same file depending on which entry point, or how much of the file, the caller used.
func rulePrefix(p *Prog, r *Report) {
	sp, _ := loadSigSpec(r)
	if sp == nil {
		return
	}
	f := p.Func("imagetype", "", "Buf")
	key := fmt.Sprintf("imagetype.Buf | reads only the first %d bytes of its argument", sp.Window)
	if f == nil || len(f.Params) != 1 {
		r.Undecided("PREFIX", key, "-", "unresolved anchor")
		return
	}
	read := map[int64]bool{}
	unb := bufReadSet(p, f, f.Params[0], bufWin{0, -1}, read, map[string]bool{}, 0)
	at := p.posStr(f.Pos())
	if unb != "" {
		r.Bad("PREFIX", key, at, "the bytes Buf reads are not bounded ("+unb+"): its answer depends on bytes behind the header window, which Scan, ScanBuf and ReadAt never see")
		return
	}
	max := int64(-1)
	for k := range read {
		if k > max {
			max = k
		}
	}
	if max >= int64(sp.Window) {
		r.Bad("PREFIX", key, at, fmt.Sprintf("Buf reads byte %d, beyond the %d-byte window the other entry points pass", max, sp.Window))
		return
	}
	r.OK("PREFIX", key, at, fmt.Sprintf("%d positions read, the highest is %d", len(read), max))
}
