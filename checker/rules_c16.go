package main

// C16 — value types survive round trips; their parsers are total.
// TOTAL (E3 bounds proving over every text/binary decoder, no recover credit, no requirement on arguments),
// ENUMRT (UnmarshalText(MarshalText(c)) == c for every declared constant of the enumerations, by folding the
// name tables), MSGP (writer/reader kinds agree, conversions keep width and signedness, Msgsize is an upper
// bound), CODEC (the Encode/Decode pairs of the hashes use the same byte order and offsets).

import (
	"fmt"
	"go/ast"
	"go/types"
	"sort"
	"strings"

	"golang.org/x/tools/go/ssa"
)

func init() { register("C16", true, checkC16) }

var decoderMethodNames = map[string]bool{"UnmarshalText": true, "UnmarshalJSON": true, "UnmarshalBinary": true,
	"UnmarshalMsg": true, "DecodeMsg": true, "Decode": true, "ParseString": true}

func libMethodsNamed(p *Prog, names map[string]bool) []*ssa.Function {
	var out []*ssa.Function
	seen := map[*ssa.Function]bool{}
	for _, pk := range p.Lib {
		sp := p.SSA.Package(pk.Types)
		if sp == nil {
			continue
		}
		for _, mem := range sp.Members {
			tn, ok := mem.(*ssa.Type)
			if !ok {
				continue
			}
			named, ok := tn.Type().(*types.Named)
			if !ok {
				continue
			}
			for _, t := range []types.Type{named, types.NewPointer(named)} {
				ms := p.SSA.MethodSets.MethodSet(t)
				for i := 0; i < ms.Len(); i++ {
					sel := ms.At(i)
					if !names[sel.Obj().Name()] {
						continue
					}
					f := p.SSA.MethodValue(sel)
					if f == nil || f.Blocks == nil || f.Synthetic != "" || seen[f] {
						continue
					}
					seen[f] = true
					out = append(out, f)
				}
			}
		}
	}
	sortFns(out)
	return out
}

// parseFuncs: exported package-level functions of library packages that parse text or bytes into a value:
// *FromString, *FromBytes, Identify*.
func parseFuncs(p *Prog) []*ssa.Function {
	var out []*ssa.Function
	for _, pk := range p.Lib {
		sp := p.SSA.Package(pk.Types)
		if sp == nil {
			continue
		}
		for name, mem := range sp.Members {
			f, ok := mem.(*ssa.Function)
			if !ok || f.Blocks == nil || !ast.IsExported(name) {
				continue
			}
			if strings.HasSuffix(name, "FromString") || strings.HasSuffix(name, "FromBytes") || name == "FromString" || strings.HasPrefix(name, "Identify") {
				out = append(out, f)
			}
		}
	}
	sortFns(out)
	return out
}

func checkC16(p *Prog, r *Report) {
	r.Explain("TOTAL: every index, slice, integer division, type assertion and explicit panic in every UnmarshalText/UnmarshalJSON/UnmarshalBinary/UnmarshalMsg/DecodeMsg/Decode/ParseString method and every *FromString/*FromBytes/Identify* function of the library, and in the library functions they call, is an obligation for the E3 bounds prover; these are entry points, so nothing may be required of their arguments and recover frames give no credit. ENUMRT: for every integer type with MarshalText and UnmarshalText, folding the name tables gives UnmarshalText(MarshalText(c)) == c for every declared constant c with a name of its own. MSGP: for every type with generated MessagePack code the kinds written by EncodeMsg and MarshalMsg equal the kinds read by DecodeMsg and UnmarshalMsg, every conversion between the declared type and the wire type keeps width and signedness, and the constant returned by Msgsize is at least the sum of the sizes of what is written. OWNBYTES: the byte slice returned by every MarshalText/MarshalJSON/MarshalBinary/MarshalMsg/AppendText method does not alias library package-level storage (a caller appending to or editing the text it was handed would otherwise rewrite the name table that later calls marshal from). NUMPARSE: in every UnmarshalText of a float-valued type the value stored through the receiver is (a conversion of) a strconv.ParseFloat result or a constant, never the result of floating-point arithmetic on separately parsed digits (which rounds twice). FLOATW: a strconv.ParseFloat with bitSize 32 in package meta has its result converted to a float32 type and nothing else. CODEC: Encode and Decode of the hashes touch the same 8-byte windows in the same word order through a same-order encodeFn/decodeFn pair that is never reassigned. Numeric round trips (bit packing of ExposureBias over all values, floats at textual precision) are run-time arithmetic and are not decided.")
	r.Trusted("strconv and msgp primitives are bounds-checked and never panic", "map reads never panic", "strings/bytes Index*, LastIndex*: -1 <= r <= len(s)-1 (<= len(s) for substring searches)")
	dec := libMethodsNamed(p, decoderMethodNames)
	pf := parseFuncs(p)
	entries := append(append([]*ssa.Function{}, dec...), pf...)
	r.Extra("decoder_methods", len(dec))
	r.Extra("parse_functions", len(pf))
	if len(dec) < 40 || len(pf) < 5 {
		r.Fatal(fmt.Sprintf("only %d decoder methods / %d parse functions found (anchor lost)", len(dec), len(pf)))
	}
	entry := map[*ssa.Function]bool{}
	for _, f := range entries {
		entry[f] = true
	}
	fs := p.LibReachDirect(entries)
	r.Extra("functions_analysed", len(fs))
	emptyCont := &contInfo{frames: map[*ssa.Function]bool{}, contained: map[*ssa.Function]bool{}, badFrames: map[*ssa.Function]string{}}
	ruleEXP(p, r, fs, emptyCont)
	ruleBND(p, r, fs, nil, entry, "TOTAL", false)
	if r.Tier == "thorough" {
		bceCrossRef(p, r, fs)
	}
	ruleTA(p, r, fs, emptyCont)
	r.Floor("TOTAL", 25)
	ruleNumParse(p, r)
	ruleFloatWidth(p, r, "FLOATW", "meta")
	r.Floor("FLOATW", 2)
	r.Floor("NUMPARSE", 2)
	ruleLenFold(p, r, "TOTAL")
	ruleEnumRT(p, r)
	ruleMSGP(p, r)
	ruleCodec(p, r)
	ruleOwnBytes(p, r)
	ruleFixFit(p, r)
	ruleMsgpAll(p, r)
	ruleUtSet(p, r)
	r.Floor("UTSET", 6)
	r.Floor("OWNBYTES", 10)
	r.Floor("ENUMRT", 10)
	r.Floor("MSGP", 20)
	r.Floor("CODEC", 2)
}

// ---- ENUMRT --------------------------------------------------------------------------------------

func ruleEnumRT(p *Prog, r *Report) {
	fd := &folder{p: p}
	um := libMethodsNamed(p, map[string]bool{"UnmarshalText": true})
	for _, uf := range um {
		named := recvNamed(uf)
		if named == nil || !isIntType(named.Underlying()) {
			continue
		}
		consts := declaredConsts(named)
		if len(consts) < 2 {
			continue
		}
		rel := relPkg(named.Obj().Pkg().Path())
		mf := p.Func(rel, named.Obj().Name(), "MarshalText")
		if mf == nil {
			continue
		}
		at := p.posStr(uf.Pos())
		first := map[string]string{}
		for _, c := range consts {
			key := fmt.Sprintf("%s.%s | UnmarshalText(MarshalText(%s))", rel, named.Obj().Name(), c.name)
			mr := fd.fold(mf, []cval{{kind: "int", i: c.val}})
			if mr.panics != "" {
				r.Bad("ENUMRT", key, at, "MarshalText panics: "+mr.panics)
				continue
			}
			if mr.undecided != "" {
				r.OK("ENUMRT", key, at, "text form is computed, not a table lookup ("+mr.undecided+"): not decided here")
				continue
			}
			text := mr.val
			if text.kind == "tuple" {
				text = text.tuple[0]
			}
			if other, dup := first[text.s]; dup {
				r.OK("ENUMRT", key, at, fmt.Sprintf("shares its text %q with %s (compared there)", text.s, other))
				continue
			}
			first[text.s] = c.name
			ur := fd.fold(uf, []cval{{kind: "ptr"}, {kind: "bytes", s: text.s}})
			if ur.panics != "" {
				r.Bad("ENUMRT", key, at, fmt.Sprintf("UnmarshalText(%q) panics: %s", text.s, ur.panics))
				continue
			}
			if ur.undecided != "" {
				r.Undecided("ENUMRT", key, at, "UnmarshalText is not a foldable table lookup: "+ur.undecided)
				continue
			}
			got, ok := ur.stores[0]
			if !ok || got.kind != "int" || got.i != c.val {
				r.Bad("ENUMRT", key, at, fmt.Sprintf("MarshalText gives %q, UnmarshalText of that gives %v, not %s (=%d)", text.s, got, c.name, c.val))
			} else {
				r.OK("ENUMRT", key, at, fmt.Sprintf("%q decodes back to %d", text.s, c.val))
			}
		}
	}
}

// ---- MSGP ----------------------------------------------------------------------------------------

var msgpSize = map[string]int64{"Uint8": 2, "Uint16": 3, "Uint32": 5, "Uint64": 9, "Uint": 9, "Int8": 2, "Int16": 3, "Int32": 5, "Int64": 9, "Int": 9,
	"Float32": 5, "Float64": 9, "Bool": 1, "Byte": 2, "ArrayHeader": 5, "MapHeader": 5, "Nil": 1}

var msgpFraming = map[string]bool{"MapKeyPtr": true, "MapKeyZC": true, "MapHeader": true}

type msgpUse struct {
	kind   string
	inLoop bool
	site   ssa.CallInstruction
}

// msgpKinds extracts the msgp primitive calls of f with the given prefix/suffix convention.
func msgpKinds(f *ssa.Function, recvT, prefix, suffix string) (uses []msgpUse, raw int64) {
	loops := findLoops(f)
	eachCall(f, func(site ssa.CallInstruction) {
		sc := site.Common().StaticCallee()
		if sc == nil || sc.Pkg == nil || sc.Pkg.Pkg.Path() != "github.com/tinylib/msgp/msgp" {
			return
		}
		if recvT != "" {
			rc := sc.Signature.Recv()
			if rc == nil || !strings.HasSuffix(rc.Type().String(), recvT) {
				return
			}
		} else if sc.Signature.Recv() != nil {
			return
		}
		name := sc.Name()
		if recvT == "msgp.Writer" && name == "Append" {
			// raw bytes (map header + field names)
			raw += int64(len(site.Common().Args) - 1)
			if sl, ok := site.Common().Args[len(site.Common().Args)-1].(*ssa.Slice); ok {
				if al, ok := sl.X.(*ssa.Alloc); ok {
					if at, ok := derefType(al.Type()).Underlying().(*types.Array); ok {
						raw += at.Len() - 1
					}
				}
			}
			return
		}
		if !strings.HasPrefix(name, prefix) || !strings.HasSuffix(name, suffix) {
			return
		}
		k := strings.TrimSuffix(strings.TrimPrefix(name, prefix), suffix)
		if k == "" {
			return
		}
		in := false
		for _, l := range loops {
			if l.Blocks[site.Block()] {
				in = true
			}
		}
		uses = append(uses, msgpUse{k, in, site})
	})
	return
}

func kindList(us []msgpUse) string {
	var ks []string
	for _, u := range us {
		if msgpFraming[u.kind] || u.kind == "Skip" {
			continue
		}
		s := u.kind
		if u.inLoop {
			s += "*"
		}
		ks = append(ks, s)
	}
	sort.Strings(ks)
	return strings.Join(ks, ",")
}

func basicKindOf(t types.Type) (types.BasicKind, bool) {
	b, ok := t.Underlying().(*types.Basic)
	if !ok {
		return 0, false
	}
	return b.Kind(), true
}

func ruleMSGP(p *Prog, r *Report) {
	enc := libMethodsNamed(p, map[string]bool{"EncodeMsg": true})
	for _, ef := range enc {
		named := recvNamed(ef)
		if named == nil {
			continue
		}
		rel := relPkg(named.Obj().Pkg().Path())
		tn := named.Obj().Name()
		get := func(m string) *ssa.Function {
			if f := p.Func(rel, tn, m); f != nil && f.Synthetic == "" {
				return f
			}
			return p.Func(rel, "*"+tn, m)
		}
		mf, df, uf, sf := get("MarshalMsg"), get("DecodeMsg"), get("UnmarshalMsg"), get("Msgsize")
		base := rel + "." + tn
		at := p.posStr(ef.Pos())
		if mf == nil || df == nil || uf == nil || sf == nil {
			r.Bad("MSGP", base+" | method set", at, "generated MessagePack methods are incomplete (EncodeMsg without MarshalMsg/DecodeMsg/UnmarshalMsg/Msgsize)")
			continue
		}
		ew, rawE := msgpKinds(ef, "msgp.Writer", "Write", "")
		mw, _ := msgpKinds(mf, "", "Append", "")
		dr, _ := msgpKinds(df, "msgp.Reader", "Read", "")
		ur, _ := msgpKinds(uf, "", "Read", "Bytes")
		if _, isStruct := named.Underlying().(*types.Struct); isStruct {
			// map-encoded struct: the readers dispatch on the field name inside a loop over the map entries
			for _, l := range [][]msgpUse{ew, mw, dr, ur} {
				for i := range l {
					l[i].inLoop = false
				}
			}
		}
		ke, km, kd, ku := kindList(ew), kindList(mw), kindList(dr), kindList(ur)
		key := base + " | wire kinds"
		if ke == "" {
			r.Undecided("MSGP", key, at, "no msgp write primitive found in EncodeMsg")
		} else if ke == km && ke == kd && ke == ku {
			r.OK("MSGP", key, at, "EncodeMsg, MarshalMsg, DecodeMsg and UnmarshalMsg all use {"+ke+"}")
		} else {
			r.Bad("MSGP", key, at, fmt.Sprintf("writer and reader kinds disagree: EncodeMsg {%s} MarshalMsg {%s} DecodeMsg {%s} UnmarshalMsg {%s} — a value written in one form cannot be read back", ke, km, kd, ku))
		}
		// conversions keep width and signedness
		okConv, detail := true, ""
		for _, f := range []*ssa.Function{ef, mf, df, uf} {
			eachInstr(f, func(_ *ssa.BasicBlock, _ int, in ssa.Instruction) {
				cv, ok := in.(*ssa.Convert)
				if !ok {
					return
				}
				a, ok1 := basicKindOf(cv.X.Type())
				b, ok2 := basicKindOf(cv.Type())
				if !ok1 || !ok2 {
					return
				}
				if _, isConst := cv.X.(*ssa.Const); isConst {
					return
				}
				if a != b {
					// conversions of loop counters / header counts (uint32 ↔ int) are not value conversions of the payload
					if isCounterConv(cv) {
						return
					}
					okConv = false
					detail = fmt.Sprintf("%s converts %s to %s at %s", fnName(f), typeStr(cv.X.Type()), typeStr(cv.Type()), p.posStr(instrPos(in)))
				}
			})
		}
		key = base + " | conversions"
		if okConv {
			r.OK("MSGP", key, at, "every conversion between the declared type and the wire type keeps the basic kind")
		} else {
			r.Bad("MSGP", key, at, "a conversion between the declared type and the wire type changes width or signedness (type changed without regenerating?): "+detail)
		}
		// the decoders store what they read: nothing in DecodeMsg/UnmarshalMsg rewrites the receiver (or a field of it) with a
		// value computed by library code — a normalisation applied on the way in, which the encoders do not apply on the
		// way out, makes some values decode to something other than what was encoded
		pure, pdetail := true, ""
		for _, f := range []*ssa.Function{df, uf} {
			if len(f.Params) == 0 {
				continue
			}
			recv := ssa.Value(f.Params[0])
			eachInstr(f, func(_ *ssa.BasicBlock, _ int, in ssa.Instruction) {
				st, ok := in.(*ssa.Store)
				if !ok || !pure {
					return
				}
				target := st.Addr
				if fa, ok := target.(*ssa.FieldAddr); ok {
					target = fa.X
				}
				if target != recv {
					return
				}
				v := st.Val
				for i := 0; i < 4; i++ {
					if cv, ok := v.(*ssa.Convert); ok {
						v = cv.X
						continue
					}
					if ct, ok := v.(*ssa.ChangeType); ok {
						v = ct.X
						continue
					}
					break
				}
				switch x := v.(type) {
				case *ssa.Call:
					if sc := x.Call.StaticCallee(); sc != nil && isRepoFn(sc) && sc.Name() != "DecodeMsg" && sc.Name() != "UnmarshalMsg" {
						pure = false
						pdetail = fmt.Sprintf("%s stores the result of %s into the receiver at %s", fnName(f), fnName(sc), p.posStr(instrPos(st)))
					}
				case *ssa.BinOp:
					pure = false
					pdetail = fmt.Sprintf("%s stores a computed value (%s) into the receiver at %s", fnName(f), shortVal(x), p.posStr(instrPos(st)))
				}
			})
		}
		key = base + " | decoders store what they read"
		if pure {
			r.OK("MSGP", key, at, "no store into the receiver of a value computed by library code")
		} else {
			r.Bad("MSGP", key, at, "the decoder rewrites what it read ("+pdetail+"): values the encoders write verbatim no longer decode to themselves")
		}
		// Msgsize upper bound
		key = base + " | Msgsize"
		need := rawE
		undec := ""
		arrLen := int64(-1)
		if at2, ok := named.Underlying().(*types.Array); ok {
			arrLen = at2.Len()
		}
		for _, u := range ew {
			sz, ok := msgpSize[u.kind]
			if !ok {
				undec = "size of kind " + u.kind + " unknown"
				continue
			}
			if u.inLoop {
				if arrLen < 0 {
					undec = "write in a loop over a non-array"
					continue
				}
				sz *= arrLen
			}
			need += sz
		}
		var got int64 = -1
		eachInstr(sf, func(_ *ssa.BasicBlock, _ int, in ssa.Instruction) {
			if ret, ok := in.(*ssa.Return); ok && len(ret.Results) == 1 {
				if k, ok := constInt(ret.Results[0]); ok {
					got = k
				}
			}
		})
		switch {
		case undec != "":
			r.Undecided("MSGP", key, at, undec)
		case got < 0:
			r.Undecided("MSGP", key, at, "Msgsize does not return a constant")
		case got >= need:
			r.OK("MSGP", key, at, fmt.Sprintf("Msgsize %d ≥ %d bytes written at most", got, need))
		default:
			r.Bad("MSGP", key, at, fmt.Sprintf("Msgsize returns %d but EncodeMsg can write %d bytes: the size hint is not an upper bound", got, need))
		}
	}
}

// isCounterConv: the conversion's operand or result is a loop counter or an array/map header count.
func isCounterConv(cv *ssa.Convert) bool {
	if _, ok := cv.X.(*ssa.Phi); ok {
		return true
	}
	if ex, ok := cv.X.(*ssa.Extract); ok {
		if c, ok := ex.Tuple.(*ssa.Call); ok {
			if sc := c.Call.StaticCallee(); sc != nil && strings.Contains(sc.Name(), "Header") {
				return true
			}
		}
	}
	for _, rf := range refs(cv) {
		if c, ok := rf.(*ssa.Call); ok {
			if sc := c.Call.StaticCallee(); sc != nil && strings.Contains(sc.Name(), "Header") {
				return true
			}
		}
	}
	return false
}

// ---- CODEC ---------------------------------------------------------------------------------------

func ruleCodec(p *Prog, r *Report) {
	t := p.Tables()
	sp := p.SSAPkg("imagehash")
	if sp == nil {
		r.Undecided("CODEC", "imagehash | package", "-", "not found")
		return
	}
	eg, _ := sp.Members["encodeFn"].(*ssa.Global)
	dg, _ := sp.Members["decodeFn"].(*ssa.Global)
	if eg == nil || dg == nil {
		r.Undecided("CODEC", "imagehash.encodeFn/decodeFn", "-", "codec function variables not found")
		return
	}
	t.scan()
	ev, dv := t.Val(eg), t.Val(dg)
	key := "imagehash.encodeFn/decodeFn | same byte order"
	es, ds := "", ""
	if ev != nil && ev.Expr != nil {
		es = types.ExprString(ev.Expr)
	}
	if dv != nil && dv.Expr != nil {
		ds = types.ExprString(dv.Expr)
	}
	eo, do := strings.TrimSuffix(es, ".PutUint64"), strings.TrimSuffix(ds, ".Uint64")
	switch {
	case t.storeOutsideInit[eg] || t.storeOutsideInit[dg]:
		r.Bad("CODEC", key, "-", "the codec function variables are reassigned outside their initialisers")
	case eo == es || do == ds:
		r.Undecided("CODEC", key, "-", fmt.Sprintf("initialisers %q / %q are not <order>.PutUint64 / <order>.Uint64", es, ds))
	case eo != do:
		r.Bad("CODEC", key, "-", fmt.Sprintf("encodeFn is %s but decodeFn is %s: encoded hashes decode to byte-swapped values", es, ds))
	default:
		r.OK("CODEC", key, "-", "both from "+eo)
	}
	for _, tn := range []string{"PHash64", "PHash256"} {
		ef, df := p.Func("imagehash", tn, "Encode"), p.Func("imagehash", "*"+tn, "Decode")
		key := "imagehash." + tn + " | Encode/Decode windows"
		if ef == nil || df == nil {
			r.Undecided("CODEC", key, "-", "Encode/Decode not found")
			continue
		}
		ew, why1 := codecWindows(ef, eg, true)
		dw, why2 := codecWindows(df, dg, false)
		if why1 != "" || why2 != "" {
			r.Undecided("CODEC", key, p.posStr(ef.Pos()), why1+why2)
			continue
		}
		if fmt.Sprint(ew) == fmt.Sprint(dw) && len(ew) > 0 {
			r.OK("CODEC", key, p.posStr(ef.Pos()), fmt.Sprintf("word → byte offset %v in both", ew))
		} else {
			r.Bad("CODEC", key, p.posStr(ef.Pos()), fmt.Sprintf("Encode writes word → offset %v, Decode reads %v: a decoded hash differs from the encoded one", ew, dw))
		}
	}
}

// codecWindows: map word index → low offset of the window handed to the codec function variable.
func codecWindows(f *ssa.Function, fn *ssa.Global, encode bool) (map[int64]int64, string) {
	out := map[int64]int64{}
	why := ""
	eachInstr(f, func(_ *ssa.BasicBlock, _ int, in ssa.Instruction) {
		c, ok := in.(*ssa.Call)
		if !ok || loadOfGlobal(c.Call.Value) != fn {
			return
		}
		sl, ok := c.Call.Args[0].(*ssa.Slice)
		if !ok {
			why = "codec argument is not a window of the buffer"
			return
		}
		low := int64(0)
		if sl.Low != nil {
			k, ok := constInt(sl.Low)
			if !ok {
				why = "window offset is not constant"
				return
			}
			low = k
		}
		word := int64(0)
		if encode {
			word = wordIndexOf(c.Call.Args[1])
		} else {
			word = -1
			for _, rf := range refs(c) {
				if st, ok := rf.(*ssa.Store); ok {
					if ia, ok := st.Addr.(*ssa.IndexAddr); ok {
						if k, ok := constInt(ia.Index); ok {
							word = k
						}
					} else {
						word = 0
					}
				}
				if cv, ok := rf.(ssa.Value); ok {
					switch cv.(type) {
					case *ssa.Convert, *ssa.ChangeType:
						for _, rf2 := range refs(cv) {
							if _, ok := rf2.(*ssa.Store); ok {
								word = 0
							}
						}
					}
				}
			}
		}
		if word < 0 {
			why = "word index not recognised"
			return
		}
		out[word] = low
	})
	return out, why
}

func wordIndexOf(v ssa.Value) int64 {
	switch x := v.(type) {
	case *ssa.Index:
		if k, ok := constInt(x.Index); ok {
			return k
		}
	case *ssa.UnOp:
		if ia, ok := x.X.(*ssa.IndexAddr); ok {
			if k, ok := constInt(ia.Index); ok {
				return k
			}
		}
	case *ssa.Convert:
		return wordIndexOf(x.X)
	case *ssa.ChangeType:
		return wordIndexOf(x.X)
	case *ssa.Parameter:
		return 0
	}
	return -1
}

// ---- LENFOLD -------------------------------------------------------------------------------------

// ruleLenFold: the UUID group loop consumes its two buffers in steps read from an immutable table; whether
// every window fits depends only on the table and the entry lengths. (1) every call site of decodeCanonical
// passes exactly 36 bytes (E3, both directions); (2) length propagation through decodeCanonical with a
// 36-byte source and the 16-byte UUID explores every path without a bounds violation. When both hold, the
// per-site obligations of that function that E3 could not show are discharged by this argument.
func ruleLenFold(p *Prog, r *Report, totalRule string) {
	f := p.Func("meta", "*UUID", "decodeCanonical")
	key := "meta.(*UUID).decodeCanonical | table-driven windows fit"
	if f == nil {
		r.Undecided("LENFOLD", key, "-", "anchor not resolved")
		return
	}
	at := p.posStr(f.Pos())
	e := p.E3()
	const want = 36
	sites := 0
	for _, site := range p.Callers(f) {
		if !isLibFn(site.Parent()) {
			continue
		}
		sites++
		args := callArgs(site.Common())
		if len(args) < 2 {
			r.Undecided("LENFOLD", key, at, "call shape")
			return
		}
		lt := termT{v: e.lenBase(args[1]), len: true}
		k := termT{v: ssa.NewConst(constantInt(want), types.Typ[types.Int])}
		blk := site.Block()
		if !(e.ProveLE(blk, lt, k, 0) && e.ProveLE(blk, k, lt, 0)) {
			r.Bad("LENFOLD", key, p.posStr(instrPos(site)), fmt.Sprintf("%s calls decodeCanonical without establishing len == %d: the group loop slices past the text", fnName(site.Parent()), want))
			return
		}
	}
	if sites == 0 {
		r.Undecided("LENFOLD", key, at, "no call site found")
		return
	}
	panics, und, paths := lenFold(p, f, []aval{{kind: "blob", i: 16}, {kind: "blob", i: want}})
	switch {
	case len(panics) > 0:
		r.Bad("LENFOLD", key, at, "with a 36-byte text and the 16-byte UUID a window does not fit: "+panics[0])
	case und != "":
		r.Undecided("LENFOLD", key, at, "length propagation undecided: "+und)
	default:
		n := r.Discharge(totalRule, fnName(f)+" | ", fmt.Sprintf("LENFOLD: every call site passes exactly %d bytes and length propagation over the group table explores all %d paths without a bounds violation", want, paths))
		r.OK("LENFOLD", key, at, fmt.Sprintf("%d call sites pass exactly %d bytes; %d paths explored, all windows fit; %d per-site obligations discharged by this argument", sites, want, paths, n))
	}
}

// ruleOwnBytes: what a marshaler hands out belongs to the caller.
func ruleOwnBytes(p *Prog, r *Report) {
	eff := p.Effects()
	names := map[string]bool{"MarshalText": true, "MarshalJSON": true, "MarshalBinary": true, "MarshalMsg": true, "AppendText": true, "AppendBinary": true}
	for _, f := range libMethodsNamed(p, names) {
		res := f.Signature.Results()
		if res.Len() == 0 {
			continue
		}
		if sl, ok := res.At(0).Type().Underlying().(*types.Slice); !ok || !types.Identical(sl.Elem(), types.Typ[types.Byte]) {
			continue
		}
		key := fnName(f) + " | returned bytes do not alias package-level storage"
		at := p.posStr(f.Pos())
		ef := eff.Of(f)
		if ef == nil {
			r.Undecided("OWNBYTES", key, at, "no effect summary")
			continue
		}
		var gs []string
		for g := range ef.RetGlob {
			if g.G.Pkg != nil && strings.HasPrefix(g.G.Pkg.Pkg.Path(), modPath) {
				gs = append(gs, globalName(g.G))
			}
		}
		sort.Strings(gs)
		pooled := ""
		eachInstr(f, func(_ *ssa.BasicBlock, _ int, in ssa.Instruction) {
			if rt, ok := in.(*ssa.Return); ok && len(rt.Results) > 0 && pooled == "" {
				pooled = poolDerived(p, rt.Results[0], 0, map[ssa.Value]bool{})
			}
		})
		if len(gs) > 0 {
			r.Bad("OWNBYTES", key, at, "the returned slice can point into "+strings.Join(gs, ", ")+": a caller that appends to or edits the text changes what later calls marshal (and what UnmarshalText then decodes)")
		} else if pooled != "" {
			r.Bad("OWNBYTES", key, at, "the returned slice can point into "+pooled+": the next call that takes the object from the pool rewrites the text the caller is holding, so decoding it no longer gives the encoded value")
		} else {
			r.OK("OWNBYTES", key, at, "freshly allocated, converted from a string, or the caller's own buffer")
		}
	}
}
