package main

// C01 — no input makes a decoder panic: EXP, REC, BND, DIV, NILF, TA, RECUR (shared with C02).

import (
	"fmt"
	"go/ast"
	"go/constant"
	"go/token"
	"go/types"
	"os"
	"sort"
	"strings"

	"golang.org/x/tools/go/ssa"
)

func init() { register("C01", true, checkC01) }

func checkC01(p *Prog, r *Report) {
	r.Explain("Over all library functions reachable from the decode entry points (VTA call graph): EXP enumerates explicit panics / process exits; BND enumerates every index, slice, string index and length-requiring call and discharges each with the E3 bounds prover (intervals + difference constraints from definitions, dominating branch conditions, verified callee contracts under the nil-error edge, caller-side required lengths; entry points may require nothing of their arguments); DIV every integer division; NILF every call through a function value must be dominated by its nil test; TA every non-comma-ok type assertion; REC: obligations inside functions that are only reachable through a frame whose deferred closure calls recover() and assigns the error result are discharged by containment (run-time panics implement error). RECUR (shared with C02): every call-graph cycle is depth-counted, a parent-chain delegation or a constant-argument call, so the stack depth does not follow the input (stack exhaustion is fatal and no recover frame contains it). Nil-pointer dereferences in general and panics inside dependencies are not decided here.")
	r.Trusted("bufio.Reader.Peek(n): err == nil ⇒ len = n; Discard(n): err == nil ⇒ n discarded", "io.Reader contract 0 <= n <= len(p)", "encoding/binary UintN/PutUintN require len >= N/8", "copy, append, map reads, string(b) never panic", "errors.New results and never-reassigned package-level error variables are non-nil", "int is 64 bit", "strings/bytes Index*, LastIndex*: -1 <= r <= len(s)-1 (<= len(s) for substring searches)")
	dec, err := p.DecEntries()
	if err != nil {
		r.Fatal(err.Error())
		return
	}
	fs := p.LibReach(dec)
	r.Extra("functions_reachable", len(fs))
	cont := containment(p, dec)
	r.Extra("functions_contained_by_recover", len(cont.contained))
	entry := map[*ssa.Function]bool{}
	for _, f := range dec {
		entry[f] = true
	}
	ruleEXP(p, r, fs, cont)
	ruleREC(p, r, cont)
	ruleBND(p, r, fs, cont, entry, "BND", true)
	ruleNILF(p, r, fs)
	ruleTA(p, r, fs, cont)
	ruleRecur(p, r, fs)
	rulePoolNil(p, r)
	r.Floor("POOL-NIL", 6)
	r.Floor("RECUR", 2)
	if r.Tier == "thorough" {
		bceCrossRef(p, r, fs)
	}
	r.Floor("EXP", 1)
	r.Floor("REC", 4)
	r.Floor("BND", 150)
	r.Floor("NILF", 5)
	r.Floor("TA", 8)
}

// ---- containment by recover frames -------------------------------------------------------------

type contInfo struct {
	frames    map[*ssa.Function]bool // functions with a deferred recover() that assigns the error result
	contained map[*ssa.Function]bool // reachable only through a frame
	badFrames map[*ssa.Function]string
}

// isRecoverFrame: f defers a closure that calls recover() and stores state.(error) into f's error result.
func isRecoverFrame(f *ssa.Function) (bool, string) {
	found := false
	detail := ""
	eachInstr(f, func(_ *ssa.BasicBlock, _ int, in ssa.Instruction) {
		d, ok := in.(*ssa.Defer)
		if !ok {
			return
		}
		mc, ok := d.Call.Value.(*ssa.MakeClosure)
		if !ok {
			return
		}
		fn := mc.Fn.(*ssa.Function)
		hasRecover, assigns := false, false
		eachInstr(fn, func(_ *ssa.BasicBlock, _ int, in2 ssa.Instruction) {
			if c, ok := in2.(*ssa.Call); ok {
				if b, ok := c.Call.Value.(*ssa.Builtin); ok && b.Name() == "recover" {
					hasRecover = true
				}
			}
			if st, ok := in2.(*ssa.Store); ok {
				if fv, ok := st.Addr.(*ssa.FreeVar); ok && isErrorType(derefType(fv.Type())) {
					assigns = true
				}
			}
		})
		if hasRecover && assigns {
			found = true
		} else if hasRecover {
			detail = "recover() result is not assigned to the error result"
		}
	})
	return found, detail
}

func containment(p *Prog, entries []*ssa.Function) *contInfo {
	ci := &contInfo{frames: map[*ssa.Function]bool{}, contained: map[*ssa.Function]bool{}, badFrames: map[*ssa.Function]string{}}
	all := p.Reach(entries)
	for f := range all {
		if isLibFn(f) && f.Blocks != nil {
			if ok, d := isRecoverFrame(f); ok {
				ci.frames[f] = true
			} else if d != "" {
				ci.badFrames[f] = d
			}
		}
	}
	// reach without expanding frames
	cg := p.CG()
	seen := map[*ssa.Function]bool{}
	var st []*ssa.Function
	for _, e := range entries {
		if !seen[e] {
			seen[e] = true
			st = append(st, e)
		}
	}
	for len(st) > 0 {
		f := st[len(st)-1]
		st = st[:len(st)-1]
		if ci.frames[f] {
			continue
		}
		if n := cg.Nodes[f]; n != nil {
			for _, e := range n.Out {
				if !seen[e.Callee.Func] {
					seen[e.Callee.Func] = true
					st = append(st, e.Callee.Func)
				}
			}
		}
		for _, a := range f.AnonFuncs {
			if !seen[a] {
				seen[a] = true
				st = append(st, a)
			}
		}
	}
	for f := range all {
		if !seen[f] {
			ci.contained[f] = true
		}
	}
	// the body of a frame function itself is protected (its own deferred recover)
	for f := range ci.frames {
		ci.contained[f] = true
	}
	return ci
}

// ---- EXP -----------------------------------------------------------------------------------------

func ruleEXP(p *Prog, r *Report, fs []*ssa.Function, cont *contInfo) {
	n := 0
	for _, f := range fs {
		eachInstr(f, func(b *ssa.BasicBlock, _ int, in ssa.Instruction) {
			switch x := in.(type) {
			case *ssa.Panic:
				n++
				key := fmt.Sprintf("%s | panic(%s)", fnName(f), typeStr(panicOperandType(x.X)))
				at := p.posStr(instrPos(in))
				if cont.contained[f] && implementsError(panicOperandType(x.X)) {
					r.OK("EXP", key, at, "inside a recover frame on every call path and the operand is an error")
				} else if cont.contained[f] {
					r.Bad("EXP", key, at, "explicit panic with a non-error operand inside a recover frame whose handler asserts state.(error): the assertion itself panics")
				} else {
					r.Bad("EXP", key, at, "explicit panic reachable from a decode entry point with no recover frame on the call path")
				}
			case ssa.CallInstruction:
				c := x.Common()
				if sc := c.StaticCallee(); sc != nil {
					s := sc.String()
					if s == "os.Exit" || strings.HasPrefix(s, "log.Fatal") || strings.HasPrefix(s, "log.Panic") ||
						s == "(*github.com/rs/zerolog.Logger).Panic" || s == "(*github.com/rs/zerolog.Logger).Fatal" ||
						s == "(*log.Logger).Fatal" || s == "(*log.Logger).Fatalf" || s == "(*log.Logger).Fatalln" || s == "(*log.Logger).Panic" || s == "(*log.Logger).Panicf" {
						n++
						r.Bad("EXP", fmt.Sprintf("%s | %s", fnName(f), s), p.posStr(instrPos(in)), "process exit / panic-level log event reachable from a decode entry point")
					}
					if s == "(*github.com/rs/zerolog.Logger).WithLevel" && len(c.Args) == 2 {
						if k, ok := constInt(c.Args[1]); ok && (k == 4 || k == 5) {
							n++
							r.Bad("EXP", fmt.Sprintf("%s | WithLevel(%d)", fnName(f), k), p.posStr(instrPos(in)), "fatal/panic level event")
						}
					}
				}
			}
		})
	}
	if n == 0 {
		r.OK("EXP", "no explicit panic or process exit", "-", fmt.Sprintf("%d reachable functions scanned", len(fs)))
	}
}

func panicOperandType(v ssa.Value) types.Type {
	if mi, ok := v.(*ssa.MakeInterface); ok {
		return mi.X.Type()
	}
	return v.Type()
}

// ---- REC -----------------------------------------------------------------------------------------

func ruleREC(p *Prog, r *Report, cont *contInfo) {
	// the two documented frames must exist
	for _, sp := range []epSpec{{"jpeg", "", "ScanJPEG"}, {"xmp", "", "ParseXmp"}, {"isobmff", "*Reader", "ReadFTYP"}, {"isobmff", "*Reader", "ReadMetadata"}} {
		f := p.Func(sp.rel, sp.recv, sp.name)
		key := sp.rel + "." + sp.name + " | recover frame"
		if sp.recv != "" {
			key = sp.rel + ".(" + sp.recv + ")." + sp.name + " | recover frame"
		}
		if f == nil {
			r.Undecided("REC", key, "-", "unresolved anchor")
			continue
		}
		if cont.frames[f] {
			r.OK("REC", key, p.posStr(f.Pos()), "deferred closure calls recover() and assigns the error result")
		} else {
			d := cont.badFrames[f]
			if d == "" {
				d = "no deferred recover()"
			}
			r.Bad("REC", key, p.posStr(f.Pos()), "the recover frame is gone or incomplete ("+d+"): every run-time panic below it reaches the caller")
		}
	}
	for f, d := range cont.badFrames {
		r.Bad("REC", fnName(f)+" | recover frame", p.posStr(f.Pos()), d)
	}
}

// ---- BND / DIV -----------------------------------------------------------------------------------

func ruleBND(p *Prog, r *Report, fs []*ssa.Function, cont *contInfo, entry map[*ssa.Function]bool, rule string, allowREC bool) {
	e := p.E3()
	byKind := map[string]int{}
	byMethod := map[string]int{}
	defer func() { r.Extra("bnd_discharge_methods", byMethod) }()
	for _, f := range fs {
		fb := e.fnB(f)
		for _, ob := range fb.obs {
			key := fnName(f) + " | " + ob.Key
			at := p.posStr(instrPos(ob.In))
			byKind[ob.Kind]++
			rl := rule
			if ob.Kind == "div" {
				rl = "DIV"
			}
			if ob.OK {
				r.OK(rl, key, at, ob.By)
				m := "proved (guard/definition/contract)"
				if strings.HasPrefix(ob.By, "caller-side") {
					m = "caller-side requirement"
				} else if strings.HasPrefix(ob.By, "IDXTBL") {
					m = "IDXTBL"
				}
				byMethod[m]++
				continue
			}
			if allowREC && cont != nil && cont.contained[f] && !strings.HasPrefix(ob.Key, "arg-nonneg") {
				// (a negative count panics with a string: `err = state.(error)` in the recover frame panics again)
				r.OK(rl, key, at, "REC: only reachable through a recover frame (a run-time panic becomes the returned error)")
				if os.Getenv("IMVERIF_LIST_REC") != "" {
					fmt.Printf("REC-ONLY %s at %s: %s\n", key, at, ob.Detail)
				}
				byMethod["REC containment only"]++
				continue
			}
			r.Bad(rl, key, at, ob.Detail)
		}
		// entry points may require nothing of their arguments
		if entry[f] {
			for pi, n := range fb.req {
				if n > 0 {
					r.Bad(rule, fmt.Sprintf("%s | entry requirement | param %s", fnName(f), f.Params[pi].Name()), p.posStr(f.Pos()),
						fmt.Sprintf("public entry point indexes its argument %s assuming at least %d bytes without checking", f.Params[pi].Name(), n))
				}
			}
		}
	}
	r.Extra("bnd_sites_by_kind", byKind)
	// contracts relied on
	var cons []string
	for f, c := range e.contract {
		if c != nil {
			switch {
			case c.ArgEq >= 0:
				cons = append(cons, fmt.Sprintf("%s: nil error ⇒ len(result#%d) == %s", fnName(f), c.Res, f.Params[c.ArgEq].Name()))
			case c.MinArg > 0:
				cons = append(cons, fmt.Sprintf("%s: nil error ⇒ len(result#%d) ≥ min(%s, %d)", fnName(f), c.Res, f.Params[c.MinArg-1].Name(), c.MinLen))
			default:
				cons = append(cons, fmt.Sprintf("%s: nil error ⇒ len(result#%d) ≥ %d", fnName(f), c.Res, c.MinLen))
			}
		}
	}
	sort.Strings(cons)
	r.Extra("verified_contracts", cons)
}

// ---- NILF ----------------------------------------------------------------------------------------

func ruleNILF(p *Prog, r *Report, fs []*ssa.Function) {
	for _, f := range fs {
		eachCall(f, func(site ssa.CallInstruction) {
			c := site.Common()
			if c.IsInvoke() {
				return
			}
			switch c.Value.(type) {
			case *ssa.Function, *ssa.MakeClosure, *ssa.Builtin:
				return
			}
			v := c.Value
			key := fmt.Sprintf("%s | call %s", fnName(f), shortVal(v))
			at := p.posStr(instrPos(site))
			ok := false
			for _, cd := range condsAt(site.Block()) {
				bo, isBo := cd.V.(*ssa.BinOp)
				if !isBo || (bo.Op != token.EQL && bo.Op != token.NEQ) {
					continue
				}
				var other, tested ssa.Value
				if isNilConst(bo.Y) {
					tested, other = bo.X, bo.Y
				} else if isNilConst(bo.X) {
					tested, other = bo.Y, bo.X
				} else {
					continue
				}
				_ = other
				if (bo.Op == token.NEQ) != cd.True {
					continue
				}
				if tested == v {
					ok = true
				}
				// two loads of the same field / same parameter
				if l1, ok1 := tested.(*ssa.UnOp); ok1 {
					if l2, ok2 := v.(*ssa.UnOp); ok2 && sameAddr(l1.X, l2.X) && noStoreBetween(l1, l2) {
						ok = true
					}
				}
			}
			// a package-level func variable that is never nil (initialised, never reassigned to nil) is INV's business;
			// an element of a package-level table of functions is non-nil only if the table has no gaps
			if g := loadOfGlobal(v); g != nil {
				ok = true
				if u, isLoad := v.(*ssa.UnOp); isLoad {
					if _, isElem := u.X.(*ssa.IndexAddr); isElem {
						if gaps, known := funcTableGaps(p, g); !known || gaps > 0 {
							ok = false
							r.Bad("NILF", key, at, fmt.Sprintf("call through an element of the function table %s, which has %d unset (nil) entries within its length (or is not a literal): an index that selects one of them panics", globalName(g), gaps))
							return
						}
					}
				}
			}
			if ok {
				r.OK("NILF", key, at, "dominated by the non-nil edge of a nil test on the same value, or a package-level function value / gap-free function table")
			} else {
				r.Bad("NILF", key, at, "call through a function value that is not dominated by a nil test: a nil callback panics")
			}
		})
	}
}

// funcTableGaps: g is a package-level array/slice of functions initialised by a composite literal, never stored to
// outside init → number of index positions below its length that the literal leaves unset.
func funcTableGaps(p *Prog, g *ssa.Global) (int, bool) {
	t := p.Tables()
	tv := t.Val(g)
	if tv == nil || tv.Expr == nil {
		return 0, false
	}
	cl, ok := tv.Expr.(*ast.CompositeLit)
	if !ok {
		return 0, false
	}
	t.scan()
	if t.storeOutsideInit[g] || t.elemMut[g] {
		return 0, false
	}
	next, maxIdx := int64(0), int64(-1)
	set := map[int64]bool{}
	for _, el := range cl.Elts {
		idx := next
		val := el
		if kv, ok := el.(*ast.KeyValueExpr); ok {
			tvk, ok := tv.Pkg.TypesInfo.Types[kv.Key]
			if !ok || tvk.Value == nil {
				return 0, false
			}
			k, exact := constant.Int64Val(tvk.Value)
			if !exact {
				return 0, false
			}
			idx = k
			val = kv.Value
		}
		if id, ok := val.(*ast.Ident); ok && id.Name == "nil" {
			// an explicit nil entry is a gap
		} else {
			set[idx] = true
		}
		if idx > maxIdx {
			maxIdx = idx
		}
		next = idx + 1
	}
	n := maxIdx + 1
	if arr, ok := g.Type().(*types.Pointer).Elem().Underlying().(*types.Array); ok {
		n = arr.Len()
	}
	gaps := 0
	for i := int64(0); i < n; i++ {
		if !set[i] {
			gaps++
		}
	}
	return gaps, true
}

// noStoreBetween: no store to the loaded address between the two loads (same function; conservative:
// any store through the same field of the same base anywhere in the function counts).
func noStoreBetween(a, b *ssa.UnOp) bool {
	f := a.Parent()
	ok := true
	eachInstr(f, func(_ *ssa.BasicBlock, _ int, in ssa.Instruction) {
		if st, isSt := in.(*ssa.Store); isSt && sameAddr(st.Addr, a.X) {
			ok = false
		}
	})
	return ok
}

// ---- TA ------------------------------------------------------------------------------------------

func ruleTA(p *Prog, r *Report, fs []*ssa.Function, cont *contInfo) {
	// typed pools: every Put on a pool passes the asserted type and New returns it
	putTypes := map[*ssa.Global]map[string]bool{}
	for _, ps := range poolSites(p, "Put") {
		if ps.pool == nil {
			continue
		}
		c := ps.call.Common()
		t := c.Args[1].Type()
		if mi, ok := c.Args[1].(*ssa.MakeInterface); ok {
			t = mi.X.Type()
		}
		if putTypes[ps.pool] == nil {
			putTypes[ps.pool] = map[string]bool{}
		}
		putTypes[ps.pool][typeStr(t)] = true
	}
	newTypes := map[*ssa.Global]string{}
	for _, f := range p.AllLibFns() {
		if !isInitFn(f) {
			continue
		}
		eachInstr(f, func(_ *ssa.BasicBlock, _ int, in ssa.Instruction) {
			st, ok := in.(*ssa.Store)
			if !ok {
				return
			}
			fa, ok := st.Addr.(*ssa.FieldAddr)
			if !ok {
				return
			}
			g, ok := fa.X.(*ssa.Global)
			if !ok || !isSyncPool(g) {
				return
			}
			var fn *ssa.Function
			switch v := st.Val.(type) {
			case *ssa.Function:
				fn = v
			case *ssa.MakeClosure:
				fn, _ = v.Fn.(*ssa.Function)
			}
			if fn == nil {
				return
			}
			eachInstr(fn, func(_ *ssa.BasicBlock, _ int, in2 ssa.Instruction) {
				if ret, ok := in2.(*ssa.Return); ok && len(ret.Results) == 1 {
					if mi, ok := ret.Results[0].(*ssa.MakeInterface); ok {
						newTypes[g] = typeStr(mi.X.Type())
					}
				}
			})
		})
	}
	for _, f := range fs {
		eachInstr(f, func(_ *ssa.BasicBlock, _ int, in ssa.Instruction) {
			ta, ok := in.(*ssa.TypeAssert)
			if !ok || ta.CommaOk {
				return
			}
			key := fmt.Sprintf("%s | %s.(%s)", fnName(f), shortVal(ta.X), typeStr(ta.AssertedType))
			at := p.posStr(instrPos(in))
			want := typeStr(ta.AssertedType)
			// pool.Get().(T)
			if c, ok := ta.X.(*ssa.Call); ok && isCallTo(&c.Call, "(*sync.Pool).Get") {
				if g, ok := c.Call.Args[0].(*ssa.Global); ok {
					bad := ""
					if newTypes[g] != want {
						bad = fmt.Sprintf("pool New returns %s", newTypes[g])
					}
					for t := range putTypes[g] {
						if t != want {
							bad = fmt.Sprintf("a Put on this pool passes %s", t)
						}
					}
					if bad == "" {
						r.OK("TA", key, at, "typed pool: New and every Put use "+want)
					} else {
						r.Bad("TA", key, at, "unchecked assertion on a pool whose contents are not uniformly "+want+": "+bad)
					}
					return
				}
			}
			// r.(*io.LimitedReader) where r is the result of io.LimitReader in the same function
			if c, ok := ta.X.(*ssa.Call); ok && isCallTo(&c.Call, "io.LimitReader") && want == "*io.LimitedReader" {
				r.OK("TA", key, at, "operand is the result of io.LimitReader")
				return
			}
			// state.(error) in a recover handler
			if c, ok := ta.X.(*ssa.Call); ok {
				if b, ok := c.Call.Value.(*ssa.Builtin); ok && b.Name() == "recover" {
					// every explicit panic reachable inside the frame must carry an error: checked by EXP
					r.OK("TA", key, at, "recover handler: run-time panics implement error; explicit panics inside the frame are checked by EXP")
					return
				}
			}
			// interface-to-interface or other: allowed only under REC
			if cont.contained[f] {
				r.OK("TA", key, at, "REC: inside a recover frame")
				return
			}
			r.Bad("TA", key, at, "non-comma-ok type assertion that can fail at run time")
		})
	}
}
