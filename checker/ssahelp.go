package main

// Helpers over go/ssa shared by the rules.

import (
	"fmt"
	"go/constant"
	"go/token"
	"go/types"
	"strings"

	"golang.org/x/tools/go/ssa"
)

// Cond is a branch condition known to hold (True) or not hold (!True).
type Cond struct {
	V    ssa.Value
	True bool
	At   *ssa.BasicBlock // the block ending in the If
}

// condsAt returns the branch conditions that hold on entry to block b
// (from single-predecessor successors of If blocks on the dominator chain).
func condsAt(b *ssa.BasicBlock) []Cond {
	var out []Cond
	for x := b; x != nil; x = x.Idom() {
		if len(x.Preds) != 1 {
			continue
		}
		d := x.Preds[0]
		if len(d.Instrs) == 0 {
			continue
		}
		ifi, ok := d.Instrs[len(d.Instrs)-1].(*ssa.If)
		if !ok || d.Succs[0] == d.Succs[1] {
			continue
		}
		out = append(out, Cond{V: ifi.Cond, True: d.Succs[0] == x, At: d})
	}
	return out
}

// calleeName returns a printable full name for the static callee or interface method of a call.
func calleeName(c *ssa.CallCommon) string {
	if c.IsInvoke() {
		return "(" + c.Value.Type().String() + ")." + c.Method.Name()
	}
	if f := c.StaticCallee(); f != nil {
		return f.String()
	}
	if b, ok := c.Value.(*ssa.Builtin); ok {
		return "builtin." + b.Name()
	}
	return "dynamic"
}

// isCallTo reports whether the call's static callee has the given full name, e.g. "(*bufio.Reader).Peek".
func isCallTo(c *ssa.CallCommon, names ...string) bool {
	f := c.StaticCallee()
	if f == nil {
		return false
	}
	s := f.String()
	for _, n := range names {
		if s == n {
			return true
		}
	}
	return false
}

// methodCall returns (receiver type string, method name) for method calls, static or invoke.
func methodCall(c *ssa.CallCommon) (recv string, name string, ok bool) {
	if c.IsInvoke() {
		return c.Value.Type().String(), c.Method.Name(), true
	}
	f := c.StaticCallee()
	if f == nil || f.Signature.Recv() == nil {
		return "", "", false
	}
	return f.Signature.Recv().Type().String(), f.Name(), true
}

func eachInstr(f *ssa.Function, fn func(b *ssa.BasicBlock, i int, in ssa.Instruction)) {
	for _, b := range f.Blocks {
		for i, in := range b.Instrs {
			fn(b, i, in)
		}
	}
}

func eachCall(f *ssa.Function, fn func(site ssa.CallInstruction)) {
	eachInstr(f, func(_ *ssa.BasicBlock, _ int, in ssa.Instruction) {
		if c, ok := in.(ssa.CallInstruction); ok {
			fn(c)
		}
	})
}

func constInt(v ssa.Value) (int64, bool) {
	c, ok := v.(*ssa.Const)
	if !ok || c.Value == nil {
		return 0, false
	}
	if c.Value.Kind() != constant.Int {
		return 0, false
	}
	i, exact := constant.Int64Val(c.Value)
	if !exact {
		// try uint64
		if u, ok := constant.Uint64Val(c.Value); ok {
			return int64(u), true
		}
		return 0, false
	}
	return i, true
}

func constString(v ssa.Value) (string, bool) {
	c, ok := v.(*ssa.Const)
	if !ok || c.Value == nil || c.Value.Kind() != constant.String {
		return "", false
	}
	return constant.StringVal(c.Value), true
}

func isNilConst(v ssa.Value) bool {
	c, ok := v.(*ssa.Const)
	return ok && c.Value == nil
}

// stripConv removes value-preserving wrappers (ChangeType, Convert between same-underlying, MakeInterface not removed).
func stripChange(v ssa.Value) ssa.Value {
	for {
		switch x := v.(type) {
		case *ssa.ChangeType:
			v = x.X
		default:
			return v
		}
	}
}

// globalOf returns the package-level variable that v is rooted at (through FieldAddr/IndexAddr), or nil.
func globalOf(v ssa.Value) *ssa.Global {
	for i := 0; i < 50; i++ {
		switch x := v.(type) {
		case *ssa.Global:
			return x
		case *ssa.FieldAddr:
			v = x.X
		case *ssa.IndexAddr:
			v = x.X
		case *ssa.ChangeType:
			v = x.X
		case *ssa.Slice:
			v = x.X
		default:
			return nil
		}
	}
	return nil
}

// loadOfGlobal: v is *g (UnOp MUL on a Global, possibly through field addr).
func loadOfGlobal(v ssa.Value) *ssa.Global {
	if u, ok := v.(*ssa.UnOp); ok && u.Op == token.MUL {
		return globalOf(u.X)
	}
	return nil
}

func globalName(g *ssa.Global) string {
	return relPkg(g.Pkg.Pkg.Path()) + "." + g.Name()
}

// referrers, nil-safe
func refs(v ssa.Value) []ssa.Instruction {
	r := v.Referrers()
	if r == nil {
		return nil
	}
	return *r
}

// extractIdx: v is Extract of tuple t at index i
func extractOf(v ssa.Value) (tuple ssa.Value, idx int, ok bool) {
	if e, ok := v.(*ssa.Extract); ok {
		return e.Tuple, e.Index, true
	}
	return nil, 0, false
}

// tupleExtract returns the Extract value #idx of a tuple-valued call (nil if never extracted).
func tupleExtract(call ssa.Value, idx int) *ssa.Extract {
	for _, r := range refs(call) {
		if e, ok := r.(*ssa.Extract); ok && e.Index == idx {
			return e
		}
	}
	return nil
}

func isErrorType(t types.Type) bool {
	return types.Identical(t, types.Universe.Lookup("error").Type())
}

func implementsError(t types.Type) bool {
	errT := types.Universe.Lookup("error").Type().Underlying().(*types.Interface)
	return types.Implements(t, errT)
}

func typeStr(t types.Type) string {
	return types.TypeString(t, func(p *types.Package) string { return relPkg(p.Path()) })
}

// reachableFrom computes the set of blocks reachable from (b, after instruction index i) within f.
func blocksReachableFrom(b *ssa.BasicBlock) map[*ssa.BasicBlock]bool {
	seen := map[*ssa.BasicBlock]bool{}
	var st []*ssa.BasicBlock
	for _, s := range b.Succs {
		if !seen[s] {
			seen[s] = true
			st = append(st, s)
		}
	}
	for len(st) > 0 {
		x := st[len(st)-1]
		st = st[:len(st)-1]
		for _, s := range x.Succs {
			if !seen[s] {
				seen[s] = true
				st = append(st, s)
			}
		}
	}
	return seen
}

// natural loops ---------------------------------------------------------------

type Loop struct {
	Head   *ssa.BasicBlock
	Blocks map[*ssa.BasicBlock]bool
	Latch  []*ssa.BasicBlock // sources of back edges
}

func findLoops(f *ssa.Function) []*Loop {
	byHead := map[*ssa.BasicBlock]*Loop{}
	var order []*ssa.BasicBlock
	for _, b := range f.Blocks {
		for _, s := range b.Succs {
			if s.Dominates(b) { // back edge b -> s
				l := byHead[s]
				if l == nil {
					l = &Loop{Head: s, Blocks: map[*ssa.BasicBlock]bool{s: true}}
					byHead[s] = l
					order = append(order, s)
				}
				l.Latch = append(l.Latch, b)
				// collect body: nodes that reach b without passing s
				var st []*ssa.BasicBlock
				if !l.Blocks[b] {
					l.Blocks[b] = true
					st = append(st, b)
				}
				for len(st) > 0 {
					x := st[len(st)-1]
					st = st[:len(st)-1]
					for _, p := range x.Preds {
						if !l.Blocks[p] {
							l.Blocks[p] = true
							st = append(st, p)
						}
					}
				}
			}
		}
	}
	var out []*Loop
	for _, h := range order {
		out = append(out, byHead[h])
	}
	return out
}

// inLoop reports whether block b is inside any natural loop of its function.
func inAnyLoop(b *ssa.BasicBlock) bool {
	for _, l := range findLoops(b.Parent()) {
		if l.Blocks[b] {
			return true
		}
	}
	return false
}

// shortVal renders a value compactly and position-free for keys.
func shortVal(v ssa.Value) string {
	switch x := v.(type) {
	case *ssa.Const:
		if x.Value == nil {
			return "nil"
		}
		return "const:" + x.Value.ExactString()
	case *ssa.Parameter:
		return "param:" + x.Name()
	case *ssa.Global:
		return "global:" + globalName(x)
	case *ssa.FieldAddr:
		return shortVal(x.X) + "." + fieldName(x.X.Type(), x.Field)
	case *ssa.Field:
		return shortVal(x.X) + "." + fieldNameV(x.X.Type(), x.Field)
	case *ssa.UnOp:
		if x.Op == token.MUL {
			return "*" + shortVal(x.X)
		}
		return x.Op.String() + shortVal(x.X)
	case *ssa.Call:
		return "call:" + shortCallee(&x.Call)
	case *ssa.Extract:
		return fmt.Sprintf("%s#%d", shortVal(x.Tuple), x.Index)
	case *ssa.Slice:
		return "slice(" + shortVal(x.X) + ")"
	case *ssa.IndexAddr:
		return shortVal(x.X) + "[]"
	case *ssa.Index:
		return shortVal(x.X) + "[]"
	case *ssa.Convert:
		return shortVal(x.X)
	case *ssa.ChangeType:
		return shortVal(x.X)
	case *ssa.Phi:
		return "phi:" + x.Comment
	case *ssa.Alloc:
		return "local:" + x.Comment
	case *ssa.BinOp:
		return "(" + shortVal(x.X) + x.Op.String() + shortVal(x.Y) + ")"
	case *ssa.FreeVar:
		return "freevar:" + x.Name()
	case *ssa.MakeInterface:
		return "iface(" + shortVal(x.X) + ")"
	case *ssa.Lookup:
		return shortVal(x.X) + "[k]"
	case *ssa.TypeAssert:
		return shortVal(x.X) + ".(" + typeStr(x.AssertedType) + ")"
	case *ssa.MakeSlice:
		return "make"
	}
	return strings.TrimPrefix(fmt.Sprintf("%T", v), "*ssa.")
}

func shortCallee(c *ssa.CallCommon) string {
	if c.IsInvoke() {
		return "iface." + c.Method.Name()
	}
	if f := c.StaticCallee(); f != nil {
		if isRepoFn(f) {
			return fnName(f)
		}
		return f.String()
	}
	if b, ok := c.Value.(*ssa.Builtin); ok {
		return b.Name()
	}
	return "dyn:" + shortVal(c.Value)
}

func fieldName(ptrT types.Type, i int) string {
	t := ptrT.Underlying()
	if p, ok := t.(*types.Pointer); ok {
		t = p.Elem().Underlying()
	}
	if s, ok := t.(*types.Struct); ok && i < s.NumFields() {
		return s.Field(i).Name()
	}
	return fmt.Sprint(i)
}

func fieldNameV(t types.Type, i int) string {
	if s, ok := t.Underlying().(*types.Struct); ok && i < s.NumFields() {
		return s.Field(i).Name()
	}
	return fmt.Sprint(i)
}
