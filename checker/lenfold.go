package main

// E3b — length propagation with unrolling over constant tables.
//
// Some loops consume a buffer in steps given by an immutable table (UUID groups 8-4-4-4-12): whether every
// window fits is a fact about the table and the entry lengths, not about the input's content. This file
// propagates *lengths and constants* through a function: integers are either known or unknown, slices have a
// known length and unknown content, conditions on unknown values fork the exploration (every path is
// explored; the table-driven loop counter is a known integer, so the exploration is finite). A bounds-checked
// operation is decided exactly when all its operands are known; with an unknown operand the run is
// "undecided" — never a silent pass. No solver, no concrete input: the abstract domain is
// {known int | unknown} × {slice of known length}.

import (
	"fmt"
	"go/constant"
	"go/token"
	"go/types"

	"golang.org/x/tools/go/ssa"
)

type aval struct {
	kind  string // "int", "bool", "unk", "blob" (slice/string/array of known length i), "ints", "tuple", "nil"
	i     int64
	b     bool
	ints  []int64
	tuple []aval
}

var unkV = aval{kind: "unk"}

type lenRunner struct {
	p         *Prog
	steps     int
	paths     int
	panics    []string
	undecided string
	depth     int
}

const lenStepBudget = 200000

// trustedLenContract: dependency functions whose length precondition is known. Returns a panic message or "".
func trustedLenContract(name string, args []aval) string {
	switch name {
	case "encoding/hex.Decode":
		if len(args) == 2 && args[0].kind == "blob" && args[1].kind == "blob" {
			if args[0].i < args[1].i/2 {
				return fmt.Sprintf("hex.Decode: destination of %d bytes for a source of %d", args[0].i, args[1].i)
			}
			return ""
		}
		return "?"
	}
	return ""
}

func (lr *lenRunner) run(f *ssa.Function, args []aval) {
	if lr.depth > 5 {
		lr.undecided = "call depth"
		return
	}
	if f.Blocks == nil || len(args) != len(f.Params) {
		lr.undecided = "no body or arity: " + f.String()
		return
	}
	env := map[ssa.Value]aval{}
	for i, p := range f.Params {
		env[p] = args[i]
	}
	lr.walk(f, f.Blocks[0], nil, env)
}

func (lr *lenRunner) get(env map[ssa.Value]aval, v ssa.Value) aval {
	if c, ok := env[v]; ok {
		return c
	}
	switch x := v.(type) {
	case *ssa.Const:
		if x.Value == nil {
			return aval{kind: "nil"}
		}
		switch x.Value.Kind() {
		case constant.Int:
			i, _ := constInt(x)
			return aval{kind: "int", i: i}
		case constant.String:
			return aval{kind: "blob", i: int64(len(constant.StringVal(x.Value)))}
		case constant.Bool:
			return aval{kind: "bool", b: constant.BoolVal(x.Value)}
		}
	case *ssa.Global:
		t := lr.p.Tables()
		t.scan()
		tv := t.Val(x)
		if tv != nil && !t.storeOutsideInit[x] && !t.elemMut[x] {
			switch tv.Kind {
			case "ints":
				return aval{kind: "ints", ints: tv.Ints}
			case "string":
				return aval{kind: "blob", i: int64(len(tv.Str))}
			}
		}
		// pointer to an array-typed global: known length
		if at, ok := derefType(x.Type()).Underlying().(*types.Array); ok {
			return aval{kind: "blob", i: at.Len()}
		}
	}
	return unkV
}

func copyEnv(m map[ssa.Value]aval) map[ssa.Value]aval {
	n := make(map[ssa.Value]aval, len(m))
	for k, v := range m {
		n[k] = v
	}
	return n
}

func (lr *lenRunner) fail(msg string) {
	if lr.undecided == "" {
		lr.undecided = msg
	}
}

func (lr *lenRunner) walk(f *ssa.Function, b, prev *ssa.BasicBlock, env map[ssa.Value]aval) {
	for {
		if lr.undecided != "" {
			return
		}
		var next *ssa.BasicBlock
		for _, in := range b.Instrs {
			lr.steps++
			if lr.steps > lenStepBudget {
				lr.fail("step budget exhausted (a loop whose bound is not a known integer?)")
				return
			}
			switch x := in.(type) {
			case *ssa.DebugRef:
			case *ssa.Phi:
				idx := -1
				for i, pb := range b.Preds {
					if pb == prev {
						idx = i
					}
				}
				if idx < 0 {
					lr.fail("phi without predecessor")
					return
				}
				env[x] = lr.get(env, x.Edges[idx])
			case *ssa.BinOp:
				l, r := lr.get(env, x.X), lr.get(env, x.Y)
				if l.kind == "int" && r.kind == "int" {
					c, why, pan := foldBin(x, cval{kind: "int", i: l.i}, cval{kind: "int", i: r.i})
					if pan != "" {
						lr.panics = append(lr.panics, pan+" in "+fnName(f))
						return
					}
					if why != "" {
						env[x] = unkV
					} else if c.kind == "int" {
						env[x] = aval{kind: "int", i: c.i}
					} else {
						env[x] = aval{kind: "bool", b: c.b}
					}
				} else if (x.Op == token.QUO || x.Op == token.REM) && isIntType(x.Type()) && r.kind != "int" {
					lr.fail("division by an unknown value in " + fnName(f))
					return
				} else if (x.Op == token.QUO || x.Op == token.REM) && r.kind == "int" && r.i == 0 && isIntType(x.Type()) {
					lr.panics = append(lr.panics, "integer divide by zero in "+fnName(f))
					return
				} else {
					env[x] = unkV
				}
			case *ssa.UnOp:
				switch x.Op {
				case token.MUL:
					switch a := x.X.(type) {
					case *ssa.IndexAddr:
						base := lr.get(env, a.X)
						if base.kind == "unk" {
							if u, ok := a.X.(*ssa.UnOp); ok && u.Op == token.MUL {
								base = lr.get(env, u.X)
							}
						}
						env[x] = lr.index(f, base, lr.get(env, a.Index), shortVal(a.X))
					case *ssa.Alloc:
						env[x] = lr.get(env, a)
					default:
						env[x] = lr.get(env, x.X) // loads of globals / fields: table value or unknown
						if _, isG := x.X.(*ssa.Global); !isG {
							if _, known := env[x.X]; !known {
								env[x] = unkV
							}
						}
					}
				case token.SUB:
					c := lr.get(env, x.X)
					if c.kind == "int" {
						env[x] = aval{kind: "int", i: wrapInt(-c.i, x.Type())}
					} else {
						env[x] = unkV
					}
				case token.NOT:
					c := lr.get(env, x.X)
					if c.kind == "bool" {
						env[x] = aval{kind: "bool", b: !c.b}
					} else {
						env[x] = unkV
					}
				default:
					env[x] = unkV
				}
			case *ssa.IndexAddr:
				// address only; the access is checked at the load/store. An out-of-range IndexAddr panics too:
				base := lr.get(env, x.X)
				if base.kind == "unk" {
					if u, ok := x.X.(*ssa.UnOp); ok && u.Op == token.MUL {
						base = lr.get(env, u.X)
					}
				}
				lr.index(f, base, lr.get(env, x.Index), shortVal(x.X))
			case *ssa.Index:
				env[x] = lr.index(f, lr.get(env, x.X), lr.get(env, x.Index), shortVal(x.X))
			case *ssa.Lookup:
				if _, isMap := x.X.Type().Underlying().(*types.Map); isMap {
					if x.CommaOk {
						env[x] = aval{kind: "tuple", tuple: []aval{unkV, unkV}}
					} else {
						env[x] = unkV
					}
				} else {
					env[x] = lr.index(f, lr.get(env, x.X), lr.get(env, x.Index), shortVal(x.X))
				}
			case *ssa.Slice:
				base := lr.get(env, x.X)
				if base.kind != "blob" {
					lr.fail(fmt.Sprintf("slice of a value of unknown length (%s) in %s", shortVal(x.X), fnName(f)))
					return
				}
				lo, hi := int64(0), base.i
				if x.Low != nil {
					c := lr.get(env, x.Low)
					if c.kind != "int" {
						lr.fail("slice with an unknown low bound in " + fnName(f))
						return
					}
					lo = c.i
				}
				if x.High != nil {
					c := lr.get(env, x.High)
					if c.kind != "int" {
						lr.fail("slice with an unknown high bound in " + fnName(f))
						return
					}
					hi = c.i
				}
				if lo < 0 || hi < lo || hi > base.i {
					lr.panics = append(lr.panics, fmt.Sprintf("slice bounds out of range [%d:%d] with length %d (%s) in %s", lo, hi, base.i, shortVal(x.X), fnName(f)))
					return
				}
				env[x] = aval{kind: "blob", i: hi - lo}
			case *ssa.Convert:
				c := lr.get(env, x.X)
				switch {
				case c.kind == "int" && isIntType(x.Type()):
					env[x] = aval{kind: "int", i: wrapInt(c.i, x.Type())}
				case c.kind == "blob":
					env[x] = c
				default:
					env[x] = unkV
				}
			case *ssa.ChangeType:
				env[x] = lr.get(env, x.X)
			case *ssa.MakeInterface, *ssa.TypeAssert, *ssa.MakeClosure, *ssa.FieldAddr, *ssa.Field, *ssa.MakeMap, *ssa.ChangeInterface, *ssa.Range, *ssa.Next:
				env[x.(ssa.Value)] = unkV
			case *ssa.MakeSlice:
				c := lr.get(env, x.Len)
				if c.kind == "int" {
					if c.i < 0 {
						lr.panics = append(lr.panics, "make with negative length in "+fnName(f))
						return
					}
					env[x] = aval{kind: "blob", i: c.i}
				} else {
					env[x] = unkV
				}
			case *ssa.Alloc:
				if at, ok := derefType(x.Type()).Underlying().(*types.Array); ok {
					env[x] = aval{kind: "blob", i: at.Len()}
				}
			case *ssa.Store:
				if a, ok := x.Addr.(*ssa.Alloc); ok {
					if _, isArr := derefType(a.Type()).Underlying().(*types.Array); !isArr {
						env[a] = lr.get(env, x.Val)
					}
				}
			case *ssa.Extract:
				t := lr.get(env, x.Tuple)
				if t.kind == "tuple" && x.Index < len(t.tuple) {
					env[x] = t.tuple[x.Index]
				} else {
					env[x] = unkV
				}
			case *ssa.Call:
				env[x] = lr.call(f, env, x)
				if lr.undecided != "" {
					return
				}
			case *ssa.Defer, *ssa.Go, *ssa.RunDefers, *ssa.MapUpdate, *ssa.Send:
			case *ssa.If:
				c := lr.get(env, x.Cond)
				if c.kind == "bool" {
					if c.b {
						next = b.Succs[0]
					} else {
						next = b.Succs[1]
					}
				} else {
					// fork: explore the false branch on a copy, continue with the true branch
					lr.paths++
					lr.walk(f, b.Succs[1], b, copyEnv(env))
					next = b.Succs[0]
				}
			case *ssa.Jump:
				next = b.Succs[0]
			case *ssa.Return:
				return
			case *ssa.Panic:
				lr.panics = append(lr.panics, "explicit panic in "+fnName(f))
				return
			default:
				if v, ok := in.(ssa.Value); ok {
					env[v] = unkV
				}
			}
		}
		if next == nil {
			return
		}
		prev, b = b, next
	}
}

func (lr *lenRunner) index(f *ssa.Function, base, idx aval, what string) aval {
	switch base.kind {
	case "ints":
		if idx.kind != "int" {
			lr.fail("table indexed with an unknown value in " + fnName(f))
			return unkV
		}
		if idx.i < 0 || idx.i >= int64(len(base.ints)) {
			lr.panics = append(lr.panics, fmt.Sprintf("index out of range [%d] with length %d (%s) in %s", idx.i, len(base.ints), what, fnName(f)))
			lr.fail("stopped after a panic")
			return unkV
		}
		return aval{kind: "int", i: base.ints[idx.i]}
	case "blob":
		if idx.kind != "int" {
			lr.fail(fmt.Sprintf("index of %s with an unknown value in %s", what, fnName(f)))
			return unkV
		}
		if idx.i < 0 || idx.i >= base.i {
			lr.panics = append(lr.panics, fmt.Sprintf("index out of range [%d] with length %d (%s) in %s", idx.i, base.i, what, fnName(f)))
			lr.fail("stopped after a panic")
			return unkV
		}
		return unkV
	}
	lr.fail(fmt.Sprintf("index into a value of unknown length (%s) in %s", what, fnName(f)))
	return unkV
}

func resultShape(sig *types.Signature) aval {
	if sig.Results().Len() <= 1 {
		return unkV
	}
	t := make([]aval, sig.Results().Len())
	for i := range t {
		t[i] = unkV
	}
	return aval{kind: "tuple", tuple: t}
}

func (lr *lenRunner) call(f *ssa.Function, env map[ssa.Value]aval, x *ssa.Call) aval {
	cc := &x.Call
	if bi, ok := cc.Value.(*ssa.Builtin); ok {
		switch bi.Name() {
		case "len":
			c := lr.get(env, cc.Args[0])
			if c.kind == "blob" {
				return aval{kind: "int", i: c.i}
			}
			if c.kind == "ints" {
				return aval{kind: "int", i: int64(len(c.ints))}
			}
			if u, ok := cc.Args[0].(*ssa.UnOp); ok && u.Op == token.MUL {
				if c2 := lr.get(env, u.X); c2.kind == "ints" {
					return aval{kind: "int", i: int64(len(c2.ints))}
				}
			}
			return unkV
		}
		return unkV
	}
	var args []aval
	for _, a := range cc.Args {
		args = append(args, lr.get(env, a))
	}
	if cc.IsInvoke() {
		return resultShape(cc.Signature())
	}
	sc := cc.StaticCallee()
	if sc == nil {
		return resultShape(cc.Signature())
	}
	name := sc.String()
	if sc.Pkg != nil && sc.Signature.Recv() == nil {
		name = sc.Pkg.Pkg.Path() + "." + sc.Name()
	}
	if msg := trustedLenContract(name, args); msg == "?" {
		lr.fail(name + " called with arguments of unknown length in " + fnName(f))
		return unkV
	} else if msg != "" {
		lr.panics = append(lr.panics, msg+" in "+fnName(f))
		lr.fail("stopped after a panic")
		return unkV
	}
	if isRepoFn(sc) && sc.Blocks != nil {
		lr.depth++
		before := len(lr.panics)
		sub := &lenRunner{p: lr.p, steps: lr.steps, depth: lr.depth}
		sub.run(sc, args)
		lr.steps = sub.steps
		lr.paths += sub.paths
		lr.depth--
		lr.panics = append(lr.panics, sub.panics...)
		if sub.undecided != "" {
			lr.fail(sub.undecided)
		} else if len(lr.panics) > before {
			lr.fail("stopped after a panic")
		}
	}
	return resultShape(sc.Signature)
}

// lenFold explores f with the given abstract arguments; returns (panic messages, undecided reason, paths).
func lenFold(p *Prog, f *ssa.Function, args []aval) ([]string, string, int) {
	lr := &lenRunner{p: p}
	lr.run(f, args)
	und := lr.undecided
	if und == "stopped after a panic" {
		und = ""
	}
	return lr.panics, und, lr.paths + 1
}
