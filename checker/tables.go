package main

// E5 — values of package-level tables, constants and doc-comment rows.

import (
	"go/ast"
	"go/constant"
	"go/token"
	"go/types"
	"regexp"
	"strconv"
	"strings"

	"golang.org/x/tools/go/packages"
	"golang.org/x/tools/go/ssa"
)

type TableVal struct {
	Kind        string // "string", "ints", "strings", "map", "errnew", "other"
	Str         string
	Ints        []int64
	Strs        []string
	MapKeys     []constant.Value
	MapVals     []constant.Value // nil entries for non-constant values
	MapValExprs []ast.Expr
	derived     bool // value produced by recognised init() loops, not by a literal
	Spec        *ast.ValueSpec
	Pkg         *packages.Package
	Expr        ast.Expr
}

type Tables struct {
	p                *Prog
	vals             map[*types.Var]*TableVal
	byG              map[*ssa.Global]*types.Var
	storeOutsideInit map[*ssa.Global]bool
	elemMut          map[*ssa.Global]bool
	scanned          bool
}

func (p *Prog) Tables() *Tables {
	if p.tables != nil {
		return p.tables
	}
	t := &Tables{p: p, vals: map[*types.Var]*TableVal{}, byG: map[*ssa.Global]*types.Var{}, storeOutsideInit: map[*ssa.Global]bool{}, elemMut: map[*ssa.Global]bool{}}
	for _, pk := range p.Lib {
		for _, f := range pk.Syntax {
			for _, d := range f.Decls {
				gd, ok := d.(*ast.GenDecl)
				if !ok || gd.Tok != token.VAR {
					continue
				}
				for _, sp := range gd.Specs {
					vs := sp.(*ast.ValueSpec)
					if len(vs.Values) != len(vs.Names) {
						continue
					}
					for i, nm := range vs.Names {
						obj, ok := pk.TypesInfo.Defs[nm].(*types.Var)
						if !ok {
							continue
						}
						tv := t.eval(pk, vs.Values[i])
						tv.Spec, tv.Pkg, tv.Expr = vs, pk, vs.Values[i]
						t.vals[obj] = tv
					}
				}
			}
		}
	}
	t.deriveInitMaps()
	p.tables = t
	return t
}

// deriveInitMaps: a package-level map created with make(...) and filled in init() only by loops of the shapes
//
//	for k, v := range SRC { DST[v] = k }   (inversion)      for k, v := range SRC { DST[k] = v }   (copy)
//
// over literal map tables SRC gets the value those loops produce (in source order). Any other statement that
// mentions DST inside an init function leaves it without a value.
func (t *Tables) deriveInitMaps() {
	for _, pk := range t.p.Lib {
		type step struct {
			dst, src *types.Var
			invert   bool
		}
		var steps []step
		spoiled := map[*types.Var]bool{}
		for _, f := range pk.Syntax {
			for _, d := range f.Decls {
				fd, ok := d.(*ast.FuncDecl)
				if !ok || fd.Name.Name != "init" || fd.Recv != nil || fd.Body == nil {
					continue
				}
				for _, stmt := range fd.Body.List {
					rs, ok := stmt.(*ast.RangeStmt)
					matched := false
					if ok && rs.Body != nil && len(rs.Body.List) == 1 {
						as, ok := rs.Body.List[0].(*ast.AssignStmt)
						srcID, ok2 := rs.X.(*ast.Ident)
						kID, ok3 := rs.Key.(*ast.Ident)
						vID, ok4 := rs.Value.(*ast.Ident)
						if ok && ok2 && ok3 && ok4 && len(as.Lhs) == 1 && len(as.Rhs) == 1 && as.Tok == token.ASSIGN {
							ix, ok5 := as.Lhs[0].(*ast.IndexExpr)
							rhs, ok6 := as.Rhs[0].(*ast.Ident)
							if ok5 && ok6 {
								dstID, ok7 := ix.X.(*ast.Ident)
								idxID, ok8 := ix.Index.(*ast.Ident)
								if ok7 && ok8 {
									dst, _ := pk.TypesInfo.Uses[dstID].(*types.Var)
									src, _ := pk.TypesInfo.Uses[srcID].(*types.Var)
									if dst != nil && src != nil {
										if idxID.Name == vID.Name && rhs.Name == kID.Name {
											steps = append(steps, step{dst, src, true})
											matched = true
										} else if idxID.Name == kID.Name && rhs.Name == vID.Name {
											steps = append(steps, step{dst, src, false})
											matched = true
										}
									}
								}
							}
						}
					}
					if !matched {
						// any other statement mentioning a package-level map spoils it
						ast.Inspect(stmt, func(n ast.Node) bool {
							if id, ok := n.(*ast.Ident); ok {
								if v, ok := pk.TypesInfo.Uses[id].(*types.Var); ok && v.Parent() == pk.Types.Scope() {
									if _, isMap := v.Type().Underlying().(*types.Map); isMap {
										spoiled[v] = true
									}
								}
							}
							return true
						})
					}
				}
			}
		}
		for _, st := range steps {
			if spoiled[st.dst] {
				continue
			}
			src := t.vals[st.src]
			dst := t.vals[st.dst]
			if src == nil || src.Kind != "map" || dst == nil {
				spoiled[st.dst] = true
				continue
			}
			if dst.Kind != "map" {
				// must have been created empty: make(map[..]..., n)
				ce, ok := dst.Expr.(*ast.CallExpr)
				if id, isID := func() (*ast.Ident, bool) {
					if !ok {
						return nil, false
					}
					i, k := ce.Fun.(*ast.Ident)
					return i, k
				}(); !isID || id.Name != "make" {
					spoiled[st.dst] = true
					continue
				}
				dst.Kind = "map"
				dst.MapKeys, dst.MapVals, dst.MapValExprs = nil, nil, nil
			}
			for i, k := range src.MapKeys {
				v := src.MapVals[i]
				nk, nv := k, v
				if st.invert {
					nk, nv = v, k
				}
				if nk == nil {
					continue
				}
				replaced := false
				for j, ek := range dst.MapKeys {
					if ek != nil && ek.Kind() == nk.Kind() && ek.ExactString() == nk.ExactString() {
						dst.MapVals[j] = nv
						replaced = true
					}
				}
				if !replaced {
					dst.MapKeys = append(dst.MapKeys, nk)
					dst.MapVals = append(dst.MapVals, nv)
					dst.MapValExprs = append(dst.MapValExprs, nil)
				}
			}
			dst.derived = true
		}
		for v := range spoiled {
			if tv := t.vals[v]; tv != nil && tv.derived {
				tv.Kind = "other"
			}
		}
	}
}

func (t *Tables) eval(pk *packages.Package, e ast.Expr) *TableVal {
	if tvv, ok := pk.TypesInfo.Types[e]; ok && tvv.Value != nil {
		if tvv.Value.Kind() == constant.String {
			return &TableVal{Kind: "string", Str: constant.StringVal(tvv.Value)}
		}
	}
	switch x := e.(type) {
	case *ast.CompositeLit:
		typ := pk.TypesInfo.Types[x].Type
		if typ == nil {
			break
		}
		switch u := typ.Underlying().(type) {
		case *types.Array, *types.Slice:
			var elem types.Type
			if a, ok := u.(*types.Array); ok {
				elem = a.Elem()
			} else {
				elem = u.(*types.Slice).Elem()
			}
			if b, ok := elem.Underlying().(*types.Basic); ok && b.Info()&types.IsInteger != 0 {
				var out []int64
				idx := int64(0)
				okAll := true
				for _, el := range x.Elts {
					ve := el
					if kv, ok := el.(*ast.KeyValueExpr); ok {
						if kc, ok := pk.TypesInfo.Types[kv.Key]; ok && kc.Value != nil {
							idx, _ = constant.Int64Val(kc.Value)
						}
						ve = kv.Value
					}
					c, ok := pk.TypesInfo.Types[ve]
					if !ok || c.Value == nil {
						okAll = false
						break
					}
					k, _ := constant.Int64Val(constant.ToInt(c.Value))
					for int64(len(out)) <= idx {
						out = append(out, 0)
					}
					out[idx] = k
					idx++
				}
				if okAll {
					if a, ok := u.(*types.Array); ok {
						for int64(len(out)) < a.Len() {
							out = append(out, 0)
						}
					}
					return &TableVal{Kind: "ints", Ints: out}
				}
			}
			if b, ok := elem.Underlying().(*types.Basic); ok && b.Info()&types.IsString != 0 {
				var out []string
				okAll := true
				idx := int64(0)
				for _, el := range x.Elts {
					ve := el
					if kv, ok := el.(*ast.KeyValueExpr); ok {
						kc, ok := pk.TypesInfo.Types[kv.Key]
						if !ok || kc.Value == nil {
							okAll = false
							break
						}
						idx, _ = constant.Int64Val(constant.ToInt(kc.Value))
						ve = kv.Value
					}
					c, ok := pk.TypesInfo.Types[ve]
					if !ok || c.Value == nil || idx < 0 || idx > 1<<20 {
						okAll = false
						break
					}
					for int64(len(out)) <= idx {
						out = append(out, "")
					}
					out[idx] = constant.StringVal(c.Value)
					idx++
				}
				if okAll {
					if a, ok := u.(*types.Array); ok {
						for int64(len(out)) < a.Len() {
							out = append(out, "")
						}
					}
					return &TableVal{Kind: "strings", Strs: out}
				}
			}
			if b, ok := elem.Underlying().(*types.Basic); ok && b.Info()&types.IsFloat != 0 {
				return &TableVal{Kind: "floats"}
			}
		case *types.Map:
			tv := &TableVal{Kind: "map"}
			for _, el := range x.Elts {
				kv, ok := el.(*ast.KeyValueExpr)
				if !ok {
					continue
				}
				kc := pk.TypesInfo.Types[kv.Key]
				vc := pk.TypesInfo.Types[kv.Value]
				tv.MapKeys = append(tv.MapKeys, kc.Value)
				tv.MapVals = append(tv.MapVals, vc.Value)
				tv.MapValExprs = append(tv.MapValExprs, kv.Value)
			}
			return tv
		}
	case *ast.CallExpr:
		if sel, ok := x.Fun.(*ast.SelectorExpr); ok {
			if fn, ok := pk.TypesInfo.Uses[sel.Sel].(*types.Func); ok && fn.Pkg() != nil {
				full := fn.Pkg().Path() + "." + fn.Name()
				if full == "errors.New" || full == "github.com/pkg/errors.New" || full == "fmt.Errorf" || full == "github.com/pkg/errors.Errorf" {
					return &TableVal{Kind: "errnew"}
				}
			}
		}
	case *ast.SelectorExpr, *ast.Ident:
		// alias of another package-level error: ErrNoExif = meta.ErrNoExif
		var obj types.Object
		if s, ok := x.(*ast.SelectorExpr); ok {
			obj = pk.TypesInfo.Uses[s.Sel]
		} else {
			obj = pk.TypesInfo.Uses[x.(*ast.Ident)]
		}
		if v, ok := obj.(*types.Var); ok && isErrorType(v.Type()) {
			return &TableVal{Kind: "erralias", Str: v.Pkg().Path() + "." + v.Name()}
		}
	}
	return &TableVal{Kind: "other"}
}

func (t *Tables) varOf(g *ssa.Global) *types.Var {
	v, _ := g.Object().(*types.Var)
	return v
}

func (t *Tables) Val(g *ssa.Global) *TableVal {
	v := t.varOf(g)
	if v == nil {
		return nil
	}
	return t.vals[v]
}

func (t *Tables) ValByName(rel, name string) *TableVal {
	pk := t.p.LibPkg(rel)
	if pk == nil {
		return nil
	}
	v, ok := pk.Types.Scope().Lookup(name).(*types.Var)
	if !ok {
		return nil
	}
	return t.vals[v]
}

// scan records, for every library global, whether it is stored to (own storage) outside init and
// whether its elements may be mutated.
func (t *Tables) scan() {
	if t.scanned {
		return
	}
	t.scanned = true
	for _, f := range t.p.AllLibFns() {
		initf := isInitFn(f)
		eachInstr(f, func(_ *ssa.BasicBlock, _ int, in ssa.Instruction) {
			switch x := in.(type) {
			case *ssa.Store:
				if g := globalOf(x.Addr); g != nil && !initf {
					if x.Addr == ssa.Value(g) {
						t.storeOutsideInit[g] = true
					} else {
						t.elemMut[g] = true
					}
				}
			}
			var ops []*ssa.Value
			for _, op := range in.Operands(ops) {
				g, ok := (*op).(*ssa.Global)
				if !ok {
					continue
				}
				switch y := in.(type) {
				case *ssa.UnOp:
					// whole-value load: a loaded slice could be mutated through; track its uses
					if _, isSlice := y.Type().Underlying().(*types.Slice); isSlice {
						for _, rf := range refs(y) {
							switch z := rf.(type) {
							case *ssa.IndexAddr:
								for _, rf2 := range refs(z) {
									if st, ok := rf2.(*ssa.Store); ok && st.Addr == ssa.Value(z) && !initf {
										t.elemMut[g] = true
									}
								}
							case *ssa.Call:
								if b, ok := z.Call.Value.(*ssa.Builtin); ok && (b.Name() == "len" || b.Name() == "cap") {
									continue
								}
								t.elemMut[g] = true
							case *ssa.Index, *ssa.Lookup, *ssa.Range, *ssa.DebugRef:
							case *ssa.Slice:
								// a window of the table: harmless only if it is read, not returned, stored or appended to
								if !t.readOnlyUses(z, 0) {
									t.elemMut[g] = true
								}
							default:
								t.elemMut[g] = true
							}
						}
					}
				case *ssa.IndexAddr:
					for _, rf := range refs(y) {
						if st, ok := rf.(*ssa.Store); ok && st.Addr == ssa.Value(y) {
							if !initf {
								t.elemMut[g] = true
							}
						} else if _, ok := rf.(*ssa.UnOp); !ok {
							if _, ok := rf.(*ssa.DebugRef); !ok {
								t.elemMut[g] = true
							}
						}
					}
				case *ssa.Store, *ssa.FieldAddr, *ssa.DebugRef:
				case *ssa.Slice:
					// a slice of the table: harmless if it is only read (indexed for loads, measured, or handed to
					// library callees that do not write through that parameter)
					if !t.readOnlyUses(y, 0) {
						t.elemMut[g] = true
					}
				default:
					if !initf {
						t.elemMut[g] = true
					}
				}
			}
		})
	}
}

// readOnlyUses: the slice value v is only read.
func (t *Tables) readOnlyUses(v ssa.Value, depth int) bool {
	if depth > 4 {
		return false
	}
	for _, rf := range refs(v) {
		switch z := rf.(type) {
		case *ssa.IndexAddr:
			for _, rf2 := range refs(z) {
				switch rf2.(type) {
				case *ssa.UnOp, *ssa.DebugRef:
				default:
					return false
				}
			}
		case *ssa.Index, *ssa.Lookup, *ssa.Range, *ssa.DebugRef:
		case *ssa.Slice:
			if !t.readOnlyUses(z, depth+1) {
				return false
			}
		case ssa.CallInstruction:
			c := z.Common()
			if b, ok := c.Value.(*ssa.Builtin); ok {
				if b.Name() == "len" || b.Name() == "cap" {
					continue
				}
				if b.Name() == "copy" && len(c.Args) == 2 && c.Args[1] == v && c.Args[0] != v {
					continue // copied from
				}
				return false
			}
			args := callArgs(c)
			callees := t.p.Callees(z)
			if len(callees) == 0 {
				return false
			}
			for _, g := range callees {
				ef := t.p.Effects().Of(g)
				if ef == nil {
					return false
				}
				for i, a := range args {
					if a == v && ef.WParams[i] != 0 {
						return false
					}
				}
				// the callee may also retain it: only argument-pure library functions are accepted
				if !isLibFn(g) {
					return false
				}
			}
		default:
			return false
		}
	}
	return true
}

// Immutable: the global and its elements are written only by the package initialiser.
func (t *Tables) Immutable(g *ssa.Global) bool {
	t.scan()
	return !t.storeOutsideInit[g] && !t.elemMut[g]
}

// Len: literal length of an immutable package-level string/slice.
func (t *Tables) Len(g *ssa.Global) (int64, bool) {
	t.scan()
	if t.storeOutsideInit[g] {
		return 0, false
	}
	v := t.Val(g)
	if v == nil {
		return 0, false
	}
	switch v.Kind {
	case "string":
		return int64(len(v.Str)), true
	case "ints":
		return int64(len(v.Ints)), true
	case "strings":
		return int64(len(v.Strs)), true
	}
	return 0, false
}

// ElemRange: [min,max] of the elements of an immutable integer table.
func (t *Tables) ElemRange(g *ssa.Global) (ival, bool) {
	t.scan()
	if t.storeOutsideInit[g] || t.elemMut[g] {
		return ival{}, false
	}
	v := t.Val(g)
	if v == nil || v.Kind != "ints" || len(v.Ints) == 0 {
		return ival{}, false
	}
	r := ival{v.Ints[0], v.Ints[0]}
	for _, k := range v.Ints[1:] {
		r = hull(r, ival{k, k})
	}
	return r, true
}

// NonNilErr: package-level error initialised by errors.New (or an alias of one) and never reassigned.
func (t *Tables) NonNilErr(g *ssa.Global) bool {
	t.scan()
	if t.storeOutsideInit[g] {
		return false
	}
	v := t.Val(g)
	if v == nil {
		// dependency package error variables (io.EOF, bufio.ErrBufferFull): trusted non-nil
		if !isRepoPath(g.Pkg.Pkg.Path()) && isErrorType(g.Type().(*types.Pointer).Elem()) {
			return true
		}
		return false
	}
	switch v.Kind {
	case "errnew":
		return true
	case "erralias":
		// resolve
		i := strings.LastIndex(v.Str, ".")
		pk := t.p.ByPath[v.Str[:i]]
		if pk == nil {
			return false
		}
		if sp := t.p.SSA.Package(pk.Types); sp != nil {
			if g2, ok := sp.Members[v.Str[i+1:]].(*ssa.Global); ok && g2 != g {
				return t.NonNilErr(g2)
			}
		}
	}
	return false
}

// ---- doc comment rows ---------------------------------------------------------------------------

var docRowRe = regexp.MustCompile(`^\s*(-?\d+|[A-Za-z_][A-Za-z0-9_]*)\s*[:=]\s*"([^"]*)"`)

// DocRows extracts `N: "Name"` / `Ident: "Name"` rows from the doc comment of a named type.
func (t *Tables) DocRows(rel, typeName string) (map[string]string, token.Pos) {
	pk := t.p.LibPkg(rel)
	if pk == nil {
		return nil, token.NoPos
	}
	for _, f := range pk.Syntax {
		for _, d := range f.Decls {
			gd, ok := d.(*ast.GenDecl)
			if !ok || gd.Tok != token.TYPE {
				continue
			}
			for _, sp := range gd.Specs {
				ts := sp.(*ast.TypeSpec)
				if ts.Name.Name != typeName {
					continue
				}
				doc := ts.Doc
				if doc == nil {
					doc = gd.Doc
				}
				if doc == nil {
					return nil, ts.Pos()
				}
				rows := map[string]string{}
				for _, line := range strings.Split(doc.Text(), "\n") {
					if m := docRowRe.FindStringSubmatch(line); m != nil {
						rows[m[1]] = m[2]
					}
				}
				return rows, ts.Pos()
			}
		}
	}
	return nil, token.NoPos
}

func atoi(s string) (int64, bool) {
	k, err := strconv.ParseInt(s, 10, 64)
	return k, err == nil
}
