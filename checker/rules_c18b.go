package main

// C18 — VECSAFE: the stage loops of the portable kernels carry no flow dependence.
//
// The vector kernels compute each stage of Lee's recursion for eight lanes at once, i.e. without any order
// between the iterations of the stage loop. The portable loops can only equal them if no iteration reads an
// element that an earlier iteration of the same loop wrote (a loop-carried read-after-write): that is a
// classical dependence test on the affine index functions over the constant iteration space.

import (
	"fmt"
	"go/token"
	"go/types"
	"sort"
	"strings"

	"golang.org/x/tools/go/ssa"
)

// kernelFns: the portable kernels — library functions reachable from the 2-D entry points and the selected 1-D kernels.
func kernelFns(p *Prog) []*ssa.Function {
	var roots []*ssa.Function
	for _, rel := range []string{"imagehash/transforms32", "imagehash/transforms"} {
		for _, n := range []string{"DCT2DHash64", "DCT2DHash256", "forwardDCT64", "forwardDCT256"} {
			if f := p.Func(rel, "", n); f != nil {
				roots = append(roots, f)
			}
		}
	}
	seen := map[*ssa.Function]bool{}
	var out []*ssa.Function
	for len(roots) > 0 {
		f := roots[len(roots)-1]
		roots = roots[:len(roots)-1]
		if seen[f] || !isLibFn(f) || f.Blocks == nil {
			continue
		}
		seen[f] = true
		out = append(out, f)
		eachCall(f, func(site ssa.CallInstruction) {
			for _, g := range p.Callees(site) {
				if !seen[g] {
					roots = append(roots, g)
				}
			}
		})
	}
	sortFns(out)
	return out
}

// accessRoot resolves the base of an indexed access through slicing to a parameter, a local array or the slice a
// pointer parameter points to; off is the summed low bounds.
func accessRoot(v ssa.Value) (root string, off *Aff, ok bool) {
	off = newAff(0)
	for i := 0; i < 8; i++ {
		switch x := v.(type) {
		case *ssa.Parameter:
			return "param:" + x.Name(), off, true
		case *ssa.Alloc:
			return fmt.Sprintf("local:%s@%d.%d", x.Comment, x.Block().Index, instrIndex(x)), off, true
		case *ssa.UnOp:
			if x.Op == token.MUL {
				if prm, ok := x.X.(*ssa.Parameter); ok {
					return "deref:" + prm.Name(), off, true
				}
			}
			return "", nil, false
		case *ssa.Slice:
			if x.Low != nil {
				off = off.addScaled(affineOf(x.Low, 0), 1)
			}
			v = x.X
		default:
			return "", nil, false
		}
	}
	return "", nil, false
}

func ruleVecSafe(p *Prog, r *Report) {
	type access struct {
		root  string
		a     int64 // coefficient of the loop counter
		rest  *Aff  // everything else
		at    string
		store bool
	}
	nLoops := 0
	for _, f := range kernelFns(p) {
		loops := findLoops(f)
		for ord, l := range loops {
			// the loop's counter: a phi in the head with a constant range
			var ind *induction
			for _, in := range l.Head.Instrs {
				ph, ok := in.(*ssa.Phi)
				if !ok {
					break
				}
				if !isIntType(ph.Type()) {
					continue
				}
				if d, ok := inductionOf(ph); ok && d.CmpOn != nil {
					if _, _, okr := d.constRange(); okr {
						ind = d
					}
				}
			}
			key := fmt.Sprintf("%s | loop #%d (%s) carries no read-after-write", fnName(f), ord, l.Head.Comment)
			at := p.posStr(instrPos(l.Head.Instrs[len(l.Head.Instrs)-1]))
			if ind == nil {
				r.Note("VECSAFE: %s — not a constant-range counted loop, dependence not decided", key)
				continue
			}
			lo, hi, _ := ind.constRange() // values of CmpOn = phi + d in the body
			dOff := ind.CmpOn.C
			invariant := func(a *Aff) bool {
				for k := range a.Terms {
					if in, ok := k.(ssa.Instruction); ok && in.Block() != nil && l.Blocks[in.Block()] {
						return false
					}
				}
				return true
			}
			var accs []access
			skipped := 0
			for b := range l.Blocks {
				for _, in := range b.Instrs {
					var ia *ssa.IndexAddr
					store := false
					switch x := in.(type) {
					case *ssa.Store:
						ia, _ = x.Addr.(*ssa.IndexAddr)
						store = true
					case *ssa.UnOp:
						if x.Op == token.MUL {
							ia, _ = x.X.(*ssa.IndexAddr)
						}
					}
					if ia == nil {
						continue
					}
					et := derefType(ia.Type())
					if bt, ok := et.Underlying().(*types.Basic); !ok || bt.Info()&types.IsFloat == 0 {
						continue
					}
					root, off, ok := accessRoot(ia.X)
					if !ok {
						skipped++
						continue
					}
					idx := off.addScaled(affineOf(ia.Index, 0), 1)
					a := idx.coef(ind.Phi)
					rest := idx.clone()
					delete(rest.Terms, ind.Phi)
					if !invariant(rest) {
						skipped++ // depends on an inner counter: belongs to the inner loop's test
						continue
					}
					accs = append(accs, access{root, a, rest, p.posStr(instrPos(in)), store})
				}
			}
			sort.Slice(accs, func(i, j int) bool { return accs[i].at < accs[j].at })
			bad := ""
			pairs := 0
			for _, s := range accs {
				if !s.store {
					continue
				}
				for _, ld := range accs {
					if ld.store || ld.root != s.root {
						continue
					}
					diff := s.rest.addScaled(ld.rest, -1)
					dc, isC := diff.isConst()
					if !isC {
						continue // different symbolic rows: not comparable
					}
					pairs++
					// counter values in iteration order: cmp = lo..hi step Step, phi = cmp - dOff
					for c1 := lo; c1 <= hi && bad == ""; c1 += ind.Step {
						for c2 := c1 + ind.Step; c2 <= hi; c2 += ind.Step {
							i1, i2 := c1-dOff, c2-dOff
							if s.a*i1+dc == ld.a*i2 {
								bad = fmt.Sprintf("the element written at %s in iteration %d is read at %s in the later iteration %d (index %d of %s): the loop is not a parallel stage, so the vector kernel (which has no order between lanes) cannot equal it", s.at, i1, ld.at, i2, ld.a*i2+ld.rest.C, strings.TrimPrefix(s.root, "param:"))
								break
							}
						}
					}
				}
			}
			nLoops++
			if bad != "" {
				r.Bad("VECSAFE", key, at, bad)
			} else {
				r.OK("VECSAFE", key, at, fmt.Sprintf("%d float accesses, %d store/load pairs on one buffer tested over the counter range [%d,%d] step %d; %d accesses not affine in this counter alone", len(accs), pairs, lo-dOff, hi-dOff, ind.Step, skipped))
			}
		}
	}
	r.Extra("vecsafe_loops", nLoops)
}

// ---- KBND / REENT: the portable kernels stay inside their own buffers and keep no state ------------------------

// kernelPkgFns: every function of the two transform packages reachable from their exported DCT entry points.
func kernelPkgFns(p *Prog) []*ssa.Function {
	var roots []*ssa.Function
	for _, rel := range []string{"imagehash/transforms32", "imagehash/transforms"} {
		sp := p.SSAPkg(rel)
		if sp == nil {
			continue
		}
		for name, m := range sp.Members {
			f, ok := m.(*ssa.Function)
			if !ok || f.Blocks == nil {
				continue
			}
			if strings.HasPrefix(name, "DCT") || strings.HasPrefix(name, "forwardDCT") || strings.HasPrefix(name, "ForwardDCT") || name == "forwardTransform" {
				roots = append(roots, f)
			}
		}
	}
	seen := map[*ssa.Function]bool{}
	var out []*ssa.Function
	for len(roots) > 0 {
		f := roots[len(roots)-1]
		roots = roots[:len(roots)-1]
		if seen[f] || !isLibFn(f) || f.Blocks == nil {
			continue
		}
		seen[f] = true
		out = append(out, f)
		for _, an := range f.AnonFuncs {
			roots = append(roots, an)
		}
		eachCall(f, func(site ssa.CallInstruction) {
			for _, g := range p.Callees(site) {
				if !seen[g] {
					roots = append(roots, g)
				}
			}
		})
	}
	sortFns(out)
	return out
}

// localBuffer: the indexed base is a buffer this function allocated itself (make or a local array), possibly re-sliced.
func localBuffer(v ssa.Value, depth int) bool {
	if depth > 8 {
		return false
	}
	switch x := v.(type) {
	case *ssa.MakeSlice:
		return true
	case *ssa.Alloc:
		_, isArr := derefType(x.Type()).Underlying().(*types.Array)
		return isArr
	case *ssa.Slice:
		return localBuffer(x.X, depth+1)
	case *ssa.Phi:
		for _, e := range x.Edges {
			if !localBuffer(e, depth+1) {
				return false
			}
		}
		return len(x.Edges) > 0
	case *ssa.FreeVar:
		return false
	}
	return false
}

func ruleKernelLocal(p *Prog, r *Report) {
	e := p.E3()
	eff := p.Effects()
	n := 0
	for _, f := range kernelPkgFns(p) {
		// REENT: no package-level state written
		if ef := eff.Of(f); ef != nil {
			key := fnName(f) + " | keeps no package-level state"
			var ws []string
			for g := range ef.WGlobals {
				// state of the library itself; what the runtime and sync keep internally is not the kernel's state
				if g.G.Pkg != nil && strings.HasPrefix(g.G.Pkg.Pkg.Path(), modPath) {
					ws = append(ws, globalName(g.G))
				}
			}
			sort.Strings(ws)
			if len(ws) > 0 {
				r.Bad("REENT", key, p.posStr(f.Pos()), "the kernel writes package-level state ("+strings.Join(ws, ", ")+"): two calls at the same time use each other's intermediates, which the stateless vector kernel never does")
			} else {
				r.OK("REENT", key, p.posStr(f.Pos()), "writes only its arguments and locals")
			}
		}
		// KBND: accesses to buffers the function allocated itself are in range
		for _, ob := range e.fnB(f).obs {
			var base ssa.Value
			switch x := ob.In.(type) {
			case *ssa.IndexAddr:
				base = x.X
			case *ssa.Index:
				base = x.X
			case *ssa.Slice:
				base = x.X
			default:
				continue
			}
			if !localBuffer(base, 0) {
				continue
			}
			n++
			key := fnName(f) + " | " + ob.Key
			at := p.posStr(instrPos(ob.In))
			if ob.OK {
				r.OK("KBND", key, at, ob.By)
			} else {
				r.Bad("KBND", key, at, "access to a buffer this kernel allocated itself is not proved in range: "+ob.Detail)
			}
		}
	}
	r.Extra("kbnd_sites", n)
}
