package main

// C18 — VECSAFE: the stage loops of the portable kernels carry no flow dependence.
//
// The vector kernels compute each stage of Lee's recursion for eight lanes at once, i.e. without any order
// between the iterations of the stage loop. The portable loops can only equal them if no iteration reads an
// element that an earlier iteration of the same loop wrote (a loop-carried read-after-write): that is a
// classical dependence test on the affine index functions over the constant iteration space.

import (
	"fmt"
	"go/constant"
	"go/token"
	"go/types"
	"sort"
	"strings"

	"golang.org/x/tools/go/ssa"
)

// kernelFns: the portable kernels — library functions reachable from the 2-D entry points and the selected 1-D kernels.
func kernelFns(p *Prog) []*ssa.Function {
	var roots []*ssa.Function
	for _, rel := range []string{"imagehash/transforms32", "imagehash/transforms"} {
		for _, n := range []string{"DCT2DHash64", "DCT2DHash256", "forwardDCT64", "forwardDCT256"} {
			if f := p.Func(rel, "", n); f != nil {
				roots = append(roots, f)
			}
		}
	}
	seen := map[*ssa.Function]bool{}
	var out []*ssa.Function
	for len(roots) > 0 {
		f := roots[len(roots)-1]
		roots = roots[:len(roots)-1]
		if seen[f] || !isLibFn(f) || f.Blocks == nil {
			continue
		}
		seen[f] = true
		out = append(out, f)
		eachCall(f, func(site ssa.CallInstruction) {
			for _, g := range p.Callees(site) {
				if !seen[g] {
					roots = append(roots, g)
				}
			}
		})
	}
	sortFns(out)
	return out
}

// accessRoot resolves the base of an indexed access through slicing to a parameter, a local array or the slice a
// pointer parameter points to; off is the summed low bounds.
func accessRoot(v ssa.Value) (root string, off *Aff, ok bool) {
	off = newAff(0)
	for i := 0; i < 8; i++ {
		switch x := v.(type) {
		case *ssa.Parameter:
			return "param:" + x.Name(), off, true
		case *ssa.Alloc:
			return fmt.Sprintf("local:%s@%d.%d", x.Comment, x.Block().Index, instrIndex(x)), off, true
		case *ssa.UnOp:
			if x.Op == token.MUL {
				if prm, ok := x.X.(*ssa.Parameter); ok {
					return "deref:" + prm.Name(), off, true
				}
			}
			return "", nil, false
		case *ssa.Slice:
			if x.Low != nil {
				off = off.addScaled(affineOf(x.Low, 0), 1)
			}
			v = x.X
		default:
			return "", nil, false
		}
	}
	return "", nil, false
}

func ruleVecSafe(p *Prog, r *Report) {
	type access struct {
		root  string
		a     int64 // coefficient of the loop counter
		rest  *Aff  // everything else
		at    string
		store bool
	}
	nLoops := 0
	for _, f := range kernelFns(p) {
		loops := findLoops(f)
		for ord, l := range loops {
			// the loop's counter: a phi in the head with a constant range
			var ind *induction
			for _, in := range l.Head.Instrs {
				ph, ok := in.(*ssa.Phi)
				if !ok {
					break
				}
				if !isIntType(ph.Type()) {
					continue
				}
				if d, ok := inductionOf(ph); ok && d.CmpOn != nil {
					if _, _, okr := d.constRange(); okr {
						ind = d
					}
				}
			}
			key := fmt.Sprintf("%s | loop #%d (%s) carries no read-after-write", fnName(f), ord, l.Head.Comment)
			at := p.posStr(instrPos(l.Head.Instrs[len(l.Head.Instrs)-1]))
			if ind == nil {
				r.Note("VECSAFE: %s — not a constant-range counted loop, dependence not decided", key)
				continue
			}
			lo, hi, _ := ind.constRange() // values of CmpOn = phi + d in the body
			dOff := ind.CmpOn.C
			invariant := func(a *Aff) bool {
				for k := range a.Terms {
					if in, ok := k.(ssa.Instruction); ok && in.Block() != nil && l.Blocks[in.Block()] {
						return false
					}
				}
				return true
			}
			var accs []access
			skipped := 0
			for b := range l.Blocks {
				for _, in := range b.Instrs {
					var ia *ssa.IndexAddr
					store := false
					switch x := in.(type) {
					case *ssa.Store:
						ia, _ = x.Addr.(*ssa.IndexAddr)
						store = true
					case *ssa.UnOp:
						if x.Op == token.MUL {
							ia, _ = x.X.(*ssa.IndexAddr)
						}
					}
					if ia == nil {
						continue
					}
					et := derefType(ia.Type())
					if bt, ok := et.Underlying().(*types.Basic); !ok || bt.Info()&types.IsFloat == 0 {
						continue
					}
					root, off, ok := accessRoot(ia.X)
					if !ok {
						skipped++
						continue
					}
					idx := off.addScaled(affineOf(ia.Index, 0), 1)
					a := idx.coef(ind.Phi)
					rest := idx.clone()
					delete(rest.Terms, ind.Phi)
					if !invariant(rest) {
						skipped++ // depends on an inner counter: belongs to the inner loop's test
						continue
					}
					accs = append(accs, access{root, a, rest, p.posStr(instrPos(in)), store})
				}
			}
			sort.Slice(accs, func(i, j int) bool { return accs[i].at < accs[j].at })
			bad := ""
			pairs := 0
			for _, s := range accs {
				if !s.store {
					continue
				}
				for _, ld := range accs {
					if ld.store || ld.root != s.root {
						continue
					}
					diff := s.rest.addScaled(ld.rest, -1)
					dc, isC := diff.isConst()
					if !isC {
						continue // different symbolic rows: not comparable
					}
					pairs++
					// counter values in iteration order: cmp = lo..hi step Step, phi = cmp - dOff
					for c1 := lo; c1 <= hi && bad == ""; c1 += ind.Step {
						for c2 := c1 + ind.Step; c2 <= hi; c2 += ind.Step {
							i1, i2 := c1-dOff, c2-dOff
							if s.a*i1+dc == ld.a*i2 {
								bad = fmt.Sprintf("the element written at %s in iteration %d is read at %s in the later iteration %d (index %d of %s): the loop is not a parallel stage, so the vector kernel (which has no order between lanes) cannot equal it", s.at, i1, ld.at, i2, ld.a*i2+ld.rest.C, strings.TrimPrefix(s.root, "param:"))
								break
							}
						}
					}
				}
			}
			nLoops++
			if bad != "" {
				r.Bad("VECSAFE", key, at, bad)
			} else {
				r.OK("VECSAFE", key, at, fmt.Sprintf("%d float accesses, %d store/load pairs on one buffer tested over the counter range [%d,%d] step %d; %d accesses not affine in this counter alone", len(accs), pairs, lo-dOff, hi-dOff, ind.Step, skipped))
			}
		}
	}
	r.Extra("vecsafe_loops", nLoops)
}

// ---- KBND / REENT: the portable kernels stay inside their own buffers and keep no state ------------------------

// kernelPkgFns: every function of the two transform packages reachable from their exported DCT entry points.
func kernelPkgFns(p *Prog) []*ssa.Function {
	var roots []*ssa.Function
	for _, rel := range []string{"imagehash/transforms32", "imagehash/transforms"} {
		sp := p.SSAPkg(rel)
		if sp == nil {
			continue
		}
		for name, m := range sp.Members {
			f, ok := m.(*ssa.Function)
			if !ok || f.Blocks == nil {
				continue
			}
			if strings.HasPrefix(name, "DCT") || strings.HasPrefix(name, "forwardDCT") || strings.HasPrefix(name, "ForwardDCT") || name == "forwardTransform" {
				roots = append(roots, f)
			}
		}
	}
	seen := map[*ssa.Function]bool{}
	var out []*ssa.Function
	for len(roots) > 0 {
		f := roots[len(roots)-1]
		roots = roots[:len(roots)-1]
		if seen[f] || !isLibFn(f) || f.Blocks == nil {
			continue
		}
		seen[f] = true
		out = append(out, f)
		for _, an := range f.AnonFuncs {
			roots = append(roots, an)
		}
		eachCall(f, func(site ssa.CallInstruction) {
			for _, g := range p.Callees(site) {
				if !seen[g] {
					roots = append(roots, g)
				}
			}
		})
	}
	sortFns(out)
	return out
}

// localBuffer: the indexed base is a buffer this function allocated itself (make or a local array), possibly re-sliced.
func localBuffer(v ssa.Value, depth int) bool {
	if depth > 8 {
		return false
	}
	switch x := v.(type) {
	case *ssa.MakeSlice:
		return true
	case *ssa.Alloc:
		_, isArr := derefType(x.Type()).Underlying().(*types.Array)
		return isArr
	case *ssa.Slice:
		return localBuffer(x.X, depth+1)
	case *ssa.Phi:
		for _, e := range x.Edges {
			if !localBuffer(e, depth+1) {
				return false
			}
		}
		return len(x.Edges) > 0
	case *ssa.FreeVar:
		return false
	}
	return false
}

func ruleKernelLocal(p *Prog, r *Report) {
	e := p.E3()
	eff := p.Effects()
	n := 0
	for _, f := range kernelPkgFns(p) {
		// REENT: no package-level state written
		if ef := eff.Of(f); ef != nil {
			key := fnName(f) + " | keeps no package-level state"
			var ws []string
			for g := range ef.WGlobals {
				// state of the library itself; what the runtime and sync keep internally is not the kernel's state
				if g.G.Pkg != nil && strings.HasPrefix(g.G.Pkg.Pkg.Path(), modPath) {
					ws = append(ws, globalName(g.G))
				}
			}
			sort.Strings(ws)
			if len(ws) > 0 {
				r.Bad("REENT", key, p.posStr(f.Pos()), "the kernel writes package-level state ("+strings.Join(ws, ", ")+"): two calls at the same time use each other's intermediates, which the stateless vector kernel never does")
			} else {
				r.OK("REENT", key, p.posStr(f.Pos()), "writes only its arguments and locals")
			}
		}
		// KBND: accesses to buffers the function allocated itself are in range
		for _, ob := range e.fnB(f).obs {
			var base ssa.Value
			switch x := ob.In.(type) {
			case *ssa.IndexAddr:
				base = x.X
			case *ssa.Index:
				base = x.X
			case *ssa.Slice:
				base = x.X
			default:
				continue
			}
			if !localBuffer(base, 0) {
				continue
			}
			n++
			key := fnName(f) + " | " + ob.Key
			at := p.posStr(instrPos(ob.In))
			if ob.OK {
				r.OK("KBND", key, at, ob.By)
			} else {
				r.Bad("KBND", key, at, "access to a buffer this kernel allocated itself is not proved in range: "+ob.Detail)
			}
		}
	}
	r.Extra("kbnd_sites", n)
}

// ---- OBLIV: the portable kernels take no decision on the data ---------------------------------------------------
//
// The vector kernels are straight-line butterflies: the same additions and multiplications for every input. A
// portable kernel that tests its samples (a shortcut for constant rows, a skip of zero blocks, a clamp) computes a
// mathematically equal result by other operations — and on infinities, NaN, huge magnitudes and signed zeros the
// two then differ in bits. In every DCT kernel function and its callees no branch condition and no selected value
// may depend on a floating-point comparison.
func ruleOblivious(p *Prog, r *Report) {
	for _, f := range kernelPkgFns(p) {
		key := fnName(f) + " | no decision on sample values"
		bad := ""
		n := 0
		eachInstr(f, func(_ *ssa.BasicBlock, _ int, in ssa.Instruction) {
			bo, ok := in.(*ssa.BinOp)
			if !ok {
				return
			}
			switch bo.Op {
			case token.EQL, token.NEQ, token.LSS, token.LEQ, token.GTR, token.GEQ:
			default:
				return
			}
			n++
			if isFloat(bo.X.Type()) || isFloat(bo.Y.Type()) {
				bad = fmt.Sprintf("floating-point comparison %s %s %s at %s: the outcome of the kernel's control flow depends on the samples, which the branch-free vector kernel cannot mirror bit for bit (±Inf, NaN, -0, overflow part-way)", shortVal(bo.X), bo.Op, shortVal(bo.Y), p.posStr(instrPos(bo)))
			}
		})
		eachCall(f, func(site ssa.CallInstruction) {
			if sc := site.Common().StaticCallee(); sc != nil && sc.Pkg != nil && sc.Pkg.Pkg.Path() == "math" {
				switch sc.Name() {
				case "IsNaN", "IsInf", "Signbit", "Abs", "Max", "Min", "Float32bits", "Float64bits":
					bad = "math." + sc.Name() + " at " + p.posStr(instrPos(site)) + ": the kernel inspects its samples"
				}
			}
		})
		if bad != "" {
			r.Bad("OBLIV", key, p.posStr(f.Pos()), bad)
		} else {
			r.OK("OBLIV", key, p.posStr(f.Pos()), fmt.Sprintf("%d comparisons, all on integers (loop counters, lengths)", n))
		}
	}
}

// ---- LASTLANE: where the vector kernels add a shifted-in +0, the portable kernel adds +0 too ---------------------
//
// The vector kernels form the pair sums b[i] + b[i+1] of the 8-point step with one shift and one add:
// VPSRLDQ $4, X, T (the four lanes move down, +0.0 is shifted into the last) then ADDPS T, X. Lanes 0..2 are the
// pair sums; the last lane is b[3] + (+0.0) — not b[3]: for b[3] == -0 the sum is +0. The portable forwardDCT8
// must compute its last output the same way (b[3] + 0; the compiler cannot fold a floating-point x + 0), or the two
// kernels differ in the sign bit of the last coefficient of every level above for inputs that drive it to -0
// (found on the vector [-0, +0, ..., +0], coefficients 56, 60, 62, 63 of the 64-point transform).
func ruleLastLane(p *Prog, r *Report, af *asmFile) {
	// (a) the premise, from the assembly: zero-filling shift followed by an add of source and result
	for _, t := range af.texts {
		if !strings.Contains(t.name, "DCT") {
			continue
		}
		n := 0
		for i, in := range t.instrs {
			if in.mn != "VPSRLDQ" || len(in.ops) != 3 || in.ops[0].kind != "imm" || in.ops[0].imm != 4 {
				continue
			}
			src, dst := in.ops[1].reg, in.ops[2].reg
			if src == "" || dst == "" || src == dst {
				continue
			}
			// the next instruction that mentions dst
			for j := i + 1; j < len(t.instrs) && j < i+6; j++ {
				nx := t.instrs[j]
				uses := false
				for _, o := range nx.ops {
					if o.kind == "reg" && o.reg == dst {
						uses = true
					}
				}
				if !uses {
					continue
				}
				if nx.mn == "ADDPS" && len(nx.ops) == 2 && nx.ops[0].reg == dst && nx.ops[1].reg == src {
					n++
				}
				if nx.mn == "VADDPS" && len(nx.ops) == 3 {
					a, b := nx.ops[0].reg, nx.ops[1].reg
					if (a == dst && b == src) || (a == src && b == dst) {
						n++
					}
				}
				break
			}
		}
		key := "asm_x86.s " + t.name + " | pair sums by zero-filling shift and add"
		if n == 0 {
			r.Bad("LASTLANE", key, fmt.Sprintf("asm_x86.s:%d", t.line), "the shift-and-add idiom (VPSRLDQ $4 then ADDPS of source and result) is no longer found: the premise under which the portable kernel adds +0 to its last lane has changed — re-derive which lanes the vector kernel computes as x + 0")
		} else {
			r.OK("LASTLANE", key, fmt.Sprintf("asm_x86.s:%d", t.line), fmt.Sprintf("%d sites: the last lane of each is x + (+0.0)", n))
		}
	}
	// (b) the portable 8-point step adds +0 to its last output
	f := p.Func("imagehash/transforms32", "", "forwardDCT8")
	key := "imagehash/transforms32.forwardDCT8 | last output is b[3] + 0"
	if f == nil {
		r.Undecided("LASTLANE", key, "-", "unresolved anchor")
		return
	}
	found, ok := false, false
	at := p.posStr(f.Pos())
	eachInstr(f, func(_ *ssa.BasicBlock, _ int, in ssa.Instruction) {
		st, isSt := in.(*ssa.Store)
		if !isSt {
			return
		}
		ia, isIA := st.Addr.(*ssa.IndexAddr)
		if !isIA || ia.X != ssa.Value(f.Params[0]) {
			return
		}
		if k, isK := constInt(ia.Index); !isK || k != 7 {
			return
		}
		found = true
		at = p.posStr(instrPos(st))
		if bo, isBo := st.Val.(*ssa.BinOp); isBo && bo.Op == token.ADD {
			for _, o := range []ssa.Value{bo.X, bo.Y} {
				if c, isC := o.(*ssa.Const); isC && c.Value != nil && isFloat(c.Type()) {
					if fv, _ := constant.Float64Val(constant.ToFloat(c.Value)); fv == 0 && constant.Sign(c.Value) == 0 {
						ok = true
					}
				}
			}
		}
	})
	switch {
	case !found:
		r.Undecided("LASTLANE", key, at, "no store to input[7] found")
	case !ok:
		r.Bad("LASTLANE", key, at, "the last output is stored without the addition of +0 that the vector kernels perform on that lane: for an input that makes it -0 (e.g. [-0, +0, ..., +0]) the portable kernel returns -0 where the vector kernel returns +0, in the last coefficient of this and of every enclosing level")
	default:
		r.OK("LASTLANE", key, at, "stored as a sum with the constant +0, as in the vector kernels")
	}
}

// ---- ALIGN: the vector DCT kernels make no alignment-requiring memory access --------------------------------------
//
// The argument of the kernels is an arbitrary []float32 — a sub-slice of a pixel buffer is aligned to 4 bytes, no
// more — and the Go frame of an assembly function is not 16-byte aligned by contract either. MOVAPS/VMOVAPS/MOVDQA/
// VMOVDQA/MOVNT* with a memory operand fault on an address that is not a multiple of their width, where the portable
// kernel just works. None of the three kernels may contain one (register-to-register forms are harmless).
func ruleAsmAlign(r *Report, af *asmFile) { ruleAsmAlignFor(r, af, "DCT") }

// ruleAsmAlignFor: the same obligation for the kernels whose name contains sub (C20: the YCbCr kernel, whose
// destination is a parameter of the exported AsmYCbCrToGray and so any []float32 the caller likes).
func ruleAsmAlignFor(r *Report, af *asmFile, sub string) {
	needAligned := map[string]bool{"MOVAPS": true, "VMOVAPS": true, "MOVAPD": true, "VMOVAPD": true, "MOVDQA": true, "VMOVDQA": true,
		"MOVNTPS": true, "VMOVNTPS": true, "MOVNTDQ": true, "VMOVNTDQ": true, "MOVNTDQA": true, "VMOVNTDQA": true}
	for _, t := range af.texts {
		if !strings.Contains(t.name, sub) {
			continue
		}
		key := "asm_x86.s " + t.name + " | no alignment-requiring memory access"
		bad := ""
		n := 0
		for _, in := range t.instrs {
			n++
			if !needAligned[in.mn] {
				continue
			}
			for _, o := range in.ops {
				if o.kind == "mem" && bad == "" {
					bad = fmt.Sprintf("%s %s at asm_x86.s:%d faults unless the address is a multiple of the operand width: a slice that is only aligned to 4 bytes (a sub-slice of a pixel buffer, a caller's own buffer) crashes the vector kernel where the portable code works", in.mn, o.raw, in.line)
				}
			}
		}
		if bad != "" {
			r.Bad("ALIGN", key, fmt.Sprintf("asm_x86.s:%d", t.line), bad)
		} else {
			r.OK("ALIGN", key, fmt.Sprintf("asm_x86.s:%d", t.line), fmt.Sprintf("%d instructions, every memory access is an unaligned form", n))
		}
	}
}
