package main

import (
	"bufio"
	"encoding/json"
	"fmt"
	"go/token"
	"go/types"
	"os"
	"path/filepath"
	"regexp"
	"strconv"

	"golang.org/x/tools/go/ssa"
)

// LIMITS (C03): the property promises exact extraction "within the documented limits (<=128 entries per directory,
// <=84 pending out-of-line tags)". The two numbers are read from the quantifier of C03 in properties.jsonl; the
// code must not refuse, or silently drop, anything inside them:
//   - the array that queues pending out-of-line tags (the array of exif2.Tag inside the pooled buffer) has at least
//     that many slots, and in every function that stores into it no fill-level test against a constant is tighter;
//   - in the directory reader (the function that decodes entries with tagFromBuffer) the entry count read from the
//     file is refused only above the documented number.
//
// Raising either limit keeps the rule satisfied; lowering one drops fields of files the property covers.
func ruleLimits(p *Prog, r *Report) {
	r.Explain("LIMITS: the limits documented in the quantifier of C03 (entries per directory, pending out-of-line tags; read from properties.jsonl) are honoured: the array of exif2.Tag that queues pending tags has at least that many slots, no ordered comparison of a field of the queue struct with a constant in a function that stores into the queue flips below it, and the function that decodes directory entries refuses the entry count read from the file only above the documented number.")
	maxEntries, maxPending, err := c03Limits()
	if err != nil {
		r.Fatal("limits of C03: " + err.Error())
		return
	}
	pk := p.SSAPkg("exif2")
	if pk == nil {
		r.Fatal("unresolved anchor: package exif2")
		return
	}
	tagT := pk.Pkg.Scope().Lookup("Tag")
	if tagT == nil {
		r.Fatal("unresolved anchor: exif2.Tag")
		return
	}
	// the queue: a struct of the package with an array-of-Tag field
	var qStruct *types.Named
	qField := -1
	var qLen int64
	for _, nm := range pk.Pkg.Scope().Names() {
		tn, ok := pk.Pkg.Scope().Lookup(nm).(*types.TypeName)
		if !ok {
			continue
		}
		n, ok := tn.Type().(*types.Named)
		if !ok {
			continue
		}
		st, ok := n.Underlying().(*types.Struct)
		if !ok {
			continue
		}
		for i := 0; i < st.NumFields(); i++ {
			if at, ok := st.Field(i).Type().Underlying().(*types.Array); ok && types.Identical(at.Elem(), tagT.Type()) {
				qStruct, qField, qLen = n, i, at.Len()
			}
		}
	}
	key := "exif2 tag queue | capacity covers the documented number of pending out-of-line tags"
	if qStruct == nil {
		r.Undecided("LIMITS", key, "-", "no struct with an array of exif2.Tag found (anchor lost)")
	} else {
		at := p.posStr(qStruct.Obj().Pos())
		if qLen < int64(maxPending) {
			r.Bad("LIMITS", key, at, fmt.Sprintf("%s.%s has %d slots, the property covers layouts with up to %d pending out-of-line tags: the tags beyond the capacity are dropped and the fields they carry are reported as absent", qStruct.Obj().Name(), fieldNameV(qStruct, qField), qLen, maxPending))
		} else {
			r.OK("LIMITS", key, at, fmt.Sprintf("%s.%s has %d slots >= %d", qStruct.Obj().Name(), fieldNameV(qStruct, qField), qLen, maxPending))
		}
		// fill-level tests in the functions that store into the queue
		for _, f := range p.AllLibFns() {
			if f.Pkg != pk {
				continue
			}
			stores := false
			eachInstr(f, func(_ *ssa.BasicBlock, _ int, in ssa.Instruction) {
				st, ok := in.(*ssa.Store)
				if !ok {
					return
				}
				if ia, ok := st.Addr.(*ssa.IndexAddr); ok {
					if fa, ok := ia.X.(*ssa.FieldAddr); ok && fa.Field == qField && namedOfPtr(fa.X.Type()) == qStruct {
						stores = true
					}
				}
			})
			if !stores {
				continue
			}
			eachInstr(f, func(_ *ssa.BasicBlock, _ int, in ssa.Instruction) {
				bo, ok := in.(*ssa.BinOp)
				if !ok {
					return
				}
				switch bo.Op {
				case token.LSS, token.LEQ, token.GTR, token.GEQ:
				default:
					return
				}
				// normalise to `field op k` and take the boundary: the smallest fill level at which the test flips
				var other ssa.Value
				var k int64
				op := bo.Op
				if c, ok := constInt(bo.Y); ok {
					other, k = bo.X, c
				} else if c, ok := constInt(bo.X); ok {
					other, k = bo.Y, c
					op = map[token.Token]token.Token{token.LSS: token.GTR, token.GTR: token.LSS, token.LEQ: token.GEQ, token.GEQ: token.LEQ}[op]
				} else {
					return
				}
				if op == token.LEQ || op == token.GTR {
					k++ // f <= k and f > k flip at k+1
				}
				ld, ok := other.(*ssa.UnOp)
				if !ok || ld.Op != token.MUL {
					return
				}
				fa, ok := ld.X.(*ssa.FieldAddr)
				if !ok || namedOfPtr(fa.X.Type()) != qStruct || k <= 1 {
					return
				}
				fk := fmt.Sprintf("%s | fill-level test of %s.%s flips at %d", fnName(f), qStruct.Obj().Name(), fieldName(fa.X.Type(), fa.Field), k)
				if k < int64(maxPending) {
					r.Bad("LIMITS", fk, p.posStr(bo.Pos()), fmt.Sprintf("the queue is treated as full from %d entries on, the property covers up to %d pending out-of-line tags", k, maxPending))
				} else {
					r.OK("LIMITS", fk, p.posStr(bo.Pos()), fmt.Sprintf("threshold %d >= %d", k, maxPending))
				}
			})
		}
	}
	// entries per directory
	key = "exif2 directory reader | entry count refused only above the documented limit"
	found := 0
	for _, f := range p.AllLibFns() {
		if f.Pkg != pk {
			continue
		}
		calls := false
		eachCall(f, func(site ssa.CallInstruction) {
			if sc := site.Common().StaticCallee(); sc != nil && sc.Name() == "tagFromBuffer" {
				calls = true
			}
		})
		if !calls {
			continue
		}
		eachInstr(f, func(_ *ssa.BasicBlock, _ int, in ssa.Instruction) {
			bo, ok := in.(*ssa.BinOp)
			if !ok {
				return
			}
			c, ok := constInt(bo.Y)
			if !ok || (bo.Op != token.GTR && bo.Op != token.GEQ) {
				return
			}
			if !fromUint16Call(bo.X, 0) {
				return
			}
			found++
			lim := c
			if bo.Op == token.GEQ {
				lim = c - 1
			}
			if lim < int64(maxEntries) {
				r.Bad("LIMITS", key, p.posStr(bo.Pos()), fmt.Sprintf("%s refuses directories with more than %d entries, the property covers up to %d", fnName(f), lim, maxEntries))
			} else {
				r.OK("LIMITS", key, p.posStr(bo.Pos()), fmt.Sprintf("%s accepts up to %d entries >= %d", fnName(f), lim, maxEntries))
			}
		})
	}
	if found == 0 {
		r.Undecided("LIMITS", key, "-", "no test of the entry count found in the function that decodes directory entries (anchor lost)")
	}
}

// fromUint16Call: v is (a conversion of) the first result of a call returning (uint16, error).
func fromUint16Call(v ssa.Value, depth int) bool {
	if depth > 4 {
		return false
	}
	switch x := v.(type) {
	case *ssa.Convert:
		return fromUint16Call(x.X, depth+1)
	case *ssa.ChangeType:
		return fromUint16Call(x.X, depth+1)
	case *ssa.Extract:
		if x.Index != 0 {
			return false
		}
		if c, ok := x.Tuple.(*ssa.Call); ok {
			if tp, ok := c.Type().(*types.Tuple); ok && tp.Len() == 2 {
				b, ok := tp.At(0).Type().Underlying().(*types.Basic)
				return ok && b.Kind() == types.Uint16
			}
		}
	case *ssa.UnOp:
		// a spilled named result or local: every store is such a value
		if a, ok := x.X.(*ssa.Alloc); ok && x.Op == token.MUL {
			n := 0
			for _, rf := range refs(a) {
				if st, ok := rf.(*ssa.Store); ok && st.Addr == ssa.Value(a) {
					if c, isC := st.Val.(*ssa.Const); isC && c.Value != nil {
						continue
					}
					if !fromUint16Call(st.Val, depth+1) {
						return false
					}
					n++
				}
			}
			return n > 0
		}
	case *ssa.Phi:
		n := 0
		for _, e := range x.Edges {
			if _, isC := e.(*ssa.Const); isC {
				continue
			}
			if !fromUint16Call(e, depth+1) {
				return false
			}
			n++
		}
		return n > 0
	}
	return false
}

// c03Limits reads the two documented limits out of the quantifier of property C03.
func c03Limits() (entries, pending int, err error) {
	fh, err := os.Open(filepath.Join(verifRoot(), "properties.jsonl"))
	if err != nil {
		return 0, 0, err
	}
	defer fh.Close()
	sc := bufio.NewScanner(fh)
	sc.Buffer(make([]byte, 1<<20), 1<<24)
	re := regexp.MustCompile(`<=\s*(\d+) entries per directory, <=\s*(\d+) pending out-of-line tags`)
	for sc.Scan() {
		var pr struct {
			ID         string `json:"id"`
			Quantifier struct {
				Text string `json:"text"`
			} `json:"quantifier"`
		}
		if json.Unmarshal(sc.Bytes(), &pr) != nil || pr.ID != "C03" {
			continue
		}
		m := re.FindStringSubmatch(pr.Quantifier.Text)
		if m == nil {
			return 0, 0, fmt.Errorf("the quantifier of C03 no longer states the limits")
		}
		entries, _ = strconv.Atoi(m[1])
		pending, _ = strconv.Atoi(m[2])
		return entries, pending, nil
	}
	return 0, 0, fmt.Errorf("property C03 not found")
}
