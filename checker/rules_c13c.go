package main

import (
	"encoding/json"
	"fmt"
	"go/token"
	"go/types"
	"os"
	"path/filepath"
	"sort"
	"strings"

	"golang.org/x/tools/go/ssa"
)

// MAXINCL (C13): a range check in front of a narrowing conversion admits the largest value of the target type.
//
// The XMP value parsers read a decimal number into a uint64 and narrow it under a guard. `v < math.MaxUint8` refuses
// 255 itself - exif:MeteringMode="255" (other) then reads as 0 (unknown) - and `v < math.MaxUint32` refuses the Exif
// convention 4294967295 for "infinite". Obligation per narrowing conversion to an unsigned type in package xmp that
// is dominated by an ordered comparison of the converted value with the constant max(T): the comparison admits
// equality.
func ruleMaxIncl(p *Prog, r *Report) {
	r.Explain("MAXINCL: in package xmp every narrowing conversion of a parsed number to an unsigned integer type T that is guarded by a comparison of that number with the largest value of T is guarded by <= (or its mirror): a guard written < max(T) turns the largest value itself - 255 for exif:MeteringMode other, 4294967295 for an infinite distance - into the refusal value 0.")
	pk := p.SSAPkg("xmp")
	if pk == nil {
		r.Fatal("unresolved anchor: package xmp")
		return
	}
	n := 0
	for _, f := range p.AllLibFns() {
		g := f
		for g.Parent() != nil {
			g = g.Parent()
		}
		if g.Pkg != pk || f.Blocks == nil {
			continue
		}
		eachInstr(f, func(b *ssa.BasicBlock, _ int, in ssa.Instruction) {
			cv, ok := in.(*ssa.Convert)
			if !ok || !narrowing(cv) {
				return
			}
			tb, ok := cv.Type().Underlying().(*types.Basic)
			if !ok || tb.Info()&types.IsUnsigned == 0 {
				return
			}
			var maxT int64
			switch tb.Kind() {
			case types.Uint8:
				maxT = 255
			case types.Uint16:
				maxT = 65535
			case types.Uint32:
				maxT = 4294967295
			default:
				return
			}
			for _, c := range condsAt(b) {
				bo, ok := c.V.(*ssa.BinOp)
				if !ok {
					continue
				}
				op := bo.Op
				var other ssa.Value
				var k int64
				if kk, ok := constInt(bo.Y); ok {
					other, k = bo.X, kk
				} else if kk, ok := constInt(bo.X); ok {
					other, k = bo.Y, kk
					op = map[token.Token]token.Token{token.LSS: token.GTR, token.GTR: token.LSS, token.LEQ: token.GEQ, token.GEQ: token.LEQ}[op]
				} else {
					continue
				}
				if other != cv.X || k != maxT {
					continue
				}
				// normalise to the relation that holds where the conversion happens
				if !c.True {
					op = map[token.Token]token.Token{token.LSS: token.GEQ, token.GEQ: token.LSS, token.LEQ: token.GTR, token.GTR: token.LEQ}[op]
				}
				n++
				key := fmt.Sprintf("%s | narrowing to %s guarded against %d", fnName(f), tb.Name(), maxT)
				at := p.posStr(cv.Pos())
				switch op {
				case token.LEQ:
					r.OK("MAXINCL", key, at, "the guard admits the largest value")
				case token.LSS:
					r.Bad("MAXINCL", key, at, fmt.Sprintf("the conversion happens only while the number is < %d: the value %d itself, which fits %s, takes the refusal path and reads as another value", maxT, maxT, tb.Name()))
				}
			}
		})
	}
	if n == 0 {
		r.Undecided("MAXINCL", "xmp | range-checked narrowing conversions", "-", "none found (anchor lost)")
	}
}

// PROPERR (C13): a value that a namespace parser refuses costs that property, not the rest of the packet.
//
// readTag and readSeqTags return at once when (*XMP).parser reports an error, so anything parser returns ends the
// scan: every property written after the refused one (a reduced-precision date, say) would be lost. Obligation:
// every return of (*XMP).parser returns a nil error - the nil constant, or a value on an edge where it was just
// tested to be nil.
func rulePropErr(p *Prog, r *Report) {
	r.Explain("PROPERR: every return of xmp.(*XMP).parser yields a nil error (the nil constant, or a value that the branch just taken tested to be nil): the tokenizer ends the scan on any error of parser, so an error of one namespace parser - a date in a form parseDate does not know - would drop every property behind it.")
	f := p.Func("xmp", "*XMP", "parser")
	key := "xmp.(*XMP).parser | a refused value never ends the scan"
	if f == nil {
		r.Undecided("PROPERR", key, "-", "unresolved anchor")
		return
	}
	bad := ""
	nret := 0
	nilOnEdge := func(v ssa.Value, pred, to *ssa.BasicBlock) bool {
		conds := condsAt(pred)
		if len(pred.Instrs) > 0 {
			if ifi, ok := pred.Instrs[len(pred.Instrs)-1].(*ssa.If); ok && len(pred.Succs) == 2 && pred.Succs[0] != pred.Succs[1] {
				conds = append(conds, Cond{V: ifi.Cond, True: pred.Succs[0] == to, At: pred})
			}
		}
		for _, c := range conds {
			bo, ok := c.V.(*ssa.BinOp)
			if !ok {
				continue
			}
			var other ssa.Value
			if isNilConst(bo.Y) {
				other = bo.X
			} else if isNilConst(bo.X) {
				other = bo.Y
			} else {
				continue
			}
			if other == v && ((bo.Op == token.EQL && c.True) || (bo.Op == token.NEQ && !c.True)) {
				return true
			}
		}
		return false
	}
	var isNil func(v ssa.Value, at *ssa.BasicBlock, depth int) bool
	isNil = func(v ssa.Value, at *ssa.BasicBlock, depth int) bool {
		if depth > 6 {
			return false
		}
		if isNilConst(v) {
			return true
		}
		switch x := v.(type) {
		case *ssa.Phi:
			for i, e := range x.Edges {
				pred := x.Block().Preds[i]
				if isNil(e, pred, depth+1) || nilOnEdge(e, pred, x.Block()) {
					continue
				}
				return false
			}
			return true
		case *ssa.UnOp:
			// spilled named result: every store is nil, or the load sits under a nil test of the loaded value
			if a, ok := x.X.(*ssa.Alloc); ok && x.Op == token.MUL {
				for _, c := range condsAt(at) {
					if bo, ok := c.V.(*ssa.BinOp); ok && (isNilConst(bo.X) || isNilConst(bo.Y)) {
						if ld, ok := bo.X.(*ssa.UnOp); ok && ld.X == ssa.Value(a) && ((bo.Op == token.EQL && c.True) || (bo.Op == token.NEQ && !c.True)) {
							return true
						}
					}
				}
				all := true
				n := 0
				for _, rf := range refs(a) {
					if st, ok := rf.(*ssa.Store); ok && st.Addr == ssa.Value(a) {
						n++
						if !isNilConst(st.Val) {
							all = false
						}
					}
				}
				return all && n > 0
			}
		}
		for _, c := range condsAt(at) {
			if bo, ok := c.V.(*ssa.BinOp); ok {
				var other ssa.Value
				if isNilConst(bo.Y) {
					other = bo.X
				} else if isNilConst(bo.X) {
					other = bo.Y
				}
				if other == v && ((bo.Op == token.EQL && c.True) || (bo.Op == token.NEQ && !c.True)) {
					return true
				}
			}
		}
		return false
	}
	eachInstr(f, func(b *ssa.BasicBlock, _ int, in ssa.Instruction) {
		rt, ok := in.(*ssa.Return)
		if !ok || len(rt.Results) == 0 || bad != "" {
			return
		}
		nret++
		ev := rt.Results[len(rt.Results)-1]
		if !isNil(ev, b, 0) {
			bad = fmt.Sprintf("the return at %s can hand back a non-nil error (%s): readTag/readSeqTags stop at it, and every property written after the refused value is lost", p.posStr(rt.Pos()), shortVal(ev))
		}
	})
	if bad != "" {
		r.Bad("PROPERR", key, p.posStr(f.Pos()), bad)
	} else {
		r.OK("PROPERR", key, p.posStr(f.Pos()), fmt.Sprintf("%d return statements, each with a nil error", nret))
	}
}

// WSSET (C13): white space is the XML production S - space, tab, carriage return, line feed.
//
// Instances: in package xmp, every set of equality tests of one byte (the same slice element) against constants
// that contains the space; and every library helper of one byte parameter that tests it against the space. Each
// such set must contain all four characters (directly, or by calling a helper whose own set does): a tokenizer
// that skips only ' ' and '\n' files a tab or the '\r' of a CRLF line ending under the next name, and the attributes
// of a packet indented with tabs or written on Windows are dropped without an error.
func ruleWsSet(p *Prog, r *Report) {
	r.Explain("WSSET: in package xmp, wherever one byte of the look-ahead window is compared for equality with the space character, the same byte is also compared with tab, carriage return and line feed - in the same function, or inside a helper of one byte parameter that is called on it: the tokenizer's white space is XML's (0x20, 0x09, 0x0D, 0x0A), so packets indented with tabs or using CRLF line endings lose no attribute.")
	pk := p.SSAPkg("xmp")
	if pk == nil {
		r.Fatal("unresolved anchor: package xmp")
		return
	}
	want := []int64{0x20, 0x09, 0x0d, 0x0a}
	type elem struct {
		x, idx ssa.Value
	}
	elemOf := func(v ssa.Value) (elem, bool) {
		if cv, ok := v.(*ssa.Convert); ok {
			v = cv.X
		}
		switch x := v.(type) {
		case *ssa.UnOp:
			if ia, ok := x.X.(*ssa.IndexAddr); ok && x.Op == token.MUL {
				return elem{ia.X, ia.Index}, true
			}
		case *ssa.Parameter:
			return elem{x, nil}, true
		}
		return elem{}, false
	}
	// sets per function
	setsOf := func(f *ssa.Function) map[elem]map[int64]bool {
		out := map[elem]map[int64]bool{}
		eachInstr(f, func(_ *ssa.BasicBlock, _ int, in ssa.Instruction) {
			bo, ok := in.(*ssa.BinOp)
			if !ok || (bo.Op != token.EQL && bo.Op != token.NEQ) {
				return
			}
			var other ssa.Value
			var k int64
			if c, ok := constInt(bo.Y); ok {
				other, k = bo.X, c
			} else if c, ok := constInt(bo.X); ok {
				other, k = bo.Y, c
			} else {
				return
			}
			if b, ok := other.Type().Underlying().(*types.Basic); !ok || b.Kind() != types.Uint8 {
				return
			}
			e, ok := elemOf(other)
			if !ok {
				return
			}
			if out[e] == nil {
				out[e] = map[int64]bool{}
			}
			out[e][k] = true
		})
		return out
	}
	complete := func(s map[int64]bool) (string, bool) {
		miss := ""
		for _, w := range want {
			if !s[w] {
				miss += fmt.Sprintf(" 0x%02X", w)
			}
		}
		return miss, miss == ""
	}
	// helpers: one byte parameter, boolean result, complete set on the parameter
	helper := map[*ssa.Function]bool{}
	for _, f := range p.AllLibFns() {
		if f.Pkg != pk || f.Blocks == nil || len(f.Params) != 1 {
			continue
		}
		if b, ok := f.Params[0].Type().Underlying().(*types.Basic); !ok || b.Kind() != types.Uint8 {
			continue
		}
		for e, s := range setsOf(f) {
			if e.x == ssa.Value(f.Params[0]) {
				if _, ok := complete(s); ok {
					helper[f] = true
				}
			}
		}
	}
	n := 0
	for _, f := range p.AllLibFns() {
		g := f
		for g.Parent() != nil {
			g = g.Parent()
		}
		if g.Pkg != pk || f.Blocks == nil {
			continue
		}
		sets := setsOf(f)
		// elements handed to a complete helper count as complete
		viaHelper := map[elem]bool{}
		eachCall(f, func(site ssa.CallInstruction) {
			if sc := site.Common().StaticCallee(); sc != nil && helper[sc] && len(site.Common().Args) == 1 {
				if e, ok := elemOf(site.Common().Args[0]); ok {
					viaHelper[e] = true
				}
			}
		})
		k := 0
		var keys []elem
		for e := range sets {
			keys = append(keys, e)
		}
		sort.Slice(keys, func(i, j int) bool {
			return shortVal(keys[i].x)+shortVal(keys[i].idx) < shortVal(keys[j].x)+shortVal(keys[j].idx)
		})
		for _, e := range keys {
			s := sets[e]
			if !s[0x20] {
				continue
			}
			n++
			k++
			idx := ""
			if e.idx != nil {
				idx = "[" + shortVal(e.idx) + "]"
			}
			key := fmt.Sprintf("%s | white-space test #%d on %s%s", fnName(f), k, shortVal(e.x), idx)
			at := p.posStr(f.Pos())
			if miss, ok := complete(s); ok || viaHelper[e] {
				r.OK("WSSET", key, at, "space, tab, carriage return and line feed")
			} else {
				r.Bad("WSSET", key, at, "the byte is tested against the space but not against"+miss+": a tab or the carriage return of a CRLF line ending is taken for part of the next name, and the attribute (or every attribute of the element) is dropped without an error")
			}
		}
	}
	if n == 0 {
		// after the repair the tests live in the helper: it must exist
		if len(helper) == 0 {
			r.Undecided("WSSET", "xmp | white-space tests", "-", "neither a white-space test nor a white-space helper found (anchor lost)")
		} else {
			r.OK("WSSET", "xmp | white-space helper", "-", fmt.Sprintf("%d helper(s) testing space, tab, carriage return and line feed; every white-space test goes through them", len(helper)))
		}
	}
}

// NARROWX (C13): a parsed number is never narrowed without a range check.
//
// Instances: in package xmp every conversion of (a value derived from) the result of the decimal parser parseUint to
// a narrower integer type. It must sit under a guard that compares the number with the largest value of the target
// type (the guard's own correctness is MAXINCL's business); otherwise a value that does not fit wraps around -
// tiff:ImageWidth="70000" is reported as 4464 - instead of being refused.
func ruleNarrowX(p *Prog, r *Report) {
	r.Explain("NARROWX: in package xmp every narrowing integer conversion whose operand is the result of the decimal parser (a uint64) is dominated by a comparison of that operand with the largest value of the target type: an unguarded conversion reports a value that does not fit modulo 2^n instead of refusing it.")
	pk := p.SSAPkg("xmp")
	if pk == nil {
		r.Fatal("unresolved anchor: package xmp")
		return
	}
	n := 0
	perFn := map[string]int{}
	for _, f := range p.AllLibFns() {
		g := f
		for g.Parent() != nil {
			g = g.Parent()
		}
		if g.Pkg != pk || f.Blocks == nil {
			continue
		}
		eachInstr(f, func(b *ssa.BasicBlock, _ int, in ssa.Instruction) {
			cv, ok := in.(*ssa.Convert)
			if !ok || !narrowing(cv) {
				return
			}
			c, ok := cv.X.(*ssa.Call)
			if !ok {
				return
			}
			sc := c.Call.StaticCallee()
			if sc == nil || sc.Pkg != pk || sc.Name() != "parseUint" {
				return
			}
			tb, ok := cv.Type().Underlying().(*types.Basic)
			if !ok {
				return
			}
			n++
			perFn[fnName(f)]++
			key := fmt.Sprintf("%s | %s of a parsed number #%d", fnName(f), tb.Name(), perFn[fnName(f)])
			at := p.posStr(cv.Pos())
			guarded := false
			for _, cd := range condsAt(b) {
				if bo, ok := cd.V.(*ssa.BinOp); ok && (bo.X == cv.X || bo.Y == cv.X) {
					switch bo.Op {
					case token.LSS, token.LEQ, token.GTR, token.GEQ:
						guarded = true
					}
				}
			}
			if guarded {
				r.OK("NARROWX", key, at, "under a range check of the parsed number")
			} else {
				r.Bad("NARROWX", key, at, fmt.Sprintf("the parsed number is converted to %s without a range check: a value that does not fit is reported modulo 2^%d (70000 as 4464 for a 16-bit field) instead of being refused", tb.Name(), 8*int(p.sizeofBasic(tb))))
			}
		})
	}
	if n == 0 {
		r.Undecided("NARROWX", "xmp | narrowing conversions of parsed numbers", "-", "none found (anchor lost)")
	}
}

func (p *Prog) sizeofBasic(b *types.Basic) int64 {
	switch b.Kind() {
	case types.Uint8, types.Int8:
		return 1
	case types.Uint16, types.Int16:
		return 2
	case types.Uint32, types.Int32:
		return 4
	}
	return 8
}

// SIGNX (C13): a signed property is read by a parser that knows the minus sign.
//
// Instances: in package xmp, every conversion to a signed integer type whose operand is the result of one of the
// unsigned decimal parsers (parseUint, parseUint8, ...). The function doing it must test a byte against '-'
// somewhere: otherwise the '-' is run through the digit loop, the number comes out as garbage and the range check
// turns it into 0 - xmp:Rating="-1" (rejected), the one negative value the specification defines, reads as 0
// (unrated).
func ruleSignX(p *Prog, r *Report) {
	r.Explain("SIGNX: in package xmp a function that converts the result of an unsigned decimal parser to a signed integer type also compares a byte with the minus sign: a signed property (xmp:Rating, -1 = rejected) parsed without it reads every negative value as 0.")
	pk := p.SSAPkg("xmp")
	if pk == nil {
		r.Fatal("unresolved anchor: package xmp")
		return
	}
	n := 0
	for _, f := range p.AllLibFns() {
		g := f
		for g.Parent() != nil {
			g = g.Parent()
		}
		if g.Pkg != pk || f.Blocks == nil {
			continue
		}
		var convs []*ssa.Convert
		minus := false
		eachInstr(f, func(_ *ssa.BasicBlock, _ int, in ssa.Instruction) {
			switch x := in.(type) {
			case *ssa.Convert:
				tb, ok := x.Type().Underlying().(*types.Basic)
				if !ok || tb.Info()&types.IsInteger == 0 || tb.Info()&types.IsUnsigned != 0 {
					return
				}
				c, ok := x.X.(*ssa.Call)
				if !ok {
					return
				}
				sc := c.Call.StaticCallee()
				if sc == nil || sc.Pkg != pk || !strings.HasPrefix(sc.Name(), "parseUint") {
					return
				}
				convs = append(convs, x)
			case *ssa.BinOp:
				if x.Op == token.EQL || x.Op == token.NEQ {
					for _, o := range []ssa.Value{x.X, x.Y} {
						if k, ok := constInt(o); ok && k == '-' {
							minus = true
						}
					}
				}
			}
		})
		for i, cv := range convs {
			n++
			key := fmt.Sprintf("%s | signed value #%d from an unsigned parse", fnName(f), i+1)
			at := p.posStr(cv.Pos())
			if minus {
				r.OK("SIGNX", key, at, "the function tests for the minus sign")
			} else {
				r.Bad("SIGNX", key, at, fmt.Sprintf("the result of %s is converted to %s in a function that never looks for a minus sign: a negative value is parsed as digits, fails the range check and reads as 0", shortCallee(&cv.X.(*ssa.Call).Call), cv.Type().String()))
			}
		}
	}
	r.Extra("signx_conversions", n)
}

// EQREFL (C13): the equality of properties that the tokenizer closes elements with is plain equality.
//
// readTag leaves an element when isEndTag finds the stop tag Equals to the start tag. Equals is documented as
// equality of the two properties; every comparison in it must therefore be between an element of the receiver and
// an element of the argument. A comparison of either with a constant (a special case for the unidentified
// property, say) makes some property unequal to itself, its stop tag is never recognised, and every such element
// costs one level of the depth budget for the rest of the packet.
func ruleEqRefl(p *Prog, r *Report) {
	r.Explain("EQREFL: xmpns.(Property).Equals compares elements of the receiver with elements of the argument and nothing with a constant: the tokenizer closes an element when its stop tag Equals its start tag, so the relation has to be reflexive for every property, the unidentified one included.")
	f := p.Func("xmp/xmpns", "Property", "Equals")
	key := "xmp/xmpns.(Property).Equals | compares the two properties with each other only"
	if f == nil {
		r.Undecided("EQREFL", key, "-", "unresolved anchor")
		return
	}
	bad := ""
	ncmp := 0
	eachInstr(f, func(_ *ssa.BasicBlock, _ int, in ssa.Instruction) {
		bo, ok := in.(*ssa.BinOp)
		if !ok {
			return
		}
		switch bo.Op {
		case token.EQL, token.NEQ, token.LSS, token.LEQ, token.GTR, token.GEQ:
		default:
			return
		}
		ncmp++
		_, cx := bo.X.(*ssa.Const)
		_, cy := bo.Y.(*ssa.Const)
		if (cx || cy) && bad == "" {
			bad = fmt.Sprintf("the comparison at %s is against a constant: some property is then not Equal to itself, the stop tag of an element carrying it is never recognised and the element's siblings are read one level deeper, until the depth limit ends the parse", p.posStr(bo.Pos()))
		}
	})
	eachCall(f, func(site ssa.CallInstruction) {
		if sc := site.Common().StaticCallee(); sc != nil && isRepoFn(sc) && bad == "" {
			bad = "the result depends on a call of " + fnName(sc) + " (" + p.posStr(instrPos(site)) + "), not on a comparison of the two properties"
		}
	})
	switch {
	case bad != "":
		r.Bad("EQREFL", key, p.posStr(f.Pos()), bad)
	case ncmp == 0:
		r.Undecided("EQREFL", key, p.posStr(f.Pos()), "no comparison found")
	default:
		r.OK("EQREFL", key, p.posStr(f.Pos()), fmt.Sprintf("%d comparisons, each between the receiver and the argument", ncmp))
	}
}

// XBUF (C13): the buffered reader the tokenizer peeks through is as large as its look-ahead windows assume.
//
// WINFIT proves that the windows fit a buffer of the package's own size constant. The reader stored into the
// xmpReader must therefore be one the package made with at least that size, or the caller's own under a test of its
// Size() against that constant: a caller's smaller bufio.Reader used as it is ends every long value in ErrBufferFull,
// so the buffered and the unbuffered entry disagree.
func ruleXBuf(p *Prog, r *Report) {
	r.Explain("XBUF: every *bufio.Reader stored into the tokenizer's reader field is the result of bufio.NewReaderSize with the package's buffer-size constant (or more), or a caller's reader on a path where its Size() was compared with that constant and found sufficient.")
	f := p.Func("xmp", "", "newXMPReader")
	key := "xmp.newXMPReader | the reader peeked through has the buffer size the windows assume"
	if f == nil {
		r.Undecided("XBUF", key, "-", "unresolved anchor")
		return
	}
	want, ok := constByName(p, "xmp", "xmpBufferLength")
	if !ok {
		r.Undecided("XBUF", key, p.posStr(f.Pos()), "size constant xmpBufferLength not found")
		return
	}
	bad := ""
	n := 0
	var judge func(v ssa.Value, at *ssa.BasicBlock, viaPhi *ssa.Phi, edge int, d int)
	judge = func(v ssa.Value, at *ssa.BasicBlock, viaPhi *ssa.Phi, edge int, d int) {
		if d > 6 || bad != "" {
			return
		}
		switch x := v.(type) {
		case *ssa.Call:
			if isCallTo(&x.Call, "bufio.NewReaderSize") {
				if k, ok := constIntPhi(x.Call.Args[1]); ok && k >= want {
					n++
					return
				}
				bad = "bufio.NewReaderSize at " + p.posStr(x.Pos()) + " is not given the size constant (or more)"
				return
			}
			if isCallTo(&x.Call, "bufio.NewReader") {
				n++ // 4096 by default
				return
			}
			bad = "the reader is the result of " + shortCallee(&x.Call)
		case *ssa.Phi:
			for i, e := range x.Edges {
				judge(e, x.Block().Preds[i], x, i, d+1)
			}
		case *ssa.Extract, *ssa.TypeAssert:
			// the caller's reader: some dominating condition at the place it is chosen compares its Size() with the constant
			conds := condsAt(at)
			if viaPhi != nil {
				pred := viaPhi.Block().Preds[edge]
				if ifi, ok := pred.Instrs[len(pred.Instrs)-1].(*ssa.If); ok && len(pred.Succs) == 2 {
					conds = append(conds, Cond{V: ifi.Cond, True: pred.Succs[0] == viaPhi.Block(), At: pred})
				}
			}
			sized := false
			for _, c := range conds {
				bo, ok := c.V.(*ssa.BinOp)
				if !ok {
					continue
				}
				for _, pr := range [][2]ssa.Value{{bo.X, bo.Y}, {bo.Y, bo.X}} {
					call, ok := pr[0].(*ssa.Call)
					k, okk := constInt(pr[1])
					if ok && okk && isCallTo(&call.Call, "(*bufio.Reader).Size") && k >= want {
						sized = true
					}
				}
			}
			if sized {
				n++
			} else {
				bad = "the caller's *bufio.Reader is used without its Size() having been compared with the window size: on a smaller buffer every value longer than it ends in bufio.ErrBufferFull, where the unbuffered entry reads it"
			}
		default:
			bad = "reader of unknown origin: " + shortVal(v)
		}
	}
	eachInstr(f, func(b *ssa.BasicBlock, _ int, in ssa.Instruction) {
		st, ok := in.(*ssa.Store)
		if !ok {
			return
		}
		fa, ok := st.Addr.(*ssa.FieldAddr)
		if !ok || typeStr(st.Val.Type()) != "*bufio.Reader" {
			return
		}
		_ = fa
		judge(st.Val, b, nil, 0, 0)
	})
	switch {
	case bad != "":
		r.Bad("XBUF", key, p.posStr(f.Pos()), bad)
	case n == 0:
		r.Undecided("XBUF", key, p.posStr(f.Pos()), "no store of a *bufio.Reader found")
	default:
		r.OK("XBUF", key, p.posStr(f.Pos()), fmt.Sprintf("%d origin(s) of the reader, each of at least %d bytes", n, want))
	}
}

// GUIDCUT (C13): the GUID of a document or instance identifier is what follows the LAST colon.
//
// xmpMM:DocumentID and its siblings are URIs whose scheme part may itself contain colons - "xmp.did:…", "uuid:…",
// "urn:uuid:…", "adobe:docid:photoshop:…" (what Photoshop writes). parseUUID must therefore split at the last ':';
// splitting at the first one hands "docid:photoshop:…" to the UUID decoder, which refuses it, and the identifier is
// reported as the nil UUID.
func ruleGuidCut(p *Prog, r *Report) {
	r.Explain("GUIDCUT: xmp.parseUUID separates the scheme of an identifier URI from its GUID at the last colon (bytes.LastIndexByte or a backward scan), not at the first (readUntil, bytes.IndexByte): the documented forms urn:uuid:… and adobe:docid:photoshop:… have more than one.")
	f := p.Func("xmp", "", "parseUUID")
	key := "xmp.parseUUID | the scheme is cut off at the last colon"
	if f == nil {
		r.Undecided("GUIDCUT", key, "-", "unresolved anchor")
		return
	}
	first, last := "", false
	eachCall(f, func(site ssa.CallInstruction) {
		c := site.Common()
		sc := c.StaticCallee()
		if sc == nil {
			return
		}
		hasColon := false
		for _, a := range c.Args {
			if k, ok := constInt(a); ok && k == ':' {
				hasColon = true
			}
		}
		if !hasColon {
			return
		}
		switch {
		case sc.String() == "bytes.LastIndexByte" || sc.String() == "strings.LastIndexByte":
			last = true
		case sc.String() == "bytes.IndexByte" || sc.String() == "strings.IndexByte" || (isRepoFn(sc) && sc.Name() == "readUntil"):
			first = shortCallee(c) + " at " + p.posStr(instrPos(site))
		}
	})
	// a backward scan written by hand: an induction variable with step -1 compared against ':'
	for _, b := range f.Blocks {
		for _, in := range b.Instrs {
			if ph, ok := in.(*ssa.Phi); ok {
				if ind, ok := inductionOf(ph); ok && ind.Step == -1 {
					last = true
				}
			}
		}
	}
	switch {
	case first != "":
		r.Bad("GUIDCUT", key, p.posStr(f.Pos()), "the identifier is split at its first colon ("+first+"): for \"adobe:docid:photoshop:<guid>\" and \"urn:uuid:<guid>\" the rest still carries a scheme part, the UUID decoder refuses it and the identifier is reported as the nil UUID")
	case last:
		r.OK("GUIDCUT", key, p.posStr(f.Pos()), "split at the last colon")
	default:
		r.Undecided("GUIDCUT", key, p.posStr(f.Pos()), "no split at a colon recognised")
	}
}

// GPSFORM (C13): an XMP GPS coordinate is "DDD,MM.mmk" or "DDD,MM,SSk" with k one of N, S, E, W.
//
// The hemisphere - the sign of the coordinate - is carried by that letter only. Obligation per store into a
// GPSLatitude / GPSLongitude field of the xmp result structs: the stored value comes from a library function that
// compares a byte with 'S' and with 'W' (directly or in a function it calls). A plain decimal-number parser reads
// every standard coordinate as 0.
func ruleGpsForm(p *Prog, r *Report) {
	r.Explain("GPSFORM: the value stored into the GPSLatitude and GPSLongitude fields of package xmp comes from a library function that tests a byte against the hemisphere letters S and W: the XMP GPSCoordinate form DDD,MM.mmk / DDD,MM,SSk carries the sign only there, and a decimal-number parser reads it as 0.")
	pk := p.SSAPkg("xmp")
	if pk == nil {
		r.Fatal("unresolved anchor: package xmp")
		return
	}
	var testsLetters func(f *ssa.Function, d int, seen map[*ssa.Function]bool) (s, w bool)
	testsLetters = func(f *ssa.Function, d int, seen map[*ssa.Function]bool) (s, w bool) {
		if d > 3 || seen[f] || f.Blocks == nil {
			return
		}
		seen[f] = true
		eachInstr(f, func(_ *ssa.BasicBlock, _ int, in ssa.Instruction) {
			switch x := in.(type) {
			case *ssa.BinOp:
				if x.Op == token.EQL || x.Op == token.NEQ {
					for _, o := range []ssa.Value{x.X, x.Y} {
						if k, ok := constInt(o); ok {
							s = s || k == 'S'
							w = w || k == 'W'
						}
					}
				}
			case ssa.CallInstruction:
				if sc := x.Common().StaticCallee(); sc != nil && isRepoFn(sc) {
					s2, w2 := testsLetters(sc, d+1, seen)
					s, w = s || s2, w || w2
				}
			}
		})
		return
	}
	n := 0
	for _, f := range p.AllLibFns() {
		if f.Pkg != pk || f.Blocks == nil {
			continue
		}
		eachInstr(f, func(_ *ssa.BasicBlock, _ int, in ssa.Instruction) {
			st, ok := in.(*ssa.Store)
			if !ok {
				return
			}
			fa, ok := st.Addr.(*ssa.FieldAddr)
			if !ok {
				return
			}
			fname := fieldName(fa.X.Type(), fa.Field)
			if fname != "GPSLatitude" && fname != "GPSLongitude" {
				return
			}
			n++
			key := fmt.Sprintf("%s | %s is read from the GPSCoordinate form", fnName(f), fname)
			at := p.posStr(st.Pos())
			v := st.Val
			for i := 0; i < 3; i++ {
				if cv, ok := v.(*ssa.Convert); ok {
					v = cv.X
				}
			}
			c, ok := v.(*ssa.Call)
			if !ok || c.Call.StaticCallee() == nil || !isRepoFn(c.Call.StaticCallee()) {
				r.Undecided("GPSFORM", key, at, "the stored value is not the result of a library function")
				return
			}
			s, w := testsLetters(c.Call.StaticCallee(), 0, map[*ssa.Function]bool{})
			if s && w {
				r.OK("GPSFORM", key, at, fnName(c.Call.StaticCallee())+" tests the hemisphere letters")
			} else {
				r.Bad("GPSFORM", key, at, "the value is parsed by "+fnName(c.Call.StaticCallee())+", which never looks for the hemisphere letter: the standard forms \"33,51.357S\" and \"151,12,30W\" are read as 0 and the coordinate is lost")
			}
		})
	}
	if n == 0 {
		r.Undecided("GPSFORM", "xmp | GPS coordinate fields", "-", "no store into GPSLatitude/GPSLongitude found (anchor lost)")
	}
}

// RATFORM (C13): a property of XMP type Rational is read by a parser that knows the slash.
//
// spec/xmp_value_types.json lists, from the XMP specification, the struct fields that receive Rational properties
// (written "n/d"). Obligation per store into such a field: the stored value comes from a library function that
// tests a byte against '/' (directly or in a function it calls - parseRational does). A decimal-number parser
// reads "1234/10" as 0.
func ruleRatForm(p *Prog, r *Report) {
	r.Explain("RATFORM: for every struct field of package xmp that spec/xmp_value_types.json marks as receiving a Rational property, the value stored into it comes from a library function that tests a byte against the slash (directly or through a callee): a rational written n/d is otherwise read by a decimal-number parser as 0.")
	b, err := os.ReadFile(filepath.Join(verifRoot(), "spec", "xmp_value_types.json"))
	if err != nil {
		r.Fatal("spec/xmp_value_types.json: " + err.Error())
		return
	}
	var spec struct {
		Rational map[string][]string `json:"rational_fields"`
	}
	if err := json.Unmarshal(b, &spec); err != nil {
		r.Fatal("spec/xmp_value_types.json: " + err.Error())
		return
	}
	want := map[string]bool{}
	for st, fs := range spec.Rational {
		for _, f := range fs {
			want[st+"."+f] = true
		}
	}
	pk := p.SSAPkg("xmp")
	if pk == nil {
		r.Fatal("unresolved anchor: package xmp")
		return
	}
	var testsSlash func(f *ssa.Function, d int, seen map[*ssa.Function]bool) bool
	testsSlash = func(f *ssa.Function, d int, seen map[*ssa.Function]bool) bool {
		if d > 3 || seen[f] || f.Blocks == nil {
			return false
		}
		seen[f] = true
		found := false
		eachInstr(f, func(_ *ssa.BasicBlock, _ int, in ssa.Instruction) {
			switch x := in.(type) {
			case *ssa.BinOp:
				if x.Op == token.EQL || x.Op == token.NEQ {
					for _, o := range []ssa.Value{x.X, x.Y} {
						if k, ok := constInt(o); ok && k == '/' {
							found = true
						}
					}
				}
			case ssa.CallInstruction:
				c := x.Common()
				if sc := c.StaticCallee(); sc != nil {
					if isRepoFn(sc) {
						if testsSlash(sc, d+1, seen) {
							found = true
						}
					} else if sc.String() == "bytes.IndexByte" || sc.String() == "bytes.LastIndexByte" {
						for _, a := range c.Args {
							if k, ok := constInt(a); ok && k == '/' {
								found = true
							}
						}
					}
				}
			}
		})
		return found
	}
	seenField := map[string]bool{}
	okField, badField := map[string]string{}, map[string]string{}
	for _, f := range p.AllLibFns() {
		if f.Pkg != pk || f.Blocks == nil {
			continue
		}
		eachInstr(f, func(_ *ssa.BasicBlock, _ int, in ssa.Instruction) {
			st, ok := in.(*ssa.Store)
			if !ok {
				return
			}
			fa, ok := st.Addr.(*ssa.FieldAddr)
			if !ok {
				return
			}
			n := namedOfPtr(fa.X.Type())
			if n == nil {
				return
			}
			fq := n.Obj().Name() + "." + fieldName(fa.X.Type(), fa.Field)
			if !want[fq] {
				return
			}
			seenField[fq] = true
			key := "xmp " + fq + " | read from the n/d form"
			at := p.posStr(st.Pos())
			// the calls the stored value is computed from
			var calls []*ssa.Call
			var walk func(v ssa.Value, d int)
			walk = func(v ssa.Value, d int) {
				if d > 5 {
					return
				}
				switch x := v.(type) {
				case *ssa.Call:
					calls = append(calls, x)
					for _, a := range x.Call.Args {
						walk(a, d+1)
					}
				case *ssa.Convert:
					walk(x.X, d+1)
				case *ssa.ChangeType:
					walk(x.X, d+1)
				case *ssa.Extract:
					walk(x.Tuple, d+1)
				case *ssa.BinOp:
					walk(x.X, d+1)
					walk(x.Y, d+1)
				}
			}
			walk(st.Val, 0)
			ok2 := false
			for _, c := range calls {
				if sc := c.Call.StaticCallee(); sc != nil && isRepoFn(sc) && testsSlash(sc, 0, map[*ssa.Function]bool{}) {
					ok2 = true
				}
			}
			if ok2 {
				okField[fq] = at
			} else if _, have := badField[fq]; !have {
				badField[fq] = at
			}
			_ = key
		})
	}
	for fq := range want {
		key := "xmp " + fq + " | read from the n/d form"
		if at, ok := okField[fq]; ok {
			// a further store that does not go through it is the fallback for another spelling
			r.OK("RATFORM", key, at, "a store of the field is computed through a function that tests for the slash")
		} else if at, bad := badField[fq]; bad {
			r.Bad("RATFORM", key, at, "the value is computed without any function that looks for the slash: a rational written \"1234/10\" goes to a decimal-number parser and is read as 0")
		}
	}
	// fields filled through a method called on their address (exif.ExposureBias.UnmarshalText(...))
	for _, f := range p.AllLibFns() {
		if f.Pkg != pk || f.Blocks == nil {
			continue
		}
		eachCall(f, func(site ssa.CallInstruction) {
			c := site.Common()
			sc := c.StaticCallee()
			if sc == nil || !isRepoFn(sc) {
				return
			}
			for _, a := range c.Args {
				fa, ok := a.(*ssa.FieldAddr)
				if !ok {
					continue
				}
				n := namedOfPtr(fa.X.Type())
				if n == nil {
					continue
				}
				fq := n.Obj().Name() + "." + fieldName(fa.X.Type(), fa.Field)
				if !want[fq] || seenField[fq] {
					continue
				}
				seenField[fq] = true
				key := "xmp " + fq + " | read from the n/d form"
				if testsSlash(sc, 0, map[*ssa.Function]bool{}) {
					r.OK("RATFORM", key, p.posStr(instrPos(site)), "filled by "+fnName(sc)+", which tests for the slash")
				} else {
					r.Bad("RATFORM", key, p.posStr(instrPos(site)), "filled by "+fnName(sc)+", which never looks for the slash")
				}
			}
		})
	}
	for fq := range want {
		if !seenField[fq] {
			r.Undecided("RATFORM", "xmp "+fq+" | read from the n/d form", "-", "no store into the field found (the property is not dispatched, or the anchor is lost)")
		}
	}
}

// DATEFORMS (C13): parseDate knows every form of the XMP Date type.
//
// spec/xmp_date_forms.json lists the forms of the specification as Go layouts. The layouts that parseDate and the
// library functions it calls hand to time.Parse - string constants, or the elements of an immutable package-level
// string table that a loop iterates - must contain each of them (a layout with a fraction stands for the one
// without, since time.Parse accepts a fraction after a seconds field). A date-only or minute-precision value is
// otherwise refused and the property is reported as the zero time.
func ruleDateForms(p *Prog, r *Report) {
	r.Explain("DATEFORMS: the set of layouts that xmp.parseDate and the library functions it calls pass to time.Parse (constants, or all elements of an immutable string table) contains every form of spec/xmp_date_forms.json: year, year-month, date, date with hours and minutes, and date with seconds, each time with and without a zone designator.")
	b, err := os.ReadFile(filepath.Join(verifRoot(), "spec", "xmp_date_forms.json"))
	if err != nil {
		r.Fatal("spec/xmp_date_forms.json: " + err.Error())
		return
	}
	var spec struct {
		Layouts []string `json:"layouts"`
	}
	if err := json.Unmarshal(b, &spec); err != nil {
		r.Fatal("spec/xmp_date_forms.json: " + err.Error())
		return
	}
	f := p.Func("xmp", "", "parseDate")
	if f == nil {
		r.Undecided("DATEFORMS", "xmp.parseDate", "-", "unresolved anchor")
		return
	}
	have := map[string]bool{}
	und := ""
	seen := map[*ssa.Function]bool{}
	var visit func(g *ssa.Function, d int)
	visit = func(g *ssa.Function, d int) {
		if seen[g] || d > 3 || g.Blocks == nil {
			return
		}
		seen[g] = true
		eachCall(g, func(site ssa.CallInstruction) {
			c := site.Common()
			if isCallTo(c, "time.Parse") {
				if lay, ok := constString(c.Args[0]); ok {
					have[lay] = true
					return
				}
				// an element of an immutable string table
				v := c.Args[0]
				if ex, ok := v.(*ssa.Extract); ok {
					v = ex.Tuple
				}
				var tbl *ssa.Global
				switch x := v.(type) {
				case *ssa.UnOp:
					if ia, ok := x.X.(*ssa.IndexAddr); ok {
						tbl = globalOf(ia.X)
					}
				case *ssa.Next:
					if rg, ok := x.Iter.(*ssa.Range); ok {
						tbl = loadOfGlobal(rg.X)
					}
				case *ssa.Index:
					tbl = loadOfGlobal(x.X)
				}
				if tbl != nil && p.Tables().Immutable(tbl) {
					if tv := p.Tables().Val(tbl); tv != nil && tv.Kind == "strings" {
						for _, s := range tv.Strs {
							have[s] = true
						}
						return
					}
				}
				und = "a time.Parse layout at " + p.posStr(instrPos(site)) + " is neither a constant nor an element of an immutable string table"
				return
			}
			if sc := c.StaticCallee(); sc != nil && isRepoFn(sc) {
				visit(sc, d+1)
			}
		})
	}
	visit(f, 0)
	covers := func(l string) bool {
		if have[l] {
			return true
		}
		// a layout with a fraction after the seconds accepts what the one without accepts … no: it requires the
		// fraction. Only the reverse holds, so nothing else stands in.
		return false
	}
	for _, l := range spec.Layouts {
		key := "xmp.parseDate | accepts the form " + l
		switch {
		case covers(l):
			r.OK("DATEFORMS", key, p.posStr(f.Pos()), "a time.Parse with this layout is reachable")
		case und != "":
			r.Undecided("DATEFORMS", key, p.posStr(f.Pos()), und)
		default:
			r.Bad("DATEFORMS", key, p.posStr(f.Pos()), "no time.Parse with the layout "+l+" is reachable from parseDate: a value of that form, legal for the XMP Date type, is refused and the property is reported as the zero time")
		}
	}
}
