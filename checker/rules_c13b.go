package main

// C13 — further structural clauses: FORMDEP (the serialisation form is consulted only for array items) and
// DATEFALL (every date value falls through to the layout that accepts any fractional second).

import (
	"fmt"
	"go/constant"
	"go/token"
	"go/types"
	"strings"

	"golang.org/x/tools/go/ssa"
)

// ruleFormDep: outside the tokenizer (methods of xmpReader, which set it), the field property.pt — attribute or
// element — is read only under a test p.Name() == K for K one of the array-valued properties whose rdf:li items
// carry attributes of their own (dc:rights, dc:title: the xml:lang qualifier must not be taken for an item).
// Anywhere else a decision on pt makes the attribute and the element serialisation of a simple property decode
// differently.
// the language alternatives of Dublin Core (XMP specification part 1, 8.3: dc:title, dc:description, dc:rights are
// of type "Lang Alt"): their rdf:li items carry an xml:lang attribute of their own
var formDepArrayProps = []string{"Rights", "Title", "Description"}

func ruleFormDep(p *Prog, r *Report) {
	sp := p.SSAPkg("xmp")
	ns := p.LibPkg("xmp/xmpns")
	if sp == nil || ns == nil {
		r.Undecided("FORMDEP", "xmp", "-", "package xmp or xmp/xmpns not loaded")
		return
	}
	allowed := map[int64]string{}
	for _, nm := range formDepArrayProps {
		c, _ := ns.Types.Scope().Lookup(nm).(*types.Const)
		if c == nil {
			r.Undecided("FORMDEP", "xmpns."+nm, "-", "unresolved anchor: property name constant not found")
			return
		}
		if k, ok := constant.Int64Val(c.Val()); ok {
			allowed[k] = nm
		}
	}
	isPt := func(t types.Type, idx int) bool {
		if pt, ok := t.Underlying().(*types.Pointer); ok {
			t = pt.Elem()
		}
		n, ok := t.(*types.Named)
		if !ok || n.Obj().Name() != "property" {
			return false
		}
		st, ok := n.Underlying().(*types.Struct)
		return ok && idx < st.NumFields() && st.Field(idx).Name() == "pt"
	}
	nReads := 0
	seenUnder := map[string]bool{}
	for _, f := range pkgFns(sp, p) {
		if rc := f.Signature.Recv(); rc != nil && strings.Contains(rc.Type().String(), "xmpReader") {
			continue
		}
		eachInstr(f, func(b *ssa.BasicBlock, _ int, in ssa.Instruction) {
			read := false
			switch x := in.(type) {
			case *ssa.Field:
				read = isPt(x.X.Type(), x.Field)
			case *ssa.FieldAddr:
				if isPt(x.X.Type(), x.Field) {
					for _, rf := range refs(x) {
						if u, ok := rf.(*ssa.UnOp); ok && u.Op == token.MUL {
							read = true
						}
					}
				}
			}
			if !read {
				return
			}
			nReads++
			key := fmt.Sprintf("%s | reads the serialisation form", fnName(f))
			at := p.posStr(instrPos(in))
			under := ""
			for _, cd := range condsAt(b) {
				bo, ok := cd.V.(*ssa.BinOp)
				if !ok || !cd.True || bo.Op != token.EQL {
					continue
				}
				for _, pr := range [][2]ssa.Value{{bo.X, bo.Y}, {bo.Y, bo.X}} {
					k, ok := constInt(pr[1])
					if !ok {
						continue
					}
					c, ok := pr[0].(*ssa.Call)
					if !ok {
						continue
					}
					if sc := c.Call.StaticCallee(); sc != nil && sc.Name() == "Name" {
						if nm, ok := allowed[k]; ok {
							under = nm
						}
					}
				}
			}
			if under != "" {
				seenUnder[under] = true
				r.OK("FORMDEP", key+" | under Name() == "+under, at, "array property whose items carry attributes (reviewed list)")
			} else {
				r.Bad("FORMDEP", key, at, "the attribute/element form of the property is consulted outside the cases of the array properties (dc:rights, dc:title): a simple property written as an attribute is then treated differently from the same property written as an element")
			}
		})
	}
	if nReads == 0 {
		r.OK("FORMDEP", "xmp | no reads of the serialisation form outside the tokenizer", "-", "nothing depends on the form")
	}
	// and each language alternative does consult the form: the xml:lang attribute of its rdf:li items reaches the
	// namespace parser under the property's own name, and without the test it is appended to the values as an item
	for _, nm := range formDepArrayProps {
		key := "xmp dc:" + strings.ToLower(nm) + " | the language attribute of an item is not taken for an item"
		if seenUnder[nm] {
			r.OK("FORMDEP", key, "-", "the store is under a test of the serialisation form")
		} else {
			r.Bad("FORMDEP", key, "-", "no test of the serialisation form under Name() == "+nm+": the value of the xml:lang attribute of each rdf:li (\"x-default\") is appended to the property's values as if it were an item")
		}
	}
}

// ruleDateFall: xmp.parseDate tries its layouts in turn; the last one, "2006-01-02T15:04:05", is the only one that
// accepts a value without zone and with any number of fractional digits (time.Parse accepts a fraction after a
// seconds field). Every return of parseDate must therefore be either the result of a time.Parse with that layout or
// under the err == nil edge of an earlier time.Parse — an error is never reported before the plain layout was tried.
func ruleDateFall(p *Prog, r *Report) {
	const plain = "2006-01-02T15:04:05"
	f := p.Func("xmp", "", "parseDate")
	key := "xmp.parseDate | no error before the plain layout was tried"
	if f == nil {
		r.Undecided("DATEFALL", key, "-", "unresolved anchor")
		return
	}
	at := p.posStr(f.Pos())
	isParse := func(v ssa.Value) (*ssa.Call, string, bool) {
		c, ok := v.(*ssa.Call)
		if !ok || !isCallTo(&c.Call, "time.Parse") {
			return nil, "", false
		}
		lay, ok := constString(c.Call.Args[0])
		return c, lay, ok
	}
	nParse, nPlain := 0, 0
	var plainBlocks []*ssa.BasicBlock
	eachInstr(f, func(_ *ssa.BasicBlock, _ int, in ssa.Instruction) {
		if c, ok := in.(*ssa.Call); ok && isCallTo(&c.Call, "time.Parse") {
			nParse++
			if lay, ok := constString(c.Call.Args[0]); ok && lay == plain {
				nPlain++
				plainBlocks = append(plainBlocks, c.Block())
			} else if !ok {
				nParse = -1000
			}
		}
	})
	if nParse < 0 {
		r.Undecided("DATEFALL", key, at, "a time.Parse with a layout that is not a constant")
		return
	}
	if nPlain == 0 {
		r.Bad("DATEFALL", key, at, fmt.Sprintf("no time.Parse with the layout %q: dates without zone whose fraction has other than two digits are reported as the zero time", plain))
		return
	}
	bad := ""
	nRet := 0
	eachInstr(f, func(b *ssa.BasicBlock, _ int, in ssa.Instruction) {
		rt, ok := in.(*ssa.Return)
		if !ok || len(rt.Results) != 2 {
			return
		}
		nRet++
		ev, eb := spilledResult(rt.Results[1], b)
		// the plain layout has been tried on every path to this return: its call dominates the return
		tried := false
		for _, pb := range plainBlocks {
			if pb != b && pb.Dominates(b) {
				tried = true
			}
		}
		if tried {
			return
		}
		// direct result of the plain parse
		var okVal func(v ssa.Value, at *ssa.BasicBlock, d int) bool
		okVal = func(v ssa.Value, at *ssa.BasicBlock, d int) bool {
			if d > 6 {
				return false
			}
			if isNilConst(v) {
				return true
			}
			if ex, ok := v.(*ssa.Extract); ok {
				if _, lay, ok := isParse(ex.Tuple); ok && lay == plain {
					return true
				}
			}
			// under err == nil of this very value
			for _, cd := range condsAt(at) {
				bo, ok := cd.V.(*ssa.BinOp)
				if !ok {
					continue
				}
				if (bo.X == v && isNilConst(bo.Y)) || (bo.Y == v && isNilConst(bo.X)) {
					if (bo.Op == token.EQL && cd.True) || (bo.Op == token.NEQ && !cd.True) {
						return true
					}
				}
			}
			if phi, ok := v.(*ssa.Phi); ok {
				for i, e := range phi.Edges {
					pred := phi.Block().Preds[i]
					good := okVal(e, pred, d+1)
					if !good {
						for _, cd := range edgeConds(pred, phi.Block()) {
							bo, ok := cd.V.(*ssa.BinOp)
							if !ok {
								continue
							}
							if (bo.X == e && isNilConst(bo.Y)) || (bo.Y == e && isNilConst(bo.X)) {
								if (bo.Op == token.EQL && cd.True) || (bo.Op == token.NEQ && !cd.True) {
									good = true
								}
							}
						}
					}
					if !good {
						return false
					}
				}
				return true
			}
			return false
		}
		if !okVal(ev, eb, 0) {
			bad = "the return at " + p.posStr(instrPos(rt)) + " can report the error of another layout without the plain layout having been tried: a date without zone and with one, three or more fractional digits is reported as the zero time"
		}
	})
	if bad != "" {
		r.Bad("DATEFALL", key, at, bad)
	} else {
		r.OK("DATEFALL", key, at, fmt.Sprintf("%d layouts, %d returns: each is the plain parse's own result or under a successful earlier parse", nParse, nRet))
	}
}

// ruleSeqExit: the loops of the tokenizer that walk the children of an element or the items of an rdf:Seq/Bag/Alt
// (readTag, readSeqTags) leave only when the tokenizer says so: on an error of a callee or on a boolean answer of
// one (isEndTag, hasAttribute …). An exit controlled by an integer comparison — an item counter against a limit —
// cuts an array short, and everything after it in the packet with it.
func ruleSeqExit(p *Prog, r *Report) {
	for _, fn := range []string{"readSeqTags", "readTag"} {
		f := p.Func("xmp", "*xmpReader", fn)
		if f == nil {
			r.Undecided("SEQEXIT", "xmp.(*xmpReader)."+fn, "-", "unresolved anchor")
			continue
		}
		for li, l := range findLoops(f) {
			key := fmt.Sprintf("xmp.(*xmpReader).%s | loop #%d leaves only on the tokenizer's word", fn, li+1)
			at := p.posStr(blockPos0(l.Head))
			bad, und := "", ""
			n := 0
			for _, ifi := range exitTests(l) {
				n++
				var classify func(v ssa.Value, d int) string
				classify = func(v ssa.Value, d int) string {
					if d > 4 {
						return "?"
					}
					switch x := v.(type) {
					case *ssa.Call:
						return ""
					case *ssa.UnOp:
						if x.Op == token.NOT {
							return classify(x.X, d+1)
						}
						return "?"
					case *ssa.Phi:
						for _, e := range x.Edges {
							if w := classify(e, d+1); w != "" {
								return w
							}
						}
						return ""
					case *ssa.Const:
						return ""
					case *ssa.BinOp:
						if isErrorType(x.X.Type()) || isErrorType(x.Y.Type()) {
							return ""
						}
						if isIntType(x.X.Type()) && isIntType(x.Y.Type()) {
							return "an integer comparison (" + shortVal(x.X) + " " + x.Op.String() + " " + shortVal(x.Y) + ")"
						}
						return "?"
					}
					return "?"
				}
				switch w := classify(ifi.Cond, 0); w {
				case "":
				case "?":
					und = "exit test " + shortVal(ifi.Cond) + " at " + p.posStr(instrPos(ifi)) + " not classified"
				default:
					bad = "the loop can leave on " + w + " at " + p.posStr(instrPos(ifi)) + ": a count of items or tags, not the document, decides where an array ends — the remaining items and every property after them are lost"
				}
			}
			switch {
			case bad != "":
				r.Bad("SEQEXIT", key, at, bad)
			case und != "":
				r.Undecided("SEQEXIT", key, at, und)
			default:
				r.OK("SEQEXIT", key, at, fmt.Sprintf("%d exit tests: callee errors and boolean answers of the tokenizer only", n))
			}
		}
	}
}

// ruleXSrc: the look-ahead buffer of the XMP tokenizer reads the caller's stream itself. In xmp.newXMPReader the
// source of every bufio.NewReader(Size) is the function's own reader parameter — not a length-limited or otherwise
// wrapped view of it (a limit counts from the start of the stream: the bytes skipped before the root element and
// unknown properties use it up, and supported properties behind it are silently lost).
func ruleXSrc(p *Prog, r *Report) {
	f := p.Func("xmp", "", "newXMPReader")
	key := "xmp.newXMPReader | the tokenizer reads the caller's stream itself"
	if f == nil || len(f.Params) < 1 {
		r.Undecided("XSRC", key, "-", "unresolved anchor")
		return
	}
	at := p.posStr(f.Pos())
	n := 0
	bad := ""
	eachCall(f, func(site ssa.CallInstruction) {
		c := site.Common()
		if !isCallTo(c, "bufio.NewReaderSize", "bufio.NewReader") {
			return
		}
		n++
		src := c.Args[0]
		for i := 0; i < 4; i++ {
			switch x := src.(type) {
			case *ssa.MakeInterface:
				src = x.X
				continue
			case *ssa.ChangeInterface:
				src = x.X
				continue
			}
			break
		}
		if src != ssa.Value(f.Params[0]) {
			bad = "the buffer is filled from " + shortVal(c.Args[0]) + " (" + p.posStr(instrPos(site)) + "), not from the reader the caller passed: whatever that wrapper withholds — bytes beyond a limit counted from the start of the stream — is lost to the parser without an error"
		}
	})
	// no length-limited readers anywhere in the package
	if sp := p.SSAPkg("xmp"); sp != nil && bad == "" {
		for _, g := range pkgFns(sp, p) {
			eachCall(g, func(site ssa.CallInstruction) {
				if isCallTo(site.Common(), "io.LimitReader", "io.NewSectionReader") {
					bad = "io.LimitReader/SectionReader in " + fnName(g) + " (" + p.posStr(instrPos(site)) + "): the packet has no declared length inside this package"
				}
			})
		}
	}
	switch {
	case bad != "":
		r.Bad("XSRC", key, at, bad)
	case n == 0:
		r.Undecided("XSRC", key, at, "no bufio.NewReader(Size) found")
	default:
		r.OK("XSRC", key, at, fmt.Sprintf("%d buffer(s), each filled from the parameter r", n))
	}
}
