package main

import (
	"fmt"
	"go/token"
	"go/types"
	"sort"

	"golang.org/x/tools/go/ssa"
)

// STREAMPOS (C04, C10): a decoder object that is pointed at a new stream starts counting from that stream.
//
// Slots, filled from the repository:
//   - stream field: a field of a library struct whose type has a Read([]byte) (int, error) method;
//   - position field: an integer field f of the same struct that some library function advances with
//     `x.f = x.f + n` (or +=) while it also uses the stream field - the object's idea of where it is;
//   - re-pointing function: a library function that stores into the stream field of an object it did not
//     allocate itself (a fresh composite literal starts with every field zero, so constructors are exempt).
//
// Obligation per (re-pointing function R, position field f): R itself defines f (a store whose value does not
// depend on the old f, in a block dominating every return), or every library caller of R defines f after the
// call and before the first read of f (a load, or a call of a function that reads f transitively). Otherwise
// the position of the previous stream survives into the next decode: offsets are resolved against it and the
// declared length is not consumed.
func ruleStreamPos(p *Prog, r *Report) {
	r.Explain("STREAMPOS: a library function that stores into the stream field (a field whose type has a Read method) of a decoder object it did not allocate points that object at a new stream; the per-stream fields of the object - an integer field that the reading helpers advance with f = f + n, a byte order kept in the object - must be redefined by a store that does not depend on the old value, in that function on every path to its returns or in every library caller after the call and before the first read of the field (a load, or a call of a function that reads it transitively). Otherwise offsets of the new stream are resolved against the position of the previous one and the declared length is not consumed.")
	fns := p.AllLibFns()
	structOf := func(ptrT types.Type) (*types.Named, *types.Struct) {
		pt, ok := ptrT.Underlying().(*types.Pointer)
		if !ok {
			return nil, nil
		}
		n, ok := pt.Elem().(*types.Named)
		if !ok || n.Obj().Pkg() == nil || !isRepoPath(n.Obj().Pkg().Path()) {
			return nil, nil
		}
		st, ok := n.Underlying().(*types.Struct)
		if !ok {
			return nil, nil
		}
		return n, st
	}
	isStreamT := func(t types.Type) bool {
		ms := types.NewMethodSet(t)
		for i := 0; i < ms.Len(); i++ {
			m := ms.At(i).Obj()
			if m.Name() != "Read" {
				continue
			}
			sig, ok := m.Type().(*types.Signature)
			if ok && sig.Params().Len() == 1 && sig.Results().Len() == 2 && typeStr(sig.Params().At(0).Type()) == "[]byte" {
				return true
			}
		}
		return false
	}
	fieldOfAddr := func(v ssa.Value) (fld, *ssa.FieldAddr, bool) {
		fa, ok := v.(*ssa.FieldAddr)
		if !ok {
			return fld{}, nil, false
		}
		n, _ := structOf(fa.X.Type())
		if n == nil {
			return fld{}, nil, false
		}
		return fld{n, fa.Field}, fa, true
	}
	// dependsOnLoad: v is computed from a load of field k.
	var dependsOnLoad func(v ssa.Value, k fld, depth int) bool
	dependsOnLoad = func(v ssa.Value, k fld, depth int) bool {
		if depth > 8 {
			return true
		}
		switch x := v.(type) {
		case *ssa.UnOp:
			if x.Op == token.MUL {
				if kk, _, ok := fieldOfAddr(x.X); ok && kk == k {
					return true
				}
				return false
			}
			return dependsOnLoad(x.X, k, depth+1)
		case *ssa.BinOp:
			return dependsOnLoad(x.X, k, depth+1) || dependsOnLoad(x.Y, k, depth+1)
		case *ssa.Convert:
			return dependsOnLoad(x.X, k, depth+1)
		case *ssa.ChangeType:
			return dependsOnLoad(x.X, k, depth+1)
		case *ssa.Phi:
			for _, e := range x.Edges {
				if e != v && dependsOnLoad(e, k, depth+1) {
					return true
				}
			}
			return false
		case *ssa.Extract:
			return dependsOnLoad(x.Tuple, k, depth+1)
		case *ssa.Call:
			for _, a := range callArgs(&x.Call) {
				if dependsOnLoad(a, k, depth+1) {
					return true
				}
			}
			return false
		}
		return false
	}
	freshBase := func(fa *ssa.FieldAddr) bool {
		_, ok := fa.X.(*ssa.Alloc)
		return ok
	}

	// 1. stream fields that are stored through a non-fresh object, position fields, readers of each field
	streamFields := map[fld]bool{}
	usesStream := map[*ssa.Function]map[*types.Named]bool{}
	loads := map[*ssa.Function]map[fld]bool{}
	type accum struct {
		k fld
		f *ssa.Function
	}
	var accums []accum
	type repoint struct {
		f  *ssa.Function
		k  fld
		st *ssa.Store
	}
	var reps []repoint
	for _, f := range fns {
		eachInstr(f, func(_ *ssa.BasicBlock, _ int, in ssa.Instruction) {
			switch x := in.(type) {
			case *ssa.UnOp:
				if x.Op != token.MUL {
					return
				}
				k, _, ok := fieldOfAddr(x.X)
				if !ok {
					return
				}
				if loads[f] == nil {
					loads[f] = map[fld]bool{}
				}
				loads[f][k] = true
				_, st := structOf(x.X.(*ssa.FieldAddr).X.Type())
				if isStreamT(st.Field(k.i).Type()) {
					if usesStream[f] == nil {
						usesStream[f] = map[*types.Named]bool{}
					}
					usesStream[f][k.T] = true
				}
			case *ssa.Store:
				k, fa, ok := fieldOfAddr(x.Addr)
				if !ok {
					return
				}
				_, st := structOf(fa.X.Type())
				ft := st.Field(k.i).Type()
				if isStreamT(ft) {
					streamFields[k] = true
					if !freshBase(fa) {
						reps = append(reps, repoint{f, k, x})
					}
					return
				}
				if b, ok := ft.Underlying().(*types.Basic); ok && b.Info()&types.IsInteger != 0 {
					if bo, ok := x.Val.(*ssa.BinOp); ok && bo.Op == token.ADD && (dependsOnLoad(bo.X, k, 0) || dependsOnLoad(bo.Y, k, 0)) {
						accums = append(accums, accum{k, f})
					}
				}
			}
		})
	}
	posFields := map[*types.Named]map[int]bool{}
	for _, a := range accums {
		if usesStream[a.f][a.k.T] {
			if posFields[a.k.T] == nil {
				posFields[a.k.T] = map[int]bool{}
			}
			posFields[a.k.T][a.k.i] = true
		}
	}
	// a byte order kept in the decoder object is per-stream state as well: each block states its own
	for k := range streamFields {
		_, st := structOf(types.NewPointer(k.T))
		for i := 0; i < st.NumFields(); i++ {
			if n, ok := st.Field(i).Type().(*types.Named); ok && n.Obj().Name() == "ByteOrder" && n.Obj().Pkg() != nil && isRepoPath(n.Obj().Pkg().Path()) {
				if posFields[k.T] == nil {
					posFields[k.T] = map[int]bool{}
				}
				posFields[k.T][i] = true
			}
		}
	}
	// 2. transitive readers of a field
	readers := func(k fld) map[*ssa.Function]bool {
		out := map[*ssa.Function]bool{}
		for f, m := range loads {
			if m[k] {
				out[f] = true
			}
		}
		for changed := true; changed; {
			changed = false
			for _, f := range fns {
				if out[f] {
					continue
				}
				eachCall(f, func(site ssa.CallInstruction) {
					if out[f] {
						return
					}
					for _, c := range p.Callees(site) {
						if out[c] {
							out[f] = true
							changed = true
							return
						}
					}
				})
			}
		}
		return out
	}
	// definesIn: the instruction (b, i) defines field k: a store independent of the old value, or a call
	// of a function that defines it on every path to its returns.
	var fnDefines func(f *ssa.Function, k fld, depth int) bool
	isDef := func(in ssa.Instruction, k fld, depth int) bool {
		switch x := in.(type) {
		case *ssa.Store:
			kk, _, ok := fieldOfAddr(x.Addr)
			return ok && kk == k && !dependsOnLoad(x.Val, k, 0)
		case ssa.CallInstruction:
			if _, isGo := x.(*ssa.Go); isGo {
				return false
			}
			if _, isDefer := x.(*ssa.Defer); isDefer {
				return false
			}
			cs := p.Callees(x)
			if len(cs) == 0 {
				return false
			}
			for _, c := range cs {
				if !fnDefines(c, k, depth+1) {
					return false
				}
			}
			return true
		}
		return false
	}
	fnDefines = func(f *ssa.Function, k fld, depth int) bool {
		if depth > 3 || f.Blocks == nil {
			return false
		}
		var defBlocks []*ssa.BasicBlock
		for _, b := range f.Blocks {
			for _, in := range b.Instrs {
				if isDef(in, k, depth) {
					defBlocks = append(defBlocks, b)
					break
				}
			}
		}
		if len(defBlocks) == 0 {
			return false
		}
		for _, b := range f.Blocks {
			if len(b.Instrs) == 0 {
				continue
			}
			if _, ok := b.Instrs[len(b.Instrs)-1].(*ssa.Return); !ok {
				continue
			}
			dom := false
			for _, d := range defBlocks {
				if d.Dominates(b) {
					dom = true
				}
			}
			if !dom {
				return false
			}
		}
		return true
	}

	sort.Slice(reps, func(i, j int) bool {
		if fnName(reps[i].f) != fnName(reps[j].f) {
			return fnName(reps[i].f) < fnName(reps[j].f)
		}
		return reps[i].k.i < reps[j].k.i
	})
	seenKey := map[string]bool{}
	for _, rp := range reps {
		_, st := structOf(types.NewPointer(rp.k.T))
		var pfs []int
		for i := range posFields[rp.k.T] {
			pfs = append(pfs, i)
		}
		sort.Ints(pfs)
		for _, pi := range pfs {
			k := fld{rp.k.T, pi}
			what := "position field"
			if _, isBasic := st.Field(pi).Type().Underlying().(*types.Basic); !isBasic || typeStr(st.Field(pi).Type()) != typeStr(st.Field(pi).Type().Underlying()) {
				if n, ok := st.Field(pi).Type().(*types.Named); ok && n.Obj().Name() == "ByteOrder" {
					what = "byte-order field"
				}
			}
			key := fmt.Sprintf("%s points %s.%s at a new stream | %s %s starts afresh", fnName(rp.f), rp.k.T.Obj().Name(), st.Field(rp.k.i).Name(), what, st.Field(pi).Name())
			if seenKey[key] {
				continue
			}
			seenKey[key] = true
			at := p.posStr(rp.st.Pos())
			if fnDefines(rp.f, k, 0) {
				r.OK("STREAMPOS", key, at, "the re-pointing function stores a value that does not depend on the old position on every path to its returns")
				continue
			}
			rd := readers(k)
			// callers must define the field after the call and before the first read
			type pending struct {
				f     *ssa.Function
				depth int
			}
			bad := ""
			nCallers := 0
			work := []pending{{rp.f, 0}}
			visited := map[*ssa.Function]bool{rp.f: true}
			for len(work) > 0 && bad == "" {
				cur := work[0]
				work = work[1:]
				for _, site := range p.Callers(cur.f) {
					c := site.Parent()
					if c == nil || !isLibFn(c) {
						continue
					}
					nCallers++
					res := streamPosCaller(p, c, site, k, rd, func(in ssa.Instruction) bool { return isDef(in, k, 0) }, fieldOfAddrFn(fieldOfAddr))
					switch {
					case res == "":
					case res == "wrapper":
						if cur.depth < 2 && !visited[c] {
							visited[c] = true
							work = append(work, pending{c, cur.depth + 1})
						} else if cur.depth >= 2 {
							bad = fmt.Sprintf("%s passes the re-pointing on without defining %s (wrapper chain too deep to follow)", fnName(c), st.Field(pi).Name())
						}
					default:
						bad = res
					}
					if bad != "" {
						break
					}
				}
			}
			if bad != "" {
				r.Bad("STREAMPOS", key, at, bad)
			} else if nCallers == 0 {
				r.Bad("STREAMPOS", key, at, fmt.Sprintf("%s neither defines %s nor has a library caller that does", fnName(rp.f), st.Field(pi).Name()))
			} else {
				r.OK("STREAMPOS", key, at, fmt.Sprintf("%d library caller(s) define the position after the call and before its first read", nCallers))
			}
		}
	}
}

type fld struct {
	T *types.Named
	i int
}

type fieldOfAddrFn func(v ssa.Value) (fld, *ssa.FieldAddr, bool)

// streamPosCaller: "" when c defines k after the call `site` and before every read reachable from it;
// "wrapper" when c neither defines nor reads it after the call; otherwise the offending read.
func streamPosCaller(p *Prog, c *ssa.Function, site ssa.CallInstruction, k fld, rd map[*ssa.Function]bool, isDef func(ssa.Instruction) bool, foa fieldOfAddrFn) string {
	sb := site.Block()
	si := -1
	for i, in := range sb.Instrs {
		if in == site.(ssa.Instruction) {
			si = i
		}
	}
	type loc struct {
		b *ssa.BasicBlock
		i int
	}
	var defs []loc
	var uses []loc
	var useWhat []string
	reach := blocksReachableFrom(sb)
	after := func(b *ssa.BasicBlock, i int) bool {
		if b == sb {
			// the same block after the call, or the block again through a loop
			return i > si || reach[sb]
		}
		return reach[b]
	}
	for _, b := range c.Blocks {
		for i, in := range b.Instrs {
			if in == site.(ssa.Instruction) || !after(b, i) {
				continue
			}
			if isDef(in) {
				defs = append(defs, loc{b, i})
				continue
			}
			switch x := in.(type) {
			case *ssa.UnOp:
				if x.Op == token.MUL {
					if kk, _, ok := foa(x.X); ok && kk.T == k.T && kk.i == k.i {
						uses = append(uses, loc{b, i})
						useWhat = append(useWhat, "a load of the field at "+p.posStr(x.Pos()))
					}
				}
			case ssa.CallInstruction:
				for _, cal := range p.Callees(x) {
					if rd[cal] {
						uses = append(uses, loc{b, i})
						useWhat = append(useWhat, "the call of "+fnName(cal)+" at "+p.posStr(instrPos(x)))
						break
					}
				}
			}
		}
	}
	if len(uses) == 0 && len(defs) == 0 {
		return "wrapper"
	}
	for ui, u := range uses {
		ok := false
		for _, d := range defs {
			// the definition lies after the call and before the use on every path: it dominates the use and
			// is dominated by (or follows in the block of) the call
			afterCall := (d.b == sb && d.i > si) || (d.b != sb && sb.Dominates(d.b))
			beforeUse := (d.b == u.b && d.i < u.i) || (d.b != u.b && d.b.Dominates(u.b))
			if afterCall && beforeUse {
				ok = true
				break
			}
		}
		if !ok {
			names := fnName(c)
			return fmt.Sprintf("%s re-points the stream (%s) and then reaches %s with what the previous stream left in the field: no store independent of the old value lies between them", names, p.posStr(instrPos(site.(ssa.Instruction))), useWhat[ui])
		}
	}
	return ""
}

// ---- POOL-NIL (C01, C04, C05) ---------------------------------------------------------------------
//
// Every decoder takes its buffers with pool.Get().(*T) and uses the result at once. That is safe only while
// nothing but non-nil objects enters the pool (New returns a fresh object - POOL-NEW): a typed nil handed to Put
// is stored (sync.Pool refuses only the untyped nil) and the next Get anywhere in the process dereferences it.
// Obligation per Put: the argument is a Get result, or a field that every constructor of its struct fills in, or
// the Put is guarded by a nil test of that field or by the flag set where the object was taken.
func rulePoolNil(p *Prog, r *Report) {
	r.Explain("POOL-NIL: every value handed to sync.Pool.Put is a Get result of that pool, a struct field that every constructor of the struct fills in and that no function sets to nil, or is released under a nil test of the field or under the flag set where the object was taken. sync.Pool stores a typed nil, and every decoder dereferences Get().(*T) at once.")
	for _, ps := range poolSites(p, "Put") {
		if ps.pool == nil {
			continue // reported by POOL-OWN
		}
		f := ps.f
		c := ps.call.Common()
		v := c.Args[1]
		if mi, ok := v.(*ssa.MakeInterface); ok {
			v = mi.X
		}
		key := fmt.Sprintf("%s | Put %s receives a non-nil object", fnName(f), globalName(ps.pool))
		at := p.posStr(instrPos(ps.call))
		why := poolArgMayBeNil(p, ps, v, 0, map[ssa.Value]bool{})
		if why == "" {
			r.OK("POOL-NIL", key, at, "the released object is a Get result, or a field filled in by every constructor of its struct, or the release is guarded")
		} else {
			r.Bad("POOL-NIL", key, at, why+": the typed nil is stored by sync.Pool and the next Get in any decode dereferences it")
		}
	}
}

func poolArgMayBeNil(p *Prog, ps poolSite, v ssa.Value, depth int, seen map[ssa.Value]bool) string {
	if depth > 8 || seen[v] {
		return ""
	}
	seen[v] = true
	if isGetOn(v, ps.pool) {
		return ""
	}
	switch x := v.(type) {
	case *ssa.Phi:
		for _, e := range x.Edges {
			if w := poolArgMayBeNil(p, ps, e, depth+1, seen); w != "" {
				return w
			}
		}
		return ""
	case *ssa.ChangeType:
		return poolArgMayBeNil(p, ps, x.X, depth+1, seen)
	case *ssa.Alloc, *ssa.MakeSlice, *ssa.MakeMap:
		return ""
	case *ssa.Const:
		if x.IsNil() {
			return "a nil constant is handed to Put"
		}
		return ""
	case *ssa.UnOp:
		if x.Op != token.MUL {
			return ""
		}
		switch a := x.X.(type) {
		case *ssa.Alloc:
			for _, rf := range refs(a) {
				if st, ok := rf.(*ssa.Store); ok && st.Addr == ssa.Value(a) {
					if w := poolArgMayBeNil(p, ps, st.Val, depth+1, seen); w != "" {
						return w
					}
				}
			}
			return ""
		case *ssa.FieldAddr:
			n := namedOfPtr(a.X.Type())
			if n == nil {
				return ""
			}
			if putGuardedByGetFlag(p, ps) || guardedByFieldNonNil(ps.call, a) {
				return ""
			}
			fname := n.Obj().Name() + "." + fieldName(a.X.Type(), a.Field)
			// every store into the field is non-nil …
			for _, g := range p.AllLibFns() {
				bad := ""
				eachInstr(g, func(_ *ssa.BasicBlock, _ int, in ssa.Instruction) {
					if st, ok := in.(*ssa.Store); ok {
						if fa, ok := st.Addr.(*ssa.FieldAddr); ok && fa.Field == a.Field && namedOfPtr(fa.X.Type()) == n {
							if cst, ok := st.Val.(*ssa.Const); ok && cst.IsNil() {
								bad = fmt.Sprintf("%s stores nil into %s (%s) and the release is not guarded by a nil test", fnName(g), fname, p.posStr(st.Pos()))
							}
						}
					}
				})
				if bad != "" {
					return bad
				}
			}
			// … and every constructor fills it in
			for _, g := range p.AllLibFns() {
				for _, b := range g.Blocks {
					for _, in := range b.Instrs {
						al, ok := in.(*ssa.Alloc)
						if !ok {
							continue
						}
						pt, ok := al.Type().Underlying().(*types.Pointer)
						if !ok || pt.Elem() != types.Type(n) {
							continue
						}
						whole, field := false, false
						for _, rf := range refs(al) {
							switch u := rf.(type) {
							case *ssa.Store:
								if u.Addr == ssa.Value(al) {
									whole = true
								}
							case *ssa.FieldAddr:
								if u.Field == a.Field {
									for _, rf2 := range refs(u) {
										if st, ok := rf2.(*ssa.Store); ok && st.Addr == ssa.Value(u) {
											field = true
										}
									}
								}
							}
						}
						if !whole && !field {
							return fmt.Sprintf("%s creates a %s without filling in %s (%s), so the field handed to Put can be nil", fnName(g), n.Obj().Name(), fname, p.posStr(al.Pos()))
						}
					}
				}
			}
			return ""
		}
	}
	return ""
}

// guardedByFieldNonNil: the call's block is dominated by the true edge of `x.f != nil` (or the false edge of
// `x.f == nil`) for the same field.
func guardedByFieldNonNil(site ssa.CallInstruction, fa *ssa.FieldAddr) bool {
	for _, c := range condsAt(site.Block()) {
		bo, ok := c.V.(*ssa.BinOp)
		if !ok {
			continue
		}
		var other ssa.Value
		if isNilConst(bo.Y) {
			other = bo.X
		} else if isNilConst(bo.X) {
			other = bo.Y
		} else {
			continue
		}
		ld, ok := other.(*ssa.UnOp)
		if !ok || ld.Op != token.MUL {
			continue
		}
		fa2, ok := ld.X.(*ssa.FieldAddr)
		if !ok || fa2.Field != fa.Field || fa2.X.Type() != fa.X.Type() {
			continue
		}
		if (bo.Op == token.NEQ && c.True) || (bo.Op == token.EQL && !c.True) {
			return true
		}
	}
	return false
}

// poolDerived: "" unless v may point into an object obtained from a sync.Pool.
func poolDerived(p *Prog, v ssa.Value, depth int, seen map[ssa.Value]bool) string {
	if depth > 12 || seen[v] {
		return ""
	}
	seen[v] = true
	isGet := func(c *ssa.CallCommon) bool { return isCallTo(c, "(*sync.Pool).Get") }
	switch x := v.(type) {
	case *ssa.TypeAssert:
		return poolDerived(p, x.X, depth+1, seen)
	case *ssa.Extract:
		return poolDerived(p, x.Tuple, depth+1, seen)
	case *ssa.Slice:
		return poolDerived(p, x.X, depth+1, seen)
	case *ssa.ChangeType:
		return poolDerived(p, x.X, depth+1, seen)
	case *ssa.MakeInterface:
		return poolDerived(p, x.X, depth+1, seen)
	case *ssa.FieldAddr:
		return poolDerived(p, x.X, depth+1, seen)
	case *ssa.IndexAddr:
		return poolDerived(p, x.X, depth+1, seen)
	case *ssa.Phi:
		for _, e := range x.Edges {
			if w := poolDerived(p, e, depth+1, seen); w != "" {
				return w
			}
		}
	case *ssa.UnOp:
		if x.Op != token.MUL {
			return ""
		}
		if a, ok := x.X.(*ssa.Alloc); ok {
			for _, rf := range refs(a) {
				if st, ok := rf.(*ssa.Store); ok && st.Addr == ssa.Value(a) {
					if w := poolDerived(p, st.Val, depth+1, seen); w != "" {
						return w
					}
				}
			}
			return ""
		}
		if !pointerLike(x.Type()) {
			return ""
		}
		return poolDerived(p, x.X, depth+1, seen)
	case *ssa.Call:
		cc := &x.Call
		if isGet(cc) {
			g := ""
			if len(cc.Args) > 0 {
				if gl := globalOf(cc.Args[0]); gl != nil {
					g = " " + globalName(gl)
				}
			}
			return "an object taken from the pool" + g + " at " + p.posStr(x.Pos())
		}
		if b, ok := cc.Value.(*ssa.Builtin); ok {
			if b.Name() == "append" {
				return poolDerived(p, cc.Args[0], depth+1, seen)
			}
			return ""
		}
		sc := cc.StaticCallee()
		if sc != nil && isRepoFn(sc) && sc.Blocks != nil {
			w := ""
			eachInstr(sc, func(_ *ssa.BasicBlock, _ int, in ssa.Instruction) {
				if rt, ok := in.(*ssa.Return); ok && w == "" {
					for _, rv := range rt.Results {
						if pointerLike(rv.Type()) {
							if d := poolDerived(p, rv, depth+1, seen); d != "" {
								w = d
							}
						}
					}
				}
			})
			return w
		}
		// a dependency: the result may share memory with any slice or pointer argument (strconv.AppendFloat(dst, …))
		if !pointerLike(x.Type()) {
			return ""
		}
		for _, a := range callArgs(cc) {
			if _, isStr := a.Type().Underlying().(*types.Basic); isStr {
				continue
			}
			if pointerLike(a.Type()) {
				if w := poolDerived(p, a, depth+1, seen); w != "" {
					return w
				}
			}
		}
	}
	return ""
}

// LOGCTX (C05): no decode writes into a logger's context.
//
// Every decoder holds a by-value copy of one logger (exif2.Logger, the package loggers). zerolog.Logger copies
// share the backing array of their context, and (*Logger).UpdateContext appends to it in place: two decodes that
// "add a field to their own logger" write the same bytes - a data race, and log lines of one decode carrying the
// other's fields. Obligation: no library function calls UpdateContext (a per-decode logger is made with
// With()...Logger(), which copies).
func ruleLogCtx(p *Prog, r *Report) {
	r.Explain("LOGCTX: no library function calls (*zerolog.Logger).UpdateContext: logger values are copied by value into every decoder and the copies share the context's backing array, which UpdateContext appends to in place.")
	n, bad := 0, ""
	for _, f := range p.AllLibFns() {
		eachCall(f, func(site ssa.CallInstruction) {
			sc := site.Common().StaticCallee()
			if sc == nil || sc.Pkg == nil || sc.Pkg.Pkg.Path() != "github.com/rs/zerolog" {
				return
			}
			n++
			if sc.Name() == "UpdateContext" && bad == "" {
				bad = fmt.Sprintf("%s calls UpdateContext at %s: the logger is a by-value copy whose context array is shared with every other decoder's copy, so concurrent decodes write the same bytes", fnName(f), p.posStr(instrPos(site)))
			}
		})
	}
	key := "library | no in-place update of a shared logger context"
	if bad != "" {
		r.Bad("LOGCTX", key, "-", bad)
	} else {
		r.OK("LOGCTX", key, "-", fmt.Sprintf("%d zerolog calls scanned, none is UpdateContext", n))
	}
}
