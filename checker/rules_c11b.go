package main

// C11 — FRAME: a box's remaining count is set from the size it was framed with.
//
// Every store to box.size (32-bit size field, 64-bit largesize) must be followed, on every path on which the
// function can still succeed, by a store box.remain = int(<that size>) on the same box before the function returns
// or hands the box to one of its methods. A size that is updated without the remaining count (or a remaining count
// taken from somewhere else) frames the box with one length and accounts it with another.

import (
	"fmt"
	"go/token"
	"go/types"

	"golang.org/x/tools/go/ssa"
)

func boxFieldStore(in ssa.Instruction, field string) (*ssa.Store, ssa.Value, bool) {
	st, ok := in.(*ssa.Store)
	if !ok {
		return nil, nil, false
	}
	fa, ok := st.Addr.(*ssa.FieldAddr)
	if !ok {
		return nil, nil, false
	}
	n := namedOfPtr(fa.X.Type())
	if n == nil || n.Obj().Name() != "box" || n.Obj().Pkg() == nil || n.Obj().Pkg().Name() != "isobmff" {
		return nil, nil, false
	}
	if fieldName(fa.X.Type(), fa.Field) != field {
		return nil, nil, false
	}
	return st, fa.X, true
}

func stripConv(v ssa.Value) ssa.Value {
	for i := 0; i < 6; i++ {
		switch x := v.(type) {
		case *ssa.Convert:
			v = x.X
		case *ssa.ChangeType:
			v = x.X
		default:
			return v
		}
	}
	return v
}

func ruleFrame(p *Prog, r *Report, sp *ssa.Package) {
	for _, f := range pkgFns(sp, p) {
		ord := 0
		for _, b := range f.Blocks {
			for i, in := range b.Instrs {
				sizeSt, base, ok := boxFieldStore(in, "size")
				if !ok {
					continue
				}
				ord++
				key := fmt.Sprintf("%s | box.size store #%d is followed by remain = int(size)", fnName(f), ord)
				at := p.posStr(instrPos(sizeSt))
				sizeVal := stripConv(sizeSt.Val)
				// does instruction x re-establish remain from this size?
				fixes := func(x ssa.Instruction) bool {
					rs, rb, ok := boxFieldStore(x, "remain")
					if !ok || rb != base {
						return false
					}
					v := stripConv(rs.Val)
					if v == sizeVal {
						return true
					}
					// the same field read twice (go/ssa does no CSE): size: int64(x.f), remain: int(x.f)
					if a, b := signLeaf(v, 0), signLeaf(sizeVal, 0); a == b && len(a) > 6 && a[:6] == "field:" {
						return true
					}
					// int(b.size) read back after the store
					if ld, ok := v.(*ssa.UnOp); ok && ld.Op == token.MUL {
						if fa, ok := ld.X.(*ssa.FieldAddr); ok && fa.X == base && fieldName(fa.X.Type(), fa.Field) == "size" {
							return true
						}
					}
					return false
				}
				// uses of the box that need a consistent remain: calls with the box as receiver/argument, a later size store
				// is a new obligation of its own and ends this one
				usesBox := func(x ssa.Instruction) bool {
					ci, ok := x.(ssa.CallInstruction)
					if !ok {
						return false
					}
					for _, a := range callArgs(ci.Common()) {
						if a == base {
							return true
						}
					}
					return false
				}
				bad := ""
				seen := map[*ssa.BasicBlock]bool{}
				var walk func(blk *ssa.BasicBlock, from int)
				walk = func(blk *ssa.BasicBlock, from int) {
					for j := from; j < len(blk.Instrs) && bad == ""; j++ {
						x := blk.Instrs[j]
						if fixes(x) {
							return
						}
						if _, _, again := boxFieldStore(x, "size"); again {
							return // superseded: the later store carries its own obligation
						}
						if usesBox(x) {
							bad = fmt.Sprintf("the box is handed to %s at %s while remain still holds the count of an earlier size", shortCallee(x.(ssa.CallInstruction).Common()), p.posStr(instrPos(x)))
							return
						}
						if rt, ok := x.(*ssa.Return); ok {
							// a return that reports an error made here gives the box up
							if n := len(rt.Results); n > 0 && isErrorType(rt.Results[n-1].Type()) {
								if _, isCall := rt.Results[n-1].(*ssa.Call); isCall {
									return
								}
								if _, isMI := rt.Results[n-1].(*ssa.MakeInterface); isMI {
									return
								}
							}
							bad = fmt.Sprintf("the function returns at %s with size updated and remain not set from it", p.posStr(instrPos(x)))
							return
						}
					}
					for _, s := range blk.Succs {
						if bad == "" && !seen[s] {
							seen[s] = true
							walk(s, 0)
						}
					}
				}
				walk(b, i+1)
				if bad != "" {
					r.Bad("FRAME", key, at, bad)
				} else {
					r.OK("FRAME", key, at, "every continuing path stores remain = int(size) before the box is used or returned")
				}
			}
		}
	}
}

// ---- BOXCOPY: the bookkeeping of a box lives in one place ----------------------------------------------------

// ruleBoxCopy: a box struct is never duplicated out of somebody else's box. A whole-struct load through a pointer
// that is not one of the function's own locals (`*b` of a *box parameter, a box field of another object) makes a
// copy whose remain is then charged instead of the original's: the enclosing boxes are charged through the outer
// pointer while the original still believes its payload is unread. Loads of a function's own local (returning the
// box it just created, passing it on by value to be stored) are creation, not duplication.
func ruleBoxCopy(p *Prog, r *Report, sp *ssa.Package) {
	n := 0
	for _, f := range pkgFns(sp, p) {
		eachInstr(f, func(_ *ssa.BasicBlock, _ int, in ssa.Instruction) {
			u, ok := in.(*ssa.UnOp)
			if !ok || u.Op != token.MUL {
				return
			}
			nt, ok := u.Type().(*types.Named)
			if !ok || nt.Obj().Name() != "box" || nt.Obj().Pkg() == nil || nt.Obj().Pkg().Name() != "isobmff" {
				return
			}
			n++
			key := fmt.Sprintf("%s | copy of box %s", fnName(f), shortVal(u.X))
			at := p.posStr(instrPos(u))
			if _, local := u.X.(*ssa.Alloc); local {
				r.OK("BOXCOPY", key, at, "the function's own local (a box it created or received by value)")
				return
			}
			// a copy that is only read (isType, the zerolog marshaler) is harmless; one that is consumed from is not
			bad := ""
			for _, rf := range refs(u) {
				switch x := rf.(type) {
				case ssa.CallInstruction:
					args := callArgs(x.Common())
					for _, g := range p.Callees(x) {
						for k, a := range args {
							if a == ssa.Value(u) && k < len(g.Params) && mutatesBoxParam(p, g, k, 0) {
								bad = fmt.Sprintf("the copy is handed to %s, which consumes from it", fnName(g))
							}
						}
					}
				case *ssa.Store:
					if x.Val == ssa.Value(u) {
						bad = "the copy is stored and lives on beside the original"
					}
				case *ssa.MakeInterface, *ssa.DebugRef, *ssa.Field:
				default:
					bad = fmt.Sprintf("the copy is used by %T", rf)
				}
			}
			if bad != "" {
				r.Bad("BOXCOPY", key, at, "a box owned by someone else is copied by value and "+bad+": what the copy consumes is not charged to the original")
			} else {
				r.OK("BOXCOPY", key, at, "read-only copy (compared or logged)")
			}
		})
	}
	r.Extra("boxcopy_loads", n)
}

// mutatesBoxParam: g's by-value box parameter #k is written or handed (by address) to something that may write it.
func mutatesBoxParam(p *Prog, g *ssa.Function, k, depth int) bool {
	if g.Blocks == nil || depth > 4 || k >= len(g.Params) {
		return depth > 4
	}
	prm := g.Params[k]
	mut := false
	var cells []ssa.Value
	for _, rf := range refs(prm) {
		if st, ok := rf.(*ssa.Store); ok && st.Val == ssa.Value(prm) {
			cells = append(cells, st.Addr)
		}
		if ci, ok := rf.(ssa.CallInstruction); ok {
			args := callArgs(ci.Common())
			for _, h := range p.Callees(ci) {
				for j, a := range args {
					if a == ssa.Value(prm) && mutatesBoxParam(p, h, j, depth+1) {
						mut = true
					}
				}
			}
		}
	}
	for _, c := range cells {
		for _, rf := range refs(c) {
			switch x := rf.(type) {
			case *ssa.FieldAddr:
				for _, r2 := range refs(x) {
					if st, ok := r2.(*ssa.Store); ok && st.Addr == ssa.Value(x) {
						mut = true
					}
				}
			case ssa.CallInstruction:
				// &copy passed on: pointer-receiver methods (Peek, Discard, close, …) consume through it
				for _, a := range callArgs(x.Common()) {
					if a == c {
						mut = true
					}
				}
			}
		}
	}
	return mut
}

// ruleOuterLink: box.outer links a child to the box it was cut from; what the child consumes is charged along that
// link. The link must be the parent itself — a *box the function received or a box it owns — never the address of
// a by-value copy (a value receiver or value parameter spilled to a local): charging a copy leaves the real parent
// believing its payload is unread.
func ruleOuterLink(p *Prog, r *Report, sp *ssa.Package) {
	n := 0
	for _, f := range pkgFns(sp, p) {
		eachInstr(f, func(_ *ssa.BasicBlock, _ int, in ssa.Instruction) {
			st, v, ok := boxFieldStore(in, "outer")
			_ = v
			if !ok {
				return
			}
			n++
			key := fmt.Sprintf("%s | box.outer = %s", fnName(f), shortVal(st.Val))
			at := p.posStr(instrPos(st))
			bad := ""
			if al, isAlloc := st.Val.(*ssa.Alloc); isAlloc {
				for _, rf := range refs(al) {
					if s2, ok := rf.(*ssa.Store); ok && s2.Addr == ssa.Value(al) {
						if prm, ok := s2.Val.(*ssa.Parameter); ok {
							if _, isPtr := prm.Type().Underlying().(*types.Pointer); !isPtr {
								bad = fmt.Sprintf("the link points at the local copy of the by-value parameter %s, not at the box the caller holds", prm.Name())
							}
						}
					}
				}
			}
			if bad != "" {
				r.Bad("BOXCOPY", key, at, bad+": bytes consumed through the child are charged to the copy")
			} else {
				r.OK("BOXCOPY", key, at, "the link is the parent box itself")
			}
		})
	}
	r.Extra("outer_links", n)
}

// ---- CBCLOSE: whatever a callback returns, the box it read from is closed before the handler returns ----------
//
// The callbacks (ExifReader, XMPReader, PreviewImageReader) stop reading wherever they like — a parser that gives up
// on malformed XMP leaves the reader in the middle of the payload. The handler that made the call must therefore
// pass a (*box).close() on every path from the call to any of its returns, the failing ones included; otherwise
// the next ReadMetadata call parses payload bytes as a box header.
func ruleCallbackClose(p *Prog, r *Report, sp *ssa.Package) {
	cls := p.Func("isobmff", "*box", "close")
	if cls == nil {
		r.Undecided("CBCLOSE", "isobmff.(*box).close", "-", "unresolved anchor")
		return
	}
	for _, f := range pkgFns(sp, p) {
		eachCall(f, func(site ssa.CallInstruction) {
			c := site.Common()
			if c.IsInvoke() || c.StaticCallee() != nil {
				return
			}
			if _, isB := c.Value.(*ssa.Builtin); isB {
				return
			}
			sig, ok := c.Value.Type().Underlying().(*types.Signature)
			if !ok || sig.Params().Len() == 0 || sig.Params().At(0).Type().String() != "io.Reader" {
				return
			}
			key := fmt.Sprintf("%s | box closed after callback %s", fnName(f), shortVal(c.Value))
			at := p.posStr(instrPos(site))
			in, _ := site.(ssa.Instruction)
			closesFrom := func(b *ssa.BasicBlock, from int) bool {
				for i := from; i < len(b.Instrs); i++ {
					if cc, ok := b.Instrs[i].(ssa.CallInstruction); ok && cc.Common().StaticCallee() == cls {
						return true
					}
				}
				return false
			}
			bad := ""
			// a close() deferred before the callback runs on every exit, whatever happens after
			deferred := false
			eachInstr(f, func(b *ssa.BasicBlock, _ int, x ssa.Instruction) {
				if d, ok := x.(*ssa.Defer); ok && d.Call.StaticCallee() == cls && instrDominates(d, in) {
					deferred = true
				}
			})
			if deferred {
				r.OK("CBCLOSE", key, at, "(*box).close() is deferred before the callback is invoked")
				return
			}
			seen := map[*ssa.BasicBlock]bool{}
			var walk func(b *ssa.BasicBlock, from int)
			walk = func(b *ssa.BasicBlock, from int) {
				if bad != "" {
					return
				}
				if closesFrom(b, from) {
					return
				}
				if len(b.Instrs) > 0 {
					if rt, ok := b.Instrs[len(b.Instrs)-1].(*ssa.Return); ok {
						bad = "the return at " + p.posStr(instrPos(rt)) + " is reached from the callback without close() on the box: when the callback stops early the reader is left inside the payload and the next box header is read from payload bytes"
						return
					}
				}
				for _, s := range b.Succs {
					if !seen[s] {
						seen[s] = true
						walk(s, 0)
					}
				}
			}
			walk(in.Block(), instrIndex(in)+1)
			if bad != "" {
				r.Bad("CBCLOSE", key, at, bad)
			} else {
				r.OK("CBCLOSE", key, at, "every path from the callback to a return passes (*box).close()")
			}
		})
	}
}

// ---- NONNEG: nothing is skipped backwards ------------------------------------------------------------------------
//
// (*box).Discard(n) checks remain >= n and then subtracts n from the box and all its parents. A negative n passes
// the check and GROWS every remain on the way up; the error only comes from the buffered reader at the bottom, and
// the close() that follows then skips the inflated remainder — past the end of the box. Every count handed to
// (*box).Discard and (*Reader).discard must therefore be proved non-negative (E3): a constant, a length, a
// conversion of an unsigned field, a difference whose order a dominating test establishes.
func ruleDiscardNonNeg(p *Prog, r *Report, sp *ssa.Package) {
	e := p.E3()
	targets := map[*ssa.Function]bool{}
	for _, nm := range [][2]string{{"*box", "Discard"}, {"*Reader", "discard"}} {
		if f := p.Func("isobmff", nm[0], nm[1]); f != nil {
			targets[f] = true
		}
	}
	if len(targets) == 0 {
		r.Undecided("NONNEG", "isobmff.(*box).Discard", "-", "unresolved anchor")
		return
	}
	// the callee's own guard: in (*box).Discard every store to remain and every delegation is dominated by n >= 0
	// (true edge) or n < 0 (false edge). With it no caller can do harm and the call sites need no proof.
	guarded := map[*ssa.Function]bool{}
	if f := p.Func("isobmff", "*box", "Discard"); f != nil && len(f.Params) == 2 {
		n := ssa.Value(f.Params[1])
		nonNegAt := func(b *ssa.BasicBlock) bool {
			for _, cd := range condsAt(b) {
				bo, ok := cd.V.(*ssa.BinOp)
				if !ok {
					continue
				}
				if bo.X == n {
					if k, ok := constInt(bo.Y); ok && k == 0 {
						if (cd.True && bo.Op == token.GEQ) || (!cd.True && bo.Op == token.LSS) {
							return true
						}
					}
					if k, ok := constInt(bo.Y); ok && k == -1 && cd.True && bo.Op == token.GTR {
						return true
					}
				}
				if bo.Y == n {
					if k, ok := constInt(bo.X); ok && k == 0 {
						if (cd.True && bo.Op == token.LEQ) || (!cd.True && bo.Op == token.GTR) {
							return true
						}
					}
				}
			}
			return false
		}
		all, cnt := true, 0
		eachInstr(f, func(b *ssa.BasicBlock, _ int, in ssa.Instruction) {
			switch x := in.(type) {
			case *ssa.Store:
				if fa, ok := x.Addr.(*ssa.FieldAddr); ok && fieldName(fa.X.Type(), fa.Field) == "remain" {
					cnt++
					if !nonNegAt(b) {
						all = false
					}
				}
			case ssa.CallInstruction:
				if sc := x.Common().StaticCallee(); sc != nil && targets[sc] {
					cnt++
					if !nonNegAt(b) {
						all = false
					}
				}
			}
		})
		key := "isobmff.(*box).Discard | a negative count is refused before anything is changed"
		if all && cnt > 0 {
			guarded[f] = true
			r.OK("NONNEG", key, p.posStr(f.Pos()), fmt.Sprintf("%d state changes and delegations, all under n >= 0", cnt))
		} else {
			r.Bad("NONNEG", key, p.posStr(f.Pos()), "(*box).Discard changes remain or delegates without having tested n >= 0: a negative count passes remain >= n and enlarges the box and every enclosing box; the close() that follows then reads past their ends (the call sites below show where such a count can come from)")
		}
	}
	for _, f := range pkgFns(sp, p) {
		eachCall(f, func(site ssa.CallInstruction) {
			c := site.Common()
			sc := c.StaticCallee()
			if sc == nil || !targets[sc] || len(c.Args) < 2 {
				return
			}
			arg := c.Args[1]
			key := fmt.Sprintf("%s | %s(%s)", fnName(f), sc.Name(), shortVal(arg))
			at := p.posStr(instrPos(site))
			if k, ok := constInt(arg); ok {
				if k >= 0 {
					r.OK("NONNEG", key, at, "constant count")
				} else {
					r.Bad("NONNEG", key, at, "negative constant count")
				}
				return
			}
			if e.ProveLE(site.Block(), zeroT, e.termOf(arg), 0) {
				r.OK("NONNEG", key, at, "count proved non-negative")
				return
			}
			if guarded[sc] {
				r.OK("NONNEG", key, at, "count not proved non-negative here (range "+e.rng(arg).String()+"), refused by the callee's own guard")
				return
			}
			// inside Discard itself the delegation to the parent passes the same n on: accepted when the function's own
			// parameter is what is passed (the caller's obligation)
			if prm, ok := arg.(*ssa.Parameter); ok && targets[f] && prm.Parent() == f {
				r.OK("NONNEG", key, at, "the caller's own count passed on")
				return
			}
			rg := e.rng(arg)
			r.Bad("NONNEG", key, at, fmt.Sprintf("the count may be negative (range %s): a negative skip passes the remain >= n check and enlarges the remaining size of the box and of every enclosing box, and the close() that follows reads past their ends", rg))
		})
	}
}

// ---- ADJ: what a Read took is charged to the box and to every box around it ---------------------------------------
//
// (*box).adjust(n) is how box.Read accounts for bytes taken: it lowers remain of the box (by at most what is left) and
// hands the same count to the enclosing box, all the way out. The hand-over must be a call of adjust on b.outer —
// not a direct subtraction on the parent, which stops one level up — and it must depend on nothing but
// b.outer != nil: a further condition (remain > 0, n > 0 …) leaves the parents uncharged for some reads, by an amount
// that depends on how the reader chunks its data.
func ruleAdjustChain(p *Prog, r *Report) {
	f := p.Func("isobmff", "*box", "adjust")
	key := "isobmff.(*box).adjust | the count is handed to every enclosing box"
	if f == nil || len(f.Params) != 2 {
		r.Undecided("ADJ", key, "-", "unresolved anchor")
		return
	}
	at := p.posStr(f.Pos())
	bad := ""
	nRec := 0
	eachCall(f, func(site ssa.CallInstruction) {
		c := site.Common()
		if c.StaticCallee() != f {
			return
		}
		nRec++
		// receiver: load of b.outer
		okRecv := false
		if u, ok := c.Args[0].(*ssa.UnOp); ok && u.Op == token.MUL {
			if fa, ok := u.X.(*ssa.FieldAddr); ok && fa.X == ssa.Value(f.Params[0]) && fieldName(fa.X.Type(), fa.Field) == "outer" {
				okRecv = true
			}
		}
		if !okRecv {
			bad = "the recursive call is not made on b.outer"
			return
		}
		for _, cd := range condsAt(site.Block()) {
			bo, ok := cd.V.(*ssa.BinOp)
			isOuterTest := false
			if ok && (bo.Op == token.NEQ || bo.Op == token.EQL) && (isNilConst(bo.X) || isNilConst(bo.Y)) {
				v := bo.X
				if isNilConst(bo.X) {
					v = bo.Y
				}
				if u, ok := v.(*ssa.UnOp); ok && u.Op == token.MUL {
					if fa, ok := u.X.(*ssa.FieldAddr); ok && fieldName(fa.X.Type(), fa.Field) == "outer" {
						isOuterTest = true
					}
				}
			}
			if !isOuterTest {
				bad = "the hand-over to the enclosing box is conditional on " + shortVal(cd.V) + " (" + p.posStr(instrPos(site)) + "): for some reads the parents are not charged"
			}
		}
	})
	// no direct store to the parent's remain
	eachInstr(f, func(_ *ssa.BasicBlock, _ int, in ssa.Instruction) {
		st, ok := in.(*ssa.Store)
		if !ok {
			return
		}
		fa, ok := st.Addr.(*ssa.FieldAddr)
		if !ok || fieldName(fa.X.Type(), fa.Field) != "remain" {
			return
		}
		if fa.X != ssa.Value(f.Params[0]) {
			bad = "adjust writes the remain of another box directly (" + p.posStr(instrPos(st)) + "): the boxes further out are not charged"
		}
	})
	switch {
	case bad != "":
		r.Bad("ADJ", key, at, bad)
	case nRec == 0:
		r.Bad("ADJ", key, at, "adjust does not hand the count to b.outer.adjust: only the box itself (and at most its parent) is charged, the boxes further out keep too large a remainder and their close() skips into the next box")
	default:
		r.OK("ADJ", key, at, "b.outer.adjust(n) under b.outer != nil only")
	}
}
