package main

// C11 — FRAME: a box's remaining count is set from the size it was framed with.
//
// Every store to box.size (32-bit size field, 64-bit largesize) must be followed, on every path on which the
// function can still succeed, by a store box.remain = int(<that size>) on the same box before the function returns
// or hands the box to one of its methods. A size that is updated without the remaining count (or a remaining count
// taken from somewhere else) frames the box with one length and accounts it with another.

import (
	"fmt"
	"go/token"

	"golang.org/x/tools/go/ssa"
)

func boxFieldStore(in ssa.Instruction, field string) (*ssa.Store, ssa.Value, bool) {
	st, ok := in.(*ssa.Store)
	if !ok {
		return nil, nil, false
	}
	fa, ok := st.Addr.(*ssa.FieldAddr)
	if !ok {
		return nil, nil, false
	}
	n := namedOfPtr(fa.X.Type())
	if n == nil || n.Obj().Name() != "box" || n.Obj().Pkg() == nil || n.Obj().Pkg().Name() != "isobmff" {
		return nil, nil, false
	}
	if fieldName(fa.X.Type(), fa.Field) != field {
		return nil, nil, false
	}
	return st, fa.X, true
}

func stripConv(v ssa.Value) ssa.Value {
	for i := 0; i < 6; i++ {
		switch x := v.(type) {
		case *ssa.Convert:
			v = x.X
		case *ssa.ChangeType:
			v = x.X
		default:
			return v
		}
	}
	return v
}

func ruleFrame(p *Prog, r *Report, sp *ssa.Package) {
	for _, f := range pkgFns(sp, p) {
		ord := 0
		for _, b := range f.Blocks {
			for i, in := range b.Instrs {
				sizeSt, base, ok := boxFieldStore(in, "size")
				if !ok {
					continue
				}
				ord++
				key := fmt.Sprintf("%s | box.size store #%d is followed by remain = int(size)", fnName(f), ord)
				at := p.posStr(instrPos(sizeSt))
				sizeVal := stripConv(sizeSt.Val)
				// does instruction x re-establish remain from this size?
				fixes := func(x ssa.Instruction) bool {
					rs, rb, ok := boxFieldStore(x, "remain")
					if !ok || rb != base {
						return false
					}
					v := stripConv(rs.Val)
					if v == sizeVal {
						return true
					}
					// the same field read twice (go/ssa does no CSE): size: int64(x.f), remain: int(x.f)
					if a, b := signLeaf(v, 0), signLeaf(sizeVal, 0); a == b && len(a) > 6 && a[:6] == "field:" {
						return true
					}
					// int(b.size) read back after the store
					if ld, ok := v.(*ssa.UnOp); ok && ld.Op == token.MUL {
						if fa, ok := ld.X.(*ssa.FieldAddr); ok && fa.X == base && fieldName(fa.X.Type(), fa.Field) == "size" {
							return true
						}
					}
					return false
				}
				// uses of the box that need a consistent remain: calls with the box as receiver/argument, a later size store
				// is a new obligation of its own and ends this one
				usesBox := func(x ssa.Instruction) bool {
					ci, ok := x.(ssa.CallInstruction)
					if !ok {
						return false
					}
					for _, a := range callArgs(ci.Common()) {
						if a == base {
							return true
						}
					}
					return false
				}
				bad := ""
				seen := map[*ssa.BasicBlock]bool{}
				var walk func(blk *ssa.BasicBlock, from int)
				walk = func(blk *ssa.BasicBlock, from int) {
					for j := from; j < len(blk.Instrs) && bad == ""; j++ {
						x := blk.Instrs[j]
						if fixes(x) {
							return
						}
						if _, _, again := boxFieldStore(x, "size"); again {
							return // superseded: the later store carries its own obligation
						}
						if usesBox(x) {
							bad = fmt.Sprintf("the box is handed to %s at %s while remain still holds the count of an earlier size", shortCallee(x.(ssa.CallInstruction).Common()), p.posStr(instrPos(x)))
							return
						}
						if rt, ok := x.(*ssa.Return); ok {
							// a return that reports an error made here gives the box up
							if n := len(rt.Results); n > 0 && isErrorType(rt.Results[n-1].Type()) {
								if _, isCall := rt.Results[n-1].(*ssa.Call); isCall {
									return
								}
								if _, isMI := rt.Results[n-1].(*ssa.MakeInterface); isMI {
									return
								}
							}
							bad = fmt.Sprintf("the function returns at %s with size updated and remain not set from it", p.posStr(instrPos(x)))
							return
						}
					}
					for _, s := range blk.Succs {
						if bad == "" && !seen[s] {
							seen[s] = true
							walk(s, 0)
						}
					}
				}
				walk(b, i+1)
				if bad != "" {
					r.Bad("FRAME", key, at, bad)
				} else {
					r.OK("FRAME", key, at, "every continuing path stores remain = int(size) before the box is used or returned")
				}
			}
		}
	}
}
