package main

// C11 — FRAME: a box's remaining count is set from the size it was framed with.
//
// Every store to box.size (32-bit size field, 64-bit largesize) must be followed, on every path on which the
// function can still succeed, by a store box.remain = int(<that size>) on the same box before the function returns
// or hands the box to one of its methods. A size that is updated without the remaining count (or a remaining count
// taken from somewhere else) frames the box with one length and accounts it with another.

import (
	"fmt"
	"go/token"
	"go/types"

	"golang.org/x/tools/go/ssa"
)

func boxFieldStore(in ssa.Instruction, field string) (*ssa.Store, ssa.Value, bool) {
	st, ok := in.(*ssa.Store)
	if !ok {
		return nil, nil, false
	}
	fa, ok := st.Addr.(*ssa.FieldAddr)
	if !ok {
		return nil, nil, false
	}
	n := namedOfPtr(fa.X.Type())
	if n == nil || n.Obj().Name() != "box" || n.Obj().Pkg() == nil || n.Obj().Pkg().Name() != "isobmff" {
		return nil, nil, false
	}
	if fieldName(fa.X.Type(), fa.Field) != field {
		return nil, nil, false
	}
	return st, fa.X, true
}

func stripConv(v ssa.Value) ssa.Value {
	for i := 0; i < 6; i++ {
		switch x := v.(type) {
		case *ssa.Convert:
			v = x.X
		case *ssa.ChangeType:
			v = x.X
		default:
			return v
		}
	}
	return v
}

func ruleFrame(p *Prog, r *Report, sp *ssa.Package) {
	for _, f := range pkgFns(sp, p) {
		ord := 0
		for _, b := range f.Blocks {
			for i, in := range b.Instrs {
				sizeSt, base, ok := boxFieldStore(in, "size")
				if !ok {
					continue
				}
				ord++
				key := fmt.Sprintf("%s | box.size store #%d is followed by remain = int(size)", fnName(f), ord)
				at := p.posStr(instrPos(sizeSt))
				sizeVal := stripConv(sizeSt.Val)
				// does instruction x re-establish remain from this size?
				fixes := func(x ssa.Instruction) bool {
					rs, rb, ok := boxFieldStore(x, "remain")
					if !ok || rb != base {
						return false
					}
					v := stripConv(rs.Val)
					if v == sizeVal {
						return true
					}
					// the same field read twice (go/ssa does no CSE): size: int64(x.f), remain: int(x.f)
					if a, b := signLeaf(v, 0), signLeaf(sizeVal, 0); a == b && len(a) > 6 && a[:6] == "field:" {
						return true
					}
					// int(b.size) read back after the store
					if ld, ok := v.(*ssa.UnOp); ok && ld.Op == token.MUL {
						if fa, ok := ld.X.(*ssa.FieldAddr); ok && fa.X == base && fieldName(fa.X.Type(), fa.Field) == "size" {
							return true
						}
					}
					return false
				}
				// uses of the box that need a consistent remain: calls with the box as receiver/argument, a later size store
				// is a new obligation of its own and ends this one
				usesBox := func(x ssa.Instruction) bool {
					ci, ok := x.(ssa.CallInstruction)
					if !ok {
						return false
					}
					for _, a := range callArgs(ci.Common()) {
						if a == base {
							return true
						}
					}
					return false
				}
				bad := ""
				seen := map[*ssa.BasicBlock]bool{}
				var walk func(blk *ssa.BasicBlock, from int)
				walk = func(blk *ssa.BasicBlock, from int) {
					for j := from; j < len(blk.Instrs) && bad == ""; j++ {
						x := blk.Instrs[j]
						if fixes(x) {
							return
						}
						if _, _, again := boxFieldStore(x, "size"); again {
							return // superseded: the later store carries its own obligation
						}
						if usesBox(x) {
							bad = fmt.Sprintf("the box is handed to %s at %s while remain still holds the count of an earlier size", shortCallee(x.(ssa.CallInstruction).Common()), p.posStr(instrPos(x)))
							return
						}
						if rt, ok := x.(*ssa.Return); ok {
							// a return that reports an error made here gives the box up
							if n := len(rt.Results); n > 0 && isErrorType(rt.Results[n-1].Type()) {
								if _, isCall := rt.Results[n-1].(*ssa.Call); isCall {
									return
								}
								if _, isMI := rt.Results[n-1].(*ssa.MakeInterface); isMI {
									return
								}
							}
							bad = fmt.Sprintf("the function returns at %s with size updated and remain not set from it", p.posStr(instrPos(x)))
							return
						}
					}
					for _, s := range blk.Succs {
						if bad == "" && !seen[s] {
							seen[s] = true
							walk(s, 0)
						}
					}
				}
				walk(b, i+1)
				if bad != "" {
					r.Bad("FRAME", key, at, bad)
				} else {
					r.OK("FRAME", key, at, "every continuing path stores remain = int(size) before the box is used or returned")
				}
			}
		}
	}
}

// ---- BOXCOPY: the bookkeeping of a box lives in one place ----------------------------------------------------

// ruleBoxCopy: a box struct is never duplicated out of somebody else's box. A whole-struct load through a pointer
// that is not one of the function's own locals (`*b` of a *box parameter, a box field of another object) makes a
// copy whose remain is then charged instead of the original's: the enclosing boxes are charged through the outer
// pointer while the original still believes its payload is unread. Loads of a function's own local (returning the
// box it just created, passing it on by value to be stored) are creation, not duplication.
func ruleBoxCopy(p *Prog, r *Report, sp *ssa.Package) {
	n := 0
	for _, f := range pkgFns(sp, p) {
		eachInstr(f, func(_ *ssa.BasicBlock, _ int, in ssa.Instruction) {
			u, ok := in.(*ssa.UnOp)
			if !ok || u.Op != token.MUL {
				return
			}
			nt, ok := u.Type().(*types.Named)
			if !ok || nt.Obj().Name() != "box" || nt.Obj().Pkg() == nil || nt.Obj().Pkg().Name() != "isobmff" {
				return
			}
			n++
			key := fmt.Sprintf("%s | copy of box %s", fnName(f), shortVal(u.X))
			at := p.posStr(instrPos(u))
			if _, local := u.X.(*ssa.Alloc); local {
				r.OK("BOXCOPY", key, at, "the function's own local (a box it created or received by value)")
				return
			}
			// a copy that is only read (isType, the zerolog marshaler) is harmless; one that is consumed from is not
			bad := ""
			for _, rf := range refs(u) {
				switch x := rf.(type) {
				case ssa.CallInstruction:
					args := callArgs(x.Common())
					for _, g := range p.Callees(x) {
						for k, a := range args {
							if a == ssa.Value(u) && k < len(g.Params) && mutatesBoxParam(p, g, k, 0) {
								bad = fmt.Sprintf("the copy is handed to %s, which consumes from it", fnName(g))
							}
						}
					}
				case *ssa.Store:
					if x.Val == ssa.Value(u) {
						bad = "the copy is stored and lives on beside the original"
					}
				case *ssa.MakeInterface, *ssa.DebugRef, *ssa.Field:
				default:
					bad = fmt.Sprintf("the copy is used by %T", rf)
				}
			}
			if bad != "" {
				r.Bad("BOXCOPY", key, at, "a box owned by someone else is copied by value and "+bad+": what the copy consumes is not charged to the original")
			} else {
				r.OK("BOXCOPY", key, at, "read-only copy (compared or logged)")
			}
		})
	}
	r.Extra("boxcopy_loads", n)
}

// mutatesBoxParam: g's by-value box parameter #k is written or handed (by address) to something that may write it.
func mutatesBoxParam(p *Prog, g *ssa.Function, k, depth int) bool {
	if g.Blocks == nil || depth > 4 || k >= len(g.Params) {
		return depth > 4
	}
	prm := g.Params[k]
	mut := false
	var cells []ssa.Value
	for _, rf := range refs(prm) {
		if st, ok := rf.(*ssa.Store); ok && st.Val == ssa.Value(prm) {
			cells = append(cells, st.Addr)
		}
		if ci, ok := rf.(ssa.CallInstruction); ok {
			args := callArgs(ci.Common())
			for _, h := range p.Callees(ci) {
				for j, a := range args {
					if a == ssa.Value(prm) && mutatesBoxParam(p, h, j, depth+1) {
						mut = true
					}
				}
			}
		}
	}
	for _, c := range cells {
		for _, rf := range refs(c) {
			switch x := rf.(type) {
			case *ssa.FieldAddr:
				for _, r2 := range refs(x) {
					if st, ok := r2.(*ssa.Store); ok && st.Addr == ssa.Value(x) {
						mut = true
					}
				}
			case ssa.CallInstruction:
				// &copy passed on: pointer-receiver methods (Peek, Discard, close, …) consume through it
				for _, a := range callArgs(x.Common()) {
					if a == c {
						mut = true
					}
				}
			}
		}
	}
	return mut
}

// ruleOuterLink: box.outer links a child to the box it was cut from; what the child consumes is charged along that
// link. The link must be the parent itself — a *box the function received or a box it owns — never the address of
// a by-value copy (a value receiver or value parameter spilled to a local): charging a copy leaves the real parent
// believing its payload is unread.
func ruleOuterLink(p *Prog, r *Report, sp *ssa.Package) {
	n := 0
	for _, f := range pkgFns(sp, p) {
		eachInstr(f, func(_ *ssa.BasicBlock, _ int, in ssa.Instruction) {
			st, v, ok := boxFieldStore(in, "outer")
			_ = v
			if !ok {
				return
			}
			n++
			key := fmt.Sprintf("%s | box.outer = %s", fnName(f), shortVal(st.Val))
			at := p.posStr(instrPos(st))
			bad := ""
			if al, isAlloc := st.Val.(*ssa.Alloc); isAlloc {
				for _, rf := range refs(al) {
					if s2, ok := rf.(*ssa.Store); ok && s2.Addr == ssa.Value(al) {
						if prm, ok := s2.Val.(*ssa.Parameter); ok {
							if _, isPtr := prm.Type().Underlying().(*types.Pointer); !isPtr {
								bad = fmt.Sprintf("the link points at the local copy of the by-value parameter %s, not at the box the caller holds", prm.Name())
							}
						}
					}
				}
			}
			if bad != "" {
				r.Bad("BOXCOPY", key, at, bad+": bytes consumed through the child are charged to the copy")
			} else {
				r.OK("BOXCOPY", key, at, "the link is the parent box itself")
			}
		})
	}
	r.Extra("outer_links", n)
}

// ---- CBCLOSE: whatever a callback returns, the box it read from is closed before the handler returns ----------
//
// The callbacks (ExifReader, XMPReader, PreviewImageReader) stop reading wherever they like — a parser that gives up
// on malformed XMP leaves the reader in the middle of the payload. The handler that made the call must therefore
// pass a (*box).close() on every path from the call to any of its returns, the failing ones included; otherwise
// the next ReadMetadata call parses payload bytes as a box header.
func ruleCallbackClose(p *Prog, r *Report, sp *ssa.Package) {
	cls := p.Func("isobmff", "*box", "close")
	if cls == nil {
		r.Undecided("CBCLOSE", "isobmff.(*box).close", "-", "unresolved anchor")
		return
	}
	for _, f := range pkgFns(sp, p) {
		eachCall(f, func(site ssa.CallInstruction) {
			c := site.Common()
			if c.IsInvoke() || c.StaticCallee() != nil {
				return
			}
			if _, isB := c.Value.(*ssa.Builtin); isB {
				return
			}
			sig, ok := c.Value.Type().Underlying().(*types.Signature)
			if !ok || sig.Params().Len() == 0 || sig.Params().At(0).Type().String() != "io.Reader" {
				return
			}
			key := fmt.Sprintf("%s | box closed after callback %s", fnName(f), shortVal(c.Value))
			at := p.posStr(instrPos(site))
			in, _ := site.(ssa.Instruction)
			closesFrom := func(b *ssa.BasicBlock, from int) bool {
				for i := from; i < len(b.Instrs); i++ {
					if cc, ok := b.Instrs[i].(ssa.CallInstruction); ok && cc.Common().StaticCallee() == cls {
						return true
					}
				}
				return false
			}
			bad := ""
			seen := map[*ssa.BasicBlock]bool{}
			var walk func(b *ssa.BasicBlock, from int)
			walk = func(b *ssa.BasicBlock, from int) {
				if bad != "" {
					return
				}
				if closesFrom(b, from) {
					return
				}
				if len(b.Instrs) > 0 {
					if rt, ok := b.Instrs[len(b.Instrs)-1].(*ssa.Return); ok {
						bad = "the return at " + p.posStr(instrPos(rt)) + " is reached from the callback without close() on the box: when the callback stops early the reader is left inside the payload and the next box header is read from payload bytes"
						return
					}
				}
				for _, s := range b.Succs {
					if !seen[s] {
						seen[s] = true
						walk(s, 0)
					}
				}
			}
			walk(in.Block(), instrIndex(in)+1)
			if bad != "" {
				r.Bad("CBCLOSE", key, at, bad)
			} else {
				r.OK("CBCLOSE", key, at, "every path from the callback to a return passes (*box).close()")
			}
		})
	}
}
