package main

import (
	"encoding/json"
	"fmt"
	"os"
	"path/filepath"
	"sort"
	"strconv"
)

// CMPNAME (C17): the names of the TIFF compression schemes.
//
// meta.Compression has no declared constants (its stringer is a switch over literals), so DOCNAME has no rows for
// it. spec/compression_names.json holds the ExifTool table the stringer was written from; for every row the
// stringer is folded on the value and must give the row's name.
func ruleCmpName(p *Prog, r *Report, fd *folder) {
	r.Explain("CMPNAME: for every row (value, name) of spec/compression_names.json - the ExifTool table of TIFF compression schemes - folding meta.Compression.String on the value gives the name.")
	b, err := os.ReadFile(filepath.Join(verifRoot(), "spec", "compression_names.json"))
	if err != nil {
		r.Fatal("spec/compression_names.json: " + err.Error())
		return
	}
	var spec struct {
		Names map[string]string `json:"names"`
	}
	if err := json.Unmarshal(b, &spec); err != nil {
		r.Fatal("spec/compression_names.json: " + err.Error())
		return
	}
	f := p.Func("meta", "Compression", "String")
	if f == nil {
		r.Undecided("CMPNAME", "meta.Compression.String", "-", "unresolved anchor")
		return
	}
	var keys []int
	for k := range spec.Names {
		v, _ := strconv.Atoi(k)
		keys = append(keys, v)
	}
	sort.Ints(keys)
	for _, v := range keys {
		want := spec.Names[strconv.Itoa(v)]
		key := fmt.Sprintf("meta.Compression | String(%d)", v)
		at := p.posStr(f.Pos())
		fr := fd.fold(f, []cval{{kind: "int", i: int64(v)}})
		switch {
		case fr.panics != "":
			r.Bad("CMPNAME", key, at, "formatting panics: "+fr.panics)
		case fr.undecided != "":
			r.Undecided("CMPNAME", key, at, "stringer not foldable: "+fr.undecided)
		case fr.val.s != want:
			r.Bad("CMPNAME", key, at, fmt.Sprintf("String() is %q, the scheme is named %q", fr.val.s, want))
		default:
			r.OK("CMPNAME", key, at, "name equals the table's")
		}
	}
}
