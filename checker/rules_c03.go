package main

// C03 — Exif fields are extracted with their exact values: DISPATCH, ACCESSOR, BLOCKEND, MODELTBL, FRESH
// (necessary conditions; numeric decoding over all records and layouts is run-time arithmetic).

import (
	"encoding/json"
	"fmt"
	"go/constant"
	"go/token"
	"go/types"
	"os"
	"path/filepath"
	"sort"
	"strconv"
	"strings"

	"golang.org/x/tools/go/ssa"
)

func init() { register("C03", true, checkC03) }

type exifSpec struct {
	Tags []struct {
		Dir, ID, Name, Class string
		Fields               []string
		OnlyIfUnset          bool `json:"only_if_unset"`
	} `json:"tags"`
	ParserClass  map[string][]string `json:"parser_class"`
	Accessors    map[string][]string `json:"accessors"`
	GPSAccessors map[string][]string `json:"gps_accessors"`
}

func checkC03(p *Prog, r *Report) {
	r.Explain("Value-exactness over all records and layouts (rational arithmetic, date parsing, offset-sorted reading) is a run-time computation and is not decided. Decided necessary conditions: DISPATCH — from the SSA of parseTag every store into a field of exif2.Exif (incl. the nested Time and GPS structs) is collected with the (directory, tag id) conditions that dominate it and the parser whose result is stored; against spec/exif_tags.json (49 rows written from CIPA DC-008 / TIFF 6 / DNG): every row's field is stored under exactly that directory and id through a parser of the row's value class, fallback tags only under a test that the field is still unset, and no store is reached under a (directory, id) the table does not list (an unrelated tag cannot perturb the result); ACCESSOR — the composite accessors (ModifyDate, DateTimeOriginal, CreateDate, GPS Latitude/Longitude/Altitude/Date) read exactly the fields that belong together; BLOCKEND — the length guard of the Exif reader refuses only reads that go past the declared Exif length (a value ending exactly at the end of the block is read); MODELTBL — make/model names survive the name tables (String(FromString(s)) == s) except for the recorded deliberate normalisations; MAKEEXACT — ParseCameraMake/ParseCameraModel return string(ParseBuffer(t)) or, under the ok result of an exact *FromString map lookup, the String() of the value found — no prefix match, normalisation or default in between; SIGN — where a sign, hemisphere or time unit is attached: ParseOffsetTime hands getLocation exactly negated seconds under '-' and '+' (per-branch affine evaluation; 3600*HH + 60*MM when the digit form is recognised), ParseGPSRef compares the reference byte with the specification's negative value (S, W, 1), the GPS accessors negate exactly under the reference flag, and the time accessors add sub-seconds as milliseconds, GPS time as seconds and shift by minus the zone offset; ROUTE — in readIfdHeader every entry decoded without error passes parseTag or addTagBuffer on every path to the next entry (no tag is filtered out before the dispatch), and addTagBuffer declines a tag only under conditions on offsets, the queue's fill level or the log level — never on the tag's id, directory or type — and resetPosition, which makes room before a sub-directory is read, compacts the queue in every legal state 0 < pos <= len <= cap(tag); VALFETCH — readTagValue, through which every out-of-line value passes, skips exactly ValueOffset − po and reads exactly Size() bytes of the current tag; ZONE — getLocation never returns nil (the accessors read a nil zone as an absent offset tag): each return is a time.FixedZone result, a value from the cache all of whose inserts are such results, or an element of a table that a counted loop provably fills from the first to the last index; FRESH — the Exif value returned is not recycled (no pooled type contains it), so absent fields are zero.")
	r.Trusted("spec/exif_tags.json (written from the standards)")
	b, err := os.ReadFile(filepath.Join(verifRoot(), "spec", "exif_tags.json"))
	if err != nil {
		r.Fatal("spec/exif_tags.json: " + err.Error())
		return
	}
	var spec exifSpec
	if err := json.Unmarshal(b, &spec); err != nil {
		r.Fatal("spec/exif_tags.json: " + err.Error())
		return
	}
	ruleDispatch(p, r, &spec)
	ruleAccessor(p, r, &spec)
	ruleBlockEnd(p, r)
	ruleModelTbl(p, r)
	ruleFresh(p, r)
	ruleSign(p, r)
	r.Floor("SIGN", 11)
	ruleValFetch(p, r)
	r.Floor("VALFETCH", 2)
	ruleRoute(p, r)
	ruleRouteQueue(p, r)
	r.Floor("ROUTE", 2)
	r.Floor("DISPATCH", 45)
	r.Floor("ACCESSOR", 7)
	r.Floor("BLOCKEND", 1)
	r.Floor("MODELTBL", 20)
	r.Floor("FRESH", 1)
	ruleZone(p, r)
	ruleMakeExact(p, r)
	ruleLimits(p, r)
	ruleErrUse(p, r)
	ruleScan0(p, r)
	ruleSubSec(p, r)
	ruleEntryErr(p, r)
	ruleNarrowV(p, r)
	r.Floor("NARROWV", 3)
	r.Floor("ENTRYERR", 1)
	r.Floor("SUBSEC", 1)
	r.Floor("SCAN0", 1)
	r.Floor("ERRUSE", 10)
	ruleReadAhead(p, r)
	r.Floor("READAHEAD", 3)
	r.Floor("LIMITS", 3)
	r.Floor("MAKEEXACT", 2)
	r.Floor("ZONE", 1)
}

// exifFieldPath: addr is &ir.Exif.<path> → "path" (e.g. "Time.modifyDate")
func exifFieldPath(addr ssa.Value) (string, bool) {
	var parts []string
	cur := addr
	for i := 0; i < 6; i++ {
		fa, ok := cur.(*ssa.FieldAddr)
		if !ok {
			return "", false
		}
		name := fieldName(fa.X.Type(), fa.Field)
		n := namedOfPtr(fa.X.Type())
		if n != nil && n.Obj().Name() == "ifdReader" && name == "Exif" {
			// reverse
			for l, rr := 0, len(parts)-1; l < rr; l, rr = l+1, rr-1 {
				parts[l], parts[rr] = parts[rr], parts[l]
			}
			return strings.Join(parts, "."), true
		}
		parts = append(parts, name)
		cur = fa.X
	}
	return "", false
}

type dispStore struct {
	field   string
	dir, id int64
	hasDir  bool
	hasID   bool
	parser  string
	unsetOn string // the field tested for being unset on a dominating edge ("" if none)
	at      string
}

func ruleDispatch(p *Prog, r *Report, spec *exifSpec) {
	f := p.Func("exif2", "*ifdReader", "parseTag")
	if f == nil {
		r.Undecided("DISPATCH", "exif2.(*ifdReader).parseTag", "-", "anchor not resolved")
		return
	}
	dirVal := map[string]int64{}
	for _, d := range []string{"IFD0", "ExifIFD", "GPSIFD"} {
		v, ok := constByName(p, "exif2/ifds", d)
		if !ok {
			r.Undecided("DISPATCH", "exif2/ifds."+d, "-", "constant not found")
			return
		}
		dirVal[d] = v
	}
	tagField := func(v ssa.Value, name string) bool {
		v = stripIntConv(v)
		if ct, ok := v.(*ssa.ChangeType); ok {
			v = ct.X
		}
		return tagFieldOf(v, name) != nil
	}
	var stores []dispStore
	eachInstr(f, func(b *ssa.BasicBlock, _ int, in ssa.Instruction) {
		st, ok := in.(*ssa.Store)
		if !ok {
			return
		}
		path, ok := exifFieldPath(st.Addr)
		if !ok {
			return
		}
		ds := dispStore{field: path, at: p.posStr(instrPos(in))}
		for _, cd := range condsAt(b) {
			bo, ok := cd.V.(*ssa.BinOp)
			if !ok {
				continue
			}
			if bo.Op == token.EQL && cd.True {
				if k, ok := constInt(bo.Y); ok {
					if tagField(bo.X, "Ifd") && !ds.hasDir {
						ds.dir, ds.hasDir = k, true
					}
					if tagField(bo.X, "ID") && !ds.hasID {
						ds.id, ds.hasID = k, true
					}
				}
			}
			// "only if unset": field == zero on the taken edge
			if (bo.Op == token.EQL && cd.True) || (bo.Op == token.NEQ && !cd.True) {
				if ld, ok := bo.X.(*ssa.UnOp); ok && ld.Op == token.MUL {
					if pth, ok := exifFieldPath(ld.X); ok {
						ds.unsetOn = pth
					}
				}
			}
		}
		// the parser whose result is stored
		v := st.Val
		for i := 0; i < 4; i++ {
			switch x := v.(type) {
			case *ssa.Convert:
				v = x.X
			case *ssa.ChangeType:
				v = x.X
			case *ssa.Extract:
				v = x.Tuple
			}
		}
		if c, ok := v.(*ssa.Call); ok {
			if sc := c.Call.StaticCallee(); sc != nil {
				ds.parser = sc.Name()
			}
		} else if _, ok := v.(*ssa.Const); ok {
			ds.parser = "const"
		} else {
			// computed from a parser result (ApertureValue → FNumber through math): find a parser call among the operands
			var walk func(v ssa.Value, d int)
			walk = func(v ssa.Value, d int) {
				if d > 20 || ds.parser != "" {
					return
				}
				if c, ok := v.(*ssa.Call); ok {
					if sc := c.Call.StaticCallee(); sc != nil && isLibFn(sc) {
						ds.parser = sc.Name()
						return
					}
				}
				if al, ok := v.(*ssa.Alloc); ok {
					for _, rf := range refs(al) {
						if st2, ok := rf.(*ssa.Store); ok && st2.Addr == ssa.Value(al) {
							walk(st2.Val, d+1)
						}
					}
					return
				}
				if in, ok := v.(ssa.Instruction); ok {
					var ops []*ssa.Value
					for _, op := range in.Operands(ops) {
						if *op != nil {
							walk(*op, d+1)
						}
					}
				}
			}
			walk(v, 0)
		}
		stores = append(stores, ds)
	})
	r.Extra("dispatch_stores_found", len(stores))
	used := map[int]bool{}
	for _, row := range spec.Tags {
		id, err := strconv.ParseInt(strings.TrimPrefix(strings.ToLower(row.ID), "0x"), 16, 64)
		if err != nil {
			r.Fatal("bad id in spec: " + row.ID)
			return
		}
		for _, fld := range row.Fields {
			key := fmt.Sprintf("exif2.parseTag | %s %s (%s) → Exif.%s", row.Dir, row.ID, row.Name, fld)
			found := -1
			for i, s := range stores {
				if s.field == fld && s.hasDir && s.hasID && s.dir == dirVal[row.Dir] && s.id == id {
					found = i
				}
			}
			if found < 0 {
				// is the field stored under another tag?
				other := ""
				for _, s := range stores {
					if s.field == fld {
						other = fmt.Sprintf(" (the field is stored under directory %d, id 0x%04X at %s)", s.dir, s.id, s.at)
					}
				}
				r.Bad("DISPATCH", key, p.posStr(f.Pos()), "no store of this field under the directory and tag id the standard assigns"+other)
				continue
			}
			used[found] = true
			s := stores[found]
			classes := spec.ParserClass[s.parser]
			okClass := row.Class == "marker" && s.parser == "const"
			for _, c := range classes {
				if c == row.Class {
					okClass = true
				}
			}
			switch {
			case !okClass:
				r.Bad("DISPATCH", key, s.at, fmt.Sprintf("the value is decoded by %s (classes %v), the standard defines the tag as %s", s.parser, classes, row.Class))
			case row.OnlyIfUnset && s.unsetOn != fld:
				r.Bad("DISPATCH", key, s.at, "a fallback tag overwrites the field unconditionally: the value of the primary tag is lost when both are present")
			case !row.OnlyIfUnset && s.unsetOn == fld && row.Class != "marker":
				r.Bad("DISPATCH", key, s.at, "the primary tag of this field is only stored when the field is still unset")
			default:
				r.OK("DISPATCH", key, s.at, "stored under the standard's directory and id through "+s.parser)
			}
		}
	}
	for i, s := range stores {
		if used[i] {
			continue
		}
		key := fmt.Sprintf("exif2.parseTag | store Exif.%s under dir %d id 0x%04X", s.field, s.dir, s.id)
		if !s.hasDir || !s.hasID {
			r.Bad("DISPATCH", key, s.at, "a field of the result is stored without a dominating test of directory and tag id: an unrelated tag can perturb the result")
		} else {
			r.Bad("DISPATCH", key, s.at, "the field is stored under a (directory, id) that the specification table does not assign to it")
		}
	}
}

// ---- ACCESSOR --------------------------------------------------------------------------------------

func fieldsRead(f *ssa.Function, root ssa.Value, rootType string) map[string]bool {
	out := map[string]bool{}
	var pathOf func(v ssa.Value) (string, bool)
	pathOf = func(v ssa.Value) (string, bool) {
		switch x := v.(type) {
		case *ssa.FieldAddr:
			base, ok := pathOf(x.X)
			if !ok {
				return "", false
			}
			n := fieldName(x.X.Type(), x.Field)
			if base == "" {
				return n, true
			}
			return base + "." + n, true
		case *ssa.Field:
			base, ok := pathOf(x.X)
			if !ok {
				return "", false
			}
			n := fieldNameV(x.X.Type(), x.Field)
			if base == "" {
				return n, true
			}
			return base + "." + n, true
		case *ssa.Alloc:
			// the spilled receiver
			for _, rf := range refs(x) {
				if st, ok := rf.(*ssa.Store); ok && st.Addr == ssa.Value(x) && st.Val == root {
					return "", true
				}
			}
			return "", false
		case *ssa.UnOp:
			if x.Op == token.MUL {
				return pathOf(x.X)
			}
		}
		if v == root {
			return "", true
		}
		return "", false
	}
	eachInstr(f, func(_ *ssa.BasicBlock, _ int, in ssa.Instruction) {
		switch x := in.(type) {
		case *ssa.UnOp:
			if x.Op == token.MUL {
				if pth, ok := pathOf(x.X); ok && pth != "" {
					out[pth] = true
				}
			}
		case *ssa.Field:
			if pth, ok := pathOf(x); ok && pth != "" {
				out[pth] = true
			}
		case *ssa.FieldAddr:
			// address passed to a method (time.Time methods take pointer receivers through spills)
			if pth, ok := pathOf(x); ok && pth != "" {
				for _, rf := range refs(x) {
					if _, isCall := rf.(ssa.CallInstruction); isCall {
						out[pth] = true
					}
				}
			}
		}
	})
	// keep only leaf paths (drop "Time" when "Time.modifyDate" is present)
	for k := range out {
		for k2 := range out {
			if k != k2 && strings.HasPrefix(k2, k+".") {
				delete(out, k)
			}
		}
	}
	return out
}

func ruleAccessor(p *Prog, r *Report, spec *exifSpec) {
	check := func(rule, typ, name string, want []string) {
		f := p.Func("exif2", typ, name)
		key := fmt.Sprintf("exif2.(%s).%s | combines %s", typ, name, strings.Join(want, ", "))
		if f == nil {
			r.Undecided(rule, key, "-", "anchor not resolved")
			return
		}
		got := fieldsRead(f, f.Params[0], typ)
		// time.Time values are structs: their inner fields (wall, ext, loc) are read through the outer field; collapse
		norm := map[string]bool{}
		for g := range got {
			matched := false
			for _, w := range want {
				if g == w || strings.HasPrefix(g, w+".") {
					norm[w] = true
					matched = true
				}
			}
			if !matched {
				norm[g] = true
			}
		}
		var gs []string
		for g := range norm {
			gs = append(gs, g)
		}
		sort.Strings(gs)
		ws := append([]string{}, want...)
		sort.Strings(ws)
		if strings.Join(gs, "|") == strings.Join(ws, "|") {
			r.OK(rule, key, p.posStr(f.Pos()), "reads exactly these fields")
		} else {
			r.Bad(rule, key, p.posStr(f.Pos()), fmt.Sprintf("the accessor reads %v: a value is combined with the sub-seconds, zone or sign of another tag", gs))
		}
	}
	var names []string
	for n := range spec.Accessors {
		names = append(names, n)
	}
	sort.Strings(names)
	for _, n := range names {
		check("ACCESSOR", "Exif", n, spec.Accessors[n])
	}
	names = nil
	for n := range spec.GPSAccessors {
		names = append(names, n)
	}
	sort.Strings(names)
	for _, n := range names {
		check("ACCESSOR", "GPSInfo", n, spec.GPSAccessors[n])
	}
}

// ---- BLOCKEND --------------------------------------------------------------------------------------

// ruleBlockEnd: in every ifdReader method that returns imagetype.ErrDataLength under a comparison involving
// exifLength, the comparison (as an affine inequality over po, n and exifLength) must be po + n − exifLength ≥ 1:
// a read that ends exactly at the end of the declared block is allowed.
func ruleBlockEnd(p *Prog, r *Report) {
	sp := p.SSAPkg("exif2")
	n := 0
	for _, f := range pkgFns(sp, p) {
		if f.Signature.Recv() == nil || namedOfPtr(f.Signature.Recv().Type()) == nil || namedOfPtr(f.Signature.Recv().Type()).Obj().Name() != "ifdReader" {
			continue
		}
		eachInstr(f, func(b *ssa.BasicBlock, _ int, in ssa.Instruction) {
			ret, ok := in.(*ssa.Return)
			if !ok {
				return
			}
			isLenErr := false
			for _, rv := range ret.Results {
				if g := loadOfGlobal(rv); g != nil && g.Name() == "ErrDataLength" {
					isLenErr = true
				}
			}
			if !isLenErr {
				return
			}
			// the comparisons under which this refusal is reached: the conjunction on the dominator chain, and — for a
			// refusal shared by several disjuncts (a || b || c) — the condition of each incoming edge
			var groups [][]Cond
			groups = append(groups, condsAt(b))
			if len(b.Preds) > 1 {
				for _, pr := range b.Preds {
					if len(pr.Instrs) == 0 {
						continue
					}
					if ifi, ok := pr.Instrs[len(pr.Instrs)-1].(*ssa.If); ok && pr.Succs[0] != pr.Succs[1] {
						groups = append(groups, []Cond{{V: ifi.Cond, True: pr.Succs[0] == b, At: pr}})
					}
				}
			}
			e := p.E3()
			for _, grp := range groups {
				for _, cd := range grp {
					bo, ok := cd.V.(*ssa.BinOp)
					if !ok || !isIntType(bo.X.Type()) {
						continue
					}
					op := bo.Op
					if !cd.True {
						switch op {
						case token.LSS:
							op = token.GEQ
						case token.LEQ:
							op = token.GTR
						case token.GTR:
							op = token.LEQ
						case token.GEQ:
							op = token.LSS
						default:
							continue
						}
					}
					if op != token.LSS && op != token.LEQ && op != token.GTR && op != token.GEQ {
						continue
					}
					lhs, rhs := classifyLen(bo.X), classifyLen(bo.Y)
					if lhs == nil || rhs == nil || (lhs["L"] == 0 && rhs["L"] == 0) {
						continue
					}
					n++
					key := fmt.Sprintf("%s | refusal under %s", fnName(f), shortVal(bo))
					at := p.posStr(instrPos(bo))
					// G: g(po,n,L) ≥ 0 in integers
					g := map[string]int64{}
					for k, v := range lhs {
						g[k] += v
					}
					for k, v := range rhs {
						g[k] -= v
					}
					switch op {
					case token.GTR: // lhs − rhs ≥ 1
						g["c"]--
					case token.GEQ:
					case token.LSS: // rhs − lhs ≥ 1
						for k := range g {
							g[k] = -g[k]
						}
						g["c"]--
					case token.LEQ:
						for k := range g {
							g[k] = -g[k]
						}
					}
					if g["?"] != 0 {
						r.Bad("BLOCKEND", key, at, "the length guard involves a value other than po, the requested count and exifLength")
						continue
					}
					// target T: po + n − L − 1 ≥ 0. T − G must be ≥ 0 for all po, n, L ≥ 0.
					dpo, dn, dL, dc := 1-g["po"], 1-g["n"], -1-g["L"], -1-g["c"]
					nNonNeg := true
					if dn > 0 {
						// needs n ≥ 0 at the guard
						nNonNeg = false
						for _, prm := range f.Params {
							if isIntType(prm.Type()) && e.ProveLE(cd.At, zeroT, e.termOf(prm), 0) {
								nNonNeg = true
							}
						}
						// the edge itself may be reached only after `n < 0` was excluded: facts at the predecessor edge
						if !nNonNeg {
							for _, prm := range f.Params {
								if isIntType(prm.Type()) && e.proveOnEdge(cd.At, b, zeroT, e.termOf(prm), 0, 0) {
									nNonNeg = true
								}
							}
						}
					}
					if dpo >= 0 && dn >= 0 && dL >= 0 && dc >= 0 && nNonNeg {
						r.OK("BLOCKEND", key, at, "refuses only reads with po + n > exifLength")
					} else {
						r.Bad("BLOCKEND", key, at, fmt.Sprintf("this condition refuses a read that does not go past the block (it holds for some po + n ≤ exifLength; slack po:%d n:%d L:%d const:%d): a value that ends exactly at the end of the Exif block is dropped", dpo, dn, dL, dc))
					}
				}
			}
		})
	}
	if n == 0 {
		r.Undecided("BLOCKEND", "exif2.(*ifdReader) | length guard", "-", "no refusal with ErrDataLength under a comparison with exifLength found")
	}
}

// classifyLen: v as a linear form over po, n (an int parameter), L (exifLength) and a constant; nil if something else occurs.
func classifyLen(v ssa.Value) map[string]int64 {
	out := map[string]int64{}
	var walk func(v ssa.Value, coef int64, depth int) bool
	walk = func(v ssa.Value, coef int64, depth int) bool {
		if depth > 8 {
			return false
		}
		if k, ok := constInt(v); ok {
			out["c"] += coef * k
			return true
		}
		switch x := v.(type) {
		case *ssa.Convert:
			return walk(x.X, coef, depth+1)
		case *ssa.ChangeType:
			return walk(x.X, coef, depth+1)
		case *ssa.BinOp:
			switch x.Op {
			case token.ADD:
				return walk(x.X, coef, depth+1) && walk(x.Y, coef, depth+1)
			case token.SUB:
				return walk(x.X, coef, depth+1) && walk(x.Y, -coef, depth+1)
			}
			return false
		case *ssa.Parameter:
			if isIntType(x.Type()) {
				out["n"] += coef
				return true
			}
			return false
		case *ssa.UnOp:
			if x.Op == token.MUL {
				if fa, ok := x.X.(*ssa.FieldAddr); ok {
					switch fieldName(fa.X.Type(), fa.Field) {
					case "po":
						out["po"] += coef
						return true
					case "exifLength":
						out["L"] += coef
						return true
					}
				}
			}
		}
		out["?"]++
		return true
	}
	if !walk(v, 1, 0) {
		return nil
	}
	return out
}

// ---- MODELTBL --------------------------------------------------------------------------------------

func ruleModelTbl(p *Prog, r *Report) {
	fd := &folder{p: p}
	type tbl struct{ rel, mapName, typ, from string }
	for _, tb := range []tbl{{"exif2/ifds", "mapStringCameraMake", "CameraMake", "CameraMakeFromString"}} {
		tv := p.Tables().ValByName(tb.rel, tb.mapName)
		sf := p.Func(tb.rel, tb.typ, "String")
		if tv == nil || tv.Kind != "map" || sf == nil {
			r.Undecided("MODELTBL", tb.rel+"."+tb.mapName, "-", "table or stringer not found")
			continue
		}
		for i, k := range tv.MapKeys {
			if k == nil || k.Kind() != constant.String || tv.MapVals[i] == nil {
				continue
			}
			s := constant.StringVal(k)
			v, _ := constant.Int64Val(tv.MapVals[i])
			key := fmt.Sprintf("%s.%s | String(FromString(%q))", tb.rel, tb.typ, s)
			res := fd.fold(sf, []cval{{kind: "int", i: v}})
			switch {
			case res.panics != "":
				r.Bad("MODELTBL", key, p.posStr(sf.Pos()), "formatting panics: "+res.panics)
			case res.undecided != "":
				r.Undecided("MODELTBL", key, p.posStr(sf.Pos()), res.undecided)
			case res.val.s != s:
				r.Bad("MODELTBL", key, p.posStr(sf.Pos()), fmt.Sprintf("a file whose Make is %q is reported as %q", s, res.val.s))
			default:
				r.OK("MODELTBL", key, p.posStr(sf.Pos()), "name survives the table")
			}
		}
	}
}

// ---- FRESH -----------------------------------------------------------------------------------------

func ruleFresh(p *Prog, r *Report) {
	pooled := pooledStructs(p)
	var contains func(t types.Type, depth int) bool
	contains = func(t types.Type, depth int) bool {
		if depth > 5 {
			return false
		}
		switch x := t.(type) {
		case *types.Named:
			if x.Obj().Name() == "Exif" && x.Obj().Pkg() != nil && relPkg(x.Obj().Pkg().Path()) == "exif2" {
				return true
			}
			return contains(x.Underlying(), depth+1)
		case *types.Struct:
			for i := 0; i < x.NumFields(); i++ {
				if contains(x.Field(i).Type(), depth+1) {
					return true
				}
			}
		case *types.Array:
			return contains(x.Elem(), depth+1)
		}
		return false
	}
	bad := ""
	var names []string
	for n := range pooled {
		names = append(names, n.Obj().Name())
		if contains(n, 0) {
			bad = n.Obj().Name()
		}
	}
	sort.Strings(names)
	key := "exif2.Exif | not part of any pooled object"
	if bad != "" {
		r.Bad("FRESH", key, "-", "the pooled type "+bad+" contains an exif2.Exif: fields left by an earlier decode appear as values of absent tags")
	} else {
		r.OK("FRESH", key, "-", fmt.Sprintf("pooled struct types %v do not contain the result", names))
	}
	// NewIfdReader builds the reader (and its Exif) with a composite literal / zero value
	f := p.Func("exif2", "", "NewIfdReader")
	if f != nil {
		key := "exif2.NewIfdReader | reader (and its Exif) is a new value"
		fresh := false
		eachInstr(f, func(_ *ssa.BasicBlock, _ int, in ssa.Instruction) {
			if a, ok := in.(*ssa.Alloc); ok {
				if n := namedOfPtr(a.Type()); n != nil && n.Obj().Name() == "ifdReader" {
					fresh = true
				}
			}
		})
		if fresh {
			r.OK("FRESH", key, p.posStr(f.Pos()), "allocated in the constructor")
		} else {
			r.Bad("FRESH", key, p.posStr(f.Pos()), "the reader that carries the result is not allocated by the constructor")
		}
	}
}
