package main

// C10 — STOP: the scan ends only at the markers that end it.
//
// "Metadata segments that precede the first quantisation/Huffman table are found regardless of their order and of
// other segments between them" needs the marker loop of ScanJPEG to keep going until one of the stop markers:
// every return inside the loop must be under marker == DQT, marker == DHT or marker == EOI. A return that depends
// on anything else (a count of segments seen, a callback being nil, an APPn marker) ends the scan early for some
// segment order.

import (
	"fmt"
	"go/token"
	"sort"

	"golang.org/x/tools/go/ssa"
)

func ruleStop(p *Prog, r *Report) {
	f := p.Func("jpeg", "", "ScanJPEG")
	key := "jpeg.ScanJPEG | returns inside the marker loop are under DQT, DHT or EOI"
	if f == nil {
		r.Undecided("STOP", key, "-", "unresolved anchor")
		return
	}
	stop := map[int64]string{0xDB: "DQT", 0xC4: "DHT", 0xD9: "EOI"}
	loops := findLoops(f)
	var loop *Loop
	for _, l := range loops {
		// the marker loop: its head (or the block deciding it) calls nextMarker
		for b := range l.Blocks {
			for _, in := range b.Instrs {
				if c, ok := in.(*ssa.Call); ok {
					if sc := c.Call.StaticCallee(); sc != nil && sc.Name() == "nextMarker" {
						if loop == nil || len(l.Blocks) > len(loop.Blocks) {
							loop = l
						}
					}
				}
			}
		}
	}
	if loop == nil {
		r.Undecided("STOP", key, p.posStr(f.Pos()), "marker loop (a loop calling nextMarker) not found")
		return
	}
	underStop := func(cs []Cond) string {
		for _, cd := range cs {
			bo, ok := cd.V.(*ssa.BinOp)
			if !ok || bo.Op != token.EQL || !cd.True {
				continue
			}
			x, y := bo.X, bo.Y
			if _, isC := x.(*ssa.Const); isC {
				x, y = y, x
			}
			k, ok := constInt(y)
			if !ok {
				continue
			}
			name, isStop := stop[k]
			if !isStop {
				continue
			}
			if ld, ok := stripChange(x).(*ssa.UnOp); ok && ld.Op == token.MUL {
				if fa, ok := ld.X.(*ssa.FieldAddr); ok && fieldName(fa.X.Type(), fa.Field) == "marker" {
					return name
				}
			}
		}
		return ""
	}
	n := 0
	bad := ""
	var seen []string
	isNextMarker := func(v ssa.Value) bool {
		if u, ok := v.(*ssa.UnOp); ok && u.Op == token.NOT {
			v = u.X
		}
		c, ok := v.(*ssa.Call)
		return ok && c.Call.StaticCallee() != nil && c.Call.StaticCallee().Name() == "nextMarker"
	}
	for b := range loop.Blocks {
		if len(b.Instrs) == 0 {
			continue
		}
		last := b.Instrs[len(b.Instrs)-1]
		for _, s := range b.Succs {
			if loop.Blocks[s] {
				continue
			}
			// an edge leaving the loop: either nextMarker() reported the end of the stream, or a return
			if ifi, ok := last.(*ssa.If); ok && isNextMarker(ifi.Cond) {
				continue
			}
			n++
			if m := underStop(edgeConds(b, s)); m != "" {
				seen = append(seen, m)
			} else {
				bad = fmt.Sprintf("the scan is left at %s without the current marker being DQT, DHT or EOI: segments after it are never looked at", p.posStr(instrPos(last)))
			}
		}
	}
	sort.Strings(seen)
	switch {
	case bad != "":
		r.Bad("STOP", key, p.posStr(f.Pos()), bad)
	case n == 0:
		r.Undecided("STOP", key, p.posStr(f.Pos()), "no exit from the marker loop other than the end of the stream")
	default:
		r.OK("STOP", key, p.posStr(f.Pos()), fmt.Sprintf("%d exits from the loop besides the end of the stream, under %v", n, seen))
	}
}

// ---- EXLEN: the library's own Exif callback consumes exactly the window it was declared ---------------------------
//
// CONS counts a callback as consuming header.ExifLength bytes (the property's proviso for foreign callbacks). For the
// callback the library itself installs, exif2.DecodeJPEGIfd, that is decidable: every store to ifdReader.exifLength in
// it is the unmodified h.ExifLength (no cap, no rounding), and its last step on the success path is
// discard(int(exifLength) − int(po)), which brings the position to the end of the declared window. A shorter length
// leaves the last bytes of the segment to the marker scanner (FF D9 of an embedded thumbnail ends the scan early).
func ruleExLen(p *Prog, r *Report) {
	f := p.Func("exif2", "*ifdReader", "DecodeJPEGIfd")
	key := "exif2.(*ifdReader).DecodeJPEGIfd | consumes exactly header.ExifLength"
	if f == nil || len(f.Params) < 3 {
		r.Undecided("EXLEN", key, "-", "unresolved anchor")
		return
	}
	at := p.posStr(f.Pos())
	// h is a by-value struct parameter: fields are read through a local copy (Alloc + FieldAddr) or *ssa.Field
	isHdrLen := func(v ssa.Value) bool {
		for i := 0; i < 3; i++ {
			switch x := v.(type) {
			case *ssa.Field:
				return fieldNameV(x.X.Type(), x.Field) == "ExifLength"
			case *ssa.UnOp:
				if fa, ok := x.X.(*ssa.FieldAddr); ok && x.Op == token.MUL {
					return fieldName(fa.X.Type(), fa.Field) == "ExifLength"
				}
				return false
			case *ssa.ChangeType:
				v = x.X
			default:
				return false
			}
		}
		return false
	}
	bad := ""
	nStores := 0
	eachInstr(f, func(_ *ssa.BasicBlock, _ int, in ssa.Instruction) {
		st, ok := in.(*ssa.Store)
		if !ok {
			return
		}
		fa, ok := st.Addr.(*ssa.FieldAddr)
		if !ok || fieldName(fa.X.Type(), fa.Field) != "exifLength" {
			return
		}
		nStores++
		if !isHdrLen(st.Val) {
			bad = "exifLength is set to " + shortVal(st.Val) + " at " + p.posStr(instrPos(st)) + ", not to the header's ExifLength: the decoder then stops short of (or runs past) the window the scanner accounts for"
		}
	})
	if nStores == 0 {
		bad = "exifLength is never set from the header"
	}
	// the closing discard
	found := false
	eachCall(f, func(site ssa.CallInstruction) {
		c := site.Common()
		sc := c.StaticCallee()
		if sc == nil || sc.Name() != "discard" || len(c.Args) != 2 {
			return
		}
		a := affineOf(c.Args[1], 0)
		pos, neg := 0, 0
		for k, co := range a.Terms {
			v, ok := k.(ssa.Value)
			if !ok {
				continue
			}
			u, ok := v.(*ssa.UnOp)
			if !ok {
				continue
			}
			if fa, ok := u.X.(*ssa.FieldAddr); ok {
				switch fieldName(fa.X.Type(), fa.Field) {
				case "exifLength":
					if co == 1 {
						pos++
					}
				case "po":
					if co == -1 {
						neg++
					}
				}
			}
		}
		if pos == 1 && neg == 1 && a.C == 0 && len(a.Terms) == 2 {
			// it must be the last thing before the final return
			blk := site.Block()
			if _, isRet := blk.Instrs[len(blk.Instrs)-1].(*ssa.Return); isRet {
				found = true
			}
		}
	})
	switch {
	case bad != "":
		r.Bad("EXLEN", key, at, bad)
	case !found:
		r.Bad("EXLEN", key, at, "the success path does not end with discard(int(exifLength) - int(po)): the rest of the declared window is left to the marker scanner")
	default:
		r.OK("EXLEN", key, at, fmt.Sprintf("%d store(s) of the header's ExifLength, closing discard of exifLength - po", nStores))
	}
}
