package main

// C16 — NUMPARSE: decimal text becomes a float through strconv.ParseFloat only.
//
// MarshalText of the float-valued types writes the shortest/rounded decimal of the value; the round trip is the
// identity only if UnmarshalText maps that decimal back to the NEAREST float, which strconv.ParseFloat guarantees.
// A hand-made conversion — parse the digits as integers, then add and divide in floating point — rounds twice and
// lands one ulp off for some values. In every UnmarshalText of a type whose underlying type is float32/float64 the
// value stored through the receiver must therefore be (a conversion of) a ParseFloat result or a constant, never the
// result of floating-point arithmetic.

import (
	"fmt"
	"go/token"
	"go/types"
	"strings"

	"golang.org/x/tools/go/ssa"
)

func ruleNumParse(p *Prog, r *Report) {
	for _, f := range p.AllLibFns() {
		if f.Name() != "UnmarshalText" || f.Signature.Recv() == nil || len(f.Params) == 0 || len(f.Blocks) == 0 {
			continue
		}
		pt, ok := f.Signature.Recv().Type().(*types.Pointer)
		if !ok {
			continue
		}
		named, ok := pt.Elem().(*types.Named)
		if !ok || !isFloat(named.Underlying()) {
			continue
		}
		key := fnName(f) + " | the value comes from strconv.ParseFloat"
		at := p.posStr(f.Pos())
		bad, und := "", ""
		n := 0
		var origin func(v ssa.Value, d int, seen map[ssa.Value]bool)
		origin = func(v ssa.Value, d int, seen map[ssa.Value]bool) {
			if seen[v] || d > 10 || bad != "" {
				return
			}
			seen[v] = true
			switch x := v.(type) {
			case *ssa.Const:
			case *ssa.Convert:
				origin(x.X, d+1, seen)
			case *ssa.ChangeType:
				origin(x.X, d+1, seen)
			case *ssa.Phi:
				for _, e := range x.Edges {
					origin(e, d+1, seen)
				}
			case *ssa.Extract:
				if c, ok := x.Tuple.(*ssa.Call); ok && isCallTo(&c.Call, "strconv.ParseFloat") && x.Index == 0 {
					return
				}
				und = "a value of unrecognised origin (" + shortVal(v) + ")"
			case *ssa.UnOp:
				if x.Op == token.MUL {
					if al, ok := x.X.(*ssa.Alloc); ok {
						for _, rf := range refs(al) {
							if st, ok := rf.(*ssa.Store); ok && st.Addr == ssa.Value(al) {
								origin(st.Val, d+1, seen)
							}
						}
						return
					}
				}
				if x.Op == token.SUB {
					origin(x.X, d+1, seen)
					return
				}
				und = "a value of unrecognised origin (" + shortVal(v) + ")"
			case *ssa.BinOp:
				if isFloat(x.Type()) {
					bad = fmt.Sprintf("the stored value is computed by floating-point arithmetic (%s %s %s at %s): digits converted piecewise are rounded more than once, so some values MarshalText writes do not decode to themselves", shortVal(x.X), x.Op, shortVal(x.Y), p.posStr(instrPos(x)))
					return
				}
				und = "a value of unrecognised origin (" + shortVal(v) + ")"
			case *ssa.Call:
				if sc := x.Call.StaticCallee(); sc != nil && isRepoFn(sc) && len(sc.Blocks) > 0 && isFloat(x.Type()) {
					eachInstr(sc, func(_ *ssa.BasicBlock, _ int, in ssa.Instruction) {
						if rt, ok := in.(*ssa.Return); ok && len(rt.Results) >= 1 {
							origin(rt.Results[0], d+1, seen)
						}
					})
					return
				}
				und = "the result of " + calleeName(&x.Call)
			default:
				und = "a value of unrecognised origin (" + shortVal(v) + ")"
			}
		}
		eachInstr(f, func(_ *ssa.BasicBlock, _ int, in ssa.Instruction) {
			st, ok := in.(*ssa.Store)
			if !ok || st.Addr != ssa.Value(f.Params[0]) {
				return
			}
			n++
			origin(st.Val, 0, map[ssa.Value]bool{})
		})
		switch {
		case n == 0:
			r.Undecided("NUMPARSE", key, at, "no store through the receiver found")
		case bad != "":
			r.Bad("NUMPARSE", key, at, bad)
		case und != "":
			r.Undecided("NUMPARSE", key, at, und)
		default:
			r.OK("NUMPARSE", key, at, fmt.Sprintf("%d stores: conversions of ParseFloat results or constants", n))
		}
	}
}

// ruleFloatWidth: strconv.ParseFloat(s, 32) returns a float64 that holds the NEAREST float32 — fine when the result
// is converted to float32 straight away, a silent loss of nine digits when it is kept as float64 (a coordinate such
// as 51.123456789 comes back as 51.12345504760742). Every ParseFloat call in the packages given must pass bitSize 64
// unless every use of its result is a conversion to a float32-based type.
func ruleFloatWidth(p *Prog, r *Report, rule string, rels ...string) {
	want := map[string]bool{}
	for _, rel := range rels {
		want[rel] = true
	}
	n := 0
	for _, f := range p.AllLibFns() {
		g := f
		for g.Parent() != nil {
			g = g.Parent()
		}
		if g.Pkg == nil || !want[relPkg(g.Pkg.Pkg.Path())] {
			continue
		}
		eachCall(f, func(site ssa.CallInstruction) {
			c := site.Common()
			if !isCallTo(c, "strconv.ParseFloat") || len(c.Args) != 2 {
				return
			}
			n++
			key := fmt.Sprintf("%s | ParseFloat width", fnName(f))
			at := p.posStr(instrPos(site))
			bits, ok := constInt(c.Args[1])
			if !ok {
				r.Undecided(rule, key, at, "bitSize is not a constant")
				return
			}
			if bits == 64 {
				r.OK(rule, key, at, "bitSize 64")
				return
			}
			call, _ := site.(*ssa.Call)
			val := tupleExtract(call, 0)
			narrowedOnly := val != nil
			if val != nil {
				seen := map[ssa.Value]bool{}
				var chk func(v ssa.Value, d int)
				chk = func(v ssa.Value, d int) {
					if seen[v] || d > 4 {
						return
					}
					seen[v] = true
					for _, rf := range refs(v) {
						switch x := rf.(type) {
						case *ssa.Convert:
							if bt, ok := x.Type().Underlying().(*types.Basic); !ok || bt.Kind() != types.Float32 {
								narrowedOnly = false
							}
						case *ssa.Phi:
							chk(x, d+1)
						case *ssa.Store:
							// spilled into a local float64 and re-loaded: follow the loads
							if al, ok := x.Addr.(*ssa.Alloc); ok {
								for _, r2 := range refs(al) {
									if u, ok := r2.(*ssa.UnOp); ok {
										chk(u, d+1)
									}
								}
							} else {
								narrowedOnly = false
							}
						case *ssa.DebugRef:
						default:
							narrowedOnly = false
						}
					}
				}
				chk(val, 0)
			}
			if narrowedOnly {
				r.OK(rule, key, at, fmt.Sprintf("bitSize %d, and the result is only ever converted to a float32 type", bits))
			} else {
				r.Bad(rule, key, at, fmt.Sprintf("ParseFloat(…, %d) whose result is used as a float64: the value is rounded to float32 precision first, so a number with more than about seven significant digits is not reported as written", bits))
			}
		})
	}
	if n == 0 {
		r.OK(rule, "no strconv.ParseFloat in "+strings.Join(rels, ", "), "-", "nothing to decide")
	}
}
