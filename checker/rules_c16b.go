package main

// C16 — NUMPARSE: decimal text becomes a float through strconv.ParseFloat only.
//
// MarshalText of the float-valued types writes the shortest/rounded decimal of the value; the round trip is the
// identity only if UnmarshalText maps that decimal back to the NEAREST float, which strconv.ParseFloat guarantees.
// A hand-made conversion — parse the digits as integers, then add and divide in floating point — rounds twice and
// lands one ulp off for some values. In every UnmarshalText of a type whose underlying type is float32/float64 the
// value stored through the receiver must therefore be (a conversion of) a ParseFloat result or a constant, never the
// result of floating-point arithmetic.

import (
	"fmt"
	"go/constant"
	"go/token"
	"go/types"
	"strings"

	"golang.org/x/tools/go/ssa"
)

func ruleNumParse(p *Prog, r *Report) {
	for _, f := range p.AllLibFns() {
		if f.Name() != "UnmarshalText" || f.Signature.Recv() == nil || len(f.Params) == 0 || len(f.Blocks) == 0 {
			continue
		}
		pt, ok := f.Signature.Recv().Type().(*types.Pointer)
		if !ok {
			continue
		}
		named, ok := pt.Elem().(*types.Named)
		if !ok || !isFloat(named.Underlying()) {
			continue
		}
		key := fnName(f) + " | the value comes from strconv.ParseFloat"
		at := p.posStr(f.Pos())
		bad, und := "", ""
		n := 0
		var origin func(v ssa.Value, d int, seen map[ssa.Value]bool)
		origin = func(v ssa.Value, d int, seen map[ssa.Value]bool) {
			if seen[v] || d > 10 || bad != "" {
				return
			}
			seen[v] = true
			switch x := v.(type) {
			case *ssa.Const:
			case *ssa.Convert:
				origin(x.X, d+1, seen)
			case *ssa.ChangeType:
				origin(x.X, d+1, seen)
			case *ssa.Phi:
				for _, e := range x.Edges {
					origin(e, d+1, seen)
				}
			case *ssa.Extract:
				if c, ok := x.Tuple.(*ssa.Call); ok && isCallTo(&c.Call, "strconv.ParseFloat") && x.Index == 0 {
					return
				}
				und = "a value of unrecognised origin (" + shortVal(v) + ")"
			case *ssa.UnOp:
				if x.Op == token.MUL {
					if al, ok := x.X.(*ssa.Alloc); ok {
						for _, rf := range refs(al) {
							if st, ok := rf.(*ssa.Store); ok && st.Addr == ssa.Value(al) {
								origin(st.Val, d+1, seen)
							}
						}
						return
					}
				}
				if x.Op == token.SUB {
					origin(x.X, d+1, seen)
					return
				}
				und = "a value of unrecognised origin (" + shortVal(v) + ")"
			case *ssa.BinOp:
				if isFloat(x.Type()) {
					bad = fmt.Sprintf("the stored value is computed by floating-point arithmetic (%s %s %s at %s): digits converted piecewise are rounded more than once, so some values MarshalText writes do not decode to themselves", shortVal(x.X), x.Op, shortVal(x.Y), p.posStr(instrPos(x)))
					return
				}
				und = "a value of unrecognised origin (" + shortVal(v) + ")"
			case *ssa.Call:
				if sc := x.Call.StaticCallee(); sc != nil && isRepoFn(sc) && len(sc.Blocks) > 0 && isFloat(x.Type()) {
					eachInstr(sc, func(_ *ssa.BasicBlock, _ int, in ssa.Instruction) {
						if rt, ok := in.(*ssa.Return); ok && len(rt.Results) >= 1 {
							origin(rt.Results[0], d+1, seen)
						}
					})
					return
				}
				und = "the result of " + calleeName(&x.Call)
			default:
				und = "a value of unrecognised origin (" + shortVal(v) + ")"
			}
		}
		eachInstr(f, func(_ *ssa.BasicBlock, _ int, in ssa.Instruction) {
			st, ok := in.(*ssa.Store)
			if !ok || st.Addr != ssa.Value(f.Params[0]) {
				return
			}
			n++
			origin(st.Val, 0, map[ssa.Value]bool{})
		})
		switch {
		case n == 0:
			r.Undecided("NUMPARSE", key, at, "no store through the receiver found")
		case bad != "":
			r.Bad("NUMPARSE", key, at, bad)
		case und != "":
			r.Undecided("NUMPARSE", key, at, und)
		default:
			r.OK("NUMPARSE", key, at, fmt.Sprintf("%d stores: conversions of ParseFloat results or constants", n))
		}
	}
}

// ruleFloatWidth: strconv.ParseFloat(s, 32) returns a float64 that holds the NEAREST float32 — fine when the result
// is converted to float32 straight away, a silent loss of nine digits when it is kept as float64 (a coordinate such
// as 51.123456789 comes back as 51.12345504760742). Every ParseFloat call in the packages given must pass bitSize 64
// unless every use of its result is a conversion to a float32-based type.
func ruleFloatWidth(p *Prog, r *Report, rule string, rels ...string) {
	want := map[string]bool{}
	for _, rel := range rels {
		want[rel] = true
	}
	n := 0
	for _, f := range p.AllLibFns() {
		g := f
		for g.Parent() != nil {
			g = g.Parent()
		}
		if g.Pkg == nil || !want[relPkg(g.Pkg.Pkg.Path())] {
			continue
		}
		eachCall(f, func(site ssa.CallInstruction) {
			c := site.Common()
			if !isCallTo(c, "strconv.ParseFloat") || len(c.Args) != 2 {
				return
			}
			n++
			key := fmt.Sprintf("%s | ParseFloat width", fnName(f))
			at := p.posStr(instrPos(site))
			bits, ok := constInt(c.Args[1])
			if !ok {
				r.Undecided(rule, key, at, "bitSize is not a constant")
				return
			}
			if bits == 64 {
				r.OK(rule, key, at, "bitSize 64")
				return
			}
			call, _ := site.(*ssa.Call)
			val := tupleExtract(call, 0)
			narrowedOnly := val != nil
			if val != nil {
				seen := map[ssa.Value]bool{}
				var chk func(v ssa.Value, d int)
				chk = func(v ssa.Value, d int) {
					if seen[v] || d > 4 {
						return
					}
					seen[v] = true
					for _, rf := range refs(v) {
						switch x := rf.(type) {
						case *ssa.Convert:
							if bt, ok := x.Type().Underlying().(*types.Basic); !ok || bt.Kind() != types.Float32 {
								narrowedOnly = false
							}
						case *ssa.Phi:
							chk(x, d+1)
						case *ssa.Store:
							// spilled into a local float64 and re-loaded: follow the loads
							if al, ok := x.Addr.(*ssa.Alloc); ok {
								for _, r2 := range refs(al) {
									if u, ok := r2.(*ssa.UnOp); ok {
										chk(u, d+1)
									}
								}
							} else {
								narrowedOnly = false
							}
						case *ssa.DebugRef:
						default:
							narrowedOnly = false
						}
					}
				}
				chk(val, 0)
			}
			if narrowedOnly {
				r.OK(rule, key, at, fmt.Sprintf("bitSize %d, and the result is only ever converted to a float32 type", bits))
			} else {
				r.Bad(rule, key, at, fmt.Sprintf("ParseFloat(…, %d) whose result is used as a float64: the value is rounded to float32 precision first, so a number with more than about seven significant digits is not reported as written", bits))
			}
		})
	}
	if n == 0 {
		r.OK(rule, "no strconv.ParseFloat in "+strings.Join(rels, ", "), "-", "nothing to decide")
	}
}

// FIXFIT (C16): a fixed-point path selected by a guard holds every value the guard lets in.
//
// Instances: in package meta, every conversion of a floating-point value to a sized integer type whose operand is
// (a rounding of) x·c for a constant c, at a place dominated by an explicit upper guard `x < K` / `x <= K` on the same
// x. The guard is what the author offers as the reason the conversion is safe, so K·c must fit the target type:
// 1000 mm in hundredths is 100000, which a uint16 wraps (800 mm is then written as "144.64mm" and decodes to
// another focal length).
func ruleFixFit(p *Prog, r *Report) {
	r.Explain("FIXFIT: in package meta, wherever a floating-point value x, scaled by a constant c and possibly rounded, is converted to a sized integer type at a place dominated by an upper guard x < K or x <= K, the product K*c fits that type - otherwise the values between the type's range and the guard wrap, and the text written for them decodes to a different value.")
	pk := p.SSAPkg("meta")
	if pk == nil {
		r.Fatal("unresolved anchor: package meta")
		return
	}
	stripF := func(v ssa.Value) ssa.Value {
		for i := 0; i < 4; i++ {
			cv, ok := v.(*ssa.Convert)
			if !ok || !isFloat(cv.Type()) || !isFloat(cv.X.Type()) {
				return v
			}
			v = cv.X
		}
		return v
	}
	n := 0
	for _, f := range p.AllLibFns() {
		if f.Pkg != pk || f.Blocks == nil {
			continue
		}
		eachInstr(f, func(b *ssa.BasicBlock, _ int, in ssa.Instruction) {
			cv, ok := in.(*ssa.Convert)
			if !ok || !isFloat(cv.X.Type()) {
				return
			}
			tb, ok := cv.Type().Underlying().(*types.Basic)
			if !ok || tb.Info()&types.IsInteger == 0 {
				return
			}
			var maxT float64
			switch tb.Kind() {
			case types.Uint8:
				maxT = 255
			case types.Int8:
				maxT = 127
			case types.Uint16:
				maxT = 65535
			case types.Int16:
				maxT = 32767
			case types.Uint32:
				maxT = 4294967295
			case types.Int32:
				maxT = 2147483647
			default:
				return
			}
			v := stripF(cv.X)
			if c, ok := v.(*ssa.Call); ok {
				if sc := c.Call.StaticCallee(); sc != nil && sc.Pkg != nil && sc.Pkg.Pkg.Path() == "math" && len(c.Call.Args) == 1 {
					v = stripF(c.Call.Args[0])
				}
			}
			scale := 1.0
			if bo, ok := v.(*ssa.BinOp); ok && bo.Op == token.MUL {
				if k, ok := floatConst(bo.Y); ok {
					scale, v = k, stripF(bo.X)
				} else if k, ok := floatConst(bo.X); ok {
					scale, v = k, stripF(bo.Y)
				}
			}
			if scale <= 0 {
				return
			}
			for _, cd := range condsAt(b) {
				bo, ok := cd.V.(*ssa.BinOp)
				if !ok {
					continue
				}
				op := bo.Op
				var other ssa.Value
				var k float64
				if kk, ok := floatConst(bo.Y); ok {
					other, k = stripF(bo.X), kk
				} else if kk, ok := floatConst(bo.X); ok {
					other, k = stripF(bo.Y), kk
					op = map[token.Token]token.Token{token.LSS: token.GTR, token.GTR: token.LSS, token.LEQ: token.GEQ, token.GEQ: token.LEQ}[op]
				} else {
					continue
				}
				if other != v {
					continue
				}
				if !cd.True {
					op = map[token.Token]token.Token{token.LSS: token.GEQ, token.GEQ: token.LSS, token.LEQ: token.GTR, token.GTR: token.LEQ}[op]
				}
				if op != token.LSS && op != token.LEQ {
					continue
				}
				n++
				key := fmt.Sprintf("%s | %s of a value guarded by %s %g and scaled by %g", fnName(f), tb.Name(), op, k, scale)
				at := p.posStr(cv.Pos())
				bound := k * scale
				fits := bound <= maxT || (op == token.LSS && bound <= maxT+1)
				if fits {
					r.OK("FIXFIT", key, at, fmt.Sprintf("at most %g, which %s holds", bound, tb.Name()))
				} else {
					r.Bad("FIXFIT", key, at, fmt.Sprintf("the guard lets values up to %g through, scaled that is %g, and %s holds %g at most: the values in between wrap, so the text written for them decodes to a different value", k, bound, tb.Name(), maxT))
				}
			}
		})
	}
	r.Extra("fixfit_guarded_conversions", n)
}

func floatConst(v ssa.Value) (float64, bool) {
	c, ok := v.(*ssa.Const)
	if !ok || c.Value == nil {
		return 0, false
	}
	switch c.Value.Kind() {
	case constant.Int, constant.Float:
		f, _ := constant.Float64Val(constant.ToFloat(c.Value))
		return f, true
	}
	return 0, false
}

// UTSET (C16): a text decoder that reports success has set its receiver.
//
// UnmarshalText(MarshalText(v)) == v has to hold whatever the receiver held before (encoding/json decodes into
// existing values). Obligation per UnmarshalText / UnmarshalJSON / UnmarshalBinary method of the library: every
// return whose error may be nil is reached only through a store into the receiver (or a call that is handed the
// receiver). A path that returns nil without storing - "0/0" taken for "nothing to do" - leaves the previous value
// in place, so the zero value does not survive the round trip into a used variable.
func ruleUtSet(p *Prog, r *Report) {
	r.Explain("UTSET: in every UnmarshalText, UnmarshalJSON and UnmarshalBinary method of the library, each return whose error can be nil is reached only after a store through the receiver (or a call that receives it): a decoder that accepts a text without assigning leaves the variable's previous value, so the value encoded does not come back when the target was in use. An empty input is exempt only if the method tests its length first and nothing else.")
	e := p.E3()
	names := map[string]bool{"UnmarshalText": true, "UnmarshalJSON": true, "UnmarshalBinary": true}
	for _, f := range libMethodsNamed(p, names) {
		if f.Blocks == nil || len(f.Params) < 2 {
			continue
		}
		recv := f.Params[0]
		if _, ok := recv.Type().Underlying().(*types.Pointer); !ok {
			continue
		}
		key := fnName(f) + " | every successful return has stored the receiver"
		at := p.posStr(f.Pos())
		sets := map[*ssa.BasicBlock]bool{}
		var derived func(v ssa.Value, d int) bool
		derived = func(v ssa.Value, d int) bool {
			if d > 6 {
				return false
			}
			switch x := v.(type) {
			case *ssa.Parameter:
				return x == recv
			case *ssa.FieldAddr:
				return derived(x.X, d+1)
			case *ssa.IndexAddr:
				return derived(x.X, d+1)
			case *ssa.Slice:
				return derived(x.X, d+1)
			case *ssa.ChangeType:
				return derived(x.X, d+1)
			case *ssa.Convert:
				return derived(x.X, d+1)
			}
			return false
		}
		eachInstr(f, func(b *ssa.BasicBlock, _ int, in ssa.Instruction) {
			switch x := in.(type) {
			case *ssa.Store:
				if derived(x.Addr, 0) {
					sets[b] = true
				}
			case ssa.CallInstruction:
				for _, a := range x.Common().Args {
					if derived(a, 0) {
						sets[b] = true
					}
				}
			}
		})
		bad := ""
		seen := map[*ssa.BasicBlock]bool{f.Blocks[0]: true}
		st := []*ssa.BasicBlock{f.Blocks[0]}
		for len(st) > 0 && bad == "" {
			b := st[len(st)-1]
			st = st[:len(st)-1]
			if sets[b] {
				continue
			}
			if len(b.Instrs) > 0 {
				if rt, ok := b.Instrs[len(b.Instrs)-1].(*ssa.Return); ok && len(rt.Results) > 0 {
					ev, eb := spilledResult(rt.Results[len(rt.Results)-1], b)
					if !e.definitelyNonNil(ev, eb) && !onlyEmptyInput(b, f) {
						bad = fmt.Sprintf("the return at %s can report success without the receiver having been assigned: the variable keeps its previous value, so a value whose text takes this path (the zero value, typically) does not come back from a round trip into a variable that was in use", p.posStr(rt.Pos()))
					}
					continue
				}
			}
			for _, s := range b.Succs {
				if !seen[s] {
					seen[s] = true
					st = append(st, s)
				}
			}
		}
		if bad != "" {
			r.Bad("UTSET", key, at, bad)
		} else {
			r.OK("UTSET", key, at, "every return with a possibly nil error is reached through a store into the receiver or a call that is handed it")
		}
	}
}

// onlyEmptyInput: block b is reached under exactly one condition, len(param) == 0 (or its mirror forms).
func onlyEmptyInput(b *ssa.BasicBlock, f *ssa.Function) bool {
	cs := condsAt(b)
	if len(cs) != 1 {
		return false
	}
	bo, ok := cs[0].V.(*ssa.BinOp)
	if !ok {
		return false
	}
	isLen := func(v ssa.Value) bool {
		c, ok := v.(*ssa.Call)
		if !ok {
			return false
		}
		bi, ok := c.Call.Value.(*ssa.Builtin)
		return ok && bi.Name() == "len" && len(c.Call.Args) == 1 && c.Call.Args[0] == ssa.Value(f.Params[1])
	}
	k, okc := constInt(bo.Y)
	if !isLen(bo.X) || !okc {
		return false
	}
	switch {
	case bo.Op == token.EQL && k == 0 && cs[0].True:
		return true
	case bo.Op == token.NEQ && k == 0 && !cs[0].True:
		return true
	case bo.Op == token.LSS && k == 1 && cs[0].True:
		return true
	case bo.Op == token.GTR && k == 0 && !cs[0].True:
		return true
	}
	return false
}

// MSGP-ALL (reported under MSGP): an encoder writes every field, whatever its value.
//
// The generated decoders assign only the keys they find, so a field the encoder leaves out (msgp's omitempty form:
// `if z.Width == 0 { … skip … }`) keeps whatever the receiver held: a zero field does not survive a round trip into
// a value that was in use. Obligation per EncodeMsg / MarshalMsg method: no call of a msgp Write*/Append* function
// is dominated by an integer equality test against a constant (tests of errors against nil and the bounds of range
// loops are what the always-write form has).
func ruleMsgpAll(p *Prog, r *Report) {
	for _, f := range libMethodsNamed(p, map[string]bool{"EncodeMsg": true, "MarshalMsg": true}) {
		if f.Blocks == nil {
			continue
		}
		key := fnName(f) + " | every field is written whatever its value"
		bad := ""
		nw := 0
		eachCall(f, func(site ssa.CallInstruction) {
			sc := site.Common().StaticCallee()
			if sc == nil || sc.Pkg == nil || !strings.HasSuffix(sc.Pkg.Pkg.Path(), "tinylib/msgp/msgp") {
				return
			}
			if !(strings.HasPrefix(sc.Name(), "Write") || strings.HasPrefix(sc.Name(), "Append")) {
				return
			}
			nw++
			for _, cd := range condsAt(site.Block()) {
				bo, ok := cd.V.(*ssa.BinOp)
				if !ok || (bo.Op != token.EQL && bo.Op != token.NEQ) {
					continue
				}
				_, cx := constInt(bo.X)
				_, cy := constInt(bo.Y)
				if (cx || cy) && bad == "" {
					bad = fmt.Sprintf("%s at %s is written only under the value test at %s: a field that is left out keeps the receiver's previous value on decoding, so its zero value does not survive a round trip into a value that was in use", shortCallee(site.Common()), p.posStr(instrPos(site)), p.posStr(bo.Pos()))
				}
			}
		})
		if nw == 0 {
			continue
		}
		if bad != "" {
			r.Bad("MSGP", key, p.posStr(f.Pos()), bad)
		} else {
			r.OK("MSGP", key, p.posStr(f.Pos()), fmt.Sprintf("%d msgp writes, none under a test of a value", nw))
		}
	}
}
