package main

import (
	"fmt"
	"go/token"
	"go/types"

	"golang.org/x/tools/go/ssa"
)

// BOXTBL / BOXPURE (C11, C06): the type of a box is a function of its four-character code.
//
// BOXTBL: for every declared boxType constant c, boxTypeFromBuf(String(c)) == c by constant folding of the two name
// tables: no two codes share a type and no code is filed under another box's type (a 'CMP1' box read as CMT1 would
// be handed to the Exif callback as the root directory).
//
// BOXPURE: the classifier - every library function of package isobmff that takes a byte slice and returns a boxType -
// reads nothing but its argument, immutable tables and the logger, and writes nothing outside its own frame: no
// memo in a package-level variable or in the Reader (a remembered answer pairs the code of one box with the type of
// another as soon as the remembered bytes are a window of a buffer that has moved on, or the memo is updated on one
// path only).
func ruleBoxTbl(p *Prog, r *Report) {
	r.Explain("BOXTBL: for every declared isobmff.boxType constant with a name of its own, folding String and then the classifier from bytes to boxType gives the constant back: the two name tables are mutually inverse, no four-character code is filed under another box's type.")
	fd := &folder{p: p}
	n := 0
	for _, f := range boxClassifiers(p) {
		if why, _ := impureWhy(p, f); why != "" || f.Signature.Recv() != nil {
			continue // reported by BOXPURE
		}
		n++
		ruleRoundTripOpt(p, r, fd, "BOXTBL", "isobmff", "boxType", "String", f.Name(), true, true)
	}
	if n == 0 {
		r.Undecided("BOXTBL", "isobmff.boxType | round trip", "-", "no classifier that is a function of its argument alone (see BOXPURE): the name tables cannot be folded")
	}
	r.Floor("BOXTBL", 30)
}

// boxClassifiers: the library functions of package isobmff that take a byte slice and return a boxType.
func boxClassifiers(p *Prog) []*ssa.Function {
	pk := p.SSAPkg("isobmff")
	if pk == nil {
		return nil
	}
	bt, _ := pk.Pkg.Scope().Lookup("boxType").(*types.TypeName)
	if bt == nil {
		return nil
	}
	var out []*ssa.Function
	for _, f := range p.AllLibFns() {
		if f.Pkg != pk || f.Blocks == nil || f.Synthetic != "" {
			continue
		}
		res := f.Signature.Results()
		if res.Len() != 1 || !types.Identical(res.At(0).Type(), bt.Type()) {
			continue
		}
		for i := 0; i < f.Signature.Params().Len(); i++ {
			if typeStr(f.Signature.Params().At(i).Type()) == "[]byte" {
				out = append(out, f)
				break
			}
		}
	}
	sortFns(out)
	return out
}

func ruleBoxPure(p *Prog, r *Report) {
	r.Explain("BOXPURE: every function of package isobmff that takes a byte slice and returns a boxType reads only its argument, package-level tables that nothing outside the initialiser writes and the logger, reads no field of an object that outlives the call and stores only into its own locals - the type of a box depends on its four-character code alone, not on the boxes seen before.")
	n := 0
	for _, f := range boxClassifiers(p) {
		n++
		key := fnName(f) + " | the box type depends on the four-character code only"
		why, fns := impureWhy(p, f)
		if why != "" {
			r.Bad("BOXPURE", key, p.posStr(f.Pos()), why+": the same code can then be classified differently depending on which boxes were seen before")
		} else {
			r.OK("BOXPURE", key, p.posStr(f.Pos()), fmt.Sprintf("%d function(s): only the argument, immutable tables and the logger are read; nothing outside the frame is written", fns))
		}
	}
	if n == 0 {
		r.Undecided("BOXPURE", "isobmff | classifier", "-", "no function from []byte to boxType found (anchor lost)")
	}
}

// impureWhy: "" when f and the library functions it calls statically read no mutable package-level state (loggers
// excepted), read no field through a pointer parameter or receiver, and store only into their own locals.
func impureWhy(p *Prog, root *ssa.Function) (string, int) {
	bad := ""
	seen := map[*ssa.Function]bool{}
	isLoggerT := func(t types.Type) bool {
		for {
			pt, ok := t.Underlying().(*types.Pointer)
			if !ok {
				break
			}
			t = pt.Elem()
		}
		n, ok := t.(*types.Named)
		return ok && n.Obj().Pkg() != nil && n.Obj().Pkg().Path() == "github.com/rs/zerolog"
	}
	var localBase func(v ssa.Value, d int) bool
	localBase = func(v ssa.Value, d int) bool {
		if d > 8 {
			return false
		}
		switch x := v.(type) {
		case *ssa.Alloc:
			return true
		case *ssa.FieldAddr:
			return localBase(x.X, d+1)
		case *ssa.IndexAddr:
			return localBase(x.X, d+1)
		}
		return false
	}
	var visit func(f *ssa.Function, d int)
	visit = func(f *ssa.Function, d int) {
		if seen[f] || d > 6 || bad != "" {
			return
		}
		seen[f] = true
		eachInstr(f, func(_ *ssa.BasicBlock, _ int, in ssa.Instruction) {
			if bad != "" {
				return
			}
			var ops []*ssa.Value
			for _, o := range in.Operands(ops) {
				if g, ok := (*o).(*ssa.Global); ok && g.Pkg != nil && isRepoPath(g.Pkg.Pkg.Path()) {
					if isLoggerT(g.Type()) {
						continue
					}
					if !p.Tables().Immutable(g) {
						bad = "it uses " + globalName(g) + " (in " + fnName(f) + ", " + p.posStr(instrPos(in)) + "), which is written outside the package initialiser"
					}
				}
			}
			switch x := in.(type) {
			case *ssa.UnOp:
				if x.Op == token.MUL {
					if fa, ok := x.X.(*ssa.FieldAddr); ok && !localBase(fa.X, 0) && !isLoggerT(x.Type()) {
						if n := namedOfPtr(fa.X.Type()); n != nil && isRepoPath(pkgPathOf(n)) {
							bad = fmt.Sprintf("it reads the field %s.%s of an object that outlives the call (in %s, %s)", n.Obj().Name(), fieldName(fa.X.Type(), fa.Field), fnName(f), p.posStr(x.Pos()))
						}
					}
				}
			case *ssa.Store:
				if !localBase(x.Addr, 0) {
					bad = fmt.Sprintf("it stores into memory that outlives the call (in %s, %s)", fnName(f), p.posStr(x.Pos()))
				}
			case ssa.CallInstruction:
				if sc := x.Common().StaticCallee(); sc != nil && isRepoFn(sc) && len(sc.Blocks) > 0 {
					visit(sc, d+1)
				}
			}
		})
	}
	visit(root, 0)
	return bad, len(seen)
}

// WALKPANIC (C06): a box handler never panics on a short sibling box.
//
// The walkers of the ISOBMFF reader log a handler's error and go on to the next box (WALKERR), so a box that is
// mere container content cannot cost the payload its metadata - unless the handler panics: the panic is caught at
// ReadMetadata and the whole walk is abandoned. Slicing a peeked window past its length is not such a panic (the
// window of a bufio.Reader has spare capacity), but converting a slice to an array ([N]T(s), (*[N]T)(s)) is: it
// panics whenever len(s) < N. Obligation: every such conversion in package isobmff reachable from ReadMetadata is
// proved in range by E3 (no credit for the recover frame).
func ruleWalkPanic(p *Prog, r *Report) {
	r.Explain("WALKPANIC: every slice-to-array conversion in the functions of package isobmff reachable from ReadMetadata is proved in range by the bounds prover, with no credit for the recover frame: a handler's error is logged and the walk goes on (WALKERR), a panic abandons the walk, and this conversion is the panic a short sibling box can cause (re-slicing a peeked window past its length stays inside the window's capacity and does not panic).")
	root := p.Func("isobmff", "*Reader", "ReadMetadata")
	if root == nil {
		r.Fatal("unresolved anchor isobmff.(*Reader).ReadMetadata")
		return
	}
	e := p.E3()
	nf, nconv := 0, 0
	for _, f := range p.LibReachDirect([]*ssa.Function{root}) {
		if f.Pkg == nil || f.Pkg != root.Pkg {
			continue
		}
		nf++
		fb := e.fnB(f)
		for _, ob := range fb.obs {
			if ob.Kind != "toarray" {
				continue
			}
			nconv++
			key := fnName(f) + " | " + ob.Key
			if ob.OK {
				r.OK("WALKPANIC", key, p.posStr(instrPos(ob.In)), ob.By)
			} else {
				r.Bad("WALKPANIC", key, p.posStr(instrPos(ob.In)), ob.Detail+"; the panic is caught at ReadMetadata, which abandons the walk: a short sibling box then costs the payload boxes behind it their metadata")
			}
		}
	}
	r.OK("WALKPANIC", "isobmff | box handlers reachable from ReadMetadata", p.posStr(root.Pos()), fmt.Sprintf("%d functions scanned, %d slice-to-array conversions, each an obligation of its own", nf, nconv))
}
