package main

import (
	"fmt"
	"go/token"
	"go/types"
	"strings"

	"golang.org/x/tools/go/ssa"
)

// BOXTBL / BOXPURE (C11, C06): the type of a box is a function of its four-character code.
//
// BOXTBL: for every declared boxType constant c, boxTypeFromBuf(String(c)) == c by constant folding of the two name
// tables: no two codes share a type and no code is filed under another box's type (a 'CMP1' box read as CMT1 would
// be handed to the Exif callback as the root directory).
//
// BOXPURE: the classifier - every library function of package isobmff that takes a byte slice and returns a boxType -
// reads nothing but its argument, immutable tables and the logger, and writes nothing outside its own frame: no
// memo in a package-level variable or in the Reader (a remembered answer pairs the code of one box with the type of
// another as soon as the remembered bytes are a window of a buffer that has moved on, or the memo is updated on one
// path only).
func ruleBoxTbl(p *Prog, r *Report) {
	r.Explain("BOXTBL: for every declared isobmff.boxType constant with a name of its own, folding String and then the classifier from bytes to boxType gives the constant back: the two name tables are mutually inverse, no four-character code is filed under another box's type.")
	fd := &folder{p: p}
	n := 0
	for _, f := range boxClassifiers(p) {
		if why, _ := impureWhy(p, f); why != "" || f.Signature.Recv() != nil {
			continue // reported by BOXPURE
		}
		n++
		ruleRoundTripOpt(p, r, fd, "BOXTBL", "isobmff", "boxType", "String", f.Name(), true, true)
	}
	if n == 0 {
		r.Undecided("BOXTBL", "isobmff.boxType | round trip", "-", "no classifier that is a function of its argument alone (see BOXPURE): the name tables cannot be folded")
	}
	r.Floor("BOXTBL", 30)
}

// boxClassifiers: the library functions of package isobmff that take a byte slice and return a boxType.
func boxClassifiers(p *Prog) []*ssa.Function {
	pk := p.SSAPkg("isobmff")
	if pk == nil {
		return nil
	}
	bt, _ := pk.Pkg.Scope().Lookup("boxType").(*types.TypeName)
	if bt == nil {
		return nil
	}
	var out []*ssa.Function
	for _, f := range p.AllLibFns() {
		if f.Pkg != pk || f.Blocks == nil || f.Synthetic != "" {
			continue
		}
		res := f.Signature.Results()
		if res.Len() != 1 || !types.Identical(res.At(0).Type(), bt.Type()) {
			continue
		}
		for i := 0; i < f.Signature.Params().Len(); i++ {
			if typeStr(f.Signature.Params().At(i).Type()) == "[]byte" {
				out = append(out, f)
				break
			}
		}
	}
	sortFns(out)
	return out
}

func ruleBoxPure(p *Prog, r *Report) {
	r.Explain("BOXPURE: every function of package isobmff that takes a byte slice and returns a boxType reads only its argument, package-level tables that nothing outside the initialiser writes and the logger, reads no field of an object that outlives the call and stores only into its own locals - the type of a box depends on its four-character code alone, not on the boxes seen before.")
	n := 0
	for _, f := range boxClassifiers(p) {
		n++
		key := fnName(f) + " | the box type depends on the four-character code only"
		why, fns := impureWhy(p, f)
		if why != "" {
			r.Bad("BOXPURE", key, p.posStr(f.Pos()), why+": the same code can then be classified differently depending on which boxes were seen before")
		} else {
			r.OK("BOXPURE", key, p.posStr(f.Pos()), fmt.Sprintf("%d function(s): only the argument, immutable tables and the logger are read; nothing outside the frame is written", fns))
		}
	}
	if n == 0 {
		r.Undecided("BOXPURE", "isobmff | classifier", "-", "no function from []byte to boxType found (anchor lost)")
	}
}

// impureWhy: "" when f and the library functions it calls statically read no mutable package-level state (loggers
// excepted), read no field through a pointer parameter or receiver, and store only into their own locals.
func impureWhy(p *Prog, root *ssa.Function) (string, int) {
	bad := ""
	seen := map[*ssa.Function]bool{}
	isLoggerT := func(t types.Type) bool {
		for {
			pt, ok := t.Underlying().(*types.Pointer)
			if !ok {
				break
			}
			t = pt.Elem()
		}
		n, ok := t.(*types.Named)
		return ok && n.Obj().Pkg() != nil && n.Obj().Pkg().Path() == "github.com/rs/zerolog"
	}
	var localBase func(v ssa.Value, d int) bool
	localBase = func(v ssa.Value, d int) bool {
		if d > 8 {
			return false
		}
		switch x := v.(type) {
		case *ssa.Alloc:
			return true
		case *ssa.FieldAddr:
			return localBase(x.X, d+1)
		case *ssa.IndexAddr:
			return localBase(x.X, d+1)
		}
		return false
	}
	var visit func(f *ssa.Function, d int)
	visit = func(f *ssa.Function, d int) {
		if seen[f] || d > 6 || bad != "" {
			return
		}
		seen[f] = true
		eachInstr(f, func(_ *ssa.BasicBlock, _ int, in ssa.Instruction) {
			if bad != "" {
				return
			}
			var ops []*ssa.Value
			for _, o := range in.Operands(ops) {
				if g, ok := (*o).(*ssa.Global); ok && g.Pkg != nil && isRepoPath(g.Pkg.Pkg.Path()) {
					if isLoggerT(g.Type()) {
						continue
					}
					if !p.Tables().Immutable(g) {
						bad = "it uses " + globalName(g) + " (in " + fnName(f) + ", " + p.posStr(instrPos(in)) + "), which is written outside the package initialiser"
					}
				}
			}
			switch x := in.(type) {
			case *ssa.UnOp:
				if x.Op == token.MUL {
					if fa, ok := x.X.(*ssa.FieldAddr); ok && !localBase(fa.X, 0) && !isLoggerT(x.Type()) {
						if n := namedOfPtr(fa.X.Type()); n != nil && isRepoPath(pkgPathOf(n)) {
							bad = fmt.Sprintf("it reads the field %s.%s of an object that outlives the call (in %s, %s)", n.Obj().Name(), fieldName(fa.X.Type(), fa.Field), fnName(f), p.posStr(x.Pos()))
						}
					}
				}
			case *ssa.Store:
				if !localBase(x.Addr, 0) {
					bad = fmt.Sprintf("it stores into memory that outlives the call (in %s, %s)", fnName(f), p.posStr(x.Pos()))
				}
			case ssa.CallInstruction:
				if sc := x.Common().StaticCallee(); sc != nil && isRepoFn(sc) && len(sc.Blocks) > 0 {
					visit(sc, d+1)
				}
			}
		})
	}
	visit(root, 0)
	return bad, len(seen)
}

// WALKPANIC (C06): a box handler never panics on a short sibling box.
//
// The walkers of the ISOBMFF reader log a handler's error and go on to the next box (WALKERR), so a box that is
// mere container content cannot cost the payload its metadata - unless the handler panics: the panic is caught at
// ReadMetadata and the whole walk is abandoned. Slicing a peeked window past its length is not such a panic (the
// window of a bufio.Reader has spare capacity), but converting a slice to an array ([N]T(s), (*[N]T)(s)) is: it
// panics whenever len(s) < N. Obligation: every such conversion in package isobmff reachable from ReadMetadata is
// proved in range by E3 (no credit for the recover frame).
func ruleWalkPanic(p *Prog, r *Report) {
	r.Explain("WALKPANIC: every slice-to-array conversion in the functions of package isobmff reachable from ReadMetadata is proved in range by the bounds prover, with no credit for the recover frame: a handler's error is logged and the walk goes on (WALKERR), a panic abandons the walk, and this conversion is the panic a short sibling box can cause (re-slicing a peeked window past its length stays inside the window's capacity and does not panic).")
	root := p.Func("isobmff", "*Reader", "ReadMetadata")
	if root == nil {
		r.Fatal("unresolved anchor isobmff.(*Reader).ReadMetadata")
		return
	}
	e := p.E3()
	nf, nconv := 0, 0
	for _, f := range p.LibReachDirect([]*ssa.Function{root}) {
		if f.Pkg == nil || f.Pkg != root.Pkg {
			continue
		}
		nf++
		fb := e.fnB(f)
		for _, ob := range fb.obs {
			if ob.Kind != "toarray" {
				continue
			}
			nconv++
			key := fnName(f) + " | " + ob.Key
			if ob.OK {
				r.OK("WALKPANIC", key, p.posStr(instrPos(ob.In)), ob.By)
			} else {
				r.Bad("WALKPANIC", key, p.posStr(instrPos(ob.In)), ob.Detail+"; the panic is caught at ReadMetadata, which abandons the walk: a short sibling box then costs the payload boxes behind it their metadata")
			}
		}
	}
	r.OK("WALKPANIC", "isobmff | box handlers reachable from ReadMetadata", p.posStr(root.Pos()), fmt.Sprintf("%d functions scanned, %d slice-to-array conversions, each an obligation of its own", nf, nconv))
}

// CURSOR (C06, C11): a loop over the records of a box moves the cursor on every iteration.
//
// Instances: in package isobmff, every loop that has a unit-step counter and, besides it, an integer variable
// carried around the loop that some path through the body increases (the cursor into the peeked box payload). If
// another path through the body leaves that variable as it was - the record is examined only when `j == 0`, say -
// the records that take that path are not stepped over, and everything behind them in the box is read at the
// wrong place: an item with two extents in front of the Exif item makes the Exif item's location garbage.
func ruleCursor(p *Prog, r *Report) {
	r.Explain("CURSOR: in package isobmff, in every counted loop (a unit-step counter) that carries a second integer variable which some path through the body increases, no path through the body leaves that variable unchanged: a record loop that advances its cursor for the first record only reads every later record of the box at the wrong offset.")
	pk := p.SSAPkg("isobmff")
	if pk == nil {
		r.Fatal("unresolved anchor: package isobmff")
		return
	}
	n := 0
	for _, f := range p.AllLibFns() {
		if f.Pkg != pk || f.Blocks == nil {
			continue
		}
		for _, l := range findLoops(f) {
			// a unit-step counter at the loop head
			hasCounter := false
			var phis []*ssa.Phi
			for _, in := range l.Head.Instrs {
				ph, ok := in.(*ssa.Phi)
				if !ok {
					break
				}
				phis = append(phis, ph)
				if ind, ok := inductionOf(ph); ok && ind.Step == 1 {
					hasCounter = true
				}
			}
			if !hasCounter {
				continue
			}
			for _, ph := range phis {
				if !isIntType(ph.Type()) {
					continue
				}
				if ind, ok := inductionOf(ph); ok && ind.Step != 0 {
					continue // a counter itself
				}
				// back-edge values: increased on some path, unchanged on another?
				inc, same := false, false
				var walk func(v ssa.Value, d int)
				seen := map[ssa.Value]bool{}
				walk = func(v ssa.Value, d int) {
					if d > 8 || seen[v] {
						return
					}
					seen[v] = true
					if v == ssa.Value(ph) {
						same = true
						return
					}
					switch x := v.(type) {
					case *ssa.Phi:
						if l.Blocks[x.Block()] {
							for _, e := range x.Edges {
								walk(e, d+1)
							}
						}
					case *ssa.BinOp:
						if x.Op == token.ADD {
							a := affineOf(x, 0)
							if a.coef(ph) == 1 {
								inc = true
							}
						}
					}
				}
				for i, e := range ph.Edges {
					if l.Blocks[l.Head.Preds[i]] {
						walk(e, 0)
					}
				}
				if !inc {
					continue
				}
				// a cursor into the payload: the variable (or a sum with it) indexes or slices a byte slice
				intoBytes := false
				var uses func(v ssa.Value, d int)
				seenU := map[ssa.Value]bool{}
				uses = func(v ssa.Value, d int) {
					if d > 3 || seenU[v] {
						return
					}
					seenU[v] = true
					for _, rf := range refs(v) {
						switch x := rf.(type) {
						case *ssa.Slice:
							if typeStr(x.X.Type()) == "[]byte" && (x.Low == v || x.High == v) {
								intoBytes = true
							}
						case *ssa.IndexAddr:
							if typeStr(x.X.Type()) == "[]byte" && x.Index == v {
								intoBytes = true
							}
						case *ssa.BinOp:
							if x.Op == token.ADD {
								uses(x, d+1)
							}
						case *ssa.Phi:
							uses(x, d+1)
						}
					}
				}
				uses(ph, 0)
				if !intoBytes {
					continue
				}
				n++
				key := fmt.Sprintf("%s | cursor %s of a counted record loop", fnName(f), shortVal(ph))
				at := p.posStr(ph.Pos())
				if same {
					r.Bad("CURSOR", key, at, "some path through the loop body advances the cursor and another leaves it where it was: the records that take the second path are not stepped over, and every later record of the box is read at the wrong offset")
				} else {
					r.OK("CURSOR", key, at, "advanced on every path through the body")
				}
			}
		}
	}
	r.Extra("cursor_loops", n)
}

// TOPWALK / HEIFSCAN (C06): how the entry points find the payload inside an ISOBMFF file.
//
// TOPWALK: every function of the root package that calls (*isobmff.Reader).ReadMetadata does so in a loop over the
// top-level boxes, not a fixed number of times: with one call after ReadFTYP the payload is found only when the box
// that carries it is the first one, so a free box in front of moov - mere container content - costs a CR3 all its
// metadata. HEIFSCAN: no entry point hands an ISOBMFF image type to tiff.ScanTiffHeader: the search for a TIFF
// signature runs over the whole container, and the four bytes II*\0 or MM\0* in any earlier box are taken for the
// header.
func ruleTopWalk(p *Prog, r *Report) {
	r.Explain("TOPWALK: each function of the root package that calls (*isobmff.Reader).ReadMetadata calls it inside a loop (it walks the top-level boxes until the payload or the end), not a fixed number of times. HEIFSCAN: no function of the root package passes the HEIF image type (directly, or by delegating a HEIF entry point to the TIFF one) to tiff.ScanTiffHeader, whose signature search would run over unrelated boxes.")
	root := p.SSAPkg("")
	if root == nil {
		r.Fatal("unresolved anchor: root package")
		return
	}
	n := 0
	for _, f := range p.AllLibFns() {
		if f.Pkg != root || f.Blocks == nil {
			continue
		}
		calls, inLoop := 0, 0
		eachCall(f, func(site ssa.CallInstruction) {
			sc := site.Common().StaticCallee()
			if sc == nil || fnName(sc) != "isobmff.(*Reader).ReadMetadata" {
				return
			}
			calls++
			if inAnyLoop(site.Block()) {
				inLoop++
			}
		})
		returnsExif := false
		for i := 0; i < f.Signature.Results().Len(); i++ {
			if strings.HasSuffix(f.Signature.Results().At(i).Type().String(), "exif2.Exif") {
				returnsExif = true
			}
		}
		if calls > 0 && returnsExif {
			n++
			key := fnName(f) + " | walks the top-level boxes in a loop"
			if inLoop == calls {
				r.OK("TOPWALK", key, p.posStr(f.Pos()), "ReadMetadata is called in a loop")
			} else {
				r.Bad("TOPWALK", key, p.posStr(f.Pos()), fmt.Sprintf("ReadMetadata is called %d time(s) in a row, not in a loop: the payload is found only when it sits in one of the first %d top-level boxes after ftyp, so any box in front of it (free, a second uuid) costs the file its metadata", calls, calls))
			}
		}
		// HEIF by signature search
		if f.Name() == "DecodeHeif" {
			n++
			key := fnName(f) + " | locates the payload through the container"
			bad := ""
			eachCall(f, func(site ssa.CallInstruction) {
				if sc := site.Common().StaticCallee(); sc != nil && (fnName(sc) == "tiff.ScanTiffHeader" || sc.Name() == "DecodeTiff") {
					bad = "the HEIF entry point hands the file to " + fnName(sc) + ": the Exif payload is looked for by searching the whole container for a TIFF signature, so the bytes II*\\0 or MM\\0* in any earlier box are taken for the header"
				}
			})
			if bad != "" {
				r.Bad("HEIFSCAN", key, p.posStr(f.Pos()), bad)
			} else {
				r.OK("HEIFSCAN", key, p.posStr(f.Pos()), "no signature search over the container")
			}
		}
	}
	if n == 0 {
		r.Undecided("TOPWALK", "root package | ISOBMFF entry points", "-", "none found (anchor lost)")
	}
}
