package main

// C09 — image-type sniffing: SIG (E7 cubes), FUNNEL, PEEKONLY, ERRMAP, PEEKSZ.

import (
	"encoding/hex"
	"encoding/json"
	"fmt"
	"go/ast"
	"go/constant"
	"go/token"
	"go/types"
	"os"
	"path/filepath"
	"sort"
	"strings"

	"golang.org/x/tools/go/packages"
	"golang.org/x/tools/go/ssa"
)

func init() { register("C09", true, checkC09) }

func checkC09(p *Prog, r *Report) {
	r.Explain("SIG: the decision list reached from imagetype.Buf is read from the typed syntax tree as ordered (predicate → type) rules; every predicate is expanded to a DNF of byte cubes over the 24-byte window (calls, sub-slices, string comparisons, && / || with Go precedence); checked: every position < 24, per image type the cube set equals the independently written table spec/signatures.json, overlapping types are tested in the order the table requires, no rule is shadowed. FUNNEL: Scan, ScanBuf and ReadAt return Buf applied to exactly the first 24 bytes (Peek(24) / ReadAt(buf[:24],0)) and (ImageUnknown, err) on a read error. PEEKONLY: nothing reachable from ScanBuf consumes from the bufio.Reader. ERRMAP: Buf returns (ImageUnknown, ErrDataLength) below 24 bytes and ErrImageTypeNotFound exactly when the type is ImageUnknown. PEEKSZ: constant Peek sizes do not exceed constant NewReaderSize sizes in the same function. SIGPOS: for every type the recognisers named in its rule read, transitively through helpers given constant windows, only header positions that spec/signatures.json constrains for that type — decided on SSA read sets, so it also holds recognisers outside the predicate grammar to the signature. PREFIX: the SSA read set of imagetype.Buf and of every library function it hands its argument to is bounded and below the 24-byte window.")
	r.Trusted("bufio.Reader.Peek returns exactly n bytes or an error", "io.ReaderAt contract")
	ruleSIG(p, r)
	ruleSigPos(p, r)
	rulePrefix(p, r)
	r.Floor("PREFIX", 1)
	r.Floor("SIGPOS", 10)
	ruleFunnel(p, r)
	rulePeekOnly(p, r)
	ruleErrMap(p, r)
	r.Floor("SIG", 16)
	r.Floor("FUNNEL", 3)
	r.Floor("PEEKONLY", 1)
	r.Floor("ERRMAP", 2)
}

// ---- cubes -----------------------------------------------------------------------------

type byteset [4]uint64

func (s *byteset) set(b byte)     { s[b>>6] |= 1 << (b & 63) }
func (s byteset) has(b byte) bool { return s[b>>6]&(1<<(b&63)) != 0 }
func (s byteset) and(o byteset) byteset {
	return byteset{s[0] & o[0], s[1] & o[1], s[2] & o[2], s[3] & o[3]}
}
func (s byteset) not() byteset          { return byteset{^s[0], ^s[1], ^s[2], ^s[3]} }
func (s byteset) empty() bool           { return s == byteset{} }
func (s byteset) full() bool            { return s == byteset{^uint64(0), ^uint64(0), ^uint64(0), ^uint64(0)} }
func (s byteset) subset(o byteset) bool { return s.and(o) == s }
func (s byteset) String() string {
	var parts []string
	n := 0
	for b := 0; b < 256; b++ {
		if s.has(byte(b)) {
			n++
			if n <= 6 {
				parts = append(parts, fmt.Sprintf("%02X", b))
			}
		}
	}
	if n > 6 {
		return fmt.Sprintf("{%d bytes}", n)
	}
	if n == 1 {
		return parts[0]
	}
	return "{" + strings.Join(parts, ",") + "}"
}

type cube map[int]byteset // position -> admissible bytes (absent = any)

func (c cube) and(o cube) (cube, bool) {
	out := cube{}
	for k, v := range c {
		out[k] = v
	}
	for k, v := range o {
		if e, ok := out[k]; ok {
			v = e.and(v)
		}
		if v.empty() {
			return nil, false
		}
		out[k] = v
	}
	return out, true
}

// subsumedBy: every header matching c matches o (o is weaker or equal).
func (c cube) subsumedBy(o cube) bool {
	for k, ov := range o {
		cv, ok := c[k]
		if !ok {
			if !ov.full() {
				return false
			}
			continue
		}
		if !cv.subset(ov) {
			return false
		}
	}
	return true
}

func (c cube) String() string {
	var ks []int
	for k := range c {
		ks = append(ks, k)
	}
	sort.Ints(ks)
	var parts []string
	for _, k := range ks {
		parts = append(parts, fmt.Sprintf("%d:%s", k, c[k]))
	}
	return "[" + strings.Join(parts, " ") + "]"
}

type dnf []cube

func dnfTrue() dnf  { return dnf{cube{}} }
func dnfFalse() dnf { return dnf{} }

func (a dnf) and(b dnf) dnf {
	var out dnf
	for _, x := range a {
		for _, y := range b {
			if c, ok := x.and(y); ok {
				out = append(out, c)
			}
		}
	}
	return out.norm()
}

// not: complement by De Morgan — the conjunction over the cubes of "some position is outside the cube".
// ok is false when the intermediate form grows beyond a fixed size (the caller reports "undecided").
func (a dnf) not() (dnf, bool) {
	out := dnfTrue()
	for _, c := range a {
		var alt dnf
		var ks []int
		for k := range c {
			ks = append(ks, k)
		}
		sort.Ints(ks)
		for _, k := range ks {
			if n := c[k].not(); !n.empty() {
				alt = append(alt, cube{k: n})
			}
		}
		if len(out)*len(alt) > 20000 {
			return nil, false
		}
		out = out.and(alt)
		if len(out) > 4096 {
			return nil, false
		}
	}
	return out, true
}

func (a dnf) or(b dnf) dnf { return append(append(dnf{}, a...), b...).norm() }

func (a dnf) norm() dnf {
	// drop full sets, remove subsumed cubes and duplicates
	var cs []cube
	for _, c := range a {
		n := cube{}
		for k, v := range c {
			if !v.full() {
				n[k] = v
			}
		}
		cs = append(cs, n)
	}
	var out dnf
	for i, c := range cs {
		drop := false
		for j, o := range cs {
			if i == j {
				continue
			}
			if c.subsumedBy(o) && (!o.subsumedBy(c) || j < i) {
				drop = true
				break
			}
		}
		if !drop {
			out = append(out, c)
		}
	}
	sort.Slice(out, func(i, j int) bool { return out[i].String() < out[j].String() })
	return out
}

func (a dnf) String() string {
	var parts []string
	for _, c := range a {
		parts = append(parts, c.String())
	}
	return strings.Join(parts, " | ")
}

func (a dnf) intersects(b dnf) (cube, bool) {
	for _, x := range a {
		for _, y := range b {
			if c, ok := x.and(y); ok {
				return c, true
			}
		}
	}
	return nil, false
}

// minus returns c \ b as disjoint cubes.
func (c cube) minus(b cube) []cube {
	if _, ok := c.and(b); !ok {
		return []cube{c}
	}
	var out []cube
	cur := cube{}
	for k, v := range c {
		cur[k] = v
	}
	var ks []int
	for k := range b {
		ks = append(ks, k)
	}
	sort.Ints(ks)
	full := byteset{}.not()
	for _, k := range ks {
		cv, ok := cur[k]
		if !ok {
			cv = full
		}
		outside := cv.and(b[k].not())
		if !outside.empty() {
			piece := cube{}
			for kk, vv := range cur {
				piece[kk] = vv
			}
			piece[k] = outside
			out = append(out, piece)
		}
		cur[k] = cv.and(b[k])
	}
	return out
}

// coveredBy: every header matching c matches some cube of bs (exact).
func (c cube) coveredBy(bs dnf) bool {
	if len(bs) == 0 {
		return false
	}
	for _, piece := range c.minus(bs[0]) {
		if !piece.coveredBy(bs[1:]) {
			return false
		}
	}
	return true
}

func (a dnf) subsetOf(b dnf) bool {
	for _, c := range a {
		if !c.coveredBy(b) {
			return false
		}
	}
	return true
}

func (a dnf) equiv(b dnf) bool { return a.subsetOf(b) && b.subsetOf(a) }

func (a dnf) maxPos() int {
	m := -1
	for _, c := range a {
		for k := range c {
			if k > m {
				m = k
			}
		}
	}
	return m
}

// ---- predicate evaluation over the typed AST --------------------------------------------

type window struct {
	off    int
	length int // exact length, or -1: "at least minLen"
	minLen int
}

type predEnv struct {
	pkg  *packages.Package
	wins map[types.Object]window
	strs map[types.Object]string
	p    *Prog
	dep  int
	ints map[types.Object]int64    // integer parameters bound to constant arguments
	defs map[types.Object]ast.Expr // locals defined once by `x := expr` in a predicate body
}

type undecidedErr struct{ msg string }

func (e undecidedErr) Error() string { return e.msg }

func (env *predEnv) constOf(e ast.Expr) (constant.Value, bool) {
	if tv, ok := env.pkg.TypesInfo.Types[e]; ok && tv.Value != nil {
		return tv.Value, true
	}
	if id, ok := stripParen(e).(*ast.Ident); ok {
		if k, ok := env.ints[env.pkg.TypesInfo.Uses[id]]; ok {
			return constant.MakeInt64(k), true
		}
	}
	return nil, false
}

// arith evaluates an integer expression over window bytes, constants, bound integer parameters and single-definition
// locals for one assignment of byte values; pos collects the window positions it reads.
func (env *predEnv) arith(e ast.Expr, val map[int]int64, pos map[int]bool, depth int) (int64, bool) {
	if depth > 12 {
		return 0, false
	}
	if v, ok := env.constOf(e); ok && v.Kind() == constant.Int {
		k, exact := constant.Int64Val(v)
		return k, exact
	}
	switch x := e.(type) {
	case *ast.ParenExpr:
		return env.arith(x.X, val, pos, depth+1)
	case *ast.Ident:
		if d, ok := env.defs[env.pkg.TypesInfo.Uses[x]]; ok {
			return env.arith(d, val, pos, depth+1)
		}
	case *ast.CallExpr:
		// integer conversions int(b), uint16(b), …
		if len(x.Args) == 1 {
			if tv, ok := env.pkg.TypesInfo.Types[x.Fun]; ok && tv.IsType() {
				if b, ok := tv.Type.Underlying().(*types.Basic); ok && b.Info()&types.IsInteger != 0 {
					v, ok := env.arith(x.Args[0], val, pos, depth+1)
					if !ok {
						return 0, false
					}
					return wrapToType(b, v)
				}
			}
		}
	case *ast.IndexExpr:
		w, err := env.window(x.X)
		if err != nil {
			return 0, false
		}
		kv, ok := env.constOf(x.Index)
		if !ok {
			return 0, false
		}
		k, _ := constant.Int64Val(kv)
		if w.length >= 0 && int(k) >= w.length {
			return 0, false
		}
		pos[w.off+int(k)] = true
		return val[w.off+int(k)], true
	case *ast.BinaryExpr:
		a, ok1 := env.arith(x.X, val, pos, depth+1)
		b, ok2 := env.arith(x.Y, val, pos, depth+1)
		if !ok1 || !ok2 {
			return 0, false
		}
		// the operation is carried out in the static type of the expression: byte arithmetic wraps at 256
		wrap := func(v int64) (int64, bool) { return wrapToType(env.pkg.TypesInfo.TypeOf(x), v) }
		switch x.Op {
		case token.ADD:
			return wrap(a + b)
		case token.SUB:
			return wrap(a - b)
		case token.MUL:
			return wrap(a * b)
		case token.OR:
			return wrap(a | b)
		case token.AND:
			return wrap(a & b)
		case token.XOR:
			return wrap(a ^ b)
		case token.SHL:
			if b >= 0 && b < 32 {
				return wrap(a << uint(b))
			}
		case token.SHR:
			if b >= 0 && b < 32 {
				return wrap(a >> uint(b))
			}
		}
	}
	return 0, false
}

// wrapToType reduces v to the value range of the integer type t (two's complement wrap-around), as the operation
// would at run time; ok is false for types whose width is not fixed here.
func wrapToType(t types.Type, v int64) (int64, bool) {
	if t == nil {
		return 0, false
	}
	b, ok := t.Underlying().(*types.Basic)
	if !ok {
		return 0, false
	}
	switch b.Kind() {
	case types.Uint8:
		return int64(uint8(v)), true
	case types.Uint16:
		return int64(uint16(v)), true
	case types.Uint32:
		return int64(uint32(v)), true
	case types.Int8:
		return int64(int8(v)), true
	case types.Int16:
		return int64(int16(v)), true
	case types.Int32:
		return int64(int32(v)), true
	case types.Int, types.Int64, types.UntypedInt, types.UntypedRune:
		return v, true
	case types.Uint, types.Uint64, types.Uintptr:
		if v < 0 {
			return 0, false
		}
		return v, true
	}
	return 0, false
}

// evalArith decides `lhs op rhs` for integer expressions that read at most two bytes of the window, by enumerating
// the byte values: the result is the union over the first byte's values of {first = v} × {second ∈ S(v)}.
func (env *predEnv) evalArith(x *ast.BinaryExpr) (dnf, bool) {
	pos := map[int]bool{}
	val := map[int]int64{}
	if _, ok := env.arith(x.X, val, pos, 0); !ok {
		return nil, false
	}
	if _, ok := env.arith(x.Y, val, pos, 0); !ok {
		return nil, false
	}
	var ps []int
	for k := range pos {
		ps = append(ps, k)
	}
	sort.Ints(ps)
	if len(ps) == 0 || len(ps) > 2 {
		return nil, false
	}
	holds := func() bool {
		a, _ := env.arith(x.X, val, map[int]bool{}, 0)
		b, _ := env.arith(x.Y, val, map[int]bool{}, 0)
		switch x.Op {
		case token.EQL:
			return a == b
		case token.NEQ:
			return a != b
		case token.LSS:
			return a < b
		case token.LEQ:
			return a <= b
		case token.GTR:
			return a > b
		case token.GEQ:
			return a >= b
		}
		return false
	}
	var out dnf
	if len(ps) == 1 {
		var bs byteset
		for v := 0; v < 256; v++ {
			val[ps[0]] = int64(v)
			if holds() {
				bs.set(byte(v))
			}
		}
		if bs.empty() {
			return dnfFalse(), true
		}
		return dnf{cube{ps[0]: bs}}.norm(), true
	}
	// two bytes: group the first byte's values by the set of second-byte values they admit
	groups := map[byteset]*byteset{}
	var order []byteset
	for v := 0; v < 256; v++ {
		val[ps[0]] = int64(v)
		var second byteset
		for w := 0; w < 256; w++ {
			val[ps[1]] = int64(w)
			if holds() {
				second.set(byte(w))
			}
		}
		if second.empty() {
			continue
		}
		g, ok := groups[second]
		if !ok {
			g = &byteset{}
			groups[second] = g
			order = append(order, second)
		}
		g.set(byte(v))
	}
	for _, second := range order {
		out = append(out, cube{ps[0]: *groups[second], ps[1]: second})
	}
	return out.norm(), true
}

func (env *predEnv) window(e ast.Expr) (window, error) {
	switch x := e.(type) {
	case *ast.ParenExpr:
		return env.window(x.X)
	case *ast.Ident:
		if w, ok := env.wins[env.pkg.TypesInfo.Uses[x]]; ok {
			return w, nil
		}
		// a local defined once as a window of the buffer: sig := buf[:4]
		if d, ok := env.defs[env.pkg.TypesInfo.Uses[x]]; ok {
			if _, isSl := stripParen(d).(*ast.SliceExpr); isSl {
				return env.window(d)
			}
		}
		return window{}, undecidedErr{"identifier " + x.Name + " is not a window of the header buffer"}
	case *ast.SliceExpr:
		w, err := env.window(x.X)
		if err != nil {
			return w, err
		}
		lo, hi := 0, -1
		if x.Low != nil {
			v, ok := env.constOf(x.Low)
			if !ok {
				return w, undecidedErr{"non-constant slice bound"}
			}
			k, _ := constant.Int64Val(v)
			lo = int(k)
		}
		if x.High != nil {
			v, ok := env.constOf(x.High)
			if !ok {
				return w, undecidedErr{"non-constant slice bound"}
			}
			k, _ := constant.Int64Val(v)
			hi = int(k)
		}
		nw := window{off: w.off + lo}
		if hi >= 0 {
			nw.length = hi - lo
		} else if w.length >= 0 {
			nw.length = w.length - lo
		} else {
			nw.length, nw.minLen = -1, w.minLen-lo
		}
		return nw, nil
	}
	return window{}, undecidedErr{fmt.Sprintf("unsupported window expression %T", e)}
}

func (env *predEnv) stringOf(e ast.Expr) (string, bool) {
	if v, ok := env.constOf(e); ok && v.Kind() == constant.String {
		return constant.StringVal(v), true
	}
	switch x := e.(type) {
	case *ast.ParenExpr:
		return env.stringOf(x.X)
	case *ast.CallExpr:
		// []byte("literal")
		if len(x.Args) == 1 {
			if tv, ok := env.pkg.TypesInfo.Types[x.Fun]; ok && tv.IsType() {
				if sl, ok := tv.Type.Underlying().(*types.Slice); ok {
					if b, ok := sl.Elem().Underlying().(*types.Basic); ok && b.Kind() == types.Uint8 {
						return env.stringOf(x.Args[0])
					}
				}
			}
		}
	case *ast.CompositeLit:
		// []byte{'M', 'M', 0, '*'} (positional elements only)
		if tv, ok := env.pkg.TypesInfo.Types[x]; ok {
			var elem types.Type
			switch u := tv.Type.Underlying().(type) {
			case *types.Slice:
				elem = u.Elem()
			case *types.Array:
				elem = u.Elem()
			}
			if b, ok := elem.(*types.Basic); elem != nil && ok && b.Kind() == types.Uint8 || elem != nil && isByteType(elem) {
				out := make([]byte, 0, len(x.Elts))
				for _, el := range x.Elts {
					if _, kv := el.(*ast.KeyValueExpr); kv {
						return "", false
					}
					v, ok := env.constOf(el)
					if !ok {
						return "", false
					}
					k, ok := constant.Int64Val(constant.ToInt(v))
					if !ok || k < 0 || k > 255 {
						return "", false
					}
					out = append(out, byte(k))
				}
				return string(out), true
			}
		}
	case *ast.Ident:
		if s, ok := env.strs[env.pkg.TypesInfo.Uses[x]]; ok {
			return s, true
		}
	case *ast.SliceExpr:
		s, ok := env.stringOf(x.X)
		if !ok {
			return "", false
		}
		lo, hi := 0, len(s)
		if x.Low != nil {
			v, ok := env.constOf(x.Low)
			if !ok {
				return "", false
			}
			k, _ := constant.Int64Val(v)
			lo = int(k)
		}
		if x.High != nil {
			v, ok := env.constOf(x.High)
			if !ok {
				return "", false
			}
			k, _ := constant.Int64Val(v)
			hi = int(k)
		}
		if lo < 0 || hi > len(s) || lo > hi {
			return "", false
		}
		return s[lo:hi], true
	}
	return "", false
}

func isByteType(t types.Type) bool {
	b, ok := t.Underlying().(*types.Basic)
	return ok && b.Kind() == types.Uint8
}

// byteWindowOfStringConv: string(win) → window
func (env *predEnv) stringConv(e ast.Expr) (window, bool) {
	ce, ok := e.(*ast.CallExpr)
	if !ok || len(ce.Args) != 1 {
		return window{}, false
	}
	tv, ok := env.pkg.TypesInfo.Types[ce.Fun]
	if !ok || !tv.IsType() {
		return window{}, false
	}
	if b, ok := tv.Type.Underlying().(*types.Basic); !ok || b.Kind() != types.String {
		return window{}, false
	}
	w, err := env.window(ce.Args[0])
	if err != nil {
		return window{}, false
	}
	return w, true
}

func (env *predEnv) eval(e ast.Expr) (dnf, error) {
	if env.dep > 12 {
		return nil, undecidedErr{"predicate nesting too deep"}
	}
	switch x := e.(type) {
	case *ast.ParenExpr:
		return env.eval(x.X)
	case *ast.BinaryExpr:
		switch x.Op {
		case token.LAND:
			a, err := env.eval(x.X)
			if err != nil {
				return nil, err
			}
			b, err := env.eval(x.Y)
			if err != nil {
				return nil, err
			}
			return a.and(b), nil
		case token.LOR:
			a, err := env.eval(x.X)
			if err != nil {
				return nil, err
			}
			b, err := env.eval(x.Y)
			if err != nil {
				return nil, err
			}
			return a.or(b), nil
		case token.EQL, token.NEQ:
			d, err := env.evalCompare(x)
			if err != nil {
				if a, ok := env.evalArith(x); ok {
					return a, nil
				}
				if a, ok := env.evalWord(x); ok {
					return a, nil
				}
			}
			return d, err
		case token.LSS, token.LEQ, token.GTR, token.GEQ:
			d, err := env.evalLen(x)
			if err != nil {
				if a, ok := env.evalArith(x); ok {
					return a, nil
				}
			}
			return d, err
		}
	case *ast.UnaryExpr:
		if x.Op == token.NOT {
			return env.evalNeg(x.X)
		}
	case *ast.CallExpr:
		return env.evalCall(x)
	case *ast.Ident:
		if v, ok := env.constOf(x); ok && v.Kind() == constant.Bool {
			if constant.BoolVal(v) {
				return dnfTrue(), nil
			}
			return dnfFalse(), nil
		}
	}
	return nil, undecidedErr{fmt.Sprintf("construct outside the predicate grammar: %T at %s", e, env.p.posStr(e.Pos()))}
}

// evalNeg evaluates !e by pushing the negation down the expression (De Morgan on the syntax, flipped comparison
// operators), so that the complement never has to be taken of a large disjunction.
// wordBytes resolves an expression built from one order-aware load of the window — binary.BigEndian.Uint32(win),
// a single-definition local holding it, conversions to a narrower unsigned type, right shifts and masks by whole
// bytes — into the window positions of its bytes, most significant first.
func (env *predEnv) wordBytes(e ast.Expr, depth int) ([]int, bool) {
	if depth > 8 {
		return nil, false
	}
	switch x := stripParen(e).(type) {
	case *ast.Ident:
		if d, ok := env.defs[env.pkg.TypesInfo.Uses[x]]; ok {
			return env.wordBytes(d, depth+1)
		}
	case *ast.CallExpr:
		// conversion to an unsigned integer type: the low bytes
		if tv, ok := env.pkg.TypesInfo.Types[x.Fun]; ok && tv.IsType() && len(x.Args) == 1 {
			b, ok := tv.Type.Underlying().(*types.Basic)
			if !ok {
				return nil, false
			}
			n := 0
			switch b.Kind() {
			case types.Uint8:
				n = 1
			case types.Uint16:
				n = 2
			case types.Uint32:
				n = 4
			case types.Uint64, types.Uint:
				n = 8
			default:
				return nil, false
			}
			in, ok := env.wordBytes(x.Args[0], depth+1)
			if !ok {
				return nil, false
			}
			if len(in) > n {
				in = in[len(in)-n:]
			}
			return in, true
		}
		// ORDER.UintNN(win)
		sel, ok := x.Fun.(*ast.SelectorExpr)
		if !ok || len(x.Args) != 1 {
			return nil, false
		}
		n := map[string]int{"Uint16": 2, "Uint32": 4, "Uint64": 8}[sel.Sel.Name]
		if n == 0 {
			return nil, false
		}
		rt, ok := env.pkg.TypesInfo.Types[sel.X]
		if !ok {
			return nil, false
		}
		big := false
		switch rt.Type.String() {
		case "encoding/binary.bigEndian":
			big = true
		case "encoding/binary.littleEndian":
		default:
			return nil, false
		}
		w, err := env.window(x.Args[0])
		if err != nil {
			return nil, false
		}
		if w.length >= 0 && w.length < n {
			return nil, false
		}
		if w.length < 0 && w.minLen < n {
			return nil, false
		}
		out := make([]int, n)
		for i := 0; i < n; i++ {
			if big {
				out[i] = w.off + i
			} else {
				out[i] = w.off + n - 1 - i
			}
		}
		return out, true
	case *ast.BinaryExpr:
		in, ok := env.wordBytes(x.X, depth+1)
		if !ok {
			return nil, false
		}
		kv, ok := env.constOf(x.Y)
		if !ok {
			return nil, false
		}
		k, ok := constant.Uint64Val(constant.ToInt(kv))
		if !ok {
			return nil, false
		}
		switch x.Op {
		case token.SHR:
			if k%8 != 0 || int(k/8) > len(in) {
				return nil, false
			}
			return in[:len(in)-int(k/8)], true
		case token.AND:
			for m := 1; m <= len(in); m++ {
				if k == (uint64(1)<<(8*uint(m)))-1 {
					return in[len(in)-m:], true
				}
			}
		}
	}
	return nil, false
}

// evalWord: <bytes of an order-aware load> ==/!= constant.
func (env *predEnv) evalWord(x *ast.BinaryExpr) (dnf, bool) {
	for _, pr := range [][2]ast.Expr{{x.X, x.Y}, {x.Y, x.X}} {
		pos, ok := env.wordBytes(pr[0], 0)
		if !ok || len(pos) == 0 {
			continue
		}
		kv, ok := env.constOf(pr[1])
		if !ok {
			return nil, false
		}
		k, ok := constant.Uint64Val(constant.ToInt(kv))
		if !ok {
			return nil, false
		}
		if len(pos) < 8 && k >= uint64(1)<<(8*uint(len(pos))) {
			if x.Op == token.NEQ {
				return dnfTrue(), true
			}
			return dnfFalse(), true
		}
		c := cube{}
		for i, p := range pos {
			var bs byteset
			bs.set(byte(k >> (8 * uint(len(pos)-1-i))))
			if old, dup := c[p]; dup {
				bs = bs.and(old)
				if bs.empty() {
					if x.Op == token.NEQ {
						return dnfTrue(), true
					}
					return dnfFalse(), true
				}
			}
			c[p] = bs
		}
		d := dnf{c}
		if x.Op == token.NEQ {
			n, ok := d.not()
			if !ok {
				return nil, false
			}
			return n, true
		}
		return d, true
	}
	return nil, false
}

func (env *predEnv) evalNeg(e ast.Expr) (dnf, error) {
	switch x := e.(type) {
	case *ast.ParenExpr:
		return env.evalNeg(x.X)
	case *ast.UnaryExpr:
		if x.Op == token.NOT {
			return env.eval(x.X)
		}
	case *ast.BinaryExpr:
		flip := map[token.Token]token.Token{token.EQL: token.NEQ, token.NEQ: token.EQL, token.LSS: token.GEQ, token.GEQ: token.LSS, token.GTR: token.LEQ, token.LEQ: token.GTR}
		switch x.Op {
		case token.LAND, token.LOR:
			a, err := env.evalNeg(x.X)
			if err != nil {
				return nil, err
			}
			b, err := env.evalNeg(x.Y)
			if err != nil {
				return nil, err
			}
			if x.Op == token.LAND {
				return a.or(b), nil
			}
			return a.and(b), nil
		default:
			if op, ok := flip[x.Op]; ok {
				c := *x
				c.Op = op
				return env.eval(&c)
			}
		}
	}
	a, err := env.eval(e)
	if err != nil {
		return nil, err
	}
	if n, ok := a.not(); ok {
		return n, nil
	}
	return nil, undecidedErr{"negation too large at " + env.p.posStr(e.Pos())}
}

func (env *predEnv) evalCompare(x *ast.BinaryExpr) (dnf, error) {
	// two bytes compared with each other: win[J] ==/!= win[K]
	if a, ok := stripParen(x.X).(*ast.IndexExpr); ok {
		if b, ok := stripParen(x.Y).(*ast.IndexExpr); ok {
			pos := func(ie *ast.IndexExpr) (int, bool) {
				w, err := env.window(ie.X)
				if err != nil {
					return 0, false
				}
				kv, ok := env.constOf(ie.Index)
				if !ok {
					return 0, false
				}
				k, _ := constant.Int64Val(kv)
				if w.length >= 0 && int(k) >= w.length {
					return 0, false
				}
				return w.off + int(k), true
			}
			pa, oka := pos(a)
			pb, okb := pos(b)
			if oka && okb {
				if pa == pb {
					if x.Op == token.NEQ {
						return dnfFalse(), nil
					}
					return dnfTrue(), nil
				}
				var out dnf
				for v := 0; v < 256; v++ {
					var bs byteset
					bs.set(byte(v))
					if x.Op == token.NEQ {
						out = append(out, cube{pa: bs, pb: bs.not()})
					} else {
						out = append(out, cube{pa: bs, pb: bs})
					}
				}
				return out, nil
			}
		}
	}
	// byte test: win[K] ==/!= B
	for _, pr := range [][2]ast.Expr{{x.X, x.Y}, {x.Y, x.X}} {
		if ie, ok := stripParen(pr[0]).(*ast.IndexExpr); ok {
			w, err := env.window(ie.X)
			if err != nil {
				continue
			}
			kv, ok := env.constOf(ie.Index)
			if !ok {
				return nil, undecidedErr{"non-constant byte index at " + env.p.posStr(ie.Pos())}
			}
			k, _ := constant.Int64Val(kv)
			bv, ok := env.constOf(pr[1])
			if !ok {
				return nil, undecidedErr{"byte compared with a non-constant at " + env.p.posStr(x.Pos())}
			}
			b, _ := constant.Int64Val(bv)
			if w.length >= 0 && int(k) >= w.length {
				return nil, undecidedErr{fmt.Sprintf("index %d outside a %d-byte window at %s (would panic)", k, w.length, env.p.posStr(ie.Pos()))}
			}
			var bs byteset
			if b >= 0 && b <= 255 {
				bs.set(byte(b))
			}
			if x.Op == token.NEQ {
				bs = bs.not()
			}
			if bs.empty() {
				return dnfFalse(), nil
			}
			return dnf{cube{w.off + int(k): bs}}, nil
		}
	}
	// string test: string(win[a:b]) == S
	for _, pr := range [][2]ast.Expr{{x.X, x.Y}, {x.Y, x.X}} {
		w, ok := env.stringConv(stripParen(pr[0]))
		if !ok {
			continue
		}
		s, ok := env.stringOf(pr[1])
		if !ok {
			return nil, undecidedErr{"string window compared with a non-constant at " + env.p.posStr(x.Pos())}
		}
		if w.length < 0 {
			return nil, undecidedErr{"string comparison on a window of unknown length at " + env.p.posStr(x.Pos())}
		}
		if x.Op == token.NEQ {
			return nil, undecidedErr{"string != not supported at " + env.p.posStr(x.Pos())}
		}
		if w.length != len(s) {
			return dnfFalse(), nil // can never be equal
		}
		c := cube{}
		for i := 0; i < len(s); i++ {
			var bs byteset
			bs.set(s[i])
			c[w.off+i] = bs
		}
		return dnf{c}, nil
	}
	return nil, undecidedErr{"unsupported comparison at " + env.p.posStr(x.Pos())}
}

func stripParen(e ast.Expr) ast.Expr {
	for {
		p, ok := e.(*ast.ParenExpr)
		if !ok {
			return e
		}
		e = p.X
	}
}

func (env *predEnv) evalLen(x *ast.BinaryExpr) (dnf, error) {
	ce, ok := stripParen(x.X).(*ast.CallExpr)
	op := x.Op
	other := x.Y
	if !ok {
		ce, ok = stripParen(x.Y).(*ast.CallExpr)
		other = x.X
		switch op {
		case token.LSS:
			op = token.GTR
		case token.GTR:
			op = token.LSS
		case token.LEQ:
			op = token.GEQ
		case token.GEQ:
			op = token.LEQ
		}
	}
	if !ok || len(ce.Args) != 1 {
		return nil, undecidedErr{"unsupported ordering comparison at " + env.p.posStr(x.Pos())}
	}
	if id, ok := ce.Fun.(*ast.Ident); !ok || id.Name != "len" {
		return nil, undecidedErr{"unsupported ordering comparison at " + env.p.posStr(x.Pos())}
	}
	w, err := env.window(ce.Args[0])
	if err != nil {
		return nil, err
	}
	kv, ok := env.constOf(other)
	if !ok {
		return nil, undecidedErr{"len compared with a non-constant"}
	}
	k64, _ := constant.Int64Val(kv)
	k := int(k64)
	lo, hi := w.length, w.length
	if w.length < 0 {
		lo, hi = w.minLen, 1<<30
	}
	var always, never bool
	switch op {
	case token.GTR:
		always, never = lo > k, hi <= k
	case token.GEQ:
		always, never = lo >= k, hi < k
	case token.LSS:
		always, never = hi < k, lo >= k
	case token.LEQ:
		always, never = hi <= k, lo > k
	}
	if always {
		return dnfTrue(), nil
	}
	if never {
		return dnfFalse(), nil
	}
	return nil, undecidedErr{"length test not decided by the 24-byte guard at " + env.p.posStr(x.Pos())}
}

func (env *predEnv) evalCall(ce *ast.CallExpr) (dnf, error) {
	var fobj *types.Func
	switch f := ce.Fun.(type) {
	case *ast.Ident:
		fobj, _ = env.pkg.TypesInfo.Uses[f].(*types.Func)
	case *ast.SelectorExpr:
		fobj, _ = env.pkg.TypesInfo.Uses[f.Sel].(*types.Func)
	}
	if fobj == nil {
		return nil, undecidedErr{"call of something that is not a declared function at " + env.p.posStr(ce.Pos())}
	}
	if fobj.Pkg() != nil && fobj.Pkg().Path() == "bytes" && fobj.Name() == "Equal" && len(ce.Args) == 2 {
		for _, pr := range [][2]ast.Expr{{ce.Args[0], ce.Args[1]}, {ce.Args[1], ce.Args[0]}} {
			w, err := env.window(stripParen(pr[0]))
			if err != nil {
				continue
			}
			lit, ok := env.stringOf(stripParen(pr[1]))
			if !ok {
				return nil, undecidedErr{"bytes.Equal of a window with a non-constant at " + env.p.posStr(ce.Pos())}
			}
			if w.length < 0 {
				return nil, undecidedErr{"bytes.Equal on a window of unknown length at " + env.p.posStr(ce.Pos())}
			}
			if w.length != len(lit) {
				return dnfFalse(), nil
			}
			c := cube{}
			for i := 0; i < len(lit); i++ {
				var bs byteset
				bs.set(lit[i])
				c[w.off+i] = bs
			}
			return dnf{c}, nil
		}
		return nil, undecidedErr{"bytes.Equal without a window of the header at " + env.p.posStr(ce.Pos())}
	}
	fd, pk := env.p.declOf(fobj)
	if fd == nil || fd.Body == nil {
		return nil, undecidedErr{"predicate " + fobj.Name() + " has no body in the module"}
	}
	body := fd.Body.List
	ne := &predEnv{pkg: pk, wins: map[types.Object]window{}, strs: map[types.Object]string{}, p: env.p, dep: env.dep + 1,
		ints: map[types.Object]int64{}, defs: map[types.Object]ast.Expr{}}
	i := 0
	for _, fld := range fd.Type.Params.List {
		for _, nm := range fld.Names {
			if i >= len(ce.Args) {
				return nil, undecidedErr{"argument count mismatch"}
			}
			obj := pk.TypesInfo.Defs[nm]
			arg := ce.Args[i]
			i++
			switch obj.Type().Underlying().(type) {
			case *types.Slice:
				w, err := env.window(arg)
				if err != nil {
					return nil, err
				}
				ne.wins[obj] = w
			case *types.Basic:
				if s, ok := env.stringOf(arg); ok {
					ne.strs[obj] = s
				} else if v, ok := env.constOf(arg); ok && v.Kind() == constant.Int {
					k, _ := constant.Int64Val(v)
					ne.ints[obj] = k
				} else {
					return nil, undecidedErr{"non-constant argument to predicate " + fobj.Name()}
				}
			default:
				return nil, undecidedErr{"unsupported parameter type in predicate " + fobj.Name()}
			}
		}
	}
	return ne.evalStmts(body, fobj.Name())
}

// evalStmts gives the value of a predicate body made of bounds-check hints (`_ = buf[K]`), early returns
// (`if c { return e }`, optionally with an else branch of the same shape) and a final `return e`:
// if c {return e1}; rest  ==  (c && e1) || (!c && rest).
func (env *predEnv) evalStmts(body []ast.Stmt, name string) (dnf, error) {
	if len(body) == 0 {
		return nil, undecidedErr{"predicate " + name + " can end without a return statement"}
	}
	switch st := body[0].(type) {
	case *ast.AssignStmt:
		// bounds-check hints `_ = buf[K]` are no-ops for the predicate's value
		if len(st.Lhs) == 1 && len(st.Rhs) == 1 {
			if id, ok := st.Lhs[0].(*ast.Ident); ok && id.Name == "_" {
				if _, ok := st.Rhs[0].(*ast.IndexExpr); ok {
					return env.evalStmts(body[1:], name)
				}
			}
			// x := expr, a local defined once: substituted where it is used
			if id, ok := st.Lhs[0].(*ast.Ident); ok && st.Tok == token.DEFINE && id.Name != "_" {
				if obj := env.pkg.TypesInfo.Defs[id]; obj != nil {
					if env.defs == nil {
						env.defs = map[types.Object]ast.Expr{}
					}
					env.defs[obj] = st.Rhs[0]
					return env.evalStmts(body[1:], name)
				}
			}
		}
	case *ast.ReturnStmt:
		if len(st.Results) == 1 {
			return env.eval(st.Results[0])
		}
	case *ast.BlockStmt:
		return env.evalStmts(append(append([]ast.Stmt{}, st.List...), body[1:]...), name)
	case *ast.IfStmt:
		if st.Init != nil {
			break
		}
		c, err := env.eval(st.Cond)
		if err != nil {
			return nil, err
		}
		// the then-branch must end in a return on its own; what follows the if is the continuation of the else side
		thenV, err := env.evalStmts(st.Body.List, name)
		if err != nil {
			return nil, err
		}
		rest := body[1:]
		if st.Else != nil {
			rest = append([]ast.Stmt{st.Else}, rest...)
		}
		elseV, err := env.evalStmts(rest, name)
		if err != nil {
			return nil, err
		}
		nc, err := env.evalNeg(st.Cond)
		if err != nil {
			return nil, err
		}
		return c.and(thenV).or(nc.and(elseV)), nil
	}
	return nil, undecidedErr{fmt.Sprintf("predicate %s: statement outside the predicate grammar (%T at %s)", name, body[0], env.p.posStr(body[0].Pos()))}
}

// declOf finds the FuncDecl of a function object anywhere in the module.
func (p *Prog) declOf(fn *types.Func) (*ast.FuncDecl, *packages.Package) {
	if fn.Pkg() == nil {
		return nil, nil
	}
	pk := p.ByPath[fn.Pkg().Path()]
	if pk == nil {
		return nil, nil
	}
	for _, f := range pk.Syntax {
		for _, d := range f.Decls {
			if fd, ok := d.(*ast.FuncDecl); ok && pk.TypesInfo.Defs[fd.Name] == types.Object(fn) {
				return fd, pk
			}
		}
	}
	return nil, pk
}

// decisionList reads a function body of the shape `if P { return K } ... return D` (nested ifs allowed)
// into ordered (constant name, DNF) rules plus the default constant.
func decisionList(p *Prog, env *predEnv, pk *packages.Package, fd *ast.FuncDecl) ([]sigRule, string, error) {
	var rules []sigRule
	deflt := ""
	var walk func(stmts []ast.Stmt, ctx dnf, top bool) error
	walk = func(stmts []ast.Stmt, ctx dnf, top bool) error {
		for i, s := range stmts {
			switch x := s.(type) {
			case *ast.IfStmt:
				if x.Init != nil || x.Else != nil {
					return undecidedErr{"if with init/else in the decision list at " + p.posStr(x.Pos())}
				}
				d, err := env.eval(x.Cond)
				if err != nil {
					return err
				}
				if err := walk(x.Body.List, ctx.and(d), false); err != nil {
					return err
				}
			case *ast.ReturnStmt:
				if len(x.Results) != 1 {
					return undecidedErr{"return with several results"}
				}
				name := exprConstName(pk, x.Results[0])
				if name == "" {
					return undecidedErr{"return of a non-constant at " + p.posStr(x.Pos())}
				}
				if top {
					if i != len(stmts)-1 {
						return undecidedErr{"unconditional return before the end of the decision list"}
					}
					deflt = name
				} else {
					rules = append(rules, sigRule{typ: name, pred: ctx, pos: x.Pos()})
					if i != len(stmts)-1 {
						return undecidedErr{"statements after return"}
					}
				}
			case *ast.EmptyStmt:
			default:
				return undecidedErr{fmt.Sprintf("statement %T outside the decision-list grammar at %s", s, p.posStr(s.Pos()))}
			}
		}
		return nil
	}
	err := walk(fd.Body.List, dnfTrue(), true)
	return rules, deflt, err
}

// ---- SIG --------------------------------------------------------------------------------------

type sigRule struct {
	typ  string
	pred dnf
	pos  token.Pos
	src  string
}

type sigSpec struct {
	Window  int                           `json:"window"`
	Unknown string                        `json:"unknown"`
	Types   map[string][][]map[string]any `json:"types"`
	Wins    [][2]string                   `json:"wins"`
}

func loadSigSpec(r *Report) (*sigSpec, map[string]dnf) {
	b, err := os.ReadFile(filepath.Join(r.verifDir, "spec", "signatures.json"))
	if err != nil {
		r.Fatal("spec/signatures.json: " + err.Error())
		return nil, nil
	}
	var sp sigSpec
	if err := json.Unmarshal(b, &sp); err != nil {
		r.Fatal("spec/signatures.json: " + err.Error())
		return nil, nil
	}
	out := map[string]dnf{}
	for t, cubes := range sp.Types {
		var d dnf
		for _, cs := range cubes {
			c := cube{}
			for _, item := range cs {
				at := int(item["at"].(float64))
				if hx, ok := item["hex"].(string); ok {
					bs, err := hex.DecodeString(hx)
					if err != nil {
						r.Fatal("bad hex in spec")
						return nil, nil
					}
					for i, b := range bs {
						var s byteset
						s.set(b)
						c[at+i] = s
					}
				}
				if set, ok := item["set"].([]any); ok {
					var s byteset
					for _, h := range set {
						bs, _ := hex.DecodeString(h.(string))
						s.set(bs[0])
					}
					c[at] = s
				}
			}
			d = append(d, c)
		}
		out[t] = d.norm()
	}
	return &sp, out
}

func ruleSIG(p *Prog, r *Report) {
	sp, spec := loadSigSpec(r)
	if sp == nil {
		return
	}
	bufFn := p.Func("imagetype", "", "Buf")
	if bufFn == nil {
		r.Fatal("unresolved anchor imagetype.Buf")
		return
	}
	// the decision function: the repo callee of Buf that takes the buffer and yields the ImageType
	var dec *ssa.Function
	eachCall(bufFn, func(site ssa.CallInstruction) {
		c := site.Common()
		if sc := c.StaticCallee(); sc != nil && isRepoFn(sc) && len(c.Args) == 1 && c.Args[0] == ssa.Value(bufFn.Params[0]) {
			if n, ok := sc.Signature.Results().At(0).Type().(*types.Named); ok && n.Obj().Name() == "ImageType" && dec == nil {
				dec = sc
			}
		}
	})
	if dec == nil {
		r.Undecided("SIG", "imagetype.Buf | decision function", p.posStr(bufFn.Pos()), "Buf does not obtain its result from a module function applied to the whole buffer")
		return
	}
	fd, pk := p.declOf(dec.Object().(*types.Func))
	if fd == nil {
		r.Undecided("SIG", "decision function", "-", "no declaration found for "+fnName(dec))
		return
	}
	// guard in Buf: len(buf) < W returns
	minLen := bufGuardLen(bufFn)
	if minLen < sp.Window {
		r.Bad("SIG", "imagetype.Buf | length guard", p.posStr(bufFn.Pos()), fmt.Sprintf("Buf guarantees only %d bytes before classifying; the decision list reads up to %d", minLen, sp.Window))
	} else {
		r.OK("SIG", "imagetype.Buf | length guard", p.posStr(bufFn.Pos()), fmt.Sprintf("len(buf) >= %d before the decision list", minLen))
	}
	env := &predEnv{pkg: pk, wins: map[types.Object]window{}, strs: map[types.Object]string{}, p: p}
	if len(fd.Type.Params.List) != 1 || len(fd.Type.Params.List[0].Names) != 1 {
		r.Undecided("SIG", "decision function", p.posStr(fd.Pos()), "unexpected parameters")
		return
	}
	env.wins[pk.TypesInfo.Defs[fd.Type.Params.List[0].Names[0]]] = window{off: 0, length: -1, minLen: minLen}
	rules, fallthroughType, err := decisionList(p, env, pk, fd)
	if err != nil {
		r.Undecided("SIG", "decision list | grammar", p.posStr(fd.Pos()), err.Error())
		return
	}
	if fallthroughType != sp.Unknown {
		r.Bad("SIG", "decision list | default", p.posStr(fd.Pos()), "the decision list falls through to "+fallthroughType+", want "+sp.Unknown)
	} else {
		r.OK("SIG", "decision list | default", p.posStr(fd.Pos()), "falls through to "+sp.Unknown)
	}
	r.Extra("sig_rules", len(rules))
	// (1) positions
	for _, rl := range rules {
		if m := rl.pred.maxPos(); m >= sp.Window {
			r.Bad("SIG", "prefix-only | "+rl.typ, p.posStr(rl.pos), fmt.Sprintf("predicate reads byte %d, beyond the %d-byte window", m, sp.Window))
		}
	}
	// (2) per type cube sets: effective region of rule i = pred_i minus earlier rules; since we check
	// overlaps separately, compare the plain union per type.
	byType := map[string]dnf{}
	var order []string
	for _, rl := range rules {
		if _, ok := byType[rl.typ]; !ok {
			order = append(order, rl.typ)
		}
		byType[rl.typ] = byType[rl.typ].or(rl.pred)
	}
	for _, t := range order {
		got := byType[t].norm()
		want, ok := spec[t]
		key := "signature | " + t
		if !ok {
			r.Bad("SIG", key, "-", "the decision list returns "+t+" which has no row in the signature table: "+got.String())
			continue
		}
		if !got.equiv(want) {
			r.Bad("SIG", key, p.posStr(fd.Pos()), fmt.Sprintf("signature cubes differ from the table: code %s ; table %s", got, want))
		} else {
			r.OK("SIG", key, p.posStr(fd.Pos()), "cubes equal the table: "+got.String())
		}
	}
	for t := range spec {
		if _, ok := byType[t]; !ok {
			r.Bad("SIG", "signature | "+t, "-", "the table has a signature for "+t+" but no rule of the decision list returns it")
		}
	}
	// (3) precedence and (4) shadowing
	wins := map[[2]string]bool{}
	for _, w := range sp.Wins {
		wins[w] = true
	}
	for j := range rules {
		// shadow
		var earlier dnf
		for i := 0; i < j; i++ {
			earlier = append(earlier, rules[i].pred...)
		}
		shadowed := len(rules[j].pred) > 0 && rules[j].pred.subsetOf(earlier)
		if len(rules[j].pred) == 0 {
			r.Bad("SIG", fmt.Sprintf("live | %s#%d", rules[j].typ, ruleOrdinal(rules, j)), p.posStr(rules[j].pos), "predicate is unsatisfiable (constant false): the format can never be recognised")
		} else if shadowed {
			r.Bad("SIG", fmt.Sprintf("live | %s#%d", rules[j].typ, ruleOrdinal(rules, j)), p.posStr(rules[j].pos), "rule is completely shadowed by earlier rules")
		} else {
			r.OK("SIG", fmt.Sprintf("live | %s#%d", rules[j].typ, ruleOrdinal(rules, j)), p.posStr(rules[j].pos), "satisfiable and not shadowed")
		}
		for i := 0; i < j; i++ {
			if rules[i].typ == rules[j].typ {
				continue
			}
			if w, ok := rules[i].pred.intersects(rules[j].pred); ok {
				key := fmt.Sprintf("order | %s before %s", rules[i].typ, rules[j].typ)
				if wins[[2]string{rules[i].typ, rules[j].typ}] {
					r.OK("SIG", key, p.posStr(rules[i].pos), "overlapping signatures, more specific type tested first as the table requires")
				} else if wins[[2]string{rules[j].typ, rules[i].typ}] {
					r.Bad("SIG", key, p.posStr(rules[i].pos), fmt.Sprintf("%s must win over %s on overlapping headers (e.g. %s) but is tested later", rules[j].typ, rules[i].typ, w))
				} else {
					r.Bad("SIG", key, p.posStr(rules[i].pos), fmt.Sprintf("signatures of %s and %s overlap (e.g. %s) and the table defines no winner", rules[i].typ, rules[j].typ, w))
				}
			}
		}
	}
	for _, w := range sp.Wins {
		// the pair must actually be ordered in the code (both present)
		a, b := -1, -1
		for i, rl := range rules {
			if rl.typ == w[0] && a < 0 {
				a = i
			}
			if rl.typ == w[1] && b < 0 {
				b = i
			}
		}
		if a < 0 || b < 0 {
			r.Bad("SIG", fmt.Sprintf("order | %s before %s", w[0], w[1]), "-", "a type of a required precedence pair has no rule")
		}
	}
}

func ruleOrdinal(rules []sigRule, j int) int {
	n := 0
	for i := 0; i <= j; i++ {
		if rules[i].typ == rules[j].typ {
			n++
		}
	}
	return n
}

func exprConstName(pk *packages.Package, e ast.Expr) string {
	switch x := stripParen(e).(type) {
	case *ast.Ident:
		if c, ok := pk.TypesInfo.Uses[x].(*types.Const); ok {
			return c.Name()
		}
	case *ast.SelectorExpr:
		if c, ok := pk.TypesInfo.Uses[x.Sel].(*types.Const); ok {
			return c.Name()
		}
	}
	return ""
}

// bufGuardLen: the constant K such that Buf returns early when len(buf) < K.
func bufGuardLen(f *ssa.Function) int {
	if len(f.Blocks) == 0 {
		return 0
	}
	b := f.Blocks[0]
	ifi, ok := b.Instrs[len(b.Instrs)-1].(*ssa.If)
	if !ok {
		return 0
	}
	bo, ok := ifi.Cond.(*ssa.BinOp)
	if !ok {
		return 0
	}
	c, ok := bo.X.(*ssa.Call)
	if !ok {
		return 0
	}
	if bi, ok := c.Call.Value.(*ssa.Builtin); !ok || bi.Name() != "len" || c.Call.Args[0] != ssa.Value(f.Params[0]) {
		return 0
	}
	k, ok := constInt(bo.Y)
	if !ok {
		return 0
	}
	// true edge must return
	ret := false
	for _, in := range b.Succs[0].Instrs {
		if _, ok := in.(*ssa.Return); ok {
			ret = true
		}
	}
	if !ret {
		return 0
	}
	switch bo.Op {
	case token.LSS:
		return int(k)
	case token.LEQ:
		return int(k) + 1
	}
	return 0
}

// ---- FUNNEL -------------------------------------------------------------------------------------

func ruleFunnel(p *Prog, r *Report) {
	bufFn := p.Func("imagetype", "", "Buf")
	scanBuf := p.Func("imagetype", "", "ScanBuf")
	W := int64(24)
	if pk := p.LibPkg("imagetype"); pk != nil {
		if c, ok := pk.Types.Scope().Lookup("searchHeaderLength").(*types.Const); ok {
			W, _ = constant.Int64Val(c.Val())
		}
	}
	if W != 24 {
		r.Bad("FUNNEL", "imagetype.searchHeaderLength", "-", fmt.Sprintf("window constant is %d, the property fixes 24", W))
	}
	for _, name := range []string{"Scan", "ScanBuf", "ReadAt"} {
		f := p.Func("imagetype", "", name)
		key := "imagetype." + name
		if f == nil || bufFn == nil || scanBuf == nil {
			r.Undecided("FUNNEL", key, "-", "unresolved anchor")
			continue
		}
		at := p.posStr(f.Pos())
		bad := ""
		nret := 0
		eachInstr(f, func(b *ssa.BasicBlock, _ int, in ssa.Instruction) {
			ret, ok := in.(*ssa.Return)
			if !ok || bad != "" {
				return
			}
			nret++
			t, e := ret.Results[0], ret.Results[1]
			// form A: results of a call to Buf / ScanBuf
			if te, ok := t.(*ssa.Extract); ok {
				call, ok := te.Tuple.(*ssa.Call)
				ee, ok2 := e.(*ssa.Extract)
				if ok && ok2 && ee.Tuple == te.Tuple && te.Index == 0 && ee.Index == 1 {
					callee := call.Call.StaticCallee()
					switch {
					case callee == scanBuf && name == "Scan":
						if msg := checkScanReader(call.Call.Args[0], f, W); msg != "" {
							bad = msg
						}
						return
					case callee == bufFn:
						if msg := checkBufWindow(p, call, f, W); msg != "" {
							bad = msg
						}
						return
					}
				}
				bad = "a return does not forward the result of Buf/ScanBuf"
				return
			}
			// form B: (ImageUnknown, err) with err the read error on the non-nil edge
			if k, ok := constInt(t); ok && k == 0 {
				if isNilConst(e) {
					bad = "returns (ImageUnknown, nil)"
					return
				}
				nonNil := false
				for _, cd := range condsAt(b) {
					if bo, ok := cd.V.(*ssa.BinOp); ok && bo.X == e && isNilConst(bo.Y) {
						if (bo.Op == token.NEQ) == cd.True {
							nonNil = true
						}
					}
				}
				if !nonNil && p.E3().definitelyNonNil(e, b) {
					nonNil = true // e.g. the read error where there is one, io.ErrUnexpectedEOF otherwise
				}
				if !nonNil {
					bad = "error return not on the err != nil edge of the read"
				}
				return
			}
			bad = "a return yields a type that does not come from Buf"
		})
		if nret == 0 {
			bad = "no return found"
		}
		if bad != "" {
			r.Bad("FUNNEL", key, at, bad)
		} else {
			r.OK("FUNNEL", key, at, fmt.Sprintf("returns Buf(first %d bytes) or (ImageUnknown, read error)", W))
		}
	}
}

// checkScanReader: the *bufio.Reader handed to ScanBuf is r itself (when large enough) or NewReaderSize(r, >= W).
func checkScanReader(v ssa.Value, f *ssa.Function, W int64) string {
	var visit func(v ssa.Value, d int) string
	visit = func(v ssa.Value, d int) string {
		if d > 5 {
			return "reader provenance too deep"
		}
		switch x := v.(type) {
		case *ssa.Phi:
			for _, e := range x.Edges {
				if m := visit(e, d+1); m != "" {
					return m
				}
			}
			return ""
		case *ssa.Extract:
			if ta, ok := x.Tuple.(*ssa.TypeAssert); ok && ta.X == ssa.Value(f.Params[0]) {
				return ""
			}
		case *ssa.TypeAssert:
			if x.X == ssa.Value(f.Params[0]) {
				return ""
			}
		case *ssa.Call:
			if isCallTo(&x.Call, "bufio.NewReaderSize") {
				if x.Call.Args[0] != ssa.Value(f.Params[0]) {
					return "NewReaderSize wraps something other than the argument reader"
				}
				if k, ok := constInt(x.Call.Args[1]); !ok || k < W {
					return fmt.Sprintf("bufio reader of %d bytes cannot Peek %d (PEEKSZ)", k, W)
				}
				return ""
			}
			if isCallTo(&x.Call, "bufio.NewReader") && x.Call.Args[0] == ssa.Value(f.Params[0]) {
				return ""
			}
		}
		return "the reader handed to ScanBuf is not derived from the argument"
	}
	return visit(v, 0)
}

// checkBufWindow: the argument of Buf is the whole result of Peek(W) or a [W]byte array filled by ReadAt(…,0),
// and the call is on the nil-error edge.
func checkBufWindow(p *Prog, call *ssa.Call, f *ssa.Function, W int64) string {
	arg := call.Call.Args[0]
	sl, ok := arg.(*ssa.Slice)
	var base ssa.Value = arg
	if ok {
		if sl.Low != nil {
			if k, ok := constInt(sl.Low); !ok || k != 0 {
				return "the window handed to Buf does not start at offset 0"
			}
		}
		if sl.High != nil {
			if k, ok := constInt(sl.High); !ok || k != W {
				return fmt.Sprintf("the window handed to Buf is cut at %v, want %d", sl.High, W)
			}
		}
		base = sl.X
	}
	var readCall *ssa.Call
	switch x := base.(type) {
	case *ssa.Extract:
		c, ok := x.Tuple.(*ssa.Call)
		if !ok || !isCallTo(&c.Call, "(*bufio.Reader).Peek") {
			return "the window is not the result of Peek"
		}
		if k, ok := constInt(c.Call.Args[1]); !ok || k != W {
			return fmt.Sprintf("Peek size is not %d", W)
		}
		if c.Call.Args[0] != ssa.Value(f.Params[0]) {
			return "Peek on a reader other than the argument"
		}
		readCall = c
	case *ssa.Alloc:
		arr, ok := derefType(x.Type()).Underlying().(*types.Array)
		if !ok || arr.Len() != W {
			return fmt.Sprintf("local buffer is not [%d]byte", W)
		}
		// find ReadAt(slice of x, 0)
		for _, rf := range refs(x) {
			if s2, ok := rf.(*ssa.Slice); ok {
				for _, rf2 := range refs(s2) {
					if c, ok := rf2.(*ssa.Call); ok && c.Call.IsInvoke() && c.Call.Method.Name() == "ReadAt" {
						if k, ok := constInt(c.Call.Args[1]); !ok || k != 0 {
							return "ReadAt offset is not 0"
						}
						if s2.Low != nil || (s2.High != nil && func() bool { k, ok := constInt(s2.High); return !ok || k != W }()) {
							return "ReadAt does not fill the whole window"
						}
						if c.Call.Value != ssa.Value(f.Params[0]) {
							return "ReadAt on a reader other than the argument"
						}
						readCall = c
					}
				}
			}
		}
		if readCall == nil {
			return "no ReadAt fills the local window"
		}
	default:
		return "unrecognised window provenance"
	}
	// nil-error edge
	errV := tupleExtract(readCall, 1)
	if errV == nil {
		return "the read error is discarded"
	}
	okEdge := false
	for _, cd := range condsAt(call.Block()) {
		if bo, ok := cd.V.(*ssa.BinOp); ok && bo.X == ssa.Value(errV) && isNilConst(bo.Y) {
			if (bo.Op == token.EQL) == cd.True {
				okEdge = true
			}
		}
	}
	// for ReadAt the decisive test may be on the count instead: n >= W (the whole window was delivered, whatever error —
	// io.EOF with the last bytes is legal — came with it)
	if !okEdge {
		if cntV := tupleExtract(readCall, 0); cntV != nil {
			for _, cd := range condsAt(call.Block()) {
				bo, ok := cd.V.(*ssa.BinOp)
				if !ok || bo.X != ssa.Value(cntV) {
					continue
				}
				k, ok := constInt(bo.Y)
				if !ok {
					continue
				}
				if (bo.Op == token.LSS && !cd.True && k == W) || (bo.Op == token.GEQ && cd.True && k == W) || (bo.Op == token.EQL && cd.True && k == W) || (bo.Op == token.NEQ && !cd.True && k == W) {
					okEdge = true
				}
			}
		}
	}
	if !okEdge {
		return "Buf is called without the read error having been tested"
	}
	return ""
}

// ---- PEEKONLY -----------------------------------------------------------------------------------

var bufioConsuming = map[string]bool{"Read": true, "ReadByte": true, "ReadRune": true, "ReadSlice": true, "ReadLine": true,
	"ReadString": true, "ReadBytes": true, "Discard": true, "WriteTo": true, "Reset": true, "UnreadByte": true, "UnreadRune": true}

func rulePeekOnly(p *Prog, r *Report) {
	f := p.Func("imagetype", "", "ScanBuf")
	if f == nil {
		r.Undecided("PEEKONLY", "imagetype.ScanBuf", "-", "unresolved anchor")
		return
	}
	fs := p.LibReachDirect([]*ssa.Function{f})
	bad := ""
	for _, g := range fs {
		eachCall(g, func(site ssa.CallInstruction) {
			recv, name, ok := methodCall(site.Common())
			if ok && recv == "*bufio.Reader" && bufioConsuming[name] {
				bad = fmt.Sprintf("%s calls (*bufio.Reader).%s at %s", fnName(g), name, p.posStr(instrPos(site)))
			}
			// handing the reader to anything but Peek
			if ok && recv != "*bufio.Reader" {
				for _, a := range site.Common().Args {
					if a.Type().String() == "*bufio.Reader" {
						bad = fmt.Sprintf("%s passes the reader to %s", fnName(g), calleeName(site.Common()))
					}
				}
			}
		})
	}
	if bad != "" {
		r.Bad("PEEKONLY", fnName(f), p.posStr(f.Pos()), "sniffing consumes or hands off the stream: "+bad)
	} else {
		r.OK("PEEKONLY", fnName(f), p.posStr(f.Pos()), fmt.Sprintf("only Peek is called on the reader in %d reachable functions", len(fs)))
	}
}

// ---- ERRMAP -------------------------------------------------------------------------------------

// edgeConds returns the conditions that hold when control passes from pred to succ.
func edgeConds(pred, succ *ssa.BasicBlock) []Cond {
	cs := condsAt(pred)
	if len(pred.Instrs) > 0 {
		if ifi, ok := pred.Instrs[len(pred.Instrs)-1].(*ssa.If); ok && pred.Succs[0] != pred.Succs[1] {
			cs = append(cs, Cond{V: ifi.Cond, True: pred.Succs[0] == succ, At: pred})
		}
	}
	return cs
}

func ruleErrMap(p *Prog, r *Report) {
	f := p.Func("imagetype", "", "Buf")
	if f == nil {
		r.Undecided("ERRMAP", "imagetype.Buf", "-", "unresolved anchor")
		return
	}
	isErrGlobal := func(v ssa.Value, name string) bool {
		g := loadOfGlobal(v)
		return g != nil && g.Name() == name
	}
	typeIsUnknown := func(cs []Cond, t ssa.Value) (known bool, unknown bool) {
		for _, cd := range cs {
			bo, ok := cd.V.(*ssa.BinOp)
			if !ok || (bo.Op != token.EQL && bo.Op != token.NEQ) {
				continue
			}
			var other ssa.Value
			if bo.X == t {
				other = bo.Y
			} else if bo.Y == t {
				other = bo.X
			} else {
				continue
			}
			if k, ok := constInt(other); ok && k == 0 {
				return true, (bo.Op == token.EQL) == cd.True
			}
		}
		return false, false
	}
	shortBad, mapBad := "", ""
	nShort, nMap := 0, 0
	eachInstr(f, func(b *ssa.BasicBlock, _ int, in ssa.Instruction) {
		ret, ok := in.(*ssa.Return)
		if !ok {
			return
		}
		t, e := ret.Results[0], ret.Results[1]
		// short-buffer return?
		short := false
		for _, cd := range condsAt(b) {
			if bo, ok := cd.V.(*ssa.BinOp); ok && cd.True && (bo.Op == token.LSS || bo.Op == token.LEQ) {
				if c, ok := bo.X.(*ssa.Call); ok {
					if bi, ok := c.Call.Value.(*ssa.Builtin); ok && bi.Name() == "len" {
						short = true
					}
				}
			}
		}
		if short {
			nShort++
			if k, ok := constInt(t); !ok || k != 0 {
				shortBad = "short-buffer return yields a type other than ImageUnknown"
			}
			if !isErrGlobal(e, "ErrDataLength") {
				shortBad = "short-buffer return does not yield ErrDataLength"
			}
			return
		}
		nMap++
		// classification return: error operand per incoming path
		check := func(ev ssa.Value, cs []Cond) {
			known, unk := typeIsUnknown(cs, t)
			switch {
			case isErrGlobal(ev, "ErrImageTypeNotFound"):
				if !known || !unk {
					mapBad = "ErrImageTypeNotFound is returned on a path where the type is not known to be ImageUnknown"
				}
			case isNilConst(ev):
				if !known || unk {
					// nil error must be on the type != ImageUnknown edge — or the type is a non-zero constant
					if k, ok := constInt(t); ok && k != 0 {
						return
					}
					mapBad = "a nil error is returned on a path where the type may be ImageUnknown"
				}
			default:
				mapBad = "unexpected error value in a classification return: " + shortVal(ev)
			}
		}
		if phi, ok := e.(*ssa.Phi); ok && phi.Block() == b {
			for i, ev := range phi.Edges {
				check(ev, edgeConds(b.Preds[i], b))
			}
		} else {
			check(e, condsAt(b))
		}
	})
	at := p.posStr(f.Pos())
	if nShort == 0 {
		shortBad = "no return guarded by a length test found"
	}
	if nMap == 0 {
		mapBad = "no classification return found"
	}
	if shortBad != "" {
		r.Bad("ERRMAP", "imagetype.Buf | short buffer", at, shortBad)
	} else {
		r.OK("ERRMAP", "imagetype.Buf | short buffer", at, "(ImageUnknown, ErrDataLength) on the len < 24 edge")
	}
	if mapBad != "" {
		r.Bad("ERRMAP", "imagetype.Buf | not found", at, mapBad)
	} else {
		r.OK("ERRMAP", "imagetype.Buf | not found", at, "ErrImageTypeNotFound exactly on the == ImageUnknown edge, nil otherwise")
	}
}
