package main

// C12 — TIFF header search: SKIP, ACC, FOUND (+ BO-SYM for the recognisers, HDR for the header).

import (
	"fmt"
	"go/token"
	"go/types"
	"sort"
	"strings"

	"golang.org/x/tools/go/ssa"
)

func init() { register("C12", true, checkC12) }

func checkC12(p *Prog, r *Report) {
	r.Explain("SKIP: in the scan loop of ScanTiffHeader every advance is a constant Discard(k); for k > 1 the dominating byte tests on the peeked window must exclude a TIFF signature starting at offsets 1..k-1 (cube intersection with the signature table shifted by the offset is empty); offset 0 is excluded by BinaryOrder(window) == UnknownEndian, and BinaryOrder's recognisers are checked against the table (BO-SYM). The scan may not call any other consuming primitive. ACC: the constant discarded equals the constant added to the offset counter that becomes TiffHeaderOffset, on every path. FOUND: on the found path nothing consumes after the last Peek, the header comes from the window's own TIFF header (HDR) and a failed Peek is mapped to meta.ErrNoExif. LOOPX: every iteration of the scan loop discards >= 1 byte or returns. SEARCHALL: every reader handed to ScanTiffHeader traces (through interface conversions, bufio wrappers, pooled readers Reset) to the caller own stream, never to an io.LimitReader / LimitedReader / SectionReader whose limit would cut the search off.")
	r.Trusted("bufio.Reader.Peek(n) returns n bytes or an error; Discard(k) after a successful Peek(n>=k) skips exactly k bytes", "at least 28 bytes follow the signature (granted by the property)")
	ruleTiffScan(p, r)
	ruleBOSym(p, r)
	ruleHDR(p, r, "tiff")
	ruleSearchAll(p, r)
	r.Floor("SEARCHALL", 3)
	r.Floor("SKIP", 2)
	r.Floor("ACC", 2)
	r.Floor("FOUND", 2)
	r.Floor("BO-SYM", 3)
	r.Floor("HDR", 1)
}

// byteTestCube turns an SSA branch condition into a cube over window buf, if it is a byte test.
func byteTestCube(cd Cond, buf ssa.Value) (cube, bool) {
	bo, ok := cd.V.(*ssa.BinOp)
	if !ok || (bo.Op != token.EQL && bo.Op != token.NEQ) {
		return nil, false
	}
	x, y := bo.X, bo.Y
	if _, isC := x.(*ssa.Const); isC {
		x, y = y, x
	}
	k, ok := constInt(y)
	if !ok {
		return nil, false
	}
	ld, ok := x.(*ssa.UnOp)
	if !ok || ld.Op != token.MUL {
		return nil, false
	}
	ia, ok := ld.X.(*ssa.IndexAddr)
	if !ok || ia.X != buf {
		return nil, false
	}
	pos, ok := constInt(ia.Index)
	if !ok {
		return nil, false
	}
	var bs byteset
	if k >= 0 && k < 256 {
		bs.set(byte(k))
	}
	eq := (bo.Op == token.EQL) == cd.True
	if !eq {
		bs = bs.not()
	}
	return cube{int(pos): bs}, true
}

func tiffSigCubes(shift int) dnf {
	mk := func(s string) cube {
		c := cube{}
		for i := 0; i < len(s); i++ {
			var bs byteset
			bs.set(s[i])
			c[shift+i] = bs
		}
		return c
	}
	return dnf{mk("II*\x00"), mk("MM\x00*")}
}

func ruleTiffScan(p *Prog, r *Report) {
	f := p.Func("tiff", "", "ScanTiffHeader")
	if f == nil {
		r.Fatal("unresolved anchor tiff.ScanTiffHeader")
		return
	}
	// the Peek whose result feeds BinaryOrder
	var peek *ssa.Call
	var boCall *ssa.Call
	eachCall(f, func(site ssa.CallInstruction) {
		c, ok := site.(*ssa.Call)
		if !ok {
			return
		}
		if sc := c.Call.StaticCallee(); sc != nil && fnName(sc) == "meta/utils.BinaryOrder" {
			if ex, ok := c.Call.Args[0].(*ssa.Extract); ok {
				if pk, ok := ex.Tuple.(*ssa.Call); ok && isCallTo(&pk.Call, "(*bufio.Reader).Peek") {
					peek, boCall = pk, c
				}
			}
		}
	})
	if peek == nil {
		r.Undecided("SKIP", "tiff.ScanTiffHeader | scan loop", p.posStr(f.Pos()), "no Peek feeding BinaryOrder found (anchor lost)")
		return
	}
	buf := ssa.Value(tupleExtract(peek, 0))
	br := peek.Call.Args[0]
	peekN, _ := constInt(peek.Call.Args[1])
	// the loop containing the Peek
	var loop *Loop
	for _, l := range findLoops(f) {
		if l.Blocks[peek.Block()] {
			loop = l
		}
	}
	if loop == nil {
		r.Undecided("SKIP", "tiff.ScanTiffHeader | scan loop", p.posStr(f.Pos()), "the Peek is not inside a loop")
		return
	}
	// the offset counter: value converted and passed as tiffHeaderOffset to NewExifHeader
	var counter *ssa.Phi
	var hdrCall *ssa.Call
	eachCall(f, func(site ssa.CallInstruction) {
		c, ok := site.(*ssa.Call)
		if ok && c.Call.StaticCallee() != nil && fnName(c.Call.StaticCallee()) == "meta.NewExifHeader" {
			hdrCall = c
			v := c.Call.Args[2]
			for i := 0; i < 4; i++ {
				if cv, ok := v.(*ssa.Convert); ok {
					v = cv.X
				}
			}
			counter, _ = v.(*ssa.Phi)
		}
	})
	// SKIP + ACC per consuming call in the loop
	nDisc := 0
	for b := range loop.Blocks {
		for _, in := range b.Instrs {
			site, ok := in.(ssa.CallInstruction)
			if !ok {
				continue
			}
			c := site.Common()
			recv, name, okm := methodCall(c)
			if !okm || recv != "*bufio.Reader" {
				// handing the reader elsewhere inside the loop
				for _, a := range c.Args {
					if a == br && !isCallTo(c, "(*bufio.Reader).Peek") {
						r.Bad("SKIP", "tiff.ScanTiffHeader | reader escapes", p.posStr(instrPos(in)), "the scanning reader is passed to "+calleeName(c)+" inside the scan loop")
					}
				}
				continue
			}
			if name == "Peek" || name == "Size" || name == "Buffered" {
				continue
			}
			if name != "Discard" {
				r.Bad("SKIP", "tiff.ScanTiffHeader | "+name, p.posStr(instrPos(in)), "the scan loop consumes through (*bufio.Reader)."+name+", only constant Discard is modelled")
				continue
			}
			nDisc++
			k, isConst := constInt(c.Args[1])
			key := fmt.Sprintf("tiff.ScanTiffHeader | Discard(%s)", shortVal(c.Args[1]))
			at := p.posStr(instrPos(in))
			if !isConst {
				r.Bad("SKIP", key, at, "skip distance is not a constant: a signature inside the skipped range (or straddling the end of the window) is lost")
			} else if k < 1 {
				r.Bad("SKIP", key, at, "non-positive skip")
			} else if int64(k)+3 > peekN {
				r.Bad("SKIP", key, at, fmt.Sprintf("skip %d with a %d-byte window: the excluded offsets cannot all have been inspected", k, peekN))
			} else {
				// dominated by BinaryOrder(buf) == Unknown
				unknownEdge := false
				path := dnfTrue()
				for _, cd := range condsAt(b) {
					if bo, ok := cd.V.(*ssa.BinOp); ok && bo.X == ssa.Value(boCall) {
						if kk, ok := constInt(bo.Y); ok && kk == 0 && (bo.Op == token.EQL) == cd.True {
							unknownEdge = true
						}
					}
					if cb, ok := byteTestCube(cd, buf); ok {
						path = path.and(dnf{cb})
					}
				}
				if !unknownEdge {
					r.Bad("SKIP", key, at, "advance not dominated by BinaryOrder(window) == UnknownEndian: a header at the current position would be skipped")
				} else {
					bad := ""
					for j := 1; j < int(k); j++ {
						if w, ok := path.intersects(tiffSigCubes(j)); ok {
							bad = fmt.Sprintf("a signature starting at offset %d is not excluded by the dominating byte tests (e.g. window %s)", j, w)
						}
					}
					if bad != "" {
						r.Bad("SKIP", key, at, bad)
					} else {
						r.OK("SKIP", key, at, fmt.Sprintf("offset 0 excluded by BinaryOrder == Unknown; offsets 1..%d excluded by path condition %s", k-1, path))
					}
				}
			}
			// ACC: same block adds the same constant to the counter
			if counter == nil {
				r.Undecided("ACC", key, at, "offset counter not identified (value passed as TiffHeaderOffset is not a loop phi)")
				continue
			}
			var added *Aff
			for _, in2 := range b.Instrs {
				if bo, ok := in2.(*ssa.BinOp); ok && bo.Op == token.ADD {
					a := affineOf(bo, 0)
					if a.coef(counter) == 1 {
						// must flow back into the phi
						for _, e := range counter.Edges {
							if e == ssa.Value(bo) {
								d := a.clone()
								delete(d.Terms, counter)
								added = d
							}
						}
					}
				}
			}
			want := affineOf(c.Args[1], 0)
			if added == nil {
				r.Bad("ACC", key, at, "bytes are discarded but the offset counter is not advanced in the same step")
			} else if !added.equal(want) {
				r.Bad("ACC", key, at, fmt.Sprintf("discards %s but adds %s to the offset counter", want, added))
			} else {
				r.OK("ACC", key, at, "counter advanced by the discarded amount")
			}
		}
	}
	if nDisc == 0 {
		r.Bad("SKIP", "tiff.ScanTiffHeader | progress", p.posStr(f.Pos()), "the scan loop never discards")
	}
	// counter init 0 and every back edge adds
	if counter != nil {
		initOK := false
		for i, e := range counter.Edges {
			if !loop.Blocks[counter.Block().Preds[i]] {
				if k, ok := constInt(e); ok && k == 0 {
					initOK = true
				}
			} else if e == ssa.Value(counter) {
				r.Bad("ACC", "tiff.ScanTiffHeader | back edge", p.posStr(counter.Pos()), "a loop iteration leaves the offset counter unchanged")
			}
		}
		if !initOK {
			r.Bad("ACC", "tiff.ScanTiffHeader | counter init", p.posStr(counter.Pos()), "offset counter does not start at 0")
		} else {
			r.OK("ACC", "tiff.ScanTiffHeader | counter init", p.posStr(counter.Pos()), "offset counter starts at 0 and is the value reported as TiffHeaderOffset")
		}
	}
	// LOOPX: every path through the loop body to a back edge passes a Discard
	for _, latch := range loop.Latch {
		has := false
		// the latch block or a block that dominates it inside the loop (after the Peek) must contain a Discard
		for x := latch; x != nil && loop.Blocks[x]; x = x.Idom() {
			for _, in := range x.Instrs {
				if cs, ok := in.(ssa.CallInstruction); ok && isCallTo(cs.Common(), "(*bufio.Reader).Discard") {
					if k, ok := constInt(cs.Common().Args[1]); ok && k >= 1 {
						has = true
					}
				}
			}
			if x == loop.Head {
				break
			}
		}
		key := fmt.Sprintf("tiff.ScanTiffHeader | back edge from block %q", latch.Comment)
		if !has {
			r.Bad("SKIP", key, p.posStr(instrPos(latch.Instrs[len(latch.Instrs)-1])), "a path returns to the loop head without discarding at least one byte (no progress)")
		}
	}
	// FOUND
	if hdrCall == nil {
		r.Undecided("FOUND", "tiff.ScanTiffHeader | header", p.posStr(f.Pos()), "no NewExifHeader call found")
		return
	}
	foundBad := ""
	for _, b := range f.Blocks {
		found := false
		for _, cd := range condsAt(b) {
			if bo, ok := cd.V.(*ssa.BinOp); ok && bo.X == ssa.Value(boCall) {
				if kk, ok := constInt(bo.Y); ok && kk == 0 && (bo.Op == token.EQL) != cd.True {
					found = true
				}
			}
		}
		if !found {
			continue
		}
		for _, in := range b.Instrs {
			if cs, ok := in.(ssa.CallInstruction); ok {
				recv, name, okm := methodCall(cs.Common())
				if okm && recv == "*bufio.Reader" && bufioConsuming[name] {
					foundBad = "the found path consumes from the stream through " + name + " at " + p.posStr(instrPos(in))
				}
				for _, a := range cs.Common().Args {
					if a == br && !okm {
						foundBad = "the found path hands the reader to " + calleeName(cs.Common())
					}
				}
			}
		}
	}
	if !hdrCall.Block().Dominates(hdrCall.Block()) {
		foundBad = "internal"
	}
	if foundBad != "" {
		r.Bad("FOUND", "tiff.ScanTiffHeader | position", p.posStr(instrPos(hdrCall)), foundBad)
	} else {
		r.OK("FOUND", "tiff.ScanTiffHeader | position", p.posStr(instrPos(hdrCall)), "nothing consumes between the last Peek and the successful return")
	}
	// failed Peek → ErrNoExif
	errV := tupleExtract(peek, 1)
	mapped := false
	if errV != nil {
		for _, b := range f.Blocks {
			for _, cd := range condsAt(b) {
				if bo, ok := cd.V.(*ssa.BinOp); ok && bo.X == ssa.Value(errV) && isNilConst(bo.Y) && (bo.Op == token.NEQ) == cd.True && cd.At == peek.Block() {
					for _, in := range b.Instrs {
						if ret, ok := in.(*ssa.Return); ok && len(ret.Results) == 2 {
							if g := loadOfGlobal(ret.Results[1]); g != nil && g.Name() == "ErrNoExif" {
								mapped = true
							}
						}
					}
				}
			}
		}
	}
	if mapped {
		r.OK("FOUND", "tiff.ScanTiffHeader | not found", p.posStr(instrPos(peek)), "a failed Peek returns meta.ErrNoExif")
	} else {
		r.Bad("FOUND", "tiff.ScanTiffHeader | not found", p.posStr(instrPos(peek)), "a failed Peek is not mapped to meta.ErrNoExif")
	}
	// return nil error only on the found path with the header value
	eachInstr(f, func(b *ssa.BasicBlock, _ int, in ssa.Instruction) {
		ret, ok := in.(*ssa.Return)
		if !ok || !isNilConst(ret.Results[1]) {
			return
		}
		if !hdrCall.Block().Dominates(b) {
			r.Bad("FOUND", "tiff.ScanTiffHeader | success return", p.posStr(instrPos(in)), "a nil-error return is not dominated by the construction of the header")
		}
	})
}

// ---- BO-SYM (shared with C07) ------------------------------------------------------------------

func ruleBOSym(p *Prog, r *Report) {
	// BinaryOrder: decision list over the two recognisers
	fobj := p.Func("meta/utils", "", "BinaryOrder")
	if fobj == nil {
		r.Fatal("unresolved anchor meta/utils.BinaryOrder")
		return
	}
	fd, pk := p.declOf(fobj.Object().(*types.Func))
	if fd == nil {
		r.Undecided("BO-SYM", "meta/utils.BinaryOrder", "-", "no declaration")
		return
	}
	ruleSig4(p, r, fobj)
	env := &predEnv{pkg: pk, wins: map[types.Object]window{}, strs: map[types.Object]string{}, p: p}
	env.wins[pk.TypesInfo.Defs[fd.Type.Params.List[0].Names[0]]] = window{off: 0, length: -1, minLen: 4}
	rules, deflt, err := decisionList(p, env, pk, fd)
	if err != nil {
		r.Undecided("BO-SYM", "meta/utils.BinaryOrder | grammar", p.posStr(fd.Pos()), err.Error())
		return
	}
	want := map[string]dnf{"BigEndian": {tiffSigCubes(0)[1]}, "LittleEndian": {tiffSigCubes(0)[0]}}
	got := map[string]dnf{}
	for _, rl := range rules {
		got[rl.typ] = got[rl.typ].or(rl.pred)
	}
	for _, nm := range []string{"BigEndian", "LittleEndian"} {
		key := "meta/utils.BinaryOrder | " + nm
		if g, ok := got[nm]; !ok {
			r.Bad("BO-SYM", key, p.posStr(fd.Pos()), "no rule returns "+nm)
		} else if !g.equiv(want[nm]) {
			r.Bad("BO-SYM", key, p.posStr(fd.Pos()), fmt.Sprintf("recogniser accepts %s, the TIFF signature is %s", g, want[nm]))
		} else if g.maxPos() >= 4 {
			r.Bad("BO-SYM", key, p.posStr(fd.Pos()), "recogniser reads beyond the 4 signature bytes")
		} else {
			r.OK("BO-SYM", key, p.posStr(fd.Pos()), "recognises exactly "+g.String())
		}
	}
	for nm := range got {
		if nm != "BigEndian" && nm != "LittleEndian" {
			r.Bad("BO-SYM", "meta/utils.BinaryOrder | "+nm, p.posStr(fd.Pos()), "unexpected result "+nm+" for a signature match")
		}
	}
	if deflt != "UnknownEndian" {
		r.Bad("BO-SYM", "meta/utils.BinaryOrder | default", p.posStr(fd.Pos()), "falls through to "+deflt+", want UnknownEndian")
	} else {
		r.OK("BO-SYM", "meta/utils.BinaryOrder | default", p.posStr(fd.Pos()), "UnknownEndian when neither signature matches")
	}
	// UnknownEndian must be the zero value (callers compare with 0 / rely on zero headers)
	// methods: M calls binary.BigEndian.M on the == BigEndian edge and binary.LittleEndian.M otherwise
	for _, m := range []string{"Uint16", "Uint32", "Uint64", "PutUint16", "PutUint32", "PutUint64"} {
		f := p.Func("meta/utils", "ByteOrder", m)
		key := "meta/utils.(ByteOrder)." + m
		if f == nil {
			r.Undecided("BO-SYM", key, "-", "unresolved anchor")
			continue
		}
		bigConst := int64(-1)
		if c, ok := pk.Types.Scope().Lookup("BigEndian").(*types.Const); ok {
			bigConst, _ = constantInt64(c)
		}
		bad := ""
		ncalls := 0
		eachCall(f, func(site ssa.CallInstruction) {
			c := site.Common()
			sc := c.StaticCallee()
			if sc == nil {
				bad = "dynamic call"
				return
			}
			ncalls++
			full := sc.String()
			var isBig bool
			switch full {
			case "(encoding/binary.bigEndian)." + m:
				isBig = true
			case "(encoding/binary.littleEndian)." + m:
				isBig = false
			default:
				bad = "calls " + full + " (want encoding/binary " + m + ")"
				return
			}
			// edge: receiver == BigEndian ?
			onBig, known := false, false
			for _, cd := range condsAt(site.Block()) {
				if bo, ok := cd.V.(*ssa.BinOp); ok && bo.X == ssa.Value(f.Params[0]) {
					if k, ok := constInt(bo.Y); ok && k == bigConst {
						known = true
						onBig = (bo.Op == token.EQL) == cd.True
					}
				}
			}
			if !known {
				bad = "call not on an edge of the receiver == BigEndian test"
				return
			}
			if onBig != isBig {
				bad = fmt.Sprintf("byte orders swapped: %s on the %v edge", full, map[bool]string{true: "BigEndian", false: "not-BigEndian"}[onBig])
			}
			// arguments forwarded unchanged
			for i, a := range c.Args[1:] {
				if i+1 < len(f.Params) && a != ssa.Value(f.Params[i+1]) {
					bad = "arguments are not forwarded unchanged"
				}
			}
		})
		if ncalls != 2 && bad == "" {
			bad = fmt.Sprintf("%d encoding/binary calls, want 2", ncalls)
		}
		if bad != "" {
			r.Bad("BO-SYM", key, p.posStr(f.Pos()), bad)
		} else {
			r.OK("BO-SYM", key, p.posStr(f.Pos()), "binary.BigEndian."+m+" iff receiver == BigEndian, binary.LittleEndian."+m+" otherwise")
		}
	}
}

func constantInt64(c *types.Const) (int64, bool) {
	v := c.Val()
	if v == nil {
		return 0, false
	}
	s := v.ExactString()
	var k int64
	_, err := fmt.Sscan(s, &k)
	return k, err == nil
}

// ruleSig4 (reported under BO-SYM): BinaryOrder and the library functions it hands its buffer to look at bytes 0..3
// only. A test that also reads what follows the signature (the first-directory offset, say) makes the order — and
// with it whether a TIFF header is recognised at all — depend on data that is not part of the signature, and the
// first byte of that offset is its low byte in one order and its high byte in the other.
func ruleSig4(p *Prog, r *Report, root *ssa.Function) {
	key := "meta/utils.BinaryOrder | reads only the four signature bytes"
	if len(root.Params) != 1 {
		r.Undecided("BO-SYM", key, p.posStr(root.Pos()), "unexpected signature")
		return
	}
	read := map[int64]bool{}
	unb := bufReadSet(p, root, root.Params[0], bufWin{0, -1}, read, map[string]bool{}, 0)
	var extra []string
	for k := range read {
		if k > 3 {
			extra = append(extra, fmt.Sprint(k))
		}
	}
	sort.Strings(extra)
	switch {
	case unb != "":
		r.Bad("BO-SYM", key, p.posStr(root.Pos()), "the signature test looks past the four signature bytes ("+unb+"): whether a header is recognised, and with which order, then depends on what follows the signature")
	case len(extra) > 0:
		r.Bad("BO-SYM", key, p.posStr(root.Pos()), "the signature test reads byte(s) "+strings.Join(extra, ", ")+" behind the four signature bytes: whether a header is recognised, and with which order, then depends on what follows the signature")
	default:
		r.OK("BO-SYM", key, p.posStr(root.Pos()), fmt.Sprintf("%d positions read, all within bytes 0..3", len(read)))
	}
	// and it is a function of those bytes alone: no package-level state that anything outside the initialiser writes
	key2 := "meta/utils.BinaryOrder | depends on its argument only"
	bad := ""
	seen := map[*ssa.Function]bool{}
	var visit func(f *ssa.Function, d int)
	visit = func(f *ssa.Function, d int) {
		if seen[f] || d > 6 || bad != "" {
			return
		}
		seen[f] = true
		eachInstr(f, func(_ *ssa.BasicBlock, _ int, in ssa.Instruction) {
			var ops []*ssa.Value
			for _, o := range in.Operands(ops) {
				if g, ok := (*o).(*ssa.Global); ok && g.Pkg != nil && isRepoPath(g.Pkg.Pkg.Path()) {
					if !p.Tables().Immutable(g) {
						bad = "it reads " + globalName(g) + " (in " + fnName(f) + "), which is written — or whose elements can be written — outside the package initialiser"
					}
				}
			}
			if ci, ok := in.(ssa.CallInstruction); ok {
				if sc := ci.Common().StaticCallee(); sc != nil && isRepoFn(sc) && len(sc.Blocks) > 0 {
					visit(sc, d+1)
				}
			}
		})
	}
	visit(root, 0)
	if bad != "" {
		r.Bad("BO-SYM", key2, p.posStr(root.Pos()), bad+": the same four bytes can then be recognised at one time and not at another")
	} else {
		r.OK("BO-SYM", key2, p.posStr(root.Pos()), fmt.Sprintf("%d functions, no mutable package-level state read", len(seen)))
	}
}

// ---- SEARCHALL: the header search sees the whole stream ---------------------------------------------------------
//
// "The first TIFF signature anywhere in the stream is found" needs the reader that ScanTiffHeader is given to deliver
// the stream itself. Every reader argument of tiff.ScanTiffHeader in the library is traced through interface
// conversions, bufio wrappers and pooled readers' Reset: it must end at a parameter of the calling function (the
// caller's stream) — never at an io.LimitReader / io.LimitedReader / io.SectionReader, whose limit counts from the
// start of the stream and silently cuts the search off.
func ruleSearchAll(p *Prog, r *Report) {
	scan := p.Func("tiff", "", "ScanTiffHeader")
	if scan == nil {
		r.Undecided("SEARCHALL", "tiff.ScanTiffHeader", "-", "unresolved anchor")
		return
	}
	var limited func(f *ssa.Function, v ssa.Value, d int, seen map[ssa.Value]bool) string
	limited = func(f *ssa.Function, v ssa.Value, d int, seen map[ssa.Value]bool) string {
		if v == nil || seen[v] || d > 10 {
			return ""
		}
		seen[v] = true
		switch x := v.(type) {
		case *ssa.MakeInterface:
			return limited(f, x.X, d+1, seen)
		case *ssa.ChangeInterface:
			return limited(f, x.X, d+1, seen)
		case *ssa.TypeAssert:
			return limited(f, x.X, d+1, seen)
		case *ssa.Extract:
			return limited(f, x.Tuple, d+1, seen)
		case *ssa.Phi:
			for _, e := range x.Edges {
				if w := limited(f, e, d+1, seen); w != "" {
					return w
				}
			}
		case *ssa.Alloc:
			if n := namedOfPtr(x.Type()); n != nil && n.Obj().Pkg() != nil && n.Obj().Pkg().Path() == "io" && (n.Obj().Name() == "LimitedReader" || n.Obj().Name() == "SectionReader") {
				return "an io." + n.Obj().Name()
			}
		case *ssa.Call:
			sc := x.Call.StaticCallee()
			if sc != nil {
				switch sc.String() {
				case "io.LimitReader", "io.NewSectionReader":
					return "the result of " + sc.String()
				case "bufio.NewReader", "bufio.NewReaderSize":
					return limited(f, x.Call.Args[0], d+1, seen)
				}
			}
			// a pooled reader: what it was Reset to
			for _, rf := range refs(x) {
				_ = rf
			}
		}
		// a *bufio.Reader obtained elsewhere (pool): look at the Reset calls on it in this function
		if pt, ok := v.Type().Underlying().(*types.Pointer); ok {
			if n, ok := pt.Elem().(*types.Named); ok && n.Obj().Name() == "Reader" && n.Obj().Pkg() != nil && n.Obj().Pkg().Path() == "bufio" {
				why := ""
				eachCall(f, func(site ssa.CallInstruction) {
					c := site.Common()
					if isCallTo(c, "(*bufio.Reader).Reset") && len(c.Args) == 2 && c.Args[0] == v && why == "" {
						why = limited(f, c.Args[1], d+1, seen)
					}
				})
				return why
			}
		}
		return ""
	}
	n := 0
	for _, f := range p.AllLibFns() {
		eachCall(f, func(site ssa.CallInstruction) {
			c := site.Common()
			if c.StaticCallee() != scan || len(c.Args) < 1 {
				return
			}
			n++
			key := fnName(f) + " | reader handed to tiff.ScanTiffHeader"
			at := p.posStr(instrPos(site))
			if w := limited(f, c.Args[0], 0, map[ssa.Value]bool{}); w != "" {
				r.Bad("SEARCHALL", key, at, "the search reads through "+w+": a signature beyond that limit — counted from the start of the stream, not from the header — is never found")
			} else {
				r.OK("SEARCHALL", key, at, "the search reads the caller's stream, not a length-limited view of it")
			}
		})
	}
	if n == 0 {
		r.Undecided("SEARCHALL", "tiff.ScanTiffHeader | callers", "-", "no call found")
	}
}
