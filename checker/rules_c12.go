package main

// C12 — TIFF header search: SKIP, ACC, FOUND (+ BO-SYM for the recognisers, HDR for the header).

import (
	"fmt"
	"go/token"
	"go/types"

	"golang.org/x/tools/go/ssa"
)

func init() { register("C12", true, checkC12) }

func checkC12(p *Prog, r *Report) {
	r.Explain("SKIP: in the scan loop of ScanTiffHeader every advance is a constant Discard(k); for k > 1 the dominating byte tests on the peeked window must exclude a TIFF signature starting at offsets 1..k-1 (cube intersection with the signature table shifted by the offset is empty); offset 0 is excluded by BinaryOrder(window) == UnknownEndian, and BinaryOrder's recognisers are checked against the table (BO-SYM). The scan may not call any other consuming primitive. ACC: the constant discarded equals the constant added to the offset counter that becomes TiffHeaderOffset, on every path. FOUND: on the found path nothing consumes after the last Peek, the header comes from the window's own TIFF header (HDR) and a failed Peek is mapped to meta.ErrNoExif. LOOPX: every iteration of the scan loop discards >= 1 byte or returns.")
	r.Trusted("bufio.Reader.Peek(n) returns n bytes or an error; Discard(k) after a successful Peek(n>=k) skips exactly k bytes", "at least 28 bytes follow the signature (granted by the property)")
	ruleTiffScan(p, r)
	ruleBOSym(p, r)
	ruleHDR(p, r, "tiff")
	r.Floor("SKIP", 2)
	r.Floor("ACC", 2)
	r.Floor("FOUND", 2)
	r.Floor("BO-SYM", 3)
	r.Floor("HDR", 1)
}

// byteTestCube turns an SSA branch condition into a cube over window buf, if it is a byte test.
func byteTestCube(cd Cond, buf ssa.Value) (cube, bool) {
	bo, ok := cd.V.(*ssa.BinOp)
	if !ok || (bo.Op != token.EQL && bo.Op != token.NEQ) {
		return nil, false
	}
	x, y := bo.X, bo.Y
	if _, isC := x.(*ssa.Const); isC {
		x, y = y, x
	}
	k, ok := constInt(y)
	if !ok {
		return nil, false
	}
	ld, ok := x.(*ssa.UnOp)
	if !ok || ld.Op != token.MUL {
		return nil, false
	}
	ia, ok := ld.X.(*ssa.IndexAddr)
	if !ok || ia.X != buf {
		return nil, false
	}
	pos, ok := constInt(ia.Index)
	if !ok {
		return nil, false
	}
	var bs byteset
	if k >= 0 && k < 256 {
		bs.set(byte(k))
	}
	eq := (bo.Op == token.EQL) == cd.True
	if !eq {
		bs = bs.not()
	}
	return cube{int(pos): bs}, true
}

func tiffSigCubes(shift int) dnf {
	mk := func(s string) cube {
		c := cube{}
		for i := 0; i < len(s); i++ {
			var bs byteset
			bs.set(s[i])
			c[shift+i] = bs
		}
		return c
	}
	return dnf{mk("II*\x00"), mk("MM\x00*")}
}

func ruleTiffScan(p *Prog, r *Report) {
	f := p.Func("tiff", "", "ScanTiffHeader")
	if f == nil {
		r.Fatal("unresolved anchor tiff.ScanTiffHeader")
		return
	}
	// the Peek whose result feeds BinaryOrder
	var peek *ssa.Call
	var boCall *ssa.Call
	eachCall(f, func(site ssa.CallInstruction) {
		c, ok := site.(*ssa.Call)
		if !ok {
			return
		}
		if sc := c.Call.StaticCallee(); sc != nil && fnName(sc) == "meta/utils.BinaryOrder" {
			if ex, ok := c.Call.Args[0].(*ssa.Extract); ok {
				if pk, ok := ex.Tuple.(*ssa.Call); ok && isCallTo(&pk.Call, "(*bufio.Reader).Peek") {
					peek, boCall = pk, c
				}
			}
		}
	})
	if peek == nil {
		r.Undecided("SKIP", "tiff.ScanTiffHeader | scan loop", p.posStr(f.Pos()), "no Peek feeding BinaryOrder found (anchor lost)")
		return
	}
	buf := ssa.Value(tupleExtract(peek, 0))
	br := peek.Call.Args[0]
	peekN, _ := constInt(peek.Call.Args[1])
	// the loop containing the Peek
	var loop *Loop
	for _, l := range findLoops(f) {
		if l.Blocks[peek.Block()] {
			loop = l
		}
	}
	if loop == nil {
		r.Undecided("SKIP", "tiff.ScanTiffHeader | scan loop", p.posStr(f.Pos()), "the Peek is not inside a loop")
		return
	}
	// the offset counter: value converted and passed as tiffHeaderOffset to NewExifHeader
	var counter *ssa.Phi
	var hdrCall *ssa.Call
	eachCall(f, func(site ssa.CallInstruction) {
		c, ok := site.(*ssa.Call)
		if ok && c.Call.StaticCallee() != nil && fnName(c.Call.StaticCallee()) == "meta.NewExifHeader" {
			hdrCall = c
			v := c.Call.Args[2]
			for i := 0; i < 4; i++ {
				if cv, ok := v.(*ssa.Convert); ok {
					v = cv.X
				}
			}
			counter, _ = v.(*ssa.Phi)
		}
	})
	// SKIP + ACC per consuming call in the loop
	nDisc := 0
	for b := range loop.Blocks {
		for _, in := range b.Instrs {
			site, ok := in.(ssa.CallInstruction)
			if !ok {
				continue
			}
			c := site.Common()
			recv, name, okm := methodCall(c)
			if !okm || recv != "*bufio.Reader" {
				// handing the reader elsewhere inside the loop
				for _, a := range c.Args {
					if a == br && !isCallTo(c, "(*bufio.Reader).Peek") {
						r.Bad("SKIP", "tiff.ScanTiffHeader | reader escapes", p.posStr(instrPos(in)), "the scanning reader is passed to "+calleeName(c)+" inside the scan loop")
					}
				}
				continue
			}
			if name == "Peek" || name == "Size" || name == "Buffered" {
				continue
			}
			if name != "Discard" {
				r.Bad("SKIP", "tiff.ScanTiffHeader | "+name, p.posStr(instrPos(in)), "the scan loop consumes through (*bufio.Reader)."+name+", only constant Discard is modelled")
				continue
			}
			nDisc++
			k, isConst := constInt(c.Args[1])
			key := fmt.Sprintf("tiff.ScanTiffHeader | Discard(%s)", shortVal(c.Args[1]))
			at := p.posStr(instrPos(in))
			if !isConst {
				r.Bad("SKIP", key, at, "skip distance is not a constant: a signature inside the skipped range (or straddling the end of the window) is lost")
			} else if k < 1 {
				r.Bad("SKIP", key, at, "non-positive skip")
			} else if int64(k)+3 > peekN {
				r.Bad("SKIP", key, at, fmt.Sprintf("skip %d with a %d-byte window: the excluded offsets cannot all have been inspected", k, peekN))
			} else {
				// dominated by BinaryOrder(buf) == Unknown
				unknownEdge := false
				path := dnfTrue()
				for _, cd := range condsAt(b) {
					if bo, ok := cd.V.(*ssa.BinOp); ok && bo.X == ssa.Value(boCall) {
						if kk, ok := constInt(bo.Y); ok && kk == 0 && (bo.Op == token.EQL) == cd.True {
							unknownEdge = true
						}
					}
					if cb, ok := byteTestCube(cd, buf); ok {
						path = path.and(dnf{cb})
					}
				}
				if !unknownEdge {
					r.Bad("SKIP", key, at, "advance not dominated by BinaryOrder(window) == UnknownEndian: a header at the current position would be skipped")
				} else {
					bad := ""
					for j := 1; j < int(k); j++ {
						if w, ok := path.intersects(tiffSigCubes(j)); ok {
							bad = fmt.Sprintf("a signature starting at offset %d is not excluded by the dominating byte tests (e.g. window %s)", j, w)
						}
					}
					if bad != "" {
						r.Bad("SKIP", key, at, bad)
					} else {
						r.OK("SKIP", key, at, fmt.Sprintf("offset 0 excluded by BinaryOrder == Unknown; offsets 1..%d excluded by path condition %s", k-1, path))
					}
				}
			}
			// ACC: same block adds the same constant to the counter
			if counter == nil {
				r.Undecided("ACC", key, at, "offset counter not identified (value passed as TiffHeaderOffset is not a loop phi)")
				continue
			}
			var added *Aff
			for _, in2 := range b.Instrs {
				if bo, ok := in2.(*ssa.BinOp); ok && bo.Op == token.ADD {
					a := affineOf(bo, 0)
					if a.coef(counter) == 1 {
						// must flow back into the phi
						for _, e := range counter.Edges {
							if e == ssa.Value(bo) {
								d := a.clone()
								delete(d.Terms, counter)
								added = d
							}
						}
					}
				}
			}
			want := affineOf(c.Args[1], 0)
			if added == nil {
				r.Bad("ACC", key, at, "bytes are discarded but the offset counter is not advanced in the same step")
			} else if !added.equal(want) {
				r.Bad("ACC", key, at, fmt.Sprintf("discards %s but adds %s to the offset counter", want, added))
			} else {
				r.OK("ACC", key, at, "counter advanced by the discarded amount")
			}
		}
	}
	if nDisc == 0 {
		r.Bad("SKIP", "tiff.ScanTiffHeader | progress", p.posStr(f.Pos()), "the scan loop never discards")
	}
	// counter init 0 and every back edge adds
	if counter != nil {
		initOK := false
		for i, e := range counter.Edges {
			if !loop.Blocks[counter.Block().Preds[i]] {
				if k, ok := constInt(e); ok && k == 0 {
					initOK = true
				}
			} else if e == ssa.Value(counter) {
				r.Bad("ACC", "tiff.ScanTiffHeader | back edge", p.posStr(counter.Pos()), "a loop iteration leaves the offset counter unchanged")
			}
		}
		if !initOK {
			r.Bad("ACC", "tiff.ScanTiffHeader | counter init", p.posStr(counter.Pos()), "offset counter does not start at 0")
		} else {
			r.OK("ACC", "tiff.ScanTiffHeader | counter init", p.posStr(counter.Pos()), "offset counter starts at 0 and is the value reported as TiffHeaderOffset")
		}
	}
	// LOOPX: every path through the loop body to a back edge passes a Discard
	for _, latch := range loop.Latch {
		has := false
		// the latch block or a block that dominates it inside the loop (after the Peek) must contain a Discard
		for x := latch; x != nil && loop.Blocks[x]; x = x.Idom() {
			for _, in := range x.Instrs {
				if cs, ok := in.(ssa.CallInstruction); ok && isCallTo(cs.Common(), "(*bufio.Reader).Discard") {
					if k, ok := constInt(cs.Common().Args[1]); ok && k >= 1 {
						has = true
					}
				}
			}
			if x == loop.Head {
				break
			}
		}
		key := fmt.Sprintf("tiff.ScanTiffHeader | back edge from block %q", latch.Comment)
		if !has {
			r.Bad("SKIP", key, p.posStr(instrPos(latch.Instrs[len(latch.Instrs)-1])), "a path returns to the loop head without discarding at least one byte (no progress)")
		}
	}
	// FOUND
	if hdrCall == nil {
		r.Undecided("FOUND", "tiff.ScanTiffHeader | header", p.posStr(f.Pos()), "no NewExifHeader call found")
		return
	}
	foundBad := ""
	for _, b := range f.Blocks {
		found := false
		for _, cd := range condsAt(b) {
			if bo, ok := cd.V.(*ssa.BinOp); ok && bo.X == ssa.Value(boCall) {
				if kk, ok := constInt(bo.Y); ok && kk == 0 && (bo.Op == token.EQL) != cd.True {
					found = true
				}
			}
		}
		if !found {
			continue
		}
		for _, in := range b.Instrs {
			if cs, ok := in.(ssa.CallInstruction); ok {
				recv, name, okm := methodCall(cs.Common())
				if okm && recv == "*bufio.Reader" && bufioConsuming[name] {
					foundBad = "the found path consumes from the stream through " + name + " at " + p.posStr(instrPos(in))
				}
				for _, a := range cs.Common().Args {
					if a == br && !okm {
						foundBad = "the found path hands the reader to " + calleeName(cs.Common())
					}
				}
			}
		}
	}
	if !hdrCall.Block().Dominates(hdrCall.Block()) {
		foundBad = "internal"
	}
	if foundBad != "" {
		r.Bad("FOUND", "tiff.ScanTiffHeader | position", p.posStr(instrPos(hdrCall)), foundBad)
	} else {
		r.OK("FOUND", "tiff.ScanTiffHeader | position", p.posStr(instrPos(hdrCall)), "nothing consumes between the last Peek and the successful return")
	}
	// failed Peek → ErrNoExif
	errV := tupleExtract(peek, 1)
	mapped := false
	if errV != nil {
		for _, b := range f.Blocks {
			for _, cd := range condsAt(b) {
				if bo, ok := cd.V.(*ssa.BinOp); ok && bo.X == ssa.Value(errV) && isNilConst(bo.Y) && (bo.Op == token.NEQ) == cd.True && cd.At == peek.Block() {
					for _, in := range b.Instrs {
						if ret, ok := in.(*ssa.Return); ok && len(ret.Results) == 2 {
							if g := loadOfGlobal(ret.Results[1]); g != nil && g.Name() == "ErrNoExif" {
								mapped = true
							}
						}
					}
				}
			}
		}
	}
	if mapped {
		r.OK("FOUND", "tiff.ScanTiffHeader | not found", p.posStr(instrPos(peek)), "a failed Peek returns meta.ErrNoExif")
	} else {
		r.Bad("FOUND", "tiff.ScanTiffHeader | not found", p.posStr(instrPos(peek)), "a failed Peek is not mapped to meta.ErrNoExif")
	}
	// return nil error only on the found path with the header value
	eachInstr(f, func(b *ssa.BasicBlock, _ int, in ssa.Instruction) {
		ret, ok := in.(*ssa.Return)
		if !ok || !isNilConst(ret.Results[1]) {
			return
		}
		if !hdrCall.Block().Dominates(b) {
			r.Bad("FOUND", "tiff.ScanTiffHeader | success return", p.posStr(instrPos(in)), "a nil-error return is not dominated by the construction of the header")
		}
	})
}

// ---- BO-SYM (shared with C07) ------------------------------------------------------------------

func ruleBOSym(p *Prog, r *Report) {
	// BinaryOrder: decision list over the two recognisers
	fobj := p.Func("meta/utils", "", "BinaryOrder")
	if fobj == nil {
		r.Fatal("unresolved anchor meta/utils.BinaryOrder")
		return
	}
	fd, pk := p.declOf(fobj.Object().(*types.Func))
	if fd == nil {
		r.Undecided("BO-SYM", "meta/utils.BinaryOrder", "-", "no declaration")
		return
	}
	env := &predEnv{pkg: pk, wins: map[types.Object]window{}, strs: map[types.Object]string{}, p: p}
	env.wins[pk.TypesInfo.Defs[fd.Type.Params.List[0].Names[0]]] = window{off: 0, length: -1, minLen: 4}
	rules, deflt, err := decisionList(p, env, pk, fd)
	if err != nil {
		r.Undecided("BO-SYM", "meta/utils.BinaryOrder | grammar", p.posStr(fd.Pos()), err.Error())
		return
	}
	want := map[string]dnf{"BigEndian": {tiffSigCubes(0)[1]}, "LittleEndian": {tiffSigCubes(0)[0]}}
	got := map[string]dnf{}
	for _, rl := range rules {
		got[rl.typ] = got[rl.typ].or(rl.pred)
	}
	for _, nm := range []string{"BigEndian", "LittleEndian"} {
		key := "meta/utils.BinaryOrder | " + nm
		if g, ok := got[nm]; !ok {
			r.Bad("BO-SYM", key, p.posStr(fd.Pos()), "no rule returns "+nm)
		} else if !g.equiv(want[nm]) {
			r.Bad("BO-SYM", key, p.posStr(fd.Pos()), fmt.Sprintf("recogniser accepts %s, the TIFF signature is %s", g, want[nm]))
		} else if g.maxPos() >= 4 {
			r.Bad("BO-SYM", key, p.posStr(fd.Pos()), "recogniser reads beyond the 4 signature bytes")
		} else {
			r.OK("BO-SYM", key, p.posStr(fd.Pos()), "recognises exactly "+g.String())
		}
	}
	for nm := range got {
		if nm != "BigEndian" && nm != "LittleEndian" {
			r.Bad("BO-SYM", "meta/utils.BinaryOrder | "+nm, p.posStr(fd.Pos()), "unexpected result "+nm+" for a signature match")
		}
	}
	if deflt != "UnknownEndian" {
		r.Bad("BO-SYM", "meta/utils.BinaryOrder | default", p.posStr(fd.Pos()), "falls through to "+deflt+", want UnknownEndian")
	} else {
		r.OK("BO-SYM", "meta/utils.BinaryOrder | default", p.posStr(fd.Pos()), "UnknownEndian when neither signature matches")
	}
	// UnknownEndian must be the zero value (callers compare with 0 / rely on zero headers)
	// methods: M calls binary.BigEndian.M on the == BigEndian edge and binary.LittleEndian.M otherwise
	for _, m := range []string{"Uint16", "Uint32", "Uint64", "PutUint16", "PutUint32", "PutUint64"} {
		f := p.Func("meta/utils", "ByteOrder", m)
		key := "meta/utils.(ByteOrder)." + m
		if f == nil {
			r.Undecided("BO-SYM", key, "-", "unresolved anchor")
			continue
		}
		bigConst := int64(-1)
		if c, ok := pk.Types.Scope().Lookup("BigEndian").(*types.Const); ok {
			bigConst, _ = constantInt64(c)
		}
		bad := ""
		ncalls := 0
		eachCall(f, func(site ssa.CallInstruction) {
			c := site.Common()
			sc := c.StaticCallee()
			if sc == nil {
				bad = "dynamic call"
				return
			}
			ncalls++
			full := sc.String()
			var isBig bool
			switch full {
			case "(encoding/binary.bigEndian)." + m:
				isBig = true
			case "(encoding/binary.littleEndian)." + m:
				isBig = false
			default:
				bad = "calls " + full + " (want encoding/binary " + m + ")"
				return
			}
			// edge: receiver == BigEndian ?
			onBig, known := false, false
			for _, cd := range condsAt(site.Block()) {
				if bo, ok := cd.V.(*ssa.BinOp); ok && bo.X == ssa.Value(f.Params[0]) {
					if k, ok := constInt(bo.Y); ok && k == bigConst {
						known = true
						onBig = (bo.Op == token.EQL) == cd.True
					}
				}
			}
			if !known {
				bad = "call not on an edge of the receiver == BigEndian test"
				return
			}
			if onBig != isBig {
				bad = fmt.Sprintf("byte orders swapped: %s on the %v edge", full, map[bool]string{true: "BigEndian", false: "not-BigEndian"}[onBig])
			}
			// arguments forwarded unchanged
			for i, a := range c.Args[1:] {
				if i+1 < len(f.Params) && a != ssa.Value(f.Params[i+1]) {
					bad = "arguments are not forwarded unchanged"
				}
			}
		})
		if ncalls != 2 && bad == "" {
			bad = fmt.Sprintf("%d encoding/binary calls, want 2", ncalls)
		}
		if bad != "" {
			r.Bad("BO-SYM", key, p.posStr(f.Pos()), bad)
		} else {
			r.OK("BO-SYM", key, p.posStr(f.Pos()), "binary.BigEndian."+m+" iff receiver == BigEndian, binary.LittleEndian."+m+" otherwise")
		}
	}
}

func constantInt64(c *types.Const) (int64, bool) {
	v := c.Val()
	if v == nil {
		return 0, false
	}
	s := v.ExactString()
	var k int64
	_, err := fmt.Sscan(s, &k)
	return k, err == nil
}
