package main

// E3 — demand-driven bounds prover over SSA (intervals + difference constraints), in the style of ABCD.
//
// Terms: integer SSA values, LEN(v) for slice/string/array-pointer SSA values, and ZERO.
// A fact is a − b ≤ c. A query "a − b ≤ c at block B" is answered by a shortest-path search in the
// graph of facts that hold at B: definitions (valid everywhere: SSA values are immutable), intervals,
// and the branch conditions that dominate B, plus verified contracts of callees under a nil-error edge.

import (
	"fmt"
	"go/constant"
	"go/token"
	"go/types"
	"strings"

	"golang.org/x/tools/go/ssa"
)

const inf = int64(1) << 60

type ival struct{ lo, hi int64 }

func (a ival) String() string {
	f := func(x int64) string {
		if x >= inf {
			return "+inf"
		}
		if x <= -inf {
			return "-inf"
		}
		return fmt.Sprint(x)
	}
	return "[" + f(a.lo) + "," + f(a.hi) + "]"
}

func sat(x int64) int64 {
	if x > inf {
		return inf
	}
	if x < -inf {
		return -inf
	}
	return x
}

func addSat(a, b int64) int64 {
	if a >= inf || b >= inf {
		if a <= -inf || b <= -inf {
			return 0
		}
		return inf
	}
	if a <= -inf || b <= -inf {
		return -inf
	}
	return sat(a + b)
}

func mulSat(a, b int64) int64 {
	if a == 0 || b == 0 {
		return 0
	}
	neg := (a < 0) != (b < 0)
	aa, bb := a, b
	if aa < 0 {
		aa = -aa
	}
	if bb < 0 {
		bb = -bb
	}
	if aa >= inf || bb >= inf || aa > inf/bb {
		if neg {
			return -inf
		}
		return inf
	}
	return a * b
}

func typeRange(t types.Type) ival {
	b, ok := t.Underlying().(*types.Basic)
	if !ok {
		return ival{-inf, inf}
	}
	switch b.Kind() {
	case types.Uint8:
		return ival{0, 255}
	case types.Uint16:
		return ival{0, 65535}
	case types.Uint32:
		return ival{0, 1<<32 - 1}
	case types.Uint64, types.Uint, types.Uintptr:
		return ival{0, inf}
	case types.Int8:
		return ival{-128, 127}
	case types.Int16:
		return ival{-32768, 32767}
	case types.Int32:
		return ival{-(1 << 31), 1<<31 - 1}
	case types.Int, types.Int64, types.UntypedInt:
		return ival{-inf, inf}
	case types.Bool:
		return ival{0, 1}
	}
	return ival{-inf, inf}
}

func (a ival) within(b ival) bool { return a.lo >= b.lo && a.hi <= b.hi }

func hull(a, b ival) ival {
	if b.lo < a.lo {
		a.lo = b.lo
	}
	if b.hi > a.hi {
		a.hi = b.hi
	}
	return a
}

// ---- contracts ---------------------------------------------------------------------------------

// lenContract: on a nil error result #Err, len(result #Res) relates to an argument.
type lenContract struct {
	Res, Err int
	ArgEq    int   // result length == int argument #ArgEq (callee-parameter index, receiver = 0); -1 if none
	MinLen   int64 // result length ≥ MinLen (≥ min(argument, MinLen) when MinArg is set)
	MinArg   int   // 1 + callee-parameter index of the int argument that may undercut MinLen; 0 = none
	Trusted  bool
}

// trusted standard-library contracts (the trusted base)
var trustedLenContracts = map[string]lenContract{
	"(*bufio.Reader).Peek": {Res: 0, Err: 1, ArgEq: 1, Trusted: true},
}

// trusted count contracts: int result #Res == argument on nil error, and always within [0, max(arg,0)]
var trustedCountEq = map[string][3]int{ // callee -> {Res, Err, Arg}
	"(*bufio.Reader).Discard": {0, 1, 1},
}

// io.ReadFull(r, p): err == nil ⇒ n == len(p)
var trustedCountLenEq = map[string][3]int{"io.ReadFull": {0, 1, 1}}

// required minimum lengths of slice arguments of trusted callees: callee -> arg index -> min
var trustedReqLen = map[string]map[int]int64{
	"(encoding/binary.bigEndian).Uint16": {1: 2}, "(encoding/binary.bigEndian).Uint32": {1: 4}, "(encoding/binary.bigEndian).Uint64": {1: 8},
	"(encoding/binary.littleEndian).Uint16": {1: 2}, "(encoding/binary.littleEndian).Uint32": {1: 4}, "(encoding/binary.littleEndian).Uint64": {1: 8},
	"(encoding/binary.bigEndian).PutUint16": {1: 2}, "(encoding/binary.bigEndian).PutUint32": {1: 4}, "(encoding/binary.bigEndian).PutUint64": {1: 8},
	"(encoding/binary.littleEndian).PutUint16": {1: 2}, "(encoding/binary.littleEndian).PutUint32": {1: 4}, "(encoding/binary.littleEndian).PutUint64": {1: 8},
}

// ---- engine --------------------------------------------------------------------------------------

type E3 struct {
	p           *Prog
	rngMemo     map[ssa.Value]ival
	inprog      map[ssa.Value]bool
	inprogAt    map[ssa.Value]int // depth at which a value in progress was entered
	rngDepth    int
	minHit      int // smallest depth of an in-progress value that the current computation ran into
	unmemo      int
	retMemo     map[retKey]ival
	retGe       map[*ssa.Function][]int // result ≥ argument k summaries (retGeParams)
	paramProg   map[*ssa.Parameter]bool
	retProg     map[retKey]bool
	contract    map[*ssa.Function]*lenContract // verified repo contracts (nil entry = none)
	conProg     map[*ssa.Function]bool
	req         map[*ssa.Function]map[int]int64 // inferred required minimum length per slice parameter
	reqDone     map[*ssa.Function]bool
	immLen      map[*ssa.Global]int64 // immutable package-level slices/strings: literal length
	immRange    map[*ssa.Global]ival  // immutable integer tables: element range
	tables      *Tables
	bnd         map[*ssa.Function]*fnBnd
	bndProg     map[*ssa.Function]bool
	loadMemo    map[*ssa.UnOp]ssa.Value
	monoProg    map[*ssa.Phi]bool
	vn          map[string]ssa.Value
	vnBusy      map[*ssa.BinOp]bool
	pureMemo    map[*ssa.Function]int
	pureCalls   map[*ssa.Function]map[string]ssa.Value
	loadMemoAny map[*ssa.UnOp]ssa.Value
	finv        map[fieldKey]*fieldInv
	fnUse       map[*ssa.Function]*fnUseT
}

type retKey struct {
	f   *ssa.Function
	idx int
}

func (p *Prog) E3() *E3 {
	if p.e3 != nil {
		return p.e3
	}
	e := &E3{p: p, rngMemo: map[ssa.Value]ival{}, inprog: map[ssa.Value]bool{}, retMemo: map[retKey]ival{}, retProg: map[retKey]bool{},
		contract: map[*ssa.Function]*lenContract{}, conProg: map[*ssa.Function]bool{}, req: map[*ssa.Function]map[int]int64{}, reqDone: map[*ssa.Function]bool{}}
	e.tables = p.Tables()
	p.e3 = e
	return e
}

// loadRep returns the representative of a load: an earlier load of the same address that dominates it
// with no possibly-interfering store or call in between.
func (e *E3) loadRep(ld *ssa.UnOp) ssa.Value {
	if e.loadMemo == nil {
		e.loadMemo = map[*ssa.UnOp]ssa.Value{}
	}
	if r, ok := e.loadMemo[ld]; ok {
		return r
	}
	e.loadMemo[ld] = ld
	if !isIntType(ld.Type()) && !sliceLike(ld.Type()) {
		return ld
	}
	f := ld.Parent()
	if f == nil {
		return ld
	}
	var best *ssa.UnOp
	for _, b := range f.Blocks {
		for _, in := range b.Instrs {
			o, ok := in.(*ssa.UnOp)
			if !ok || o == ld || o.Op != token.MUL || !sameAddrStrict(o.X, ld.X) {
				continue
			}
			if !instrDominates(o, ld) {
				continue
			}
			if e.clobberedBetween(o, ld) {
				continue
			}
			if best == nil || instrDominates(o, best) {
				best = o
			}
		}
	}
	if best != nil {
		r := e.loadRep(best)
		e.loadMemo[ld] = r
		return r
	}
	return ld
}

// sameAddrStrict: syntactically the same address expression: chains of FieldAddr / constant IndexAddr over
// the same root value (parameter, alloc, or a representative-equal load).
func sameAddrStrict(a, b ssa.Value) bool {
	if a == b {
		return true
	}
	switch x := a.(type) {
	case *ssa.FieldAddr:
		y, ok := b.(*ssa.FieldAddr)
		return ok && x.Field == y.Field && sameAddrStrict(x.X, y.X)
	case *ssa.IndexAddr:
		y, ok := b.(*ssa.IndexAddr)
		if !ok {
			return false
		}
		kx, ok1 := constInt(x.Index)
		ky, ok2 := constInt(y.Index)
		if ok1 && ok2 && kx == ky {
			return sameAddrStrict(x.X, y.X)
		}
		return x.Index == y.Index && sameAddrStrict(x.X, y.X)
	case *ssa.UnOp:
		// pointer loaded from the same cell (ir.buffer → *buffer)
		y, ok := b.(*ssa.UnOp)
		if ok && x.Op == token.MUL && y.Op == token.MUL {
			if _, isPtr := x.Type().Underlying().(*types.Pointer); isPtr {
				return sameAddrStrict(x.X, y.X)
			}
		}
	}
	return false
}

func instrIndex(in ssa.Instruction) int {
	for i, x := range in.Block().Instrs {
		if x == in {
			return i
		}
	}
	return -1
}

func instrDominates(a, b ssa.Instruction) bool {
	if a.Block() == b.Block() {
		return instrIndex(a) < instrIndex(b)
	}
	return a.Block().Dominates(b.Block())
}

// clobberedBetween: some instruction that may execute between a and b (a dominates b) may change the
// loaded location: a store to the same field (any base), or a call other than a builtin / a call that
// cannot reach the object (no pointer-like argument and not a method on it).
// immutableFreeVar: the captured variable is assigned exactly once, before the closure is created, and no closure
// that captures it stores to it: every load of it inside the closure yields that one value.
func (e *E3) immutableFreeVar(fv *ssa.FreeVar) bool {
	g := fv.Parent()
	if g == nil || g.Parent() == nil {
		return false
	}
	idx := -1
	for j, q := range g.FreeVars {
		if q == fv {
			idx = j
		}
	}
	if idx < 0 {
		return false
	}
	parent := g.Parent()
	okAll := true
	found := false
	eachInstr(parent, func(_ *ssa.BasicBlock, _ int, in ssa.Instruction) {
		mc, ok := in.(*ssa.MakeClosure)
		if !ok || mc.Fn != ssa.Value(g) || idx >= len(mc.Bindings) {
			return
		}
		found = true
		cell, ok := mc.Bindings[idx].(*ssa.Alloc)
		if !ok {
			okAll = false
			return
		}
		nStores := 0
		for _, rf := range refs(cell) {
			switch x := rf.(type) {
			case *ssa.Store:
				if x.Addr != ssa.Value(cell) {
					okAll = false // the cell's address is stored somewhere
					continue
				}
				nStores++
				if !instrDominates(x, mc) {
					okAll = false
				}
			case *ssa.UnOp, *ssa.DebugRef:
			case *ssa.MakeClosure:
				// another (or the same) closure capturing the cell: it must not store to its free variable
				if h, ok := x.Fn.(*ssa.Function); ok {
					for j, bnd := range x.Bindings {
						if bnd == ssa.Value(cell) && j < len(h.FreeVars) {
							for _, r2 := range refs(h.FreeVars[j]) {
								if st, ok := r2.(*ssa.Store); ok && st.Addr == ssa.Value(h.FreeVars[j]) {
									okAll = false
								} else if _, isLoad := r2.(*ssa.UnOp); !isLoad {
									if _, isDbg := r2.(*ssa.DebugRef); !isDbg {
										okAll = false // passed on: could be written elsewhere
									}
								}
							}
						}
					}
				}
			default:
				okAll = false
			}
		}
		if nStores != 1 {
			okAll = false
		}
	})
	return found && okAll
}

// freeVarValue returns the one value an immutable captured variable holds (nil when unknown).
func (e *E3) freeVarValue(fv *ssa.FreeVar) ssa.Value {
	if !e.immutableFreeVar(fv) {
		return nil
	}
	g := fv.Parent()
	idx := -1
	for j, q := range g.FreeVars {
		if q == fv {
			idx = j
		}
	}
	var val ssa.Value
	n := 0
	eachInstr(g.Parent(), func(_ *ssa.BasicBlock, _ int, in ssa.Instruction) {
		mc, ok := in.(*ssa.MakeClosure)
		if !ok || mc.Fn != ssa.Value(g) || idx >= len(mc.Bindings) {
			return
		}
		cell, ok := mc.Bindings[idx].(*ssa.Alloc)
		if !ok {
			n = 2
			return
		}
		for _, rf := range refs(cell) {
			if st, ok := rf.(*ssa.Store); ok && st.Addr == ssa.Value(cell) {
				val = st.Val
				n++
			}
		}
	})
	if n != 1 {
		return nil
	}
	return val
}

// paramRng: the range of an integer parameter of an unexported plain function that is only ever called
// directly (never used as a value): the join of the argument ranges over all its call sites in the program.
func (e *E3) paramRng(pr *ssa.Parameter, tr ival) ival {
	f := pr.Parent()
	if f == nil || !isRepoFn(f) || f.Signature.Recv() != nil || f.Parent() != nil || token.IsExported(f.Name()) || f.Name() == "init" || f.Name() == "main" {
		return tr
	}
	idx := -1
	for i, q := range f.Params {
		if q == pr {
			idx = i
		}
	}
	if idx < 0 {
		return tr
	}
	if e.fnUse == nil {
		e.fnUse = map[*ssa.Function]*fnUseT{}
		for g := range e.p.AllFns() {
			for _, b := range g.Blocks {
				for _, in := range b.Instrs {
					var callee ssa.Value
					if ci, ok := in.(ssa.CallInstruction); ok {
						cc := ci.Common()
						if !cc.IsInvoke() {
							callee = cc.Value
							if sc := cc.StaticCallee(); sc != nil {
								u := e.fnUse[sc]
								if u == nil {
									u = &fnUseT{}
									e.fnUse[sc] = u
								}
								u.calls = append(u.calls, cc)
								u.blocks = append(u.blocks, b)
							}
						}
					}
					for _, op := range in.Operands(nil) {
						if op == nil || *op == nil {
							continue
						}
						if fn, ok := (*op).(*ssa.Function); ok && *op != callee {
							u := e.fnUse[fn]
							if u == nil {
								u = &fnUseT{}
								e.fnUse[fn] = u
							}
							u.escapes = true
						}
					}
				}
			}
		}
	}
	u := e.fnUse[f]
	if u == nil || u.escapes || len(u.calls) == 0 {
		return tr
	}
	out := ival{inf, -inf}
	for ci, cc := range u.calls {
		if idx >= len(cc.Args) {
			return tr
		}
		a := e.rng(cc.Args[idx])
		// the interval of the argument is flow-insensitive; a guard in front of the call (`d >= 0 && … f(x, d)`)
		// is seen by the path-sensitive prover
		if a.lo < 0 && !e.paramProg[pr] {
			if e.paramProg == nil {
				e.paramProg = map[*ssa.Parameter]bool{}
			}
			e.paramProg[pr] = true
			if e.ProveLE(u.blocks[ci], zeroT, e.termOf(cc.Args[idx]), 0) {
				a.lo = 0
			}
			delete(e.paramProg, pr)
		}
		if a.lo < out.lo {
			out.lo = a.lo
		}
		if a.hi > out.hi {
			out.hi = a.hi
		}
	}
	if out.lo > out.hi {
		return tr
	}
	return out
}

type fnUseT struct {
	calls   []*ssa.CallCommon
	blocks  []*ssa.BasicBlock // the block of each call
	escapes bool
}

func (e *E3) clobberedBetween(a, b *ssa.UnOp) bool {
	if fv, ok := a.X.(*ssa.FreeVar); ok && b.X == ssa.Value(fv) && e.immutableFreeVar(fv) {
		return false
	}
	f := a.Parent()
	// region: instructions after a in a's block, before b in b's block, and all blocks on paths a→b
	fromA := blocksReachableFrom(a.Block())
	region := map[*ssa.BasicBlock]bool{}
	if a.Block() != b.Block() {
		// blocks that can reach b's block
		canReach := map[*ssa.BasicBlock]bool{b.Block(): true}
		for ch := true; ch; {
			ch = false
			for _, bb := range f.Blocks {
				if canReach[bb] {
					continue
				}
				for _, s := range bb.Succs {
					if canReach[s] {
						canReach[bb] = true
						ch = true
					}
				}
			}
		}
		for bb := range fromA {
			if canReach[bb] && bb != b.Block() {
				region[bb] = true
			}
		}
		if fromA[a.Block()] && canReach[a.Block()] {
			region[a.Block()] = true // a's block is in a cycle
		}
		if fromA[b.Block()] && b.Block().Dominates(b.Block()) {
			// b's block in a cycle reachable from itself: whole block counts
			for _, s := range b.Block().Succs {
				if canReach[s] && fromA[s] {
					region[b.Block()] = true
				}
			}
		}
	} else if fromA[a.Block()] {
		// same block inside a loop: loop-carried paths do not matter for "a dominates b within one pass"
	}
	private := nonEscapingRoot(a.X)
	check := func(in ssa.Instruction) bool {
		switch x := in.(type) {
		case *ssa.Store:
			return mayAliasAddr(x.Addr, a.X)
		case ssa.CallInstruction:
			if private {
				return false // the variable's address never leaves the function: only direct stores can change it
			}
		}
		switch x := in.(type) {
		case *ssa.MapUpdate:
			return false
		case ssa.CallInstruction:
			c := x.Common()
			if _, ok := c.Value.(*ssa.Builtin); ok {
				return false
			}
			// calls that receive no pointer-like argument cannot write the object (unless via globals; loads of
			// package-level state are never treated as equal anyway)
			for _, arg := range callArgs(c) {
				if pointerLike(arg.Type()) {
					return true
				}
			}
			if _, ok := c.Value.(*ssa.MakeClosure); ok {
				return true
			}
			return false
		}
		return false
	}
	ia, ib := instrIndex(a), instrIndex(b)
	if a.Block() == b.Block() {
		for _, in := range a.Block().Instrs[ia+1 : ib] {
			if check(in) {
				return true
			}
		}
		return false
	}
	for _, in := range a.Block().Instrs[ia+1:] {
		if check(in) {
			return true
		}
	}
	for _, in := range b.Block().Instrs[:ib] {
		if check(in) {
			return true
		}
	}
	for bb := range region {
		if bb == a.Block() || bb == b.Block() {
			for _, in := range bb.Instrs {
				if check(in) {
					return true
				}
			}
			continue
		}
		for _, in := range bb.Instrs {
			if check(in) {
				return true
			}
		}
	}
	return false
}

// nonEscapingRoot: the address is a field/element chain over a local variable whose address is used only
// for field/element addressing, loads and stores (so no callee can reach it).
func nonEscapingRoot(addr ssa.Value) bool {
	v := addr
	for {
		switch x := v.(type) {
		case *ssa.FieldAddr:
			v = x.X
			continue
		case *ssa.IndexAddr:
			if _, isArr := derefType(x.X.Type()).Underlying().(*types.Array); isArr {
				v = x.X
				continue
			}
			return false
		}
		break
	}
	a, ok := v.(*ssa.Alloc)
	if !ok {
		return false
	}
	var okUse func(v ssa.Value, d int) bool
	okUse = func(v ssa.Value, d int) bool {
		if d > 6 {
			return false
		}
		for _, rf := range refs(v) {
			switch y := rf.(type) {
			case *ssa.FieldAddr:
				if !okUse(y, d+1) {
					return false
				}
			case *ssa.IndexAddr:
				if !okUse(y, d+1) {
					return false
				}
			case *ssa.UnOp, *ssa.DebugRef:
			case *ssa.Store:
				if y.Val == v {
					return false // address stored somewhere
				}
			default:
				return false
			}
		}
		return true
	}
	return okUse(a, 0)
}

// mayAliasAddr: a store to address s may change the location l (same final field / any index of the same array type).
func mayAliasAddr(s, l ssa.Value) bool {
	if globalOf(l) != nil {
		return true
	}
	switch x := l.(type) {
	case *ssa.FieldAddr:
		if y, ok := s.(*ssa.FieldAddr); ok {
			if x.Field != y.Field {
				return false
			}
			return types.Identical(derefType(x.X.Type()), derefType(y.X.Type()))
		}
		if _, ok := s.(*ssa.IndexAddr); ok {
			return false // element stores do not change struct fields of a different object type
		}
		if a, ok := s.(*ssa.Alloc); ok {
			// whole-variable store: aliases if l is a field of that alloc
			return x.X == ssa.Value(a)
		}
		return true
	case *ssa.IndexAddr:
		if y, ok := s.(*ssa.IndexAddr); ok {
			return types.Identical(y.X.Type(), x.X.Type())
		}
		if _, ok := s.(*ssa.FieldAddr); ok {
			return false
		}
		if a, ok := s.(*ssa.Alloc); ok {
			return x.X == ssa.Value(a)
		}
		return true
	case *ssa.Alloc:
		return s == l
	}
	return true
}

// vnKey identifies a value for value numbering of pure integer arithmetic.
func (e *E3) vnKey(v ssa.Value) string {
	if c, ok := v.(*ssa.Const); ok && c.Value != nil {
		return "c:" + c.Value.ExactString()
	}
	return fmt.Sprintf("%p", v)
}

// canon strips value-preserving wrappers.
func (e *E3) canon(v ssa.Value) ssa.Value {
	v = e.canon0(v)
	if bo, ok := v.(*ssa.BinOp); ok && isIntType(bo.Type()) {
		switch bo.Op {
		case token.ADD, token.SUB, token.MUL, token.QUO, token.REM, token.AND, token.OR, token.XOR, token.SHL, token.SHR:
			if e.vn == nil {
				e.vn = map[string]ssa.Value{}
			}
			if e.vnBusy[bo] {
				return v
			}
			if e.vnBusy == nil {
				e.vnBusy = map[*ssa.BinOp]bool{}
			}
			e.vnBusy[bo] = true
			kx, ky := e.vnKey(e.canon(bo.X)), e.vnKey(e.canon(bo.Y))
			delete(e.vnBusy, bo)
			if (bo.Op == token.ADD || bo.Op == token.MUL || bo.Op == token.AND || bo.Op == token.OR || bo.Op == token.XOR) && ky < kx {
				kx, ky = ky, kx
			}
			key := fmt.Sprintf("%p|%s|%s|%s|%s", bo.Parent(), bo.Op, bo.Type(), kx, ky)
			if r, ok := e.vn[key]; ok {
				return r
			}
			e.vn[key] = v
		}
	}
	return v
}

func (e *E3) canon0(v ssa.Value) ssa.Value {
	for i := 0; i < 8; i++ {
		switch x := v.(type) {
		case *ssa.UnOp:
			if x.Op == token.MUL && globalOf(x.X) == nil {
				if r := e.loadRep(x); r != ssa.Value(x) {
					v = r
					continue
				}
			}
		case *ssa.ChangeType:
			v = x.X
			continue
		case *ssa.Convert:
			if isIntType(x.Type()) && isIntType(x.X.Type()) {
				if e.rng(x.X).within(typeRange(x.Type())) {
					v = x.X
					continue
				}
			}
		}
		break
	}
	return v
}

// rng computes a sound interval for an integer (or bool) SSA value, independent of program point.
func (e *E3) rng(v ssa.Value) ival {
	if r, ok := e.rngMemo[v]; ok {
		return r
	}
	tr := typeRange(v.Type())
	if e.inprog[v] {
		// a cycle: the type range stands in for the value. Whatever is computed from it before the cycle's
		// root (the value in progress at depth inprogAt[v]) is finished depends on that stand-in and is
		// not final: it is returned but not memoised (below), so that the order in which values are first
		// asked for does not decide how precise their memoised range is.
		if d := e.inprogAt[v]; d < e.minHit {
			e.minHit = d
		}
		return tr
	}
	if e.inprogAt == nil {
		e.inprogAt = map[ssa.Value]int{}
		e.minHit = 1 << 30
	}
	depth := e.rngDepth
	e.rngDepth++
	e.inprog[v] = true
	e.inprogAt[v] = depth
	savedMin := e.minHit
	e.minHit = 1 << 30
	r := e.rng1(v, tr)
	delete(e.inprog, v)
	delete(e.inprogAt, v)
	e.rngDepth--
	myMin := e.minHit
	if savedMin < myMin {
		e.minHit = savedMin
	}
	// clamp to the type range (wrap-around ⇒ whole range)
	if !r.within(tr) {
		if r.lo < tr.lo || r.hi > tr.hi {
			r = tr
		}
	}
	if myMin < depth && e.unmemo < 2000000 {
		// depends on the stand-in of an ancestor still in progress (bounded: beyond the budget the old
		// behaviour - memoise the sound but possibly wider range - keeps the run time linear)
		e.unmemo++
		return r
	}
	if myMin >= depth {
		e.minHit = savedMin
	}
	e.rngMemo[v] = r
	return r
}

func (e *E3) rng1(v ssa.Value, tr ival) ival {
	switch x := v.(type) {
	case *ssa.Const:
		if x.Value == nil {
			return tr
		}
		switch x.Value.Kind() {
		case constant.Int:
			if k, ok := constant.Int64Val(x.Value); ok {
				return ival{sat(k), sat(k)}
			}
			return ival{inf, inf}.clampTo(tr)
		case constant.Bool:
			if constant.BoolVal(x.Value) {
				return ival{1, 1}
			}
			return ival{0, 0}
		}
		return tr
	case *ssa.Convert:
		if !isIntType(x.X.Type()) {
			return tr
		}
		r := e.rng(x.X)
		if r.within(tr) {
			return r
		}
		return tr
	case *ssa.ChangeType:
		return e.rng(x.X)
	case *ssa.BinOp:
		if !isIntType(x.Type()) {
			return tr
		}
		a, b := e.rng(x.X), e.rng(x.Y)
		var r ival
		switch x.Op {
		case token.ADD:
			r = ival{addSat(a.lo, b.lo), addSat(a.hi, b.hi)}
		case token.SUB:
			r = ival{addSat(a.lo, -b.hi), addSat(a.hi, -b.lo)}
		case token.MUL:
			c := []int64{mulSat(a.lo, b.lo), mulSat(a.lo, b.hi), mulSat(a.hi, b.lo), mulSat(a.hi, b.hi)}
			r = ival{c[0], c[0]}
			for _, k := range c[1:] {
				r = hull(r, ival{k, k})
			}
		case token.QUO:
			if b.lo >= 1 && a.lo >= 0 {
				r = ival{a.lo / b.hi, a.hi / b.lo}
				if a.hi >= inf {
					r.hi = inf
				}
				if b.hi >= inf {
					r.lo = 0
				}
			} else {
				return tr
			}
		case token.REM:
			if b.lo >= 1 && b.hi < inf {
				if a.lo >= 0 {
					r = ival{0, b.hi - 1}
					if a.hi < r.hi {
						r.hi = a.hi
					}
				} else {
					r = ival{-(b.hi - 1), b.hi - 1}
				}
			} else {
				return tr
			}
		case token.AND:
			if b.lo >= 0 && b.hi < inf {
				r = ival{0, b.hi}
				if a.lo >= 0 && a.hi < r.hi {
					r.hi = a.hi
				}
			} else if a.lo >= 0 && a.hi < inf {
				r = ival{0, a.hi}
			} else {
				return tr
			}
		case token.SHR:
			if a.lo >= 0 && b.lo >= 0 && b.lo == b.hi && b.lo < 62 {
				r = ival{a.lo >> uint(b.lo), a.hi >> uint(b.lo)}
				if a.hi >= inf {
					r.hi = inf
				}
			} else if a.lo >= 0 {
				r = ival{0, a.hi}
			} else {
				return tr
			}
		case token.SHL:
			if a.lo >= 0 && b.lo >= 0 && b.hi < 62 {
				r = ival{mulSat(a.lo, 1<<uint(b.lo)), mulSat(a.hi, 1<<uint(b.hi))}
			} else {
				return tr
			}
		case token.OR, token.XOR:
			if a.lo >= 0 && b.lo >= 0 && a.hi < inf && b.hi < inf {
				// below the next power of two of the larger bound
				m := a.hi
				if b.hi > m {
					m = b.hi
				}
				p2 := int64(1)
				for p2 <= m {
					p2 <<= 1
				}
				r = ival{0, p2 - 1}
			} else {
				return tr
			}
		default:
			return tr
		}
		if !r.within(tr) {
			return tr // may wrap
		}
		return r
	case *ssa.UnOp:
		if x.Op == token.SUB && isIntType(x.Type()) {
			a := e.rng(x.X)
			return ival{-a.hi, -a.lo}
		}
		if x.Op == token.MUL {
			// load of an immutable captured variable: the range of the one value it was given
			if fv, ok := x.X.(*ssa.FreeVar); ok && isIntType(x.Type()) {
				if val := e.freeVarValue(fv); val != nil {
					return e.rng(val)
				}
			}
			// load from an immutable integer table element: &tbl[i]
			if ia, ok := x.X.(*ssa.IndexAddr); ok {
				if g := globalOf(ia.X); g != nil {
					if r, ok := e.tables.ElemRange(g); ok {
						return r
					}
				}
			}
			// integer field with a derived object invariant (counter ≤ K)
			if isIntType(x.Type()) {
				if hi, ok := e.fieldLoadUpper(x); ok && hi < tr.hi {
					lo := tr.lo
					if lo < 0 {
						// signed counters: the derivation only admits constants ≥ 0, decrements that do not wrap below the
						// subtrahend and guarded increments, so the field never goes below 0 either
						lo = 0
					}
					return ival{lo, hi}
				}
			}
		}
		return tr
	case *ssa.Index:
		if u, ok := x.X.(*ssa.UnOp); ok && u.Op == token.MUL {
			if g, ok := u.X.(*ssa.Global); ok {
				if r, ok := e.tables.ElemRange(g); ok {
					return r
				}
			}
		}
		return tr
	case *ssa.Call:
		if b, ok := x.Call.Value.(*ssa.Builtin); ok {
			switch b.Name() {
			case "len", "cap":
				if n, ok := e.constLen(x.Call.Args[0]); ok && b.Name() == "len" {
					return ival{n, n}
				}
				return ival{0, inf}
			case "copy":
				return ival{0, inf}
			}
			return tr
		}
		if sc := x.Call.StaticCallee(); sc != nil && sc.Signature.Results().Len() == 1 {
			switch sc.String() {
			case "bytes.IndexByte", "bytes.Index", "strings.Index", "strings.IndexByte":
				return ival{-1, inf}
			case "math/bits.OnesCount64":
				return ival{0, 64}
			}
			if isRepoFn(sc) && sc.Blocks != nil {
				out := e.retRng(sc, 0)
				// result ≥ argument k (retGeParams): the argument's lower bound is the result's
				if x.Call.Signature().Recv() == nil {
					for _, k := range e.retGeParams(sc) {
						if k < len(x.Call.Args) {
							if a := e.rng(x.Call.Args[k]); a.lo > out.lo {
								out.lo = a.lo
							}
						}
					}
				}
				return out
			}
		}
		return tr
	case *ssa.Extract:
		if c, ok := x.Tuple.(*ssa.Call); ok {
			if sc := c.Call.StaticCallee(); sc != nil {
				if tc, ok := trustedCountEq[sc.String()]; ok && tc[0] == x.Index {
					a := e.rng(c.Call.Args[tc[2]])
					hi := a.hi
					if hi < 0 {
						hi = 0
					}
					return ival{0, hi}
				}
				if isRepoFn(sc) && sc.Blocks != nil && isIntType(x.Type()) {
					return e.retRng(sc, x.Index)
				}
			}
			if c.Call.IsInvoke() && (c.Call.Method.Name() == "Read" || c.Call.Method.Name() == "ReadAt") && x.Index == 0 {
				return ival{0, inf} // io.Reader contract: 0 <= n <= len(p)
			}
			if sc := c.Call.StaticCallee(); sc != nil && (sc.String() == "io.ReadFull" || sc.String() == "(*bufio.Reader).Read") && x.Index == 0 {
				return ival{0, inf}
			}
		}
		return tr
	case *ssa.Phi:
		return e.rngPhi(x, tr)
	case *ssa.Parameter:
		if isIntType(x.Type()) {
			return e.paramRng(x, tr)
		}
		return tr
	}
	return tr
}

func (a ival) clampTo(t ival) ival {
	if a.lo < t.lo {
		a.lo = t.lo
	}
	if a.hi > t.hi {
		a.hi = t.hi
	}
	return a
}

func (e *E3) rngPhi(phi *ssa.Phi, tr ival) ival {
	if !isIntType(phi.Type()) {
		return tr
	}
	// split edges into "steps" (phi + d, possibly through inner phis) and "inits"
	var init *ival
	incOK, decOK := true, true
	hasStep := false
	var visit func(v ssa.Value, depth int, seen map[ssa.Value]bool)
	visit = func(v ssa.Value, depth int, seen map[ssa.Value]bool) {
		if seen[v] || depth > 12 {
			if depth > 12 {
				incOK, decOK = false, false
			}
			return
		}
		seen[v] = true
		if v == ssa.Value(phi) {
			hasStep = true
			return
		}
		a := affineWide(v)
		if a != nil && a.coef(phi) == 1 {
			// v = phi + rest
			rest := a.clone()
			delete(rest.Terms, phi)
			rr := e.affRange(rest)
			hasStep = true
			if rr.lo < 0 {
				incOK = false
			}
			if rr.hi > 0 {
				decOK = false
			}
			return
		}
		if ip, ok := v.(*ssa.Phi); ok && ip != phi {
			for _, ed := range ip.Edges {
				visit(ed, depth+1, seen)
			}
			return
		}
		// v = (another phi of the same web) + c: a step by c on top of whatever flows into that phi
		// (the counter of an inner loop: i1 = φ(i0', i1 + 1))
		if a != nil && len(a.Terms) == 1 {
			for k, cf := range a.Terms {
				if p2, ok := k.(*ssa.Phi); ok && cf == 1 && p2 != phi && isIntType(p2.Type()) {
					if a.C < 0 {
						incOK = false
					}
					if a.C > 0 {
						decOK = false
					}
					hasStep = true
					visit(p2, depth+1, seen)
					return
				}
			}
		}
		r := e.rng(v)
		if init == nil {
			init = &r
		} else {
			h := hull(*init, r)
			init = &h
		}
	}
	seen := map[ssa.Value]bool{}
	for _, ed := range phi.Edges {
		visit(ed, 0, seen)
	}
	if init == nil {
		return tr
	}
	if !hasStep {
		return *init
	}
	if incOK && decOK {
		return *init
	}
	if incOK {
		hi := tr.hi
		if b, ok := e.backEdgeBound(phi, true); ok {
			hi = b
			if init.hi > hi {
				hi = init.hi
			}
		}
		return ival{init.lo, hi}
	}
	if decOK {
		lo := tr.lo
		if b, ok := e.backEdgeBound(phi, false); ok {
			lo = b
			if init.lo < lo {
				lo = init.lo
			}
		}
		return ival{lo, init.hi}
	}
	return tr
}

// backEdgeBound: for a monotone loop phi, the bound that the loop guard puts on every value flowing around a
// back edge: each back-edge predecessor must be dominated by a comparison phi + c ⋈ K (K with a known constant
// bound, not depending on the phi) from which the back-edge value phi + d gets an upper (lower) bound.
func (e *E3) backEdgeBound(phi *ssa.Phi, upper bool) (int64, bool) {
	b := phi.Block()
	var best int64
	found := false
	for k, pr := range b.Preds {
		if !b.Dominates(pr) {
			continue
		}
		av := affineWide(phi.Edges[k])
		if av == nil || av.coef(phi) != 1 || len(av.Terms) != 1 {
			return 0, false
		}
		d := av.C // back-edge value = phi + d
		edgeBound, ok := int64(0), false
		for _, cd := range condsAt(pr) {
			bo, isBo := cd.V.(*ssa.BinOp)
			if !isBo || !isIntType(bo.X.Type()) {
				continue
			}
			// cd.At must be inside the loop (dominated by the header) so that the comparison is re-evaluated each iteration
			if !b.Dominates(cd.At) {
				continue
			}
			op := bo.Op
			if !cd.True {
				switch op {
				case token.LSS:
					op = token.GEQ
				case token.LEQ:
					op = token.GTR
				case token.GTR:
					op = token.LEQ
				case token.GEQ:
					op = token.LSS
				default:
					continue
				}
			}
			try := func(x, y ssa.Value, op token.Token) {
				ax := affineWide(x)
				if ax == nil || ax.coef(phi) != 1 || len(ax.Terms) != 1 {
					return
				}
				if ay := affineWide(y); ay != nil && ay.coef(phi) != 0 {
					return
				}
				// y must not depend on the phi through memory either: require a constant or a value defined outside the loop
				if in, isIn := y.(ssa.Instruction); isIn && b.Dominates(in.Block()) {
					if _, isC := y.(*ssa.Const); !isC {
						return
					}
				}
				ry := e.rng(y)
				c := ax.C // x = phi + c
				switch {
				case upper && (op == token.LSS || op == token.LEQ) && ry.hi < inf:
					// phi + c < K ⇒ phi ≤ K − 1 − c ⇒ phi + d ≤ K − 1 − c + d
					kb := ry.hi - c + d
					if op == token.LSS {
						kb--
					}
					if !ok || kb < edgeBound {
						edgeBound, ok = kb, true
					}
				case !upper && (op == token.GTR || op == token.GEQ) && ry.lo > -inf:
					kb := ry.lo - c + d
					if op == token.GTR {
						kb++
					}
					if !ok || kb > edgeBound {
						edgeBound, ok = kb, true
					}
				}
			}
			try(bo.X, bo.Y, op)
			// mirrored
			var mop token.Token
			switch op {
			case token.LSS:
				mop = token.GTR
			case token.LEQ:
				mop = token.GEQ
			case token.GTR:
				mop = token.LSS
			case token.GEQ:
				mop = token.LEQ
			default:
				continue
			}
			try(bo.Y, bo.X, mop)
		}
		if !ok {
			return 0, false
		}
		if !found || (upper && edgeBound > best) || (!upper && edgeBound < best) {
			best, found = edgeBound, true
		}
	}
	return best, found
}

// phiMonotone classifies a loop phi: every back-edge value is phi + d with d ≥ 0 (inc) or d ≤ 0 (dec);
// returns the distinct initial values.
func (e *E3) phiMonotone(phi *ssa.Phi) (inc, dec bool, inits []ssa.Value) {
	inc, dec = true, true
	hasStep := false
	seen := map[ssa.Value]bool{}
	var visit func(v ssa.Value, depth int)
	visit = func(v ssa.Value, depth int) {
		if seen[v] {
			return
		}
		seen[v] = true
		if depth > 12 {
			inc, dec = false, false
			return
		}
		if v == ssa.Value(phi) {
			hasStep = true
			return
		}
		a := affineWide(v)
		if a.coef(phi) == 1 {
			rest := a.clone()
			delete(rest.Terms, phi)
			rr := e.affRange(rest)
			hasStep = true
			if rr.lo < 0 {
				inc = false
			}
			if rr.hi > 0 {
				dec = false
			}
			return
		}
		// narrow-typed phi + const (e.g. uint32 counters): accept x = phi ± k when it cannot wrap per rng
		if bo, ok := v.(*ssa.BinOp); ok && (bo.Op == token.ADD || bo.Op == token.SUB) && e.canon(bo.X) == ssa.Value(phi) {
			if k, ok := constInt(bo.Y); ok {
				hasStep = true
				if (bo.Op == token.ADD) == (k >= 0) {
					dec = false
				} else {
					inc = false
				}
				// wrap-around would break monotonicity: for narrow types the step must be guarded
				if !is64(bo.Type()) {
					tr := typeRange(bo.Type())
					if e.monoProg == nil {
						e.monoProg = map[*ssa.Phi]bool{}
					}
					if e.monoProg[phi] {
						inc, dec = false, false
						return
					}
					e.monoProg[phi] = true
					pt := termT{v: phi}
					okStep := false
					kk := k
					if bo.Op == token.SUB {
						kk = -k
					}
					if kk < 0 {
						// phi + kk ≥ tr.lo  ⇐  tr.lo − phi ≤ kk … i.e. 0 − phi ≤ kk − tr.lo
						okStep = e.proveLE(bo.Block(), zeroT, pt, kk-tr.lo, 2)
					} else {
						okStep = e.proveLE(bo.Block(), pt, zeroT, tr.hi-kk, 2)
					}
					delete(e.monoProg, phi)
					if !okStep {
						inc, dec = false, false
					}
				}
				return
			}
		}
		if ip, ok := v.(*ssa.Phi); ok && ip != phi {
			for _, ed := range ip.Edges {
				visit(ed, depth+1)
			}
			return
		}
		inits = append(inits, v)
	}
	for _, ed := range phi.Edges {
		visit(ed, 0)
	}
	if !hasStep {
		return false, false, inits
	}
	return inc, dec, inits
}

// affineWide is affineOf restricted to arithmetic that cannot wrap silently: only 64-bit integer
// operations are decomposed; anything narrower is a leaf.
func affineWide(v ssa.Value) *Aff {
	return affineW(v, 0)
}

func is64(t types.Type) bool {
	b, ok := t.Underlying().(*types.Basic)
	if !ok {
		return false
	}
	switch b.Kind() {
	case types.Int, types.Int64, types.Uint, types.Uint64, types.Uintptr, types.UntypedInt:
		return true
	}
	return false
}

func affineW(v ssa.Value, depth int) *Aff {
	leaf := func() *Aff {
		a := newAff(0)
		a.Terms[v] = 1
		return a
	}
	if depth > 30 {
		return leaf()
	}
	switch x := v.(type) {
	case *ssa.Const:
		if k, ok := constInt(x); ok {
			return newAff(k)
		}
	case *ssa.ChangeType:
		return affineW(x.X, depth+1)
	case *ssa.Convert:
		// widening conversions preserve the value
		if isIntType(x.X.Type()) && isIntType(x.Type()) && typeRange(x.X.Type()).within(typeRange(x.Type())) {
			return affineW(x.X, depth+1)
		}
	case *ssa.BinOp:
		if !is64(x.Type()) {
			return leaf()
		}
		switch x.Op {
		case token.ADD:
			return affineW(x.X, depth+1).addScaled(affineW(x.Y, depth+1), 1)
		case token.SUB:
			return affineW(x.X, depth+1).addScaled(affineW(x.Y, depth+1), -1)
		case token.MUL:
			a, b := affineW(x.X, depth+1), affineW(x.Y, depth+1)
			if k, ok := a.isConst(); ok {
				return b.scale(k)
			}
			if k, ok := b.isConst(); ok {
				return a.scale(k)
			}
		}
	}
	return leaf()
}

// affRange evaluates an affine form with the intervals of its leaves.
func (e *E3) affRange(a *Aff) ival {
	r := ival{a.C, a.C}
	for k, c := range a.Terms {
		v, ok := k.(ssa.Value)
		if !ok {
			return ival{-inf, inf}
		}
		lr := e.rng(v)
		x, y := mulSat(lr.lo, c), mulSat(lr.hi, c)
		if x > y {
			x, y = y, x
		}
		r = ival{addSat(r.lo, x), addSat(r.hi, y)}
	}
	return r
}

// retRng: range of integer result #idx of a repo function over all its returns.
func (e *E3) retRng(f *ssa.Function, idx int) ival {
	k := retKey{f, idx}
	if r, ok := e.retMemo[k]; ok {
		return r
	}
	tr := typeRange(f.Signature.Results().At(idx).Type())
	if e.retProg[k] {
		return tr
	}
	e.retProg[k] = true
	var r *ival
	eachInstr(f, func(_ *ssa.BasicBlock, _ int, in ssa.Instruction) {
		if ret, ok := in.(*ssa.Return); ok && idx < len(ret.Results) {
			x := e.rng(ret.Results[idx])
			if r == nil {
				r = &x
			} else {
				h := hull(*r, x)
				r = &h
			}
		}
	})
	delete(e.retProg, k)
	out := tr
	if r != nil {
		out = *r
	}
	e.retMemo[k] = out
	return out
}

// constLen: statically known length of a slice/string/array(-pointer) value.
func (e *E3) constLen(v ssa.Value) (int64, bool) {
	t := v.Type().Underlying()
	if p, ok := t.(*types.Pointer); ok {
		t = p.Elem().Underlying()
	}
	if a, ok := t.(*types.Array); ok {
		return a.Len(), true
	}
	if s, ok := constString(v); ok {
		return int64(len(s)), true
	}
	if u, ok := v.(*ssa.UnOp); ok && u.Op == token.MUL {
		if g, ok := u.X.(*ssa.Global); ok {
			if n, ok := e.tables.Len(g); ok {
				return n, true
			}
		}
	}
	return 0, false
}

// ---- difference-constraint queries ----------------------------------------------------------------

type termT struct {
	v   ssa.Value // nil = ZERO
	len bool
}

func (t termT) String() string {
	if t.v == nil {
		return "0"
	}
	if t.len {
		return "len(" + shortVal(t.v) + ")"
	}
	return shortVal(t.v) + "@" + t.v.Name()
}

type edge struct {
	from, to termT
	w        int64 // to − from ≤ w
}

type factGraph struct {
	e        *E3
	edges    []edge
	nodes    map[termT]bool
	at       *ssa.BasicBlock
	conds    []Cond
	depth    map[termT]int
	pending  []*ssa.BinOp // narrow additions/subtractions whose no-wrap condition needs path facts
	arith    []*ssa.BinOp // non-wrapping x ± y whose relation to x is refined with the path facts about y
	pendDone map[*ssa.BinOp]bool
}

// lenTerm canonicalises the base of a length: strips full-slices and string/[]byte conversions.
func (e *E3) lenBase(v ssa.Value) ssa.Value {
	for i := 0; i < 8; i++ {
		switch x := v.(type) {
		case *ssa.UnOp:
			if x.Op == token.MUL && globalOf(x.X) == nil {
				if r := e.loadRep(x); r != ssa.Value(x) {
					v = r
					continue
				}
			}
		case *ssa.ChangeType:
			v = x.X
			continue
		case *ssa.Convert:
			// string(b) / []byte(s) keep the length
			_, s1 := x.X.Type().Underlying().(*types.Slice)
			_, s2 := x.Type().Underlying().(*types.Slice)
			b1, _ := x.X.Type().Underlying().(*types.Basic)
			b2, _ := x.Type().Underlying().(*types.Basic)
			if (s1 && b2 != nil && b2.Info()&types.IsString != 0) || (s2 && b1 != nil && b1.Info()&types.IsString != 0) {
				if sl, ok := x.X.Type().Underlying().(*types.Slice); ok {
					if eb, ok := sl.Elem().Underlying().(*types.Basic); ok && eb.Kind() == types.Uint8 {
						v = x.X
						continue
					}
				}
				if sl, ok := x.Type().Underlying().(*types.Slice); ok {
					if eb, ok := sl.Elem().Underlying().(*types.Basic); ok && eb.Kind() == types.Uint8 {
						v = x.X
						continue
					}
				}
			}
		case *ssa.Slice:
			if x.Low == nil && x.High == nil && x.Max == nil {
				if _, isPtr := x.X.Type().Underlying().(*types.Pointer); !isPtr {
					v = x.X
					continue
				}
			}
		}
		break
	}
	return v
}

// termOf maps an integer SSA value to a term (len(...) calls become LEN terms).
func (e *E3) termOf(v ssa.Value) termT {
	v = e.canon(v)
	if c, ok := v.(*ssa.Call); ok {
		if b, ok := c.Call.Value.(*ssa.Builtin); ok && b.Name() == "len" {
			return termT{v: e.lenBase(c.Call.Args[0]), len: true}
		}
	}
	return termT{v: v}
}

func (g *factGraph) add(from, to termT, w int64) {
	if w >= inf {
		return
	}
	g.edges = append(g.edges, edge{from, to, w})
}

// eq adds to − from = k.
func (g *factGraph) eq(from, to termT, k int64) {
	g.add(from, to, k)
	g.add(to, from, -k)
}

var zeroT = termT{}

func (g *factGraph) touch(t termT, d int) {
	if t.v == nil || g.nodes[t] {
		return
	}
	g.nodes[t] = true
	if d > 7 {
		return
	}
	e := g.e
	if t.len {
		g.add(t, zeroT, 0) // len ≥ 0  (0 − len ≤ 0)
		g.lenFacts(t, d)
		return
	}
	v := t.v
	if isIntType(v.Type()) || isBoolType(v.Type()) {
		r := e.rng(v)
		if r.hi < inf {
			g.add(zeroT, t, r.hi)
		}
		if r.lo > -inf {
			g.add(t, zeroT, -r.lo)
		}
	}
	switch x := v.(type) {
	case *ssa.BinOp:
		if !isIntType(x.Type()) {
			return
		}
		// only when the operation provably does not wrap: result range within the type range was
		// established by rng (which falls back to the type range on possible wrap); re-derive here.
		xa, ya := e.termOf(x.X), e.termOf(x.Y)
		rx, ry := e.rng(x.X), e.rng(x.Y)
		tr := typeRange(x.Type())
		switch x.Op {
		case token.ADD, token.SUB:
			g.touch(xa, d+1)
			g.touch(ya, d+1)
		}
		switch x.Op {
		case token.ADD:
			nowrap := (ival{addSat(rx.lo, ry.lo), addSat(rx.hi, ry.hi)}).within(tr) || is64(x.Type())
			if !nowrap {
				g.pending = append(g.pending, x)
			}
			if nowrap {
				g.arith = append(g.arith, x)
				// t − xa ∈ [ry.lo, ry.hi], t − ya ∈ [rx.lo, rx.hi]
				g.add(xa, t, ry.hi)
				g.add(t, xa, -ry.lo)
				g.add(ya, t, rx.hi)
				g.add(t, ya, -rx.lo)
				g.touch(xa, d+1)
				g.touch(ya, d+1)
			}
		case token.SUB:
			nowrapS := (ival{addSat(rx.lo, -ry.hi), addSat(rx.hi, -ry.lo)}).within(tr) || is64(x.Type())
			if !nowrapS {
				g.pending = append(g.pending, x)
			}
			if nowrapS {
				g.arith = append(g.arith, x)
				// t = x − y: t − xa ∈ [−ry.hi, −ry.lo]
				g.add(xa, t, -ry.lo)
				g.add(t, xa, ry.hi)
				g.touch(xa, d+1)
				// x − y ≤ c relations: if y is a term and t's bounds known, t + y = x: (xa − ya) = t ∈ rng(t)
				g.touch(ya, d+1)
				rt := e.rng(v)
				g.add(ya, xa, rt.hi)  // xa − ya ≤ hi(t)
				g.add(xa, ya, -rt.lo) // ya − xa ≤ −lo(t)
			}
		case token.QUO, token.SHR, token.REM, token.AND:
			// for non-negative x: result ≤ x
			if rx.lo >= 0 && (x.Op != token.QUO || ry.lo >= 1) && (x.Op != token.REM || ry.lo >= 1) {
				g.add(xa, t, 0)
				g.touch(xa, d+1)
			}
			if x.Op == token.REM && ry.lo >= 1 {
				// t ≤ y − 1
				g.add(ya, t, -1)
				g.touch(ya, d+1)
			}
		}
	case *ssa.Phi:
		if isIntType(x.Type()) {
			g.counterFacts(x, t, d)
			g.joinFacts(x, t, d)
		}
		// monotone loop counter: phi ≥ init (increasing) / phi ≤ init (decreasing)
		if isIntType(x.Type()) {
			inc, dec, inits := e.phiMonotone(x)
			if len(inits) == 1 && (inc || dec) {
				it := e.termOf(inits[0])
				g.touch(it, d+1)
				if inc {
					g.add(t, it, 0) // init − phi ≤ 0
				}
				if dec {
					g.add(it, t, 0) // phi − init ≤ 0
				}
			}
		}
	case *ssa.Extract:
		g.countFacts(t, x, d)
	case *ssa.Call:
		// searches of the standard library: −1 ≤ r, and r ≤ len(s) − 1 for a byte search (r ≤ len(s) for a
		// substring search, whose needle may be empty)
		// helpers of the repository that return one of their integer parameters, possibly advanced (a skip
		// loop `for i < len(b) && p(b[i]) { i++ }; return i`): result ≥ that argument
		if sc := x.Call.StaticCallee(); sc != nil && isRepoFn(sc) && sc.Blocks != nil && isIntType(x.Type()) && x.Call.Signature().Recv() == nil {
			for _, k := range e.retGeParams(sc) {
				if k < len(x.Call.Args) {
					at := e.termOf(x.Call.Args[k])
					g.touch(at, d+1)
					g.add(t, at, 0) // arg − ret ≤ 0
				}
			}
		}
		if sc := x.Call.StaticCallee(); sc != nil && sc.Pkg != nil && (sc.Pkg.Pkg.Path() == "strings" || sc.Pkg.Pkg.Path() == "bytes") && len(x.Call.Args) >= 1 && isIntType(x.Type()) {
			slack := int64(-2)
			switch sc.Name() {
			case "IndexByte", "LastIndexByte", "IndexRune", "IndexAny", "LastIndexAny", "IndexFunc", "LastIndexFunc":
				slack = -1
			case "Index", "LastIndex":
				slack = 0
			}
			if slack > -2 {
				lt := termT{v: e.lenBase(x.Call.Args[0]), len: true}
				g.touch(lt, d+1)
				g.add(lt, t, slack) // r − len ≤ slack
				g.add(t, zeroT, 1)  // −r ≤ 1
			}
		}
	}
}

func isBoolType(t types.Type) bool {
	b, ok := t.Underlying().(*types.Basic)
	return ok && b.Kind() == types.Bool
}

// nilErrAt reports whether errV is known to be nil at the graph's program point.
func (g *factGraph) nilErr(errV ssa.Value) bool {
	if errV == nil {
		return false
	}
	for _, cd := range g.conds {
		bo, ok := cd.V.(*ssa.BinOp)
		if !ok || (bo.Op != token.EQL && bo.Op != token.NEQ) {
			continue
		}
		var other ssa.Value
		if sameErr(bo.X, errV) {
			other = bo.Y
		} else if sameErr(bo.Y, errV) {
			other = bo.X
		} else {
			continue
		}
		if isNilConst(other) && (bo.Op == token.EQL) == cd.True {
			return true
		}
	}
	return false
}

// sameErr: a is errV itself, or a load of a struct field into which errV was stored immediately
// before in the same block with no intervening store or call (the `jr.err = f(); jr.err != nil` idiom).
func sameErr(a, errV ssa.Value) bool {
	if a == errV {
		return true
	}
	ld, ok := a.(*ssa.UnOp)
	if !ok || ld.Op != token.MUL {
		return false
	}
	b := ld.Block()
	idx := -1
	for i, in := range b.Instrs {
		if in == ssa.Instruction(ld) {
			idx = i
		}
	}
	for i := idx - 1; i >= 0; i-- {
		switch x := b.Instrs[i].(type) {
		case *ssa.Store:
			if sameAddr(x.Addr, ld.X) {
				return x.Val == errV
			}
			return false
		case ssa.CallInstruction:
			return false
		}
	}
	return false
}

// countFacts: integer results of calls with trusted count contracts.
func (g *factGraph) countFacts(t termT, x *ssa.Extract, d int) {
	c, ok := x.Tuple.(*ssa.Call)
	if !ok {
		return
	}
	if c.Call.IsInvoke() && (c.Call.Method.Name() == "Read" || c.Call.Method.Name() == "ReadAt") && x.Index == 0 && len(c.Call.Args) > 0 {
		arg := termT{v: g.e.lenBase(c.Call.Args[0]), len: true}
		g.touch(arg, d+1)
		g.add(arg, t, 0) // n ≤ len(p) (io.Reader contract)
	}
	sc := c.Call.StaticCallee()
	if sc == nil {
		return
	}
	// a library function's integer result on its non-failing returns: (v, n, nil) with n ≥ 1 vs (_, -1, err)
	if isRepoFn(sc) && sc.Blocks != nil && isIntType(x.Type()) {
		errIdx := -1
		res := sc.Signature.Results()
		for i := 0; i < res.Len(); i++ {
			if isErrorType(res.At(i).Type()) {
				errIdx = i
			}
		}
		if errIdx >= 0 && errIdx != x.Index && g.nilErr(tupleExtractV(c, errIdx)) {
			r := g.e.retRngNil(sc, x.Index, errIdx)
			if r.hi < inf {
				g.add(zeroT, t, r.hi)
			}
			if r.lo > -inf {
				g.add(t, zeroT, -r.lo)
			}
		}
	}
	if tc, ok := trustedCountEq[sc.String()]; ok && tc[0] == x.Index {
		arg := g.e.termOf(c.Call.Args[tc[2]])
		g.touch(arg, d+1)
		if g.nilErr(tupleExtractV(c, tc[1])) {
			g.eq(arg, t, 0)
		}
	}
	if tc, ok := trustedCountLenEq[sc.String()]; ok && tc[0] == x.Index {
		arg := termT{v: g.e.lenBase(c.Call.Args[tc[2]]), len: true}
		g.touch(arg, d+1)
		g.add(arg, t, 0) // n ≤ len(p)
		if g.nilErr(tupleExtractV(c, tc[1])) {
			g.eq(arg, t, 0)
		}
	}
}

// retRngNil: range of result #idx of f over the returns whose error result #errIdx may be nil.
func (e *E3) retRngNil(f *ssa.Function, idx, errIdx int) ival {
	tr := typeRange(f.Signature.Results().At(idx).Type())
	var r *ival
	eachInstr(f, func(b *ssa.BasicBlock, _ int, in ssa.Instruction) {
		ret, ok := in.(*ssa.Return)
		if !ok || idx >= len(ret.Results) || errIdx >= len(ret.Results) {
			return
		}
		if e.definitelyNonNil(ret.Results[errIdx], b) {
			return
		}
		x := e.rng(ret.Results[idx])
		if r == nil {
			r = &x
		} else {
			h := hull(*r, x)
			r = &h
		}
	})
	if r == nil {
		return tr
	}
	return *r
}

func tupleExtractV(call ssa.Value, idx int) ssa.Value {
	if ex := tupleExtract(call, idx); ex != nil {
		return ex
	}
	return nil
}

// lenFacts adds what is known about LEN(v) from v's definition.
func (g *factGraph) lenFacts(t termT, d int) {
	e := g.e
	v := t.v
	if n, ok := e.constLen(v); ok {
		g.eq(zeroT, t, n)
		return
	}
	g.accessFacts(t, d)
	switch x := v.(type) {
	case *ssa.Slice:
		base := termT{v: e.lenBase(x.X), len: true}
		var lo, hi termT
		loR := ival{0, 0}
		if x.Low != nil {
			lo = e.termOf(x.Low)
			loR = e.rng(x.Low)
			g.touch(lo, d+1)
		}
		if x.High != nil {
			hi = e.termOf(x.High)
			g.touch(hi, d+1)
			// LEN = hi − lo : LEN − hi ∈ [−loR.hi, −loR.lo]
			g.add(hi, t, -loR.lo)
			g.add(t, hi, loR.hi)
			if x.Low != nil {
				// hi − lo = LEN: (hi − lo) ≤ LEN.hi … express LEN − 0 via ranges of hi and lo when constant
				if k, ok := constIntV(x.Low); ok {
					g.eq(hi, t, -k)
				} else if ah, al := affineWide(x.High), affineWide(x.Low); ah != nil && al != nil && is64(x.High.Type()) && is64(x.Low.Type()) {
					// buf[i+14 : i+16]: the difference of two affine forms over the same 64-bit values is a constant
					if k, isC := ah.clone().addScaled(al, -1).isConst(); isC && k >= 0 {
						g.eq(zeroT, t, k)
					}
				}
			}
		} else {
			g.touch(base, d+1)
			// LEN = LEN(base) − lo
			g.add(base, t, -loR.lo)
			g.add(t, base, loR.hi)
			if x.Low == nil {
				g.eq(base, t, 0)
			} else if k, ok := constIntV(x.Low); ok {
				g.eq(base, t, -k)
			}
		}
		// a successful slice also implies hi ≤ cap(base); not used
	case *ssa.MakeSlice:
		n := e.termOf(x.Len)
		g.touch(n, d+1)
		g.eq(n, t, 0)
	case *ssa.Extract:
		c, ok := x.Tuple.(*ssa.Call)
		if !ok {
			return
		}
		con, args := e.contractOf(c)
		if con == nil || con.Res != x.Index {
			return
		}
		if !g.nilErr(tupleExtractV(c, con.Err)) {
			return
		}
		if con.ArgEq >= 0 && con.ArgEq < len(args) {
			a := e.termOf(args[con.ArgEq])
			g.touch(a, d+1)
			g.eq(a, t, 0)
		}
		if con.MinLen > 0 && con.MinArg == 0 {
			g.add(t, zeroT, -con.MinLen)
		}
		if con.MinLen > 0 && con.MinArg > 0 && con.MinArg-1 < len(args) {
			// len ≥ min(arg, K): usable when the argument is known to be at least K here
			a := e.termOf(args[con.MinArg-1])
			g.touch(a, d+1)
			if lo := e.rng(args[con.MinArg-1]).lo; lo >= con.MinLen {
				g.add(t, zeroT, -con.MinLen)
			}
		}
	case *ssa.Call:
		// single-result functions returning (a slice of) a parameter with a known relation: trim etc. → ≤ arg
		if sc := x.Call.StaticCallee(); sc != nil && isRepoFn(sc) {
			if pi, ok := e.returnsPrefixOfParam(sc); ok && pi < len(x.Call.Args) {
				a := termT{v: e.lenBase(x.Call.Args[pi]), len: true}
				g.touch(a, d+1)
				g.add(a, t, 0) // LEN(res) ≤ LEN(arg)
			}
		}
	case *ssa.Phi:
		// all edges with the same constant length
		var n int64 = -1
		same := true
		for _, ed := range x.Edges {
			k, ok := e.constLen(ed)
			if !ok || (n >= 0 && k != n) {
				same = false
				break
			}
			n = k
		}
		if same && n >= 0 {
			g.eq(zeroT, t, n)
		}
	}
}

// accessFacts: an index or slice expression on the same base in a block that strictly dominates the program
// point was executed without panicking, so its bounds held: idx ≤ LEN − 1, high ≤ LEN. (Sound for SSA slice
// values, whose length never changes; if the earlier access panicked the later point is never reached.)
func (g *factGraph) accessFacts(t termT, d int) {
	if g.at == nil || t.v == nil {
		return
	}
	e := g.e
	for _, rf := range refs(t.v) {
		in, ok := rf.(ssa.Instruction)
		if !ok || in.Block() == g.at || in.Block().Parent() != g.at.Parent() || !in.Block().Dominates(g.at) {
			continue
		}
		switch x := rf.(type) {
		case *ssa.IndexAddr:
			if x.X == t.v {
				it := e.termOf(x.Index)
				g.touch(it, d+1)
				g.add(t, it, -1)
			}
		case *ssa.Index:
			if x.X == t.v {
				it := e.termOf(x.Index)
				g.touch(it, d+1)
				g.add(t, it, -1)
			}
		case *ssa.Lookup:
			if x.X == t.v && isStringType(x.X.Type()) {
				it := e.termOf(x.Index)
				g.touch(it, d+1)
				g.add(t, it, -1)
			}
		case *ssa.Slice:
			if x.X != t.v {
				continue
			}
			if x.High != nil {
				ht := e.termOf(x.High)
				g.touch(ht, d+1)
				g.add(t, ht, 0)
			} else if x.Low != nil {
				lt := e.termOf(x.Low)
				g.touch(lt, d+1)
				g.add(t, lt, 0)
			}
		}
	}
}

// joinFacts: an acyclic phi all of whose edges are base + δ_k for one common value base (i = φ(i1, i1+2),
// φ(i3, i3+n) with n ≥ 0): base + min δ ≤ phi ≤ base + max δ, the δ ranged flow-insensitively.
func (g *factGraph) joinFacts(phi *ssa.Phi, t termT, d int) {
	if phiHasBackEdge(phi) || len(phi.Edges) < 2 || !is64(phi.Type()) {
		return
	}
	var affs []*Aff
	for _, ed := range phi.Edges {
		a := affineWide(ed)
		if a == nil {
			return
		}
		affs = append(affs, a)
	}
	for k := range affs[0].Terms {
		base, ok := k.(ssa.Value)
		if !ok {
			continue
		}
		all := true
		for _, a := range affs {
			if a.coef(base) != 1 {
				all = false
			}
		}
		if !all {
			continue
		}
		lo, hi := inf, -inf
		for _, a := range affs {
			rest := a.clone()
			delete(rest.Terms, base)
			r := g.e.affRange(rest)
			if r.lo < lo {
				lo = r.lo
			}
			if r.hi > hi {
				hi = r.hi
			}
		}
		bt := g.e.termOf(base)
		g.touch(bt, d+1)
		if lo > -inf {
			g.add(t, bt, -lo) // base − phi ≤ −lo
		}
		if hi < inf {
			g.add(bt, t, hi)
		}
		return
	}
}

// counterFacts: j is a counter that grows by at most one per iteration (every back-edge value is j or j+1,
// possibly through joins inside the loop) and i is a phi of the same loop header that grows by exactly one on
// every back edge: then j − i ≤ init(j) − init(i) at the header and, the steps being simultaneous, everywhere in
// the loop body before the increments (values, not program points, are compared: both phis are fixed during one
// iteration).
func (g *factGraph) counterFacts(j *ssa.Phi, t termT, d int) {
	b := j.Block()
	var backIdx []int
	var initJ ssa.Value
	for k, pr := range b.Preds {
		if b.Dominates(pr) {
			backIdx = append(backIdx, k)
		} else if initJ == nil {
			initJ = j.Edges[k]
		} else if initJ != j.Edges[k] {
			return
		}
	}
	cj, ok := constInt(initJ)
	if !ok || len(backIdx) == 0 {
		return
	}
	// every back-edge value of j is j or j+1 through acyclic joins
	var atMostOne func(v ssa.Value, depth int) bool
	atMostOne = func(v ssa.Value, depth int) bool {
		if depth > 6 {
			return false
		}
		if v == ssa.Value(j) {
			return true
		}
		switch x := v.(type) {
		case *ssa.BinOp:
			if x.Op == token.ADD {
				if k, ok := constInt(x.Y); ok && (k == 0 || k == 1) {
					return atMostOne(x.X, depth+1)
				}
			}
		case *ssa.Phi:
			if x.Block() == b {
				return false
			}
			for _, ed := range x.Edges {
				if !atMostOne(ed, depth+1) {
					return false
				}
			}
			return true
		}
		return false
	}
	for _, k := range backIdx {
		if !atMostOne(j.Edges[k], 0) {
			return
		}
	}
	for _, in := range b.Instrs {
		i, ok := in.(*ssa.Phi)
		if !ok {
			break
		}
		if i == j || !isIntType(i.Type()) {
			continue
		}
		var initI ssa.Value
		exact := true
		for k, pr := range b.Preds {
			if b.Dominates(pr) {
				bo, ok := i.Edges[k].(*ssa.BinOp)
				if !ok || bo.Op != token.ADD || bo.X != ssa.Value(i) {
					exact = false
					break
				}
				if c, ok := constInt(bo.Y); !ok || c != 1 {
					exact = false
					break
				}
			} else if initI == nil {
				initI = i.Edges[k]
			} else if initI != i.Edges[k] {
				exact = false
			}
		}
		ci, okc := constInt(initI)
		if !exact || !okc {
			continue
		}
		it := g.e.termOf(i)
		g.touch(it, d+1)
		g.add(it, t, cj-ci) // j − i ≤ cj − ci
	}
}

func constIntV(v ssa.Value) (int64, bool) { return constInt(v) }

// returnsPrefixOfParam: every return of f yields nil or a slice p[a:b] of its parameter p (so len(res) ≤ len(p)).
func (e *E3) returnsPrefixOfParam(f *ssa.Function) (int, bool) {
	if f.Blocks == nil || f.Signature.Results().Len() != 1 {
		return 0, false
	}
	pi := -1
	ok := true
	eachInstr(f, func(_ *ssa.BasicBlock, _ int, in ssa.Instruction) {
		ret, isRet := in.(*ssa.Return)
		if !isRet {
			return
		}
		v := ret.Results[0]
		if isNilConst(v) {
			return
		}
		for i := 0; i < 4; i++ {
			if sl, isSl := v.(*ssa.Slice); isSl {
				v = sl.X
				continue
			}
			break
		}
		prm, isP := v.(*ssa.Parameter)
		if !isP {
			ok = false
			return
		}
		for i, q := range f.Params {
			if q == prm {
				if pi >= 0 && pi != i {
					ok = false
				}
				pi = i
			}
		}
	})
	return pi, ok && pi >= 0
}

// condFacts adds the dominating branch conditions.
func (g *factGraph) condFacts() {
	for _, cd := range g.conds {
		bo, ok := cd.V.(*ssa.BinOp)
		if !ok {
			continue
		}
		if !isIntType(bo.X.Type()) {
			continue
		}
		x, y := g.e.termOf(bo.X), g.e.termOf(bo.Y)
		op := bo.Op
		if !cd.True {
			switch op {
			case token.LSS:
				op = token.GEQ
			case token.LEQ:
				op = token.GTR
			case token.GTR:
				op = token.LEQ
			case token.GEQ:
				op = token.LSS
			case token.EQL:
				op = token.NEQ
			case token.NEQ:
				op = token.EQL
			}
		}
		// comparisons are on the declared types: for unsigned operands the mathematical values are compared
		// as-is (no wrap) because canon() only strips value-preserving conversions.
		g.touch(x, 1)
		g.touch(y, 1)
		switch op {
		case token.LSS: // x < y : x − y ≤ −1
			g.add(y, x, -1)
		case token.LEQ:
			g.add(y, x, 0)
		case token.GTR: // x > y : y − x ≤ −1
			g.add(x, y, -1)
		case token.GEQ:
			g.add(x, y, 0)
		case token.EQL:
			g.eq(x, y, 0)
		case token.NEQ:
			// x != k where k is an end point of x's interval
			if k, ok := constInt(bo.Y); ok {
				r := g.e.rng(bo.X)
				if r.lo == k {
					g.add(x, zeroT, -(k + 1))
				}
				if r.hi == k {
					g.add(zeroT, x, k-1)
				}
			}
		}
	}
	g.distinctByteFacts()
	g.resolvePending()
	g.refineArith()
}

// refineArith: t = x + y (no wrap): t − x = y, so the path facts about y (a dominating `y < 1` false edge gives
// y ≥ 1) sharpen the difference constraints between t and x that were first added from y's flow-insensitive range.
func (g *factGraph) refineArith() {
	for round := 0; round < 2; round++ {
		for _, x := range g.arith {
			t := termT{v: x}
			xa, ya := g.e.termOf(x.X), g.e.termOf(x.Y)
			bounds := func(a termT) (lo, hi int64) {
				if a.v == nil {
					return 0, 0
				}
				return -g.shortest(a, zeroT), g.shortest(zeroT, a)
			}
			xlo, xhi := bounds(xa)
			ylo, yhi := bounds(ya)
			if x.Op == token.ADD {
				if yhi < inf {
					g.add(xa, t, yhi)
				}
				if ylo > -inf {
					g.add(t, xa, -ylo)
				}
				if xhi < inf {
					g.add(ya, t, xhi)
				}
				if xlo > -inf {
					g.add(t, ya, -xlo)
				}
			} else {
				if ylo > -inf {
					g.add(xa, t, -ylo)
				}
				if yhi < inf {
					g.add(t, xa, yhi)
				}
			}
		}
	}
}

// distinctByteFacts: two dominating conditions base[a] == K1 and base[b] == K2 with K1 ≠ K2 on the same
// immutable-in-this-function byte sequence imply a ≠ b; when one index is a constant that is an end point of
// what is known about the other, the bound is tightened (text[i] == '/' ∧ text[0] == '+' ∧ i ≥ 0 ⇒ i ≥ 1).
func (g *factGraph) distinctByteFacts() {
	type byteEq struct {
		base ssa.Value
		idx  ssa.Value
		k    int64
	}
	var eqs []byteEq
	for _, cd := range g.conds {
		bo, ok := cd.V.(*ssa.BinOp)
		if !ok || !((bo.Op == token.EQL && cd.True) || (bo.Op == token.NEQ && !cd.True)) {
			continue
		}
		k, isK := constInt(bo.Y)
		x := bo.X
		if !isK {
			k, isK = constInt(bo.X)
			x = bo.Y
		}
		if !isK {
			continue
		}
		var base, idx ssa.Value
		switch l := x.(type) {
		case *ssa.UnOp:
			if ia, ok := l.X.(*ssa.IndexAddr); ok && l.Op == token.MUL {
				base, idx = ia.X, ia.Index
			}
		case *ssa.Lookup:
			if isStringType(l.X.Type()) {
				base, idx = l.X, l.Index
			}
		case *ssa.Index:
			base, idx = l.X, l.Index
		}
		if base == nil {
			continue
		}
		if _, isSlice := base.Type().Underlying().(*types.Slice); isSlice && !noElementStores(cd.At.Parent()) {
			continue
		}
		eqs = append(eqs, byteEq{base, idx, k})
	}
	for i := 0; i < len(eqs); i++ {
		for j := 0; j < len(eqs); j++ {
			a, b := eqs[i], eqs[j]
			if i == j || a.k == b.k || g.e.canonAny(a.base) != g.e.canonAny(b.base) {
				continue
			}
			ka, ok := constInt(a.idx)
			if !ok {
				continue
			}
			if _, bothConst := constInt(b.idx); bothConst {
				continue
			}
			bt := g.e.termOf(b.idx)
			g.touch(bt, 1)
			lo := -g.shortest(bt, zeroT) // bt ≥ lo
			hi := g.shortest(zeroT, bt)  // bt ≤ hi
			if r := g.e.rng(b.idx); r.lo > lo {
				lo = r.lo
			}
			if lo == ka {
				g.add(bt, zeroT, -(ka + 1))
			}
			if hi == ka {
				g.add(zeroT, bt, ka-1)
			}
		}
	}
}

// noElementStores: f never stores through an element address of a slice and never calls copy — the byte
// sequences it reads cannot change between two of its loads (callees receiving them are a separate matter:
// only argument-pure repo callees and dependency readers occur here, checked by argPure where used).
func noElementStores(f *ssa.Function) bool {
	ok := true
	eachInstr(f, func(_ *ssa.BasicBlock, _ int, in ssa.Instruction) {
		switch x := in.(type) {
		case *ssa.Store:
			if ia, isIA := x.Addr.(*ssa.IndexAddr); isIA {
				if _, isSlice := ia.X.Type().Underlying().(*types.Slice); isSlice {
					ok = false
				}
			}
		case *ssa.Call:
			if b, isB := x.Call.Value.(*ssa.Builtin); isB && b.Name() == "copy" {
				ok = false
			}
		}
	})
	return ok
}

// resolvePending: narrow-typed x ± y whose no-wrap condition follows from the path facts.
func (g *factGraph) resolvePending() {
	if g.pendDone == nil {
		g.pendDone = map[*ssa.BinOp]bool{}
	}
	for round := 0; round < 3; round++ {
		progress := false
		for _, x := range g.pending {
			if g.pendDone[x] {
				continue
			}
			e := g.e
			t := termT{v: x}
			xa, ya := e.termOf(x.X), e.termOf(x.Y)
			tr := typeRange(x.Type())
			xlo, xhi := -g.shortest(xa, zeroT), g.shortest(zeroT, xa)
			ylo, yhi := -g.shortest(ya, zeroT), g.shortest(zeroT, ya)
			if xa.v == nil {
				xlo, xhi = 0, 0
			}
			var lo, hi int64
			if x.Op == token.ADD {
				lo, hi = addSat(xlo, ylo), addSat(xhi, yhi)
			} else {
				lo, hi = addSat(xlo, -yhi), addSat(xhi, -ylo)
				// relational: y ≤ x ⇒ x − y ≥ 0
				if d := g.shortest(xa, ya); d < inf && -d > lo {
					lo = -d
				}
				if d := g.shortest(ya, xa); d < hi {
					hi = d
				}
			}
			if lo < tr.lo || hi > tr.hi {
				continue
			}
			g.pendDone[x] = true
			progress = true
			if x.Op == token.ADD {
				g.add(xa, t, yhi)
				g.add(t, xa, -ylo)
				g.add(ya, t, xhi)
				g.add(t, ya, -xlo)
			} else {
				g.add(xa, t, -ylo)
				g.add(t, xa, yhi)
			}
			g.add(zeroT, t, hi)
			g.add(t, zeroT, -lo)
		}
		if !progress {
			break
		}
	}
}

func (e *E3) newGraph(at *ssa.BasicBlock) *factGraph {
	g := &factGraph{e: e, nodes: map[termT]bool{}, at: at}
	if at != nil {
		g.conds = condsAt(at)
		g.conds = append(g.conds, e.expandCallConds(g.conds)...)
	}
	return g
}

// shortest computes the least w such that (to − from ≤ w) follows from the edges (Bellman-Ford).
func (g *factGraph) shortest(from, to termT) int64 {
	dist := map[termT]int64{from: 0}
	for iter := 0; iter < len(g.nodes)+3; iter++ {
		ch := false
		for _, ed := range g.edges {
			d, ok := dist[ed.from]
			if !ok {
				continue
			}
			nd := addSat(d, ed.w)
			if cur, ok := dist[ed.to]; !ok || nd < cur {
				dist[ed.to] = nd
				ch = true
			}
		}
		if !ch {
			break
		}
	}
	if d, ok := dist[to]; ok {
		return d
	}
	return inf
}

// ProveLE: a − b ≤ c at block `at` (nil a or b term = ZERO).
func (e *E3) ProveLE(at *ssa.BasicBlock, a, b termT, c int64) bool {
	return e.proveLE(at, a, b, c, 0)
}

func (e *E3) proveLE(at *ssa.BasicBlock, a, b termT, c int64, depth int) bool {
	g := e.newGraph(at)
	g.nodes[zeroT] = true
	g.touch(a, 0)
	g.touch(b, 0)
	g.condFacts()
	if g.shortest(b, a) <= c {
		return true
	}
	if depth >= 3 {
		return false
	}
	// a = (acyclic phi) ± k in a wrap-free 64-bit type: prove edge_value − b ≤ c ∓ k on every incoming edge
	if bo, ok := a.v.(*ssa.BinOp); ok && !a.len && is64(bo.Type()) && (bo.Op == token.ADD || bo.Op == token.SUB) {
		var phi *ssa.Phi
		var k int64
		okForm := false
		if kc, isC := constInt(bo.Y); isC {
			if ph, isP := e.canon(bo.X).(*ssa.Phi); isP {
				phi, k, okForm = ph, kc, true
				if bo.Op == token.SUB {
					k = -kc
				}
			}
		} else if kc, isC := constInt(bo.X); isC && bo.Op == token.ADD {
			if ph, isP := e.canon(bo.Y).(*ssa.Phi); isP {
				phi, k, okForm = ph, kc, true
			}
		}
		if okForm && !phiHasBackEdge(phi) && phi.Block().Dominates(at) {
			all := true
			for i, ed := range phi.Edges {
				if !e.proveOnEdge(phi.Block().Preds[i], phi.Block(), e.termOf(ed), b, c-k, depth+1) {
					all = false
					break
				}
			}
			if all {
				return true
			}
		}
	}
	// a = affine form (64-bit, wrap-free) containing one acyclic phi with coefficient 1, e.g. (o+1) + b with
	// b = phi(−1, j−o−1): substitute each edge value; when the form collapses to one SSA value plus a constant
	// (o, resp. j) prove that on the incoming edge
	if bo, ok := a.v.(*ssa.BinOp); ok && !a.len && is64(bo.Type()) && (bo.Op == token.ADD || bo.Op == token.SUB) {
		if af := affineWide(bo); af != nil {
			for tv, kf := range af.Terms {
				phi, isP := tv.(*ssa.Phi)
				if !isP || kf != 1 || phiHasBackEdge(phi) || !phi.Block().Dominates(at) || !is64(phi.Type()) {
					continue
				}
				rest := af.clone()
				delete(rest.Terms, tv)
				all := true
				for i, ed := range phi.Edges {
					ea := affineWide(ed)
					if ea == nil {
						all = false
						break
					}
					sum := rest.addScaled(ea, 1)
					var single ssa.Value
					okSingle := len(sum.Terms) <= 1
					for sv, sk := range sum.Terms {
						v, isV := sv.(ssa.Value)
						if !isV || sk != 1 {
							okSingle = false
						}
						single = v
					}
					if !okSingle {
						all = false
						break
					}
					at2 := zeroT
					if single != nil {
						at2 = e.termOf(single)
					}
					if !e.proveOnEdge(phi.Block().Preds[i], phi.Block(), at2, b, c-sum.C, depth+1) {
						all = false
						break
					}
				}
				if all {
					return true
				}
			}
		}
	}
	// phi expansion on a (acyclic phis, or loop phis by induction on the back edges is NOT attempted)
	if phi, ok := a.v.(*ssa.Phi); ok && !a.len && a.v != nil {
		if !phiHasBackEdge(phi) {
			all := true
			for i, ed := range phi.Edges {
				pred := phi.Block().Preds[i]
				if !e.proveOnEdge(pred, phi.Block(), e.termOf(ed), b, c, depth+1) {
					all = false
					break
				}
			}
			if all {
				return true
			}
		}
	}
	if phi, ok := b.v.(*ssa.Phi); ok && !b.len && b.v != nil {
		if !phiHasBackEdge(phi) {
			all := true
			for i, ed := range phi.Edges {
				pred := phi.Block().Preds[i]
				if !e.proveOnEdge(pred, phi.Block(), a, e.termOf(ed), c, depth+1) {
					all = false
					break
				}
			}
			if all {
				return true
			}
		}
	}
	// LEN of a slice-typed phi
	if a.len {
		if phi, ok := a.v.(*ssa.Phi); ok && !phiHasBackEdge(phi) {
			all := true
			for i, ed := range phi.Edges {
				if !e.proveOnEdge(phi.Block().Preds[i], phi.Block(), termT{v: e.lenBase(ed), len: true}, b, c, depth+1) {
					all = false
					break
				}
			}
			if all {
				return true
			}
		}
	}
	if b.len {
		if phi, ok := b.v.(*ssa.Phi); ok && !phiHasBackEdge(phi) {
			all := true
			for i, ed := range phi.Edges {
				if !e.proveOnEdge(phi.Block().Preds[i], phi.Block(), a, termT{v: e.lenBase(ed), len: true}, c, depth+1) {
					all = false
					break
				}
			}
			if all {
				return true
			}
		}
	}
	// join of forward edges (case 34, 38: / case 41: fallthrough; case 45:): the fact holds at the join when it
	// holds on every incoming edge. Sound for SSA values defined above the join; values defined in the join
	// block itself (phis) are handled above.
	if at != nil && len(at.Preds) >= 2 {
		fwd := true
		for _, pr := range at.Preds {
			if at.Dominates(pr) {
				fwd = false
			}
		}
		definedAbove := func(t termT) bool {
			if t.v == nil {
				return true
			}
			in, ok := t.v.(ssa.Instruction)
			if !ok {
				return true // parameters, constants, globals
			}
			return in.Block() != at && in.Block().Dominates(at)
		}
		if fwd && definedAbove(a) && definedAbove(b) {
			all := true
			for _, pr := range at.Preds {
				if !e.proveOnEdge(pr, at, a, b, c, depth+1) {
					all = false
					break
				}
			}
			if all {
				return true
			}
		}
	}
	return false
}

// proveOnEdge proves a − b ≤ c with the facts that hold when control passes pred → succ.
func (e *E3) proveOnEdge(pred, succ *ssa.BasicBlock, a, b termT, c int64, depth int) bool {
	g := e.newGraph(pred)
	g.conds = edgeConds(pred, succ)
	g.conds = append(g.conds, e.expandCallConds(g.conds)...)
	g.nodes[zeroT] = true
	g.touch(a, 0)
	g.touch(b, 0)
	g.condFacts()
	if g.shortest(b, a) <= c {
		return true
	}
	return false
}

func phiHasBackEdge(phi *ssa.Phi) bool {
	b := phi.Block()
	for _, p := range b.Preds {
		if b.Dominates(p) {
			return true
		}
	}
	return false
}

// ---- contracts of repo functions ---------------------------------------------------------------------

// contractOf returns the length contract of a call's callee(s) and the argument list aligned to callee params.
func (e *E3) contractOf(c *ssa.Call) (*lenContract, []ssa.Value) {
	args := callArgs(&c.Call)
	if sc := c.Call.StaticCallee(); sc != nil {
		if tc, ok := trustedLenContracts[sc.String()]; ok {
			return &tc, args
		}
		if isRepoFn(sc) {
			return e.repoContract(sc), args
		}
		return nil, args
	}
	if c.Call.IsInvoke() {
		// interface method: all VTA callees in the repo must agree; the BufferedReader.Peek convention
		// (same as bufio) is accepted for methods named Peek with signature (int) ([]byte, error).
		if c.Call.Method.Name() == "Peek" {
			sig := c.Call.Method.Type().(*types.Signature)
			if sig.Params().Len() == 1 && sig.Results().Len() == 2 {
				callees := e.p.Callees(c)
				okAll := true
				for _, g := range callees {
					if g.String() == "(*bufio.Reader).Peek" {
						continue
					}
					if !isRepoFn(g) {
						okAll = false
						continue
					}
					con := e.repoContract(g)
					if con == nil || con.ArgEq != 1 {
						okAll = false
					}
				}
				if okAll {
					return &lenContract{Res: 0, Err: 1, ArgEq: 1, Trusted: len(callees) == 0}, args
				}
			}
		}
	}
	return nil, args
}

// repoContract infers and verifies "nil error ⇒ len(result) == int parameter k" (or ≥ const) for a repo function.
func (e *E3) repoContract(f *ssa.Function) *lenContract {
	if c, ok := e.contract[f]; ok {
		return c
	}
	res := f.Signature.Results()
	if f.Blocks == nil || res.Len() < 2 {
		e.contract[f] = nil
		return nil
	}
	ri, ei := -1, -1
	for i := 0; i < res.Len(); i++ {
		switch t := res.At(i).Type().Underlying().(type) {
		case *types.Slice:
			if ri < 0 {
				ri = i
			}
		case *types.Interface:
			if isErrorType(res.At(i).Type()) {
				ei = i
			}
			_ = t
		}
	}
	if ri < 0 || ei < 0 {
		e.contract[f] = nil
		return nil
	}
	if e.conProg[f] {
		// recursive use: assume the candidate being verified (induction on call depth)
		if c, ok := e.contract[f]; ok {
			return c
		}
		return nil
	}
	e.conProg[f] = true
	defer delete(e.conProg, f)
	var rets []*ssa.Return
	eachInstr(f, func(_ *ssa.BasicBlock, _ int, in ssa.Instruction) {
		if r, ok := in.(*ssa.Return); ok {
			rets = append(rets, r)
		}
	})
	try := func(cand *lenContract) bool {
		e.contract[f] = cand // visible to recursive calls
		for _, ret := range rets {
			errV := ret.Results[ei]
			if e.definitelyNonNil(errV, ret.Block()) {
				continue
			}
			lt := termT{v: e.lenBase(ret.Results[ri]), len: true}
			if isNilConst(ret.Results[ri]) {
				lt = zeroT
			}
			// facts at the return: the error may be assumed nil (we only need the implication)
			g := e.newGraph(ret.Block())
			g.conds = append(g.conds, nilAssumption(errV)...)
			g.nodes[zeroT] = true
			g.touch(lt, 0)
			if cand.ArgEq >= 0 {
				pt := e.termOf(f.Params[cand.ArgEq])
				g.touch(pt, 0)
				g.condFacts()
				if !(g.shortest(pt, lt) <= 0 && g.shortest(lt, pt) <= 0) {
					return false
				}
			} else {
				g.condFacts()
				if !(g.shortest(lt, zeroT) <= -cand.MinLen) {
					return false
				}
			}
		}
		return true
	}
	for i, prm := range f.Params {
		if !isIntType(prm.Type()) {
			continue
		}
		cand := &lenContract{Res: ri, Err: ei, ArgEq: i}
		if try(cand) {
			e.contract[f] = cand
			return cand
		}
	}
	// "nil error ⇒ len(result) ≥ min(int parameter, K)": a reader wrapper that passes a full window through and
	// accepts a short one at the end of the input only above a minimum size
	tryMin := func(pi int, K int64) bool {
		cand := &lenContract{Res: ri, Err: ei, ArgEq: -1, MinLen: K, MinArg: pi + 1}
		e.contract[f] = nil
		for _, ret := range rets {
			errV := ret.Results[ei]
			if e.definitelyNonNil(errV, ret.Block()) {
				continue
			}
			if isNilConst(ret.Results[ri]) {
				return false
			}
			lt := termT{v: e.lenBase(ret.Results[ri]), len: true}
			g := e.newGraph(ret.Block())
			g.conds = append(g.conds, nilAssumption(errV)...)
			g.nodes[zeroT] = true
			g.touch(lt, 0)
			pt := e.termOf(f.Params[pi])
			g.touch(pt, 0)
			g.condFacts()
			if g.shortest(lt, zeroT) <= -K || g.shortest(lt, pt) <= 0 {
				continue
			}
			return false
		}
		e.contract[f] = cand
		return true
	}
	for i, prm := range f.Params {
		if !isIntType(prm.Type()) {
			continue
		}
		for K := int64(8); K >= 1; K-- {
			if tryMin(i, K) {
				return e.contract[f]
			}
		}
	}
	e.contract[f] = nil
	return nil
}

// nilAssumption builds a synthetic condition "errV == nil" usable by nilErr for values that flow into errV.
func nilAssumption(errV ssa.Value) []Cond {
	var out []Cond
	var visit func(v ssa.Value, d int)
	seen := map[ssa.Value]bool{}
	visit = func(v ssa.Value, d int) {
		if seen[v] || d > 4 {
			return
		}
		seen[v] = true
		out = append(out, Cond{V: &ssa.BinOp{Op: token.EQL, X: v, Y: nilErrConst}, True: true})
		// a phi of errors is nil only if … (not decomposed)
	}
	visit(errV, 0)
	return out
}

var nilErrConst = ssa.NewConst(nil, types.Universe.Lookup("error").Type())

// definitelyNonNil: the error value is a non-nil error on every path reaching block b.
func (e *E3) definitelyNonNil(v ssa.Value, b *ssa.BasicBlock) bool {
	return e.nonNil(v, b, 0)
}

func (e *E3) nonNil(v ssa.Value, b *ssa.BasicBlock, d int) bool {
	if d > 5 {
		return false
	}
	if isNilConst(v) {
		return false
	}
	switch x := v.(type) {
	case *ssa.UnOp:
		if x.Op == token.MUL {
			if g, ok := x.X.(*ssa.Global); ok {
				// package-level error variable initialised with errors.New and never reassigned
				return e.tables.NonNilErr(g)
			}
			// a named result spilled to a local (functions with defer): tested non-nil through another load of the same
			// local on a dominating edge, with no store to it in between
			if a, ok := x.X.(*ssa.Alloc); ok && b != nil {
				for _, cd := range condsAt(b) {
					bo, ok := cd.V.(*ssa.BinOp)
					if !ok || (bo.Op != token.EQL && bo.Op != token.NEQ) || (bo.Op == token.NEQ) != cd.True {
						continue
					}
					var tested ssa.Value
					if isNilConst(bo.Y) {
						tested = bo.X
					} else if isNilConst(bo.X) {
						tested = bo.Y
					}
					l2, ok := tested.(*ssa.UnOp)
					if !ok || l2.Op != token.MUL || l2.X != ssa.Value(a) {
						continue
					}
					// no store to the local between the tested load and this one: the tested load's block ends with the If, this
					// load must come before any store to a in its own block and every block in between must be store-free
					clean := true
					for _, rf := range refs(a) {
						st, isSt := rf.(*ssa.Store)
						if !isSt || st.Addr != ssa.Value(a) {
							continue
						}
						sb := st.Block()
						if sb == x.Block() && instrIndex(st) < instrIndex(x) {
							clean = false
						}
						if sb != x.Block() && sb != l2.Block() && l2.Block().Dominates(sb) && sb.Dominates(x.Block()) {
							clean = false
						}
						if sb == l2.Block() && instrIndex(st) > instrIndex(l2) {
							clean = false
						}
					}
					if clean {
						return true
					}
				}
			}
		}
	case *ssa.Call:
		if sc := x.Call.StaticCallee(); sc != nil {
			switch sc.String() {
			case "errors.New", "fmt.Errorf", "github.com/pkg/errors.New", "github.com/pkg/errors.Errorf":
				return true
			case "github.com/pkg/errors.Wrap", "github.com/pkg/errors.Wrapf", "github.com/pkg/errors.WithMessage", "github.com/pkg/errors.WithMessagef", "github.com/pkg/errors.WithStack":
				// nil in ⇒ nil out
				return e.nonNil(x.Call.Args[0], b, d+1)
			}
		}
	case *ssa.MakeInterface:
		return true
	case *ssa.Phi:
		for i, ed := range x.Edges {
			if e.nonNil(ed, b, d+1) {
				continue
			}
			// the value on this edge may have been tested on the way: `if err == nil { err = ErrX }` joins the tested
			// error (non-nil on the edge that skips the assignment) with the replacement
			okEdge := false
			if i < len(x.Block().Preds) {
				pred := x.Block().Preds[i]
				if e.nonNil(ed, pred, d+1) {
					okEdge = true
				}
				for _, cd := range edgeConds(pred, x.Block()) {
					if bo, ok := cd.V.(*ssa.BinOp); ok && (bo.Op == token.EQL || bo.Op == token.NEQ) {
						if (sameErr(bo.X, ed) && isNilConst(bo.Y)) || (sameErr(bo.Y, ed) && isNilConst(bo.X)) {
							if (bo.Op == token.NEQ) == cd.True {
								okEdge = true
							}
						}
					}
				}
			}
			if !okEdge {
				return false
			}
		}
		return true
	}
	// dominated by v != nil
	if b != nil {
		for _, cd := range condsAt(b) {
			if bo, ok := cd.V.(*ssa.BinOp); ok && (bo.Op == token.EQL || bo.Op == token.NEQ) {
				if (sameErr(bo.X, v) && isNilConst(bo.Y)) || (sameErr(bo.Y, v) && isNilConst(bo.X)) {
					if (bo.Op == token.NEQ) == cd.True {
						return true
					}
				}
			}
		}
	}
	return false
}

func constantInt(n int64) constant.Value { return constant.MakeInt64(n) }

func describeTerm(t termT) string { return strings.TrimSpace(t.String()) }

// retGeParams: the indices k of f's integer parameters such that every value f returns (single int result) is that
// parameter or a loop-carried copy of it that is only ever advanced by a non-negative 64-bit-safe constant step:
// result ≥ argument k at every call. (`int` counters advanced by +k inside a loop whose condition bounds them by a
// slice length cannot wrap; anything else is refused.)
func (e *E3) retGeParams(f *ssa.Function) []int {
	if e.retGe == nil {
		e.retGe = map[*ssa.Function][]int{}
	}
	if r, ok := e.retGe[f]; ok {
		return r
	}
	e.retGe[f] = nil
	if f.Signature.Results().Len() != 1 || !isIntType(f.Signature.Results().At(0).Type()) {
		return nil
	}
	var out []int
	for k, pk := range f.Params {
		if !isIntType(pk.Type()) || !is64(pk.Type()) && !isPlainInt(pk.Type()) {
			continue
		}
		ok, any := true, false
		eachInstr(f, func(_ *ssa.BasicBlock, _ int, in ssa.Instruction) {
			ret, isRet := in.(*ssa.Return)
			if !isRet || len(ret.Results) != 1 {
				return
			}
			any = true
			if !geParamVal(ret.Results[0], pk, map[ssa.Value]bool{}) {
				ok = false
			}
		})
		if ok && any {
			out = append(out, k)
		}
	}
	e.retGe[f] = out
	return out
}

func isPlainInt(t types.Type) bool {
	b, ok := t.Underlying().(*types.Basic)
	return ok && (b.Kind() == types.Int || b.Kind() == types.Int64)
}

// geParamVal: v ≥ pk by construction — pk itself, a phi of such values, or such a value plus a non-negative constant
// where the sum is guarded by a `v < len(...)` loop condition (so it cannot wrap).
func geParamVal(v ssa.Value, pk *ssa.Parameter, seen map[ssa.Value]bool) bool {
	if v == ssa.Value(pk) {
		return true
	}
	if seen[v] {
		return true // a cycle through phis adds nothing below pk
	}
	seen[v] = true
	switch x := v.(type) {
	case *ssa.Phi:
		for _, ed := range x.Edges {
			if !geParamVal(ed, pk, seen) {
				return false
			}
		}
		return true
	case *ssa.BinOp:
		if x.Op != token.ADD {
			return false
		}
		k, ok := constInt(x.Y)
		if !ok || k < 0 || k > 1<<20 {
			return false
		}
		// the addend's operand must be below a slice length where it is advanced
		if !belowLenAt(x.X, x.Block()) {
			return false
		}
		return geParamVal(x.X, pk, seen)
	}
	return false
}

// belowLenAt: block b is dominated by the true edge of `v < len(s)` (or false edge of `v >= len(s)`).
func belowLenAt(v ssa.Value, b *ssa.BasicBlock) bool {
	for _, cd := range condsAt(b) {
		bo, ok := cd.V.(*ssa.BinOp)
		if !ok {
			continue
		}
		isLen := func(w ssa.Value) bool {
			c, ok := w.(*ssa.Call)
			if !ok {
				return false
			}
			bi, ok := c.Call.Value.(*ssa.Builtin)
			return ok && bi.Name() == "len"
		}
		switch {
		case cd.True && bo.Op == token.LSS && bo.X == v && isLen(bo.Y),
			cd.True && bo.Op == token.GTR && bo.Y == v && isLen(bo.X),
			!cd.True && bo.Op == token.GEQ && bo.X == v && isLen(bo.Y),
			!cd.True && bo.Op == token.LEQ && bo.Y == v && isLen(bo.X):
			return true
		}
	}
	return false
}
