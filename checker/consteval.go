package main

// E5b — constant folding of table-lookup functions.
//
// The name/extension/parse functions of the enumerations are loop-free decision trees over the receiver and
// immutable package-level tables (index array + concatenated string, map, switch). For a declared constant
// this file folds such a function to its result the way a compiler's constant propagation would: only
// comparisons, integer arithmetic, conversions, table/map/string indexing and returns are understood; a
// back edge, a store, an unknown call or any other construct makes the result "undecided" (never a guess).
// A fold can also end in "panic" (an index or slice out of range for that constant) — which is itself a finding.

import (
	"fmt"
	"go/constant"
	"go/token"
	"go/types"
	"path"
	"strings"

	"golang.org/x/tools/go/ssa"
)

type cval struct {
	kind  string // "int", "str", "bool", "bytes", "ints", "strs", "map", "tuple", "nil"
	i     int64
	s     string
	b     bool
	ints  []int64
	strs  []string
	tv    *TableVal // map
	tuple []cval
}

func (c cval) String() string {
	switch c.kind {
	case "int":
		return fmt.Sprint(c.i)
	case "str", "bytes":
		return fmt.Sprintf("%q", c.s)
	case "bool":
		return fmt.Sprint(c.b)
	}
	return c.kind
}

type foldResult struct {
	stores    map[int]cval // values stored through pointer parameters (*recv = v), by parameter index
	val       cval
	panics    string // non-empty: the fold ends in a run-time panic
	undecided string // non-empty: construct outside the folder's grammar
}

type folder struct {
	p     *Prog
	depth int
}

func wrapInt(v int64, t types.Type) int64 {
	b, ok := t.Underlying().(*types.Basic)
	if !ok {
		return v
	}
	switch b.Kind() {
	case types.Int8:
		return int64(int8(v))
	case types.Int16:
		return int64(int16(v))
	case types.Int32:
		return int64(int32(v))
	case types.Uint8:
		return int64(uint8(v))
	case types.Uint16:
		return int64(uint16(v))
	case types.Uint32:
		return int64(uint32(v))
	}
	return v // 64-bit: kept as int64 bit pattern (uint64 values above 2^63 are not used by the tables)
}

func isUnsigned(t types.Type) bool {
	b, ok := t.Underlying().(*types.Basic)
	return ok && b.Info()&types.IsUnsigned != 0
}

// fold evaluates f on constant arguments.
func (fd *folder) fold(f *ssa.Function, args []cval) foldResult {
	if fd.depth > 4 {
		return foldResult{undecided: "call depth"}
	}
	if f.Blocks == nil {
		return foldResult{undecided: "no body: " + f.String()}
	}
	if len(args) != len(f.Params) {
		return foldResult{undecided: "arity"}
	}
	env := map[ssa.Value]cval{}
	for i, p := range f.Params {
		env[p] = args[i]
	}
	tables := fd.p.Tables()
	var get func(v ssa.Value) (cval, string)
	get = func(v ssa.Value) (cval, string) {
		if c, ok := env[v]; ok {
			return c, ""
		}
		switch x := v.(type) {
		case *ssa.Const:
			if x.Value == nil {
				return cval{kind: "nil"}, ""
			}
			switch x.Value.Kind() {
			case constant.Int:
				i, _ := constInt(x)
				return cval{kind: "int", i: i}, ""
			case constant.String:
				return cval{kind: "str", s: constant.StringVal(x.Value)}, ""
			case constant.Bool:
				return cval{kind: "bool", b: constant.BoolVal(x.Value)}, ""
			}
		case *ssa.Global:
			// a package-level error value (var ErrX = errors.New(...)): an opaque non-nil error
			if pt, ok := x.Type().Underlying().(*types.Pointer); ok && isErrorType(pt.Elem()) {
				return cval{kind: "err", s: globalName(x)}, ""
			}
			// address of a table: represented by its value
			tv := tables.Val(x)
			if tv == nil {
				return cval{}, "global without literal value: " + globalName(x)
			}
			tables.scan()
			if tables.storeOutsideInit[x] || tables.elemMut[x] {
				return cval{}, "table is written outside its initialiser: " + globalName(x)
			}
			switch tv.Kind {
			case "string":
				return cval{kind: "str", s: tv.Str}, ""
			case "ints":
				return cval{kind: "ints", ints: tv.Ints}, ""
			case "strings":
				return cval{kind: "strs", strs: tv.Strs}, ""
			case "map":
				return cval{kind: "map", tv: tv}, ""
			}
			return cval{}, "table of unsupported kind: " + globalName(x)
		}
		return cval{}, fmt.Sprintf("value %s not folded", shortVal(v))
	}
	visited := map[*ssa.BasicBlock]bool{}
	var stores map[int]cval
	var prev *ssa.BasicBlock
	b := f.Blocks[0]
	for steps := 0; steps < 20000; steps++ {
		// a block may be re-entered: every value is a known constant, so a loop is unrolled concretely; a loop
		// that does not finish within the step budget is undecided
		visited[b] = true
		var next *ssa.BasicBlock
		for _, in := range b.Instrs {
			switch x := in.(type) {
			case *ssa.DebugRef:
			case *ssa.Phi:
				idx := -1
				for i, pb := range b.Preds {
					if pb == prev {
						idx = i
					}
				}
				if idx < 0 {
					return foldResult{undecided: "phi without predecessor"}
				}
				c, why := get(x.Edges[idx])
				if why != "" {
					return foldResult{undecided: why}
				}
				env[x] = c
			case *ssa.BinOp:
				l, w1 := get(x.X)
				r, w2 := get(x.Y)
				if w1 != "" || w2 != "" {
					return foldResult{undecided: w1 + w2}
				}
				c, why, pan := foldBin(x, l, r)
				if pan != "" {
					return foldResult{panics: pan}
				}
				if why != "" {
					return foldResult{undecided: why}
				}
				env[x] = c
			case *ssa.UnOp:
				switch x.Op {
				case token.MUL:
					// load: of a table global, or of an element address
					if ia, ok := x.X.(*ssa.IndexAddr); ok {
						base, why := get(ia.X)
						if why != "" {
							// slice loaded from a global
							if u, ok := ia.X.(*ssa.UnOp); ok && u.Op == token.MUL {
								base, why = get(u.X)
							}
						}
						if why != "" {
							return foldResult{undecided: why}
						}
						iv, why := get(ia.Index)
						if why != "" {
							return foldResult{undecided: why}
						}
						c, pan, why := foldIndex(base, iv)
						if pan != "" {
							return foldResult{panics: pan + " in " + fnName(f)}
						}
						if why != "" {
							return foldResult{undecided: why}
						}
						env[x] = c
					} else {
						c, why := get(x.X)
						if why != "" {
							return foldResult{undecided: why}
						}
						env[x] = c
					}
				case token.NOT:
					c, why := get(x.X)
					if why != "" || c.kind != "bool" {
						return foldResult{undecided: "not: " + why}
					}
					env[x] = cval{kind: "bool", b: !c.b}
				case token.SUB:
					c, why := get(x.X)
					if why != "" || c.kind != "int" {
						return foldResult{undecided: "neg: " + why}
					}
					env[x] = cval{kind: "int", i: wrapInt(-c.i, x.Type())}
				default:
					return foldResult{undecided: "unary " + x.Op.String()}
				}
			case *ssa.IndexAddr:
				// consumed by the load
			case *ssa.Index:
				base, w1 := get(x.X)
				iv, w2 := get(x.Index)
				if w1 != "" || w2 != "" {
					return foldResult{undecided: w1 + w2}
				}
				c, pan, why := foldIndex(base, iv)
				if pan != "" {
					return foldResult{panics: pan + " in " + fnName(f)}
				}
				if why != "" {
					return foldResult{undecided: why}
				}
				env[x] = c
			case *ssa.Convert:
				c, why := get(x.X)
				if why != "" {
					return foldResult{undecided: why}
				}
				switch {
				case c.kind == "int" && isIntType(x.Type()):
					env[x] = cval{kind: "int", i: wrapInt(c.i, x.Type())}
				case (c.kind == "bytes" || c.kind == "str") && isStringType(x.Type()):
					env[x] = cval{kind: "str", s: c.s}
				case c.kind == "str" && !isStringType(x.Type()):
					env[x] = cval{kind: "bytes", s: c.s}
				default:
					return foldResult{undecided: "conversion " + typeStr(x.X.Type()) + " → " + typeStr(x.Type())}
				}
			case *ssa.ChangeType:
				c, why := get(x.X)
				if why != "" {
					return foldResult{undecided: why}
				}
				env[x] = c
			case *ssa.Slice:
				base, why := get(x.X)
				if why != "" {
					return foldResult{undecided: why}
				}
				if base.kind == "ints" || base.kind == "strs" {
					// a slice of a table (T[:], T[a:b]) is that part of the table
					n := int64(len(base.ints))
					if base.kind == "strs" {
						n = int64(len(base.strs))
					}
					lo, hi := int64(0), n
					if x.Low != nil {
						c, why := get(x.Low)
						if why != "" || c.kind != "int" {
							return foldResult{undecided: "slice low: " + why}
						}
						lo = c.i
					}
					if x.High != nil {
						c, why := get(x.High)
						if why != "" || c.kind != "int" {
							return foldResult{undecided: "slice high: " + why}
						}
						hi = c.i
					}
					if lo < 0 || hi < lo || hi > n {
						return foldResult{panics: fmt.Sprintf("slice bounds out of range [%d:%d] with length %d in %s", lo, hi, n, fnName(f))}
					}
					if base.kind == "ints" {
						env[x] = cval{kind: "ints", ints: base.ints[lo:hi]}
					} else {
						env[x] = cval{kind: "strs", strs: base.strs[lo:hi]}
					}
					break
				}
				if base.kind != "str" && base.kind != "bytes" {
					return foldResult{undecided: "slice of " + base.kind}
				}
				lo, hi := int64(0), int64(len(base.s))
				if x.Low != nil {
					c, why := get(x.Low)
					if why != "" || c.kind != "int" {
						return foldResult{undecided: "slice low: " + why}
					}
					lo = c.i
				}
				if x.High != nil {
					c, why := get(x.High)
					if why != "" || c.kind != "int" {
						return foldResult{undecided: "slice high: " + why}
					}
					hi = c.i
				}
				if lo < 0 || hi < lo || hi > int64(len(base.s)) {
					return foldResult{panics: fmt.Sprintf("slice bounds out of range [%d:%d] with length %d in %s", lo, hi, len(base.s), fnName(f))}
				}
				env[x] = cval{kind: base.kind, s: base.s[lo:hi]}
			case *ssa.Lookup:
				m, w1 := get(x.X)
				if w1 != "" {
					if u, ok := x.X.(*ssa.UnOp); ok && u.Op == token.MUL {
						m, w1 = get(u.X)
					}
				}
				k, w2 := get(x.Index)
				if w1 != "" || w2 != "" {
					return foldResult{undecided: w1 + w2}
				}
				if m.kind == "str" || m.kind == "bytes" {
					// string index
					if k.kind != "int" || k.i < 0 || k.i >= int64(len(m.s)) {
						return foldResult{panics: fmt.Sprintf("string index %d out of range [0,%d) in %s", k.i, len(m.s), fnName(f))}
					}
					env[x] = cval{kind: "int", i: int64(m.s[k.i])}
					break
				}
				if m.kind != "map" {
					return foldResult{undecided: "lookup in " + m.kind}
				}
				val, found, why := foldMapLookup(m.tv, k, x.Type(), x.CommaOk)
				if why != "" {
					return foldResult{undecided: why}
				}
				if x.CommaOk {
					env[x] = cval{kind: "tuple", tuple: []cval{val, {kind: "bool", b: found}}}
				} else {
					env[x] = val
				}
			case *ssa.Extract:
				t, why := get(x.Tuple)
				if why != "" || t.kind != "tuple" || x.Index >= len(t.tuple) {
					return foldResult{undecided: "extract: " + why}
				}
				env[x] = t.tuple[x.Index]
			case *ssa.Call:
				if bi, ok := x.Call.Value.(*ssa.Builtin); ok && bi.Name() == "len" {
					c, why := get(x.Call.Args[0])
					if why != "" {
						if u, ok := x.Call.Args[0].(*ssa.UnOp); ok && u.Op == token.MUL {
							c, why = get(u.X)
						}
					}
					if why != "" {
						return foldResult{undecided: why}
					}
					switch c.kind {
					case "str", "bytes":
						env[x] = cval{kind: "int", i: int64(len(c.s))}
					case "ints":
						env[x] = cval{kind: "int", i: int64(len(c.ints))}
					case "strs":
						env[x] = cval{kind: "int", i: int64(len(c.strs))}
					default:
						return foldResult{undecided: "len of " + c.kind}
					}
					break
				}
				sc := x.Call.StaticCallee()
				if sc == nil {
					return foldResult{undecided: "dynamic call"}
				}
				if sc.String() == "strings.ToLower" || sc.String() == "strings.ToUpper" {
					c, why := get(x.Call.Args[0])
					if why != "" || c.kind != "str" {
						return foldResult{undecided: "ToLower arg"}
					}
					if sc.Name() == "ToLower" {
						env[x] = cval{kind: "str", s: asciiLower(c.s)}
					} else {
						env[x] = cval{kind: "str", s: asciiUpper(c.s)}
					}
					break
				}
				// path.Ext / path.Base / filepath.Ext / filepath.Base on a constant (slash-separated semantics; the checks run
				// on the platform the library is built for, where filepath uses '/')
				if sc.Pkg != nil && (sc.Pkg.Pkg.Path() == "path" || sc.Pkg.Pkg.Path() == "path/filepath") && (sc.Name() == "Ext" || sc.Name() == "Base") && len(x.Call.Args) == 1 {
					c, why := get(x.Call.Args[0])
					if why != "" || c.kind != "str" {
						return foldResult{undecided: sc.String() + " of a non-constant"}
					}
					if sc.Name() == "Ext" {
						env[x] = cval{kind: "str", s: path.Ext(c.s)}
					} else {
						env[x] = cval{kind: "str", s: path.Base(c.s)}
					}
					break
				}
				// pure searches of the standard library on constant strings / byte slices
				if sc.Pkg != nil && (sc.Pkg.Pkg.Path() == "strings" || sc.Pkg.Pkg.Path() == "bytes") {
					var cs []cval
					okArgs := true
					for _, a := range x.Call.Args {
						c, why := get(a)
						if why != "" {
							okArgs = false
							break
						}
						cs = append(cs, c)
					}
					isStr := func(c cval) bool { return c.kind == "str" || c.kind == "bytes" }
					if okArgs && len(cs) == 2 && isStr(cs[0]) {
						done := true
						switch {
						case (sc.Name() == "IndexByte" || sc.Name() == "LastIndexByte") && cs[1].kind == "int":
							b := byte(cs[1].i)
							if sc.Name() == "IndexByte" {
								env[x] = cval{kind: "int", i: int64(strings.IndexByte(cs[0].s, b))}
							} else {
								env[x] = cval{kind: "int", i: int64(strings.LastIndexByte(cs[0].s, b))}
							}
						case isStr(cs[1]) && sc.Name() == "Index":
							env[x] = cval{kind: "int", i: int64(strings.Index(cs[0].s, cs[1].s))}
						case isStr(cs[1]) && sc.Name() == "LastIndex":
							env[x] = cval{kind: "int", i: int64(strings.LastIndex(cs[0].s, cs[1].s))}
						case isStr(cs[1]) && sc.Name() == "Contains":
							env[x] = cval{kind: "bool", b: strings.Contains(cs[0].s, cs[1].s)}
						case isStr(cs[1]) && sc.Name() == "HasPrefix":
							env[x] = cval{kind: "bool", b: strings.HasPrefix(cs[0].s, cs[1].s)}
						case isStr(cs[1]) && sc.Name() == "HasSuffix":
							env[x] = cval{kind: "bool", b: strings.HasSuffix(cs[0].s, cs[1].s)}
						case isStr(cs[1]) && sc.Name() == "TrimPrefix" && cs[0].kind == "str":
							env[x] = cval{kind: "str", s: strings.TrimPrefix(cs[0].s, cs[1].s)}
						case isStr(cs[1]) && sc.Name() == "TrimSuffix" && cs[0].kind == "str":
							env[x] = cval{kind: "str", s: strings.TrimSuffix(cs[0].s, cs[1].s)}
						case isStr(cs[1]) && (sc.Name() == "EqualFold" || sc.Name() == "Equal"):
							if sc.Name() == "Equal" {
								env[x] = cval{kind: "bool", b: cs[0].s == cs[1].s}
							} else {
								env[x] = cval{kind: "bool", b: asciiLower(cs[0].s) == asciiLower(cs[1].s)}
							}
						default:
							done = false
						}
						if done {
							break
						}
					}
				}
				if sc.String() == "fmt.Sprintf" && len(x.Call.Args) == 2 {
					// Sprintf(format) without operands returns the format when it holds no verb
					c, why := get(x.Call.Args[0])
					if _, nilArgs := x.Call.Args[1].(*ssa.Const); why == "" && c.kind == "str" && nilArgs && !containsByte(c.s, '%') {
						env[x] = c
						break
					}
					return foldResult{undecided: "fmt.Sprintf with operands or verbs"}
				}
				if !isRepoFn(sc) {
					return foldResult{undecided: "call of " + sc.String()}
				}
				var cargs []cval
				for _, a := range x.Call.Args {
					c, why := get(a)
					if why != "" {
						return foldResult{undecided: why}
					}
					cargs = append(cargs, c)
				}
				fd.depth++
				res := fd.fold(sc, cargs)
				fd.depth--
				if res.panics != "" || res.undecided != "" {
					return res
				}
				env[x] = res.val
			case *ssa.If:
				c, why := get(x.Cond)
				if why != "" || c.kind != "bool" {
					return foldResult{undecided: "condition: " + why}
				}
				if c.b {
					next = b.Succs[0]
				} else {
					next = b.Succs[1]
				}
			case *ssa.Jump:
				next = b.Succs[0]
			case *ssa.Return:
				if len(x.Results) == 1 {
					c, why := get(x.Results[0])
					if why != "" {
						return foldResult{undecided: why}
					}
					return foldResult{val: c, stores: stores}
				}
				var t []cval
				for _, rv := range x.Results {
					c, why := get(rv)
					if why != "" {
						return foldResult{undecided: why}
					}
					t = append(t, c)
				}
				return foldResult{val: cval{kind: "tuple", tuple: t}, stores: stores}
			case *ssa.Store:
				pi := -1
				for i, pp := range f.Params {
					if x.Addr == ssa.Value(pp) {
						pi = i
					}
				}
				if pi < 0 {
					return foldResult{undecided: "store to " + shortVal(x.Addr)}
				}
				c, why := get(x.Val)
				if why != "" {
					return foldResult{undecided: why}
				}
				if stores == nil {
					stores = map[int]cval{}
				}
				stores[pi] = c
			case *ssa.Panic:
				return foldResult{panics: "explicit panic in " + fnName(f)}
			default:
				return foldResult{undecided: fmt.Sprintf("%T in %s", in, fnName(f))}
			}
		}
		if next == nil {
			return foldResult{undecided: "fell off block"}
		}
		prev, b = b, next
	}
	return foldResult{undecided: "step budget"}
}

func isStringType(t types.Type) bool {
	b, ok := t.Underlying().(*types.Basic)
	return ok && b.Info()&types.IsString != 0
}

func asciiLower(s string) string {
	b := []byte(s)
	for i, c := range b {
		if c >= 'A' && c <= 'Z' {
			b[i] = c + 32
		}
	}
	return string(b)
}

func asciiUpper(s string) string {
	b := []byte(s)
	for i, c := range b {
		if c >= 'a' && c <= 'z' {
			b[i] = c - 32
		}
	}
	return string(b)
}

func foldIndex(base, iv cval) (cval, string, string) {
	if iv.kind != "int" {
		return cval{}, "", "non-integer index"
	}
	switch base.kind {
	case "ints":
		if iv.i < 0 || iv.i >= int64(len(base.ints)) {
			return cval{}, fmt.Sprintf("index out of range [%d] with length %d", iv.i, len(base.ints)), ""
		}
		return cval{kind: "int", i: base.ints[iv.i]}, "", ""
	case "strs":
		if iv.i < 0 || iv.i >= int64(len(base.strs)) {
			return cval{}, fmt.Sprintf("index out of range [%d] with length %d", iv.i, len(base.strs)), ""
		}
		return cval{kind: "str", s: base.strs[iv.i]}, "", ""
	case "str", "bytes":
		if iv.i < 0 || iv.i >= int64(len(base.s)) {
			return cval{}, fmt.Sprintf("index out of range [%d] with length %d", iv.i, len(base.s)), ""
		}
		return cval{kind: "int", i: int64(base.s[iv.i])}, "", ""
	}
	return cval{}, "", "index into " + base.kind
}

func foldMapLookup(tv *TableVal, k cval, resT types.Type, commaOk bool) (cval, bool, string) {
	if commaOk {
		if tup, ok := resT.(*types.Tuple); ok {
			resT = tup.At(0).Type()
		}
	}
	zero := cval{kind: "int"}
	if isStringType(resT) {
		zero = cval{kind: "str"}
	}
	for i, mk := range tv.MapKeys {
		match := false
		switch k.kind {
		case "int":
			if mk.Kind() == constant.Int {
				if v, ok := constant.Int64Val(mk); ok && v == k.i {
					match = true
				}
			}
		case "str":
			if mk.Kind() == constant.String && constant.StringVal(mk) == k.s {
				match = true
			}
		default:
			return cval{}, false, "map key of kind " + k.kind
		}
		if !match {
			continue
		}
		mv := tv.MapVals[i]
		if mv == nil {
			return cval{}, false, "map value is not a constant"
		}
		switch mv.Kind() {
		case constant.Int:
			v, _ := constant.Int64Val(mv)
			return cval{kind: "int", i: v}, true, ""
		case constant.String:
			return cval{kind: "str", s: constant.StringVal(mv)}, true, ""
		}
		return cval{}, false, "map value kind"
	}
	return zero, false, ""
}

func foldBin(x *ssa.BinOp, l, r cval) (cval, string, string) {
	// comparisons of error values with nil (and with each other by identity)
	if (l.kind == "err" || l.kind == "nil") && (r.kind == "err" || r.kind == "nil") && (x.Op == token.EQL || x.Op == token.NEQ) {
		eq := l.kind == r.kind && l.s == r.s
		return cval{kind: "bool", b: eq == (x.Op == token.EQL)}, "", ""
	}
	if l.kind == "int" && r.kind == "int" {
		a, b := l.i, r.i
		uns := isUnsigned(x.X.Type())
		cmp := func(lt, eq bool) cval {
			return cval{kind: "bool", b: lt || eq}
		}
		less := a < b
		if uns {
			less = uint64(a) < uint64(b)
		}
		switch x.Op {
		case token.ADD:
			return cval{kind: "int", i: wrapInt(a+b, x.Type())}, "", ""
		case token.SUB:
			return cval{kind: "int", i: wrapInt(a-b, x.Type())}, "", ""
		case token.MUL:
			return cval{kind: "int", i: wrapInt(a*b, x.Type())}, "", ""
		case token.QUO:
			if b == 0 {
				return cval{}, "", "integer divide by zero"
			}
			if uns {
				return cval{kind: "int", i: wrapInt(int64(uint64(a)/uint64(b)), x.Type())}, "", ""
			}
			return cval{kind: "int", i: wrapInt(a/b, x.Type())}, "", ""
		case token.REM:
			if b == 0 {
				return cval{}, "", "integer divide by zero"
			}
			if uns {
				return cval{kind: "int", i: wrapInt(int64(uint64(a)%uint64(b)), x.Type())}, "", ""
			}
			return cval{kind: "int", i: wrapInt(a%b, x.Type())}, "", ""
		case token.AND:
			return cval{kind: "int", i: a & b}, "", ""
		case token.OR:
			return cval{kind: "int", i: a | b}, "", ""
		case token.XOR:
			return cval{kind: "int", i: wrapInt(a^b, x.Type())}, "", ""
		case token.SHL:
			if b < 0 || b > 63 {
				return cval{kind: "int", i: 0}, "", ""
			}
			return cval{kind: "int", i: wrapInt(a<<uint(b), x.Type())}, "", ""
		case token.SHR:
			if b < 0 || b > 63 {
				return cval{kind: "int", i: 0}, "", ""
			}
			if uns {
				return cval{kind: "int", i: int64(uint64(a) >> uint(b))}, "", ""
			}
			return cval{kind: "int", i: a >> uint(b)}, "", ""
		case token.EQL:
			return cval{kind: "bool", b: a == b}, "", ""
		case token.NEQ:
			return cval{kind: "bool", b: a != b}, "", ""
		case token.LSS:
			return cmp(less, false), "", ""
		case token.LEQ:
			return cmp(less, a == b), "", ""
		case token.GTR:
			return cval{kind: "bool", b: !less && a != b}, "", ""
		case token.GEQ:
			return cval{kind: "bool", b: !less}, "", ""
		}
	}
	if (l.kind == "str" || l.kind == "bytes") && (r.kind == "str" || r.kind == "bytes") {
		switch x.Op {
		case token.EQL:
			return cval{kind: "bool", b: l.s == r.s}, "", ""
		case token.NEQ:
			return cval{kind: "bool", b: l.s != r.s}, "", ""
		case token.ADD:
			return cval{kind: "str", s: l.s + r.s}, "", ""
		case token.LSS:
			return cval{kind: "bool", b: l.s < r.s}, "", ""
		case token.GTR:
			return cval{kind: "bool", b: l.s > r.s}, "", ""
		}
	}
	if l.kind == "bool" && r.kind == "bool" {
		switch x.Op {
		case token.EQL:
			return cval{kind: "bool", b: l.b == r.b}, "", ""
		case token.NEQ:
			return cval{kind: "bool", b: l.b != r.b}, "", ""
		case token.AND, token.LAND:
			return cval{kind: "bool", b: l.b && r.b}, "", ""
		case token.OR, token.LOR:
			return cval{kind: "bool", b: l.b || r.b}, "", ""
		}
	}
	return cval{}, fmt.Sprintf("binary %s on %s,%s", x.Op, l.kind, r.kind), ""
}

func containsByte(s string, c byte) bool {
	for i := 0; i < len(s); i++ {
		if s[i] == c {
			return true
		}
	}
	return false
}
