package main

// C15 — logging is neutral; the default configuration is silent: PRINT, LVL, EVT, LOGFLOW, LOGPURE, SETLOG.

import (
	"fmt"
	"go/ast"
	"go/token"
	"go/types"
	"sort"
	"strings"

	"golang.org/x/tools/go/ssa"
)

func init() { register("C15", true, checkC15) }

const zerologPath = "github.com/rs/zerolog"

func checkC15(p *Prog, r *Report) {
	r.Explain("PRINT: no library function calls fmt.Print*/builtin print or touches os.Stdout/os.Stderr outside the initialiser of a logger variable, unless dominated by the true edge of a package-level bool whose initial value is the constant false (the matcher is exercised on the repository's own command-line tools on every run). LVL: every package-level zerolog.Logger is initialised with .Level(PanicLevel) or stricter. EVT: every zerolog event created by library code is at a level the default filter rejects (Trace..Error, Err); Log(), Panic(), Fatal(), WithLevel(>= Fatal or non-constant) and the global zerolog/log logger are violations. LOGFLOW: a level test may only guard a side branch that rejoins the path taken when logging is off — no return, continue or differing phi value may depend on it. LOGPURE: inside level-dependent code (blocks guarded by a level predicate, Marshal­Zerolog* methods and functions called only from those) nothing is stored outside locals and the zerolog event, no impure library function or reader primitive is called, and every index/slice/division is discharged by E3 without recover credit. SETLOG: SetLogger assigns every exported package-level Logger (reported as a note only).")
	r.Trusted("zerolog itself: a filtered event writes nothing and does not evaluate Stringers; zerolog.Event/Array methods only write to the event")
	fs := p.AllLibFns()
	r.Extra("library_functions", len(fs))
	rulePrint(p, r, fs)
	ruleLvl(p, r)
	ruleEvt(p, r, fs)
	lp := discoverLevelPreds(p, fs)
	r.Extra("level_predicates", len(lp))
	if len(lp) < 5 {
		r.Fatal(fmt.Sprintf("only %d level predicates discovered (anchor lost)", len(lp)))
	}
	ruleLogFlowPure(p, r, fs, lp)
	ruleSetLog(p, r)
	r.Floor("LVL", 4)
	r.Floor("EVT", 10)
	r.Floor("LOGFLOW", 30)
	r.Floor("LOGPURE", 30)
}

// ---- PRINT ---------------------------------------------------------------------------------------

func printCallee(c *ssa.CallCommon) string {
	if b, ok := c.Value.(*ssa.Builtin); ok && (b.Name() == "print" || b.Name() == "println") {
		return "builtin " + b.Name()
	}
	sc := c.StaticCallee()
	if sc == nil {
		return ""
	}
	switch sc.String() {
	case "fmt.Print", "fmt.Printf", "fmt.Println", "log.Print", "log.Printf", "log.Println":
		return sc.String()
	}
	return ""
}

func stdStream(in ssa.Instruction) string {
	var ops []*ssa.Value
	for _, op := range in.Operands(ops) {
		if g, ok := (*op).(*ssa.Global); ok && g.Pkg != nil && g.Pkg.Pkg.Path() == "os" && (g.Name() == "Stdout" || g.Name() == "Stderr") {
			return "os." + g.Name()
		}
	}
	return ""
}

// falseFlagGuard: the block is dominated by the true edge of a load of a package-level bool whose initialiser is
// the constant false and which no library function stores to.
func falseFlagGuard(p *Prog, b *ssa.BasicBlock) string {
	for _, cd := range condsAt(b) {
		if !cd.True {
			continue
		}
		g := loadOfGlobal(cd.V)
		if g == nil || !isRepoPath(g.Pkg.Pkg.Path()) || !isBoolType(derefType(g.Type())) {
			continue
		}
		t := p.Tables()
		t.scan()
		v := t.varOf(g)
		if v == nil || t.storeOutsideInit[g] {
			continue
		}
		tv := t.Val(g)
		if tv == nil || tv.Expr == nil {
			continue
		}
		if id, ok := tv.Expr.(*ast.Ident); ok && id.Name == "false" {
			return globalName(g)
		}
	}
	return ""
}

func rulePrint(p *Prog, r *Report, fs []*ssa.Function) {
	n := 0
	for _, f := range fs {
		if isInitFn(f) {
			continue
		}
		eachInstr(f, func(b *ssa.BasicBlock, _ int, in ssa.Instruction) {
			what := ""
			if c, ok := in.(ssa.CallInstruction); ok {
				what = printCallee(c.Common())
			}
			if what == "" {
				what = stdStream(in)
			}
			if what == "" {
				return
			}
			n++
			key := fmt.Sprintf("%s | %s", fnName(f), what)
			at := p.posStr(instrPos(in))
			if flag := falseFlagGuard(p, b); flag != "" {
				r.OK("PRINT", key, at, "only under the package-level flag "+flag+" whose initial value is false and which the library never sets")
			} else {
				r.Bad("PRINT", key, at, "library code writes to standard output/error unconditionally: the default configuration is not silent")
			}
		})
	}
	// self-test of the matcher on the repository's own tools (package main, out of scope for the property)
	pos := 0
	for f := range p.AllFns() {
		if f.Blocks == nil || !isRepoFn(f) || isLibFn(f) {
			continue
		}
		eachInstr(f, func(_ *ssa.BasicBlock, _ int, in ssa.Instruction) {
			if c, ok := in.(ssa.CallInstruction); ok && printCallee(c.Common()) != "" {
				pos++
			}
		})
	}
	r.Extra("print_matcher_positive_examples_in_tools", pos)
	if pos == 0 {
		r.Fatal("PRINT matcher found no print call in the repository's command-line tools: the rule would pass vacuously")
	}
	r.OK("PRINT", "library | scan", "-", fmt.Sprintf("%d library functions scanned, %d print sites classified, matcher fired on %d sites of the tools", len(fs), n, pos))
}

// ---- LVL -----------------------------------------------------------------------------------------

func isZerologLogger(t types.Type) bool {
	n, ok := t.(*types.Named)
	return ok && n.Obj().Pkg() != nil && n.Obj().Pkg().Path() == zerologPath && n.Obj().Name() == "Logger"
}

var zerologLevel = map[string]int{"DebugLevel": 0, "InfoLevel": 1, "WarnLevel": 2, "ErrorLevel": 3, "FatalLevel": 4, "PanicLevel": 5, "NoLevel": 6, "Disabled": 7, "TraceLevel": -1}

func ruleLvl(p *Prog, r *Report) {
	for _, pk := range p.Lib {
		for _, f := range pk.Syntax {
			for _, d := range f.Decls {
				gd, ok := d.(*ast.GenDecl)
				if !ok || gd.Tok != token.VAR {
					continue
				}
				for _, sp := range gd.Specs {
					vs := sp.(*ast.ValueSpec)
					for i, nm := range vs.Names {
						obj, _ := pk.TypesInfo.Defs[nm].(*types.Var)
						if obj == nil || !isZerologLogger(obj.Type()) {
							continue
						}
						key := relPkg(pk.PkgPath) + "." + nm.Name + " | default level"
						at := p.posStr(nm.Pos())
						if i >= len(vs.Values) {
							r.Bad("LVL", key, at, "package-level logger without initialiser: the zero Logger writes nothing but a later assignment decides; not the documented PanicLevel default")
							continue
						}
						lvl, found := -100, false
						ast.Inspect(vs.Values[i], func(n ast.Node) bool {
							ce, ok := n.(*ast.CallExpr)
							if !ok {
								return true
							}
							se, ok := ce.Fun.(*ast.SelectorExpr)
							if !ok || se.Sel.Name != "Level" || len(ce.Args) != 1 {
								return true
							}
							if as, ok := ce.Args[0].(*ast.SelectorExpr); ok {
								if l, ok := zerologLevel[as.Sel.Name]; ok {
									// the outermost Level call wins (it is visited first)
									if !found {
										lvl, found = l, true
									}
								}
							}
							return true
						})
						switch {
						case !found:
							r.Bad("LVL", key, at, "logger initialiser sets no level: zerolog's default is debug and the console writer prints to standard output")
						case lvl < 5:
							r.Bad("LVL", key, at, fmt.Sprintf("default level %d lets events below PanicLevel through: the default configuration is not silent", lvl))
						default:
							r.OK("LVL", key, at, "initialised with PanicLevel or stricter")
						}
					}
				}
			}
		}
	}
}

// ---- EVT -----------------------------------------------------------------------------------------

func ruleEvt(p *Prog, r *Report, fs []*ssa.Function) {
	allowed := map[string]bool{"Trace": true, "Debug": true, "Info": true, "Warn": true, "Error": true, "Err": true}
	for _, f := range fs {
		initf := isInitFn(f)
		eachCall(f, func(site ssa.CallInstruction) {
			c := site.Common()
			sc := c.StaticCallee()
			if sc == nil || sc.Pkg == nil {
				return
			}
			at := p.posStr(instrPos(site))
			if sc.Pkg.Pkg.Path() == zerologPath+"/log" {
				if sc.Name() == "init" || (initf && sc.Name() == "Output") {
					return
				}
				if sc.Name() == "Output" {
					// SetLogger builds the caller's logger from the caller's writer and level: configuration, not an event
					r.OK("EVT", fnName(f)+" | zerolog/log.Output", at, "builds a logger from the caller's writer (configuration)")
					return
				}
				r.Bad("EVT", fmt.Sprintf("%s | zerolog/log.%s", fnName(f), sc.Name()), at, "library code uses the global zerolog logger (debug level, standard error): not silent by default")
				return
			}
			if sc.Pkg.Pkg.Path() != zerologPath || sc.Signature.Recv() == nil {
				return
			}
			rt := sc.Signature.Recv().Type()
			if pt, ok := rt.(*types.Pointer); ok {
				rt = pt.Elem()
			}
			if !isZerologLogger(rt) {
				return
			}
			res := sc.Signature.Results()
			if res.Len() != 1 || !strings.HasSuffix(res.At(0).Type().String(), "zerolog.Event") {
				return
			}
			key := fmt.Sprintf("%s | Logger.%s", fnName(f), sc.Name())
			switch {
			case allowed[sc.Name()]:
				r.OK("EVT", key, at, "event below PanicLevel: filtered by the default configuration")
			case sc.Name() == "WithLevel":
				k, ok := constInt(c.Args[len(c.Args)-1])
				if ok && (k >= -1 && k <= 3) {
					r.OK("EVT", key+fmt.Sprintf("(%d)", k), at, "constant level below FatalLevel")
				} else if ok {
					r.Bad("EVT", key+fmt.Sprintf("(%d)", k), at, "event at Fatal/Panic/NoLevel passes the default PanicLevel filter (and Fatal/Panic end the process or panic)")
				} else {
					r.Bad("EVT", key, at, "event level is not a constant: it may pass the default filter")
				}
			default:
				r.Bad("EVT", key, at, "Logger."+sc.Name()+"() creates an event the default PanicLevel filter lets through (Log: no level; Panic/Fatal: also abort): the library writes to standard output with the default configuration")
			}
		})
	}
}

// ---- level predicates, LOGFLOW, LOGPURE --------------------------------------------------------------

// isGetLevelCmp: v = X.GetLevel() <op> const
func isGetLevelCmp(v ssa.Value) bool {
	bo, ok := v.(*ssa.BinOp)
	if !ok {
		return false
	}
	for _, o := range []ssa.Value{bo.X, bo.Y} {
		if c, ok := o.(*ssa.Call); ok {
			if sc := c.Call.StaticCallee(); sc != nil && sc.Name() == "GetLevel" && sc.Pkg != nil && sc.Pkg.Pkg.Path() == zerologPath {
				return true
			}
		}
	}
	return false
}

// discoverLevelPreds: functions returning a bool that is a comparison of GetLevel() with a constant (possibly
// through another level predicate).
func discoverLevelPreds(p *Prog, fs []*ssa.Function) map[*ssa.Function]bool {
	out := map[*ssa.Function]bool{}
	for changed := true; changed; {
		changed = false
		for _, f := range fs {
			if out[f] || f.Signature.Results().Len() != 1 || !isBoolType(f.Signature.Results().At(0).Type()) {
				continue
			}
			all, any := true, false
			eachInstr(f, func(_ *ssa.BasicBlock, _ int, in ssa.Instruction) {
				ret, ok := in.(*ssa.Return)
				if !ok {
					return
				}
				v := ret.Results[0]
				if isGetLevelCmp(v) {
					any = true
					return
				}
				if c, ok := v.(*ssa.Call); ok {
					if sc := c.Call.StaticCallee(); sc != nil && out[sc] {
						any = true
						return
					}
				}
				all = false
			})
			if all && any {
				out[f] = true
				changed = true
			}
		}
	}
	return out
}

func isLevelCond(v ssa.Value, lp map[*ssa.Function]bool) bool {
	if isGetLevelCmp(v) {
		return true
	}
	if c, ok := v.(*ssa.Call); ok {
		if sc := c.Call.StaticCallee(); sc != nil {
			if lp[sc] {
				return true
			}
			// (*zerolog.Event).Enabled()
			if sc.Name() == "Enabled" && sc.Pkg != nil && sc.Pkg.Pkg.Path() == zerologPath {
				return true
			}
		}
	}
	if u, ok := v.(*ssa.UnOp); ok && u.Op == token.NOT {
		return isLevelCond(u.X, lp)
	}
	return false
}

// region: the blocks dominated by succ (which has the If block as its only predecessor).
func dominatedRegion(succ *ssa.BasicBlock) map[*ssa.BasicBlock]bool {
	out := map[*ssa.BasicBlock]bool{}
	for _, b := range succ.Parent().Blocks {
		if succ.Dominates(b) {
			out[b] = true
		}
	}
	return out
}

func isZerologType(t types.Type) bool {
	s := t.String()
	return strings.Contains(s, zerologPath+".")
}

func ruleLogFlowPure(p *Prog, r *Report, fs []*ssa.Function, lp map[*ssa.Function]bool) {
	e := p.E3()
	eff := p.Effects()
	// level-only functions: MarshalZerolog* methods, and functions all of whose callers are in level regions or level-only
	levelOnly := map[*ssa.Function]bool{}
	for _, f := range fs {
		if strings.HasPrefix(f.Name(), "MarshalZerolog") {
			levelOnly[f] = true
		}
	}
	type regionT struct {
		f      *ssa.Function
		ifb    *ssa.BasicBlock
		blocks map[*ssa.BasicBlock]bool
		join   *ssa.BasicBlock
	}
	var regions []regionT
	inRegion := map[*ssa.BasicBlock]bool{}
	for _, f := range fs {
		if lp[f] {
			continue
		}
		for _, b := range f.Blocks {
			if len(b.Instrs) == 0 {
				continue
			}
			ifi, ok := b.Instrs[len(b.Instrs)-1].(*ssa.If)
			if !ok || !isLevelCond(ifi.Cond, lp) {
				continue
			}
			key := fmt.Sprintf("%s | level test %s", fnName(f), shortVal(ifi.Cond))
			at := p.posStr(instrPos(ifi))
			// which successor is the logging side? the one with b as its only predecessor and which rejoins the other
			t, fl := b.Succs[0], b.Succs[1]
			var side, other *ssa.BasicBlock
			if len(t.Preds) == 1 && reaches(t, fl, b) {
				side, other = t, fl
			} else if len(fl.Preds) == 1 && reaches(fl, t, b) {
				side, other = fl, t
			} else {
				// both successors are proper branches: a level test decides between two continuations
				r.Bad("LOGFLOW", key, at, "a log-level test selects between two different continuations (neither branch is a side branch that rejoins the other): control flow depends on the configured level")
				continue
			}
			reg := map[*ssa.BasicBlock]bool{}
			// region = blocks reachable from side without passing other
			var st []*ssa.BasicBlock
			st = append(st, side)
			reg[side] = true
			bad := ""
			for len(st) > 0 {
				x := st[len(st)-1]
				st = st[:len(st)-1]
				if len(x.Instrs) > 0 {
					switch x.Instrs[len(x.Instrs)-1].(type) {
					case *ssa.Return:
						bad = "returns from inside the level-dependent branch"
					case *ssa.Panic:
						bad = "panics inside the level-dependent branch"
					}
				}
				for _, s := range x.Succs {
					if s == other || reg[s] {
						continue
					}
					if !side.Dominates(s) {
						bad = fmt.Sprintf("leaves the level-dependent branch to a block other than the one taken when logging is off (continue/break/goto at %s)", p.posStr(instrPos(x.Instrs[len(x.Instrs)-1])))
						continue
					}
					reg[s] = true
					st = append(st, s)
				}
			}
			// phis at the join must not distinguish the two paths
			for _, in := range other.Instrs {
				phi, ok := in.(*ssa.Phi)
				if !ok {
					break
				}
				var vals []ssa.Value
				for i, pr := range other.Preds {
					if pr == b || reg[pr] {
						vals = append(vals, phi.Edges[i])
					}
				}
				for _, v := range vals[1:] {
					if v != vals[0] && !sameConst(v, vals[0]) {
						bad = "a value (" + phi.Comment + ") differs depending on whether the level-dependent branch ran"
					}
				}
			}
			if bad != "" {
				r.Bad("LOGFLOW", key, at, "the result of a log-level test changes what the function does: "+bad)
			} else {
				r.OK("LOGFLOW", key, at, "guards a side branch that rejoins the path taken when logging is off; no value differs at the join")
			}
			regions = append(regions, regionT{f, b, reg, other})
			for x := range reg {
				inRegion[x] = true
			}
		}
	}
	// functions called only from level regions / level-only functions
	for changed := true; changed; {
		changed = false
		for _, f := range fs {
			if levelOnly[f] || lp[f] || f.Parent() != nil {
				continue
			}
			callers := p.Callers(f)
			if len(callers) == 0 {
				continue
			}
			all := true
			for _, cs := range callers {
				cf := cs.Parent()
				if !isLibFn(cf) {
					// called from zerolog (Object(...) → MarshalZerologObject) is fine; from elsewhere is not level-only
					if cf.Pkg != nil && strings.HasPrefix(cf.Pkg.Pkg.Path(), zerologPath) {
						continue
					}
					all = false
					break
				}
				if !(levelOnly[cf] || inRegion[cs.Block()]) {
					all = false
					break
				}
			}
			if all && isLibFn(f) && !ast.IsExported(f.Name()) {
				levelOnly[f] = true
				changed = true
			}
		}
	}
	var lo []string
	for f := range levelOnly {
		lo = append(lo, fnName(f))
	}
	sort.Strings(lo)
	r.Extra("level_only_functions", lo)
	r.Extra("level_regions", len(regions))

	// logPure: a library function whose every instruction passes checkInstr (zerolog trusted): "" or the reason
	pureMemo := map[*ssa.Function]string{}
	pureBusy := map[*ssa.Function]bool{}
	var checkInstr func(f *ssa.Function, in ssa.Instruction, where string) (string, bool)
	var logPure func(g *ssa.Function, depth int) string
	logPure = func(g *ssa.Function, depth int) string {
		if v, ok := pureMemo[g]; ok {
			return v
		}
		if pureBusy[g] || depth > 8 {
			return ""
		}
		pureBusy[g] = true
		why := ""
		eachInstr(g, func(_ *ssa.BasicBlock, _ int, in ssa.Instruction) {
			if why != "" {
				return
			}
			if st, ok := in.(*ssa.Store); ok {
				// stores through a zerolog-typed or local address are fine; a store through a parameter is an effect
				if localAddr(st.Addr) {
					return
				}
			}
			if k, ok := checkInstr(g, in, fnName(g)); !ok {
				why = k
			}
		})
		delete(pureBusy, g)
		pureMemo[g] = why
		return why
	}
	checkInstr = func(f *ssa.Function, in ssa.Instruction, where string) (string, bool) {
		switch x := in.(type) {
		case *ssa.Store:
			if !localAddr(x.Addr) {
				return fmt.Sprintf("%s | store to %s", where, shortVal(x.Addr)), false
			}
		case *ssa.MapUpdate:
			return fmt.Sprintf("%s | map update", where), false
		case *ssa.Send, *ssa.Go:
			return fmt.Sprintf("%s | %T", where, in), false
		case ssa.CallInstruction:
			c := x.Common()
			if _, ok := c.Value.(*ssa.Builtin); ok {
				b := c.Value.(*ssa.Builtin)
				if b.Name() == "copy" || b.Name() == "delete" {
					return fmt.Sprintf("%s | builtin %s", where, b.Name()), false
				}
				return "", true
			}
			for _, g := range p.Callees(x) {
				if g.Pkg != nil && strings.HasPrefix(g.Pkg.Pkg.Path(), zerologPath) {
					continue // trusted
				}
				if isLibFn(g) && g.Blocks != nil {
					if why := logPure(g, 0); why != "" {
						return fmt.Sprintf("%s | call %s", where, shortCallee(c)) + " (" + why + ")", false
					}
					continue
				}
				if g.Pkg != nil && (g.Pkg.Pkg.Path() == "runtime" || g.Pkg.Pkg.Path() == "fmt" || g.Pkg.Pkg.Path() == "strconv" || g.Pkg.Pkg.Path() == "github.com/pkg/errors" || g.Pkg.Pkg.Path() == "errors") {
					continue // formatting helpers: allocate, do not touch library state
				}
				ef := eff.Of(g)
				if ef == nil {
					return fmt.Sprintf("%s | call %s (no effect summary)", where, shortCallee(c)), false
				}
				impure := ef.WOther || len(ef.WGlobals) > 0
				args := callArgs(c)
				for pi, bits := range ef.WParams {
					if bits == 0 || pi >= len(args) {
						continue
					}
					if isZerologType(args[pi].Type()) || localAddr(args[pi]) {
						continue
					}
					impure = true
				}
				if impure {
					return fmt.Sprintf("%s | call %s", where, shortCallee(c)), false
				}
			}
		}
		return "", true
	}
	bndIn := func(f *ssa.Function, blocks map[*ssa.BasicBlock]bool, where string) {
		fb := e.fnB(f)
		for _, ob := range fb.obs {
			if blocks != nil && !blocks[ob.In.Block()] {
				continue
			}
			key := where + " | " + ob.Key
			at := p.posStr(instrPos(ob.In))
			if ob.OK {
				r.OK("LOGPURE", key, at, ob.By+" (no recover credit: a panic at a verbose level is a changed result)")
			} else {
				r.Bad("LOGPURE", key, at, "in level-dependent code: "+ob.Detail+" — the configured level decides whether this decode panics")
			}
		}
	}
	for _, rg := range regions {
		where := fmt.Sprintf("%s | region of %s", fnName(rg.f), shortVal(rg.ifb.Instrs[len(rg.ifb.Instrs)-1].(*ssa.If).Cond))
		okAll := true
		for b := range rg.blocks {
			for _, in := range b.Instrs {
				if k, ok := checkInstr(rg.f, in, where); !ok {
					okAll = false
					r.Bad("LOGPURE", k, p.posStr(instrPos(in)), "level-dependent code has an effect beyond the log event: with a verbose level the decode itself behaves differently")
				}
			}
		}
		if okAll {
			r.OK("LOGPURE", where+" | effects", p.posStr(instrPos(rg.ifb.Instrs[len(rg.ifb.Instrs)-1])), "no store outside locals, no impure call")
		}
		bndIn(rg.f, rg.blocks, where)
	}
	// library functions called (transitively) from level-dependent code run only when logging is enabled at that
	// site, whoever else may call them: a panic in one of them is a result that depends on the level.
	calledInLog := map[*ssa.Function]bool{}
	var walkCalls func(in ssa.Instruction, depth int)
	walkCalls = func(in ssa.Instruction, depth int) {
		ci, ok := in.(ssa.CallInstruction)
		if !ok || depth > 8 {
			return
		}
		mark := func(g *ssa.Function) {
			if !isLibFn(g) || g.Blocks == nil || calledInLog[g] || levelOnly[g] || lp[g] {
				return
			}
			calledInLog[g] = true
			eachInstr(g, func(_ *ssa.BasicBlock, _ int, in2 ssa.Instruction) { walkCalls(in2, depth+1) })
		}
		for _, g := range p.Callees(ci) {
			mark(g)
		}
		// values boxed for the logger (Stringer("type", t.Type), Object("box", b), Msgf("%s", v)): zerolog / fmt call
		// their String / MarshalZerolog* methods only when the event is enabled
		if sc := ci.Common().StaticCallee(); sc != nil && sc.Pkg != nil && (strings.HasPrefix(sc.Pkg.Pkg.Path(), zerologPath) || sc.Pkg.Pkg.Path() == "fmt") {
			for _, a := range ci.Common().Args {
				for _, m := range boxedStringers(p, a, 0) {
					mark(m)
				}
			}
		}
	}
	for _, rg := range regions {
		for b := range rg.blocks {
			for _, in := range b.Instrs {
				walkCalls(in, 0)
			}
		}
	}
	for f := range levelOnly {
		eachInstr(f, func(_ *ssa.BasicBlock, _ int, in ssa.Instruction) { walkCalls(in, 0) })
	}
	var cil []*ssa.Function
	for g := range calledInLog {
		cil = append(cil, g)
	}
	sort.Slice(cil, func(i, j int) bool { return fnName(cil[i]) < fnName(cil[j]) })
	var ciln []string
	for _, g := range cil {
		ciln = append(ciln, fnName(g))
		bndIn(g, nil, fnName(g)+" | called from level-dependent code")
	}
	r.Extra("called_from_level_dependent_code", ciln)
	for f := range levelOnly {
		where := fnName(f) + " | level-only function"
		okAll := true
		eachInstr(f, func(_ *ssa.BasicBlock, _ int, in ssa.Instruction) {
			if k, ok := checkInstr(f, in, where); !ok {
				okAll = false
				r.Bad("LOGPURE", k, p.posStr(instrPos(in)), "a function that only runs when logging is enabled has an effect beyond the log event")
			}
		})
		if okAll {
			r.OK("LOGPURE", where+" | effects", p.posStr(f.Pos()), "no store outside locals and the event, no impure call")
		}
		bndIn(f, nil, where)
	}
}

func sameConst(a, b ssa.Value) bool {
	ca, ok1 := a.(*ssa.Const)
	cb, ok2 := b.(*ssa.Const)
	if !ok1 || !ok2 {
		return false
	}
	if ca.Value == nil || cb.Value == nil {
		return ca.Value == nil && cb.Value == nil && types.Identical(ca.Type(), cb.Type())
	}
	return ca.Value.ExactString() == cb.Value.ExactString()
}

// reaches: from can reach to without passing through avoid.
func reaches(from, to, avoid *ssa.BasicBlock) bool {
	seen := map[*ssa.BasicBlock]bool{from: true}
	st := []*ssa.BasicBlock{from}
	for len(st) > 0 {
		x := st[len(st)-1]
		st = st[:len(st)-1]
		if x == to {
			return true
		}
		for _, s := range x.Succs {
			if !seen[s] && s != avoid {
				seen[s] = true
				st = append(st, s)
			}
		}
	}
	return false
}

// localAddr: the address is (a field/element of) a local allocation of this function.
func localAddr(v ssa.Value) bool {
	for i := 0; i < 20; i++ {
		switch x := v.(type) {
		case *ssa.Alloc:
			return true
		case *ssa.FieldAddr:
			v = x.X
		case *ssa.IndexAddr:
			v = x.X
		case *ssa.MakeInterface:
			v = x.X
		case *ssa.Slice:
			v = x.X
		case *ssa.ChangeType:
			v = x.X
		default:
			return false
		}
	}
	return false
}

// ---- SETLOG --------------------------------------------------------------------------------------

func ruleSetLog(p *Prog, r *Report) {
	f := p.Func("", "", "SetLogger")
	if f == nil {
		r.Note("SETLOG: imagemeta.SetLogger not found")
		return
	}
	set := map[string]bool{}
	eachInstr(f, func(_ *ssa.BasicBlock, _ int, in ssa.Instruction) {
		if st, ok := in.(*ssa.Store); ok {
			if g, ok := st.Addr.(*ssa.Global); ok {
				set[globalName(g)] = true
			}
		}
	})
	var missing []string
	for _, pk := range p.Lib {
		sp := p.SSA.Package(pk.Types)
		if sp == nil {
			continue
		}
		for name, mem := range sp.Members {
			g, ok := mem.(*ssa.Global)
			if !ok || !ast.IsExported(name) || !isZerologLogger(derefType(g.Type())) {
				continue
			}
			if !set[globalName(g)] {
				missing = append(missing, globalName(g))
			}
		}
	}
	sort.Strings(missing)
	if len(missing) > 0 {
		r.Note("SETLOG (warning, not part of the property): SetLogger does not assign %s", strings.Join(missing, ", "))
	}
}
