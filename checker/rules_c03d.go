package main

import (
	"fmt"
	"go/token"
	"go/types"

	"golang.org/x/tools/go/ssa"
)

// ERRUSE (C03): bytes that came back together with an error are not a value.
//
// Every reading helper of the Exif decoder returns ([]byte, error); with an error the slice is whatever the
// reader happened to have - the first buffer-full of a value longer than the look-ahead window, or the part of a
// value that precedes the end of a truncated stream. A parser that turns those bytes into a field reports a value
// that is not the one encoded, and gives no sign of it. Obligation per call, in package exif2, of a library function
// with results ([]byte, error): every use of the byte slice lies where `err == nil` for the error of that same
// call holds (the false edge of `err != nil`, or the true edge of `err == nil`), or is a return that hands both
// results on together. A call whose error result is never looked at fails outright when the bytes are used.
func ruleErrUse(p *Prog, r *Report) {
	r.Explain("ERRUSE: in package exif2, for every call of a library function with results ([]byte, error), each use of the byte slice is dominated by the test that the error of that call is nil, or is a return statement that returns the error of that call with it; a call whose error is discarded may not use the bytes at all. Bytes returned with an error are a prefix of a value longer than the look-ahead buffer, or of a truncated stream - not the value.")
	pk := p.SSAPkg("exif2")
	if pk == nil {
		r.Fatal("unresolved anchor: package exif2")
		return
	}
	for _, f := range p.AllLibFns() {
		g := f
		for g.Parent() != nil {
			g = g.Parent()
		}
		if g.Pkg != pk || f.Blocks == nil {
			continue
		}
		nth := map[string]int{}
		eachInstr(f, func(_ *ssa.BasicBlock, _ int, in ssa.Instruction) {
			c, ok := in.(*ssa.Call)
			if !ok {
				return
			}
			tp, ok := c.Type().(*types.Tuple)
			if !ok || tp.Len() != 2 || typeStr(tp.At(0).Type()) != "[]byte" || !isErrorType(tp.At(1).Type()) {
				return
			}
			sc := c.Call.StaticCallee()
			if sc == nil || !isRepoFn(sc) {
				return
			}
			nm := fnName(sc)
			nth[nm]++
			key := fmt.Sprintf("%s | bytes of %s #%d used only when its error is nil", fnName(f), nm, nth[nm])
			at := p.posStr(c.Pos())
			bufV, errV := tupleExtract(c, 0), tupleExtract(c, 1)
			if bufV == nil {
				r.OK("ERRUSE", key, at, "the bytes are not used")
				return
			}
			bad := ""
			uses := 0
			var visit func(v ssa.Value, depth int)
			seen := map[ssa.Value]bool{}
			visit = func(v ssa.Value, depth int) {
				if depth > 4 || seen[v] || bad != "" {
					return
				}
				seen[v] = true
				for _, u := range refs(v) {
					switch x := u.(type) {
					case *ssa.DebugRef:
						continue
					case *ssa.Return:
						withErr := false
						for _, rv := range x.Results {
							if errV != nil && rv == ssa.Value(errV) {
								withErr = true
							}
						}
						if withErr {
							uses++
							continue
						}
					case *ssa.Phi:
						// a merge with other definitions: judge the uses of the merged value where they occur
						if errV != nil && errNilAt(x.Block(), errV) {
							uses++
							continue
						}
					case *ssa.Store:
						// spilled named result: followed through its loads
						if a, ok := x.Addr.(*ssa.Alloc); ok && x.Val == v {
							okAll := true
							for _, rf := range refs(a) {
								if ld, isLd := rf.(*ssa.UnOp); isLd && ld.Op == token.MUL {
									if errV == nil || !errNilAt(ld.Block(), errV) {
										// a load feeding only a return together with the (spilled) error is the hand-on idiom
										if !onlyReturned(ld) {
											okAll = false
										}
									}
								}
							}
							if okAll {
								uses++
								continue
							}
						}
					}
					uses++
					if errV == nil {
						bad = fmt.Sprintf("the error of the call is discarded and the bytes are used at %s", p.posStr(instrPos(u)))
						return
					}
					if !errNilAt(u.Block(), errV) {
						bad = fmt.Sprintf("the bytes are used at %s, where the error of the call has not been tested (or is non-nil)", p.posStr(instrPos(u)))
						return
					}
				}
			}
			visit(bufV, 0)
			if bad != "" {
				r.Bad("ERRUSE", key, at, bad+": bytes that come with an error are a prefix of the value (a value longer than the look-ahead buffer, a truncated stream) and would be reported as the field")
			} else {
				r.OK("ERRUSE", key, at, fmt.Sprintf("%d use(s), each under err == nil or handed on with the error", uses))
			}
		})
	}
}

// errNilAt: on entry to b the error value errV is known to be nil.
func errNilAt(b *ssa.BasicBlock, errV ssa.Value) bool {
	for _, c := range condsAt(b) {
		bo, ok := c.V.(*ssa.BinOp)
		if !ok {
			continue
		}
		var other ssa.Value
		if isNilConst(bo.Y) {
			other = bo.X
		} else if isNilConst(bo.X) {
			other = bo.Y
		} else {
			continue
		}
		if other != errV {
			continue
		}
		if (bo.Op == token.NEQ && !c.True) || (bo.Op == token.EQL && c.True) {
			return true
		}
	}
	return false
}

// onlyReturned: every use of v is a return.
func onlyReturned(v ssa.Value) bool {
	n := 0
	for _, u := range refs(v) {
		switch u.(type) {
		case *ssa.DebugRef:
		case *ssa.Return:
			n++
		default:
			return false
		}
	}
	return n > 0
}

// SCAN0 (C03): a backward scan over a value looks at its first byte too.
//
// Instances: every loop in package exif2 whose induction variable starts at len(s)-1 for a byte-slice s, steps by
// -1 and indexes s with the variable itself. The loop condition must admit the value 0 (`i >= 0`, `i > -1`):
// with `i > 0` the first byte is never examined, and a function that returns the prefix ending at the last byte it
// kept - the trailing-NUL trim every ASCII field passes through - answers "empty" for a one-character value.
func ruleScan0(p *Prog, r *Report) {
	r.Explain("SCAN0: every loop of package exif2 that runs an index from len(s)-1 downwards by one and indexes the byte slice s with it continues while the index is >= 0, so that the first byte is examined: the trailing-NUL trim that all ASCII fields pass through otherwise returns nothing for a one-character value.")
	pk := p.SSAPkg("exif2")
	if pk == nil {
		r.Fatal("unresolved anchor: package exif2")
		return
	}
	n := 0
	for _, f := range p.AllLibFns() {
		g := f
		for g.Parent() != nil {
			g = g.Parent()
		}
		if g.Pkg != pk || f.Blocks == nil {
			continue
		}
		for _, b := range f.Blocks {
			for _, in := range b.Instrs {
				ph, ok := in.(*ssa.Phi)
				if !ok {
					break
				}
				ind, ok := inductionOf(ph)
				if !ok || ind.Step != -1 || ind.Init == nil || ind.Init.C != -1 || len(ind.Init.Terms) != 1 {
					continue
				}
				// init = len(s) - 1
				var s ssa.Value
				for v, co := range ind.Init.Terms {
					if c, ok := v.(*ssa.Call); ok && co == 1 {
						if bi, ok := c.Call.Value.(*ssa.Builtin); ok && bi.Name() == "len" && len(c.Call.Args) == 1 {
							s = c.Call.Args[0]
						}
					}
				}
				if s == nil || typeStr(s.Type()) != "[]byte" {
					continue
				}
				// s is indexed with the variable itself
				indexed := false
				for _, rf := range refs(ph) {
					if ia, ok := rf.(*ssa.IndexAddr); ok && ia.X == s && ia.Index == ssa.Value(ph) {
						indexed = true
					}
				}
				if !indexed {
					continue
				}
				n++
				key := fmt.Sprintf("%s | backward scan over %s reaches index 0", fnName(f), shortVal(s))
				at := p.posStr(ph.Pos())
				if ind.Bound == nil {
					r.Undecided("SCAN0", key, at, "loop condition not recognised")
					continue
				}
				bd, isC := ind.Bound.isConst()
				k := int64(0)
				if ind.CmpOn != nil {
					k = ind.CmpOn.C
				}
				// the loop continues while phi + k  Op  bd
				okLow := false
				switch ind.Op {
				case token.GEQ:
					okLow = isC && bd-k <= 0
				case token.GTR:
					okLow = isC && bd-k <= -1
				case token.NEQ:
					okLow = isC && bd-k == -1
				}
				if okLow {
					r.OK("SCAN0", key, at, "the loop condition admits index 0")
				} else {
					r.Bad("SCAN0", key, at, fmt.Sprintf("the loop continues only while the index is %s %d: the first byte of the value is never examined, so a value whose only kept byte is the first one (a one-character string) is answered as if it were empty", ind.Op, bd-k))
				}
			}
		}
	}
	if n == 0 {
		r.Undecided("SCAN0", "exif2 | backward scans", "-", "no backward scan over a byte slice found (anchor lost)")
	}
}

// SUBSEC (C03): SubSecTime holds the decimal digits of the fraction of a second - "5" is half a second, "45" is
// 450 ms, "123456" is 123.456 ms - so its value in milliseconds depends on how many digits there are.
//
// Obligation per return value of exif2.(*ifdReader).ParseSubSecTime (through conversions and phis): a constant is
// fine; a number scaled by a constant (x/1000, x*10) cannot be right for two digit counts; the result of a library
// function of the digits alone is folded on a fixed set of digit strings and must give the milliseconds the Exif
// specification assigns to them.
func ruleSubSec(p *Prog, r *Report) {
	r.Explain("SUBSEC: every value ParseSubSecTime returns is a constant or the result of a library function of the digit string that, folded on the strings 5, 45, 05, 00, 123, 1234, 123456, 999999, 7 followed by three NUL bytes and 12 followed by a blank, gives 500, 450, 50, 0, 123, 123, 123, 999, 700 and 120 milliseconds - the first three fraction digits, scaled up when there are fewer. A parsed number divided or multiplied by a constant is refused: it is right for one digit count only.")
	f := p.Func("exif2", "*ifdReader", "ParseSubSecTime")
	key := "exif2.(*ifdReader).ParseSubSecTime | milliseconds follow the number of digits"
	if f == nil {
		r.Undecided("SUBSEC", key, "-", "unresolved anchor")
		return
	}
	vectors := []struct {
		in   string
		want int64
	}{{"5", 500}, {"45", 450}, {"05", 50}, {"00", 0}, {"123", 123}, {"1234", 123}, {"123456", 123}, {"999999", 999}, {"7\x00\x00\x00", 700}, {"12 ", 120}}
	fd := &folder{p: p}
	bad, und := "", ""
	nret := 0
	var judge func(v ssa.Value, depth int, at string)
	judge = func(v ssa.Value, depth int, at string) {
		if depth > 6 || bad != "" {
			return
		}
		switch x := v.(type) {
		case *ssa.Const:
			return
		case *ssa.Convert:
			judge(x.X, depth+1, at)
		case *ssa.ChangeType:
			judge(x.X, depth+1, at)
		case *ssa.Phi:
			for _, e := range x.Edges {
				judge(e, depth+1, at)
			}
		case *ssa.BinOp:
			_, cx := x.X.(*ssa.Const)
			_, cy := x.Y.(*ssa.Const)
			if cx || cy {
				bad = fmt.Sprintf("the value returned at %s is a parsed number %s a constant: \"5\" (half a second), \"45\" and \"1234\" cannot all come out right under one scale", at, map[token.Token]string{token.QUO: "divided by", token.MUL: "multiplied by"}[x.Op])
				if x.Op != token.QUO && x.Op != token.MUL {
					bad = fmt.Sprintf("the value returned at %s is computed with the constant operation %s on a parsed number", at, x.Op)
				}
				return
			}
			und = "return value computed by " + shortVal(v)
		case *ssa.Call:
			sc := x.Call.StaticCallee()
			if sc == nil || !isRepoFn(sc) || sc.Blocks == nil {
				und = "return value is the result of " + shortCallee(&x.Call)
				return
			}
			if len(sc.Params) != 1 || typeStr(sc.Params[0].Type()) != "[]byte" {
				und = "return value is the result of " + fnName(sc) + ", which is not a function of the digits alone"
				return
			}
			for _, tv := range vectors {
				fr := fd.fold(sc, []cval{{kind: "bytes", s: tv.in}})
				if fr.panics != "" {
					bad = fmt.Sprintf("%s panics on the digits %q: %s", fnName(sc), tv.in, fr.panics)
					return
				}
				if fr.undecided != "" {
					und = fnName(sc) + " not foldable: " + fr.undecided
					return
				}
				if fr.val.kind != "int" || fr.val.i != tv.want {
					bad = fmt.Sprintf("the value returned at %s is %s of the digits: for %q it gives %s, the fraction is %d ms", at, fnName(sc), tv.in, fr.val, tv.want)
					return
				}
			}
		default:
			und = "return value of unknown origin: " + shortVal(v)
		}
	}
	eachInstr(f, func(_ *ssa.BasicBlock, _ int, in ssa.Instruction) {
		if rt, ok := in.(*ssa.Return); ok && len(rt.Results) == 1 {
			nret++
			judge(rt.Results[0], 0, p.posStr(rt.Pos()))
		}
	})
	switch {
	case bad != "":
		r.Bad("SUBSEC", key, p.posStr(f.Pos()), bad)
	case und != "":
		r.Undecided("SUBSEC", key, p.posStr(f.Pos()), und)
	default:
		r.OK("SUBSEC", key, p.posStr(f.Pos()), fmt.Sprintf("%d return statements: constants, or a function of the digits that gives the specified milliseconds on %d digit strings", nret, len(vectors)))
	}
}

// ENTRYERR (C03): an entry that cannot be decoded costs that entry only.
//
// The directory reader skips an entry whose header tagFromBuffer refuses (an unknown TIFF type) and goes on: an
// unrelated tag must not perturb the result. The error of that call therefore may not reach any return of the
// function - through the named result it was assigned to, a phi or a local - or the directory (and for IFD0 the whole
// block) is given up because its last entry was of an unknown type.
func ruleEntryErr(p *Prog, r *Report) {
	r.Explain("ENTRYERR: in the function of package exif2 that decodes directory entries with tagFromBuffer, the error of that call reaches no return statement (through phis, named results or locals): a refused entry is skipped, the directory is not.")
	pk := p.SSAPkg("exif2")
	if pk == nil {
		r.Fatal("unresolved anchor: package exif2")
		return
	}
	n := 0
	for _, f := range p.AllLibFns() {
		if f.Pkg != pk || f.Blocks == nil {
			continue
		}
		eachInstr(f, func(_ *ssa.BasicBlock, _ int, in ssa.Instruction) {
			c, ok := in.(*ssa.Call)
			if !ok {
				return
			}
			sc := c.Call.StaticCallee()
			if sc == nil || sc.Name() != "tagFromBuffer" {
				return
			}
			errV := tupleExtract(c, 1)
			n++
			key := fnName(f) + " | the error of tagFromBuffer reaches no return"
			at := p.posStr(c.Pos())
			if errV == nil {
				r.OK("ENTRYERR", key, at, "the error is not used as a value")
				return
			}
			carry := map[ssa.Value]bool{errV: true}
			cells := map[ssa.Value]bool{}
			for ch := true; ch; {
				ch = false
				eachInstr(f, func(_ *ssa.BasicBlock, _ int, in2 ssa.Instruction) {
					switch x := in2.(type) {
					case *ssa.Phi:
						if !carry[x] {
							for _, e := range x.Edges {
								if carry[e] {
									carry[x], ch = true, true
								}
							}
						}
					case *ssa.Store:
						if carry[x.Val] && !cells[x.Addr] {
							cells[x.Addr], ch = true, true
						}
					case *ssa.UnOp:
						if x.Op == token.MUL && cells[x.X] && !carry[x] {
							carry[x], ch = true, true
						}
					}
				})
			}
			bad := ""
			eachInstr(f, func(b *ssa.BasicBlock, _ int, in2 ssa.Instruction) {
				rt, ok := in2.(*ssa.Return)
				if !ok || bad != "" {
					return
				}
				for _, rv := range rt.Results {
					if carry[rv] && !errNilAt(b, rv) {
						bad = fmt.Sprintf("the return at %s can hand back the error of an entry that was skipped (%s): when the last entry of a directory has an unknown type the directory is given up, and with IFD0 every field of the block", p.posStr(rt.Pos()), shortVal(rv))
					}
				}
			})
			if bad != "" {
				r.Bad("ENTRYERR", key, at, bad)
			} else {
				r.OK("ENTRYERR", key, at, "no return statement returns a value that can carry it")
			}
		})
	}
	if n == 0 {
		r.Undecided("ENTRYERR", "exif2 | tagFromBuffer", "-", "no call found (anchor lost)")
	}
}

// NARROWV (C03): a decoded number is never narrowed without a range check.
//
// Instances: in package exif2, every narrowing integer conversion whose operand is the result of one of the
// decoder's number parsers (ParseUint32, ParseUint16, an element of ParseRationalU's result). Without a guard a
// value that does not fit the field is reported modulo 2^n: an ImageWidth of 70000 as 4464, an exposure bias of
// -200/100 as something else entirely (its 8-bit parts wrap).
func ruleNarrowV(p *Prog, r *Report) {
	r.Explain("NARROWV: in package exif2 every narrowing integer conversion of a number parser's result (ParseUint32, ParseUint16, an element of ParseRationalU) is dominated by an ordered comparison of that result: an unguarded conversion reports a value that does not fit the field modulo 2^n.")
	pk := p.SSAPkg("exif2")
	if pk == nil {
		r.Fatal("unresolved anchor: package exif2")
		return
	}
	isParser := func(v ssa.Value) (string, bool) {
		switch x := v.(type) {
		case *ssa.Call:
			if sc := x.Call.StaticCallee(); sc != nil && sc.Pkg == pk && (sc.Name() == "ParseUint32" || sc.Name() == "ParseUint16") {
				return sc.Name(), true
			}
		case *ssa.Index:
			if c, ok := x.X.(*ssa.Call); ok {
				if sc := c.Call.StaticCallee(); sc != nil && sc.Pkg == pk && sc.Name() == "ParseRationalU" {
					return "ParseRationalU", true
				}
			}
		case *ssa.UnOp:
			// element of the spilled result array
			if ia, ok := x.X.(*ssa.IndexAddr); ok && x.Op == token.MUL {
				if a, ok := ia.X.(*ssa.Alloc); ok {
					for _, rf := range refs(a) {
						if st, ok := rf.(*ssa.Store); ok && st.Addr == ssa.Value(a) {
							if c, ok := st.Val.(*ssa.Call); ok {
								if sc := c.Call.StaticCallee(); sc != nil && sc.Pkg == pk && sc.Name() == "ParseRationalU" {
									return "ParseRationalU", true
								}
							}
						}
					}
				}
			}
		}
		return "", false
	}
	per := map[string]int{}
	n := 0
	for _, f := range p.AllLibFns() {
		if f.Pkg != pk || f.Blocks == nil {
			continue
		}
		eachInstr(f, func(b *ssa.BasicBlock, _ int, in ssa.Instruction) {
			cv, ok := in.(*ssa.Convert)
			if !ok || !narrowing(cv) {
				return
			}
			src, ok := isParser(cv.X)
			if !ok {
				return
			}
			n++
			per[fnName(f)+src]++
			key := fmt.Sprintf("%s | %s of %s #%d", fnName(f), typeStr(cv.Type()), src, per[fnName(f)+src])
			at := p.posStr(cv.Pos())
			guarded := false
			for _, cd := range condsAt(b) {
				if bo, ok := cd.V.(*ssa.BinOp); ok && (bo.X == cv.X || bo.Y == cv.X) {
					switch bo.Op {
					case token.LSS, token.LEQ, token.GTR, token.GEQ:
						guarded = true
					}
				}
			}
			if guarded {
				r.OK("NARROWV", key, at, "under a range check")
			} else {
				r.Bad("NARROWV", key, at, "the decoded number is converted to "+typeStr(cv.Type())+" without a range check: a value that does not fit is reported modulo 2^n instead of exactly or not at all")
			}
		})
	}
	if n == 0 {
		r.Undecided("NARROWV", "exif2 | narrowing conversions of decoded numbers", "-", "none found (anchor lost)")
	}
}
