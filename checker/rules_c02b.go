package main

// C02 LOOP, tag-queue class: third side condition of the ranking argument for exif2.readIfd —
// "one queued tag is retired per iteration". Decided on the shape of three functions:
//   (a) every back edge of the readIfd loop is dominated by a call of (*buffer).advanceBuffer inside the loop,
//       and the loop leaves on the false edge of (*buffer).validTag();
//   (b) validTag returns true only under pos < len;
//   (c) in advanceBuffer, under everything validTag guarantees (pos < len, len > 0, and pos < K for a constant
//       K not below the capacity of the tag array when every store of len keeps len <= capacity), no path
//       from the entry reaches a return without passing a store pos = pos + 1.
// A retirement that is conditional on anything else (e.g. pos+1 < tagMaxCount) lets the loop spin on a
// full queue without reading input.

import (
	"go/constant"
	"go/token"
	"go/types"

	"golang.org/x/tools/go/ssa"
)

// bufField names the field of the receiver's buffer struct that v loads ("" otherwise).
func bufField(v ssa.Value) string {
	u, ok := v.(*ssa.UnOp)
	if !ok || u.Op != token.MUL {
		return ""
	}
	fa, ok := u.X.(*ssa.FieldAddr)
	if !ok {
		return ""
	}
	return fieldName(fa.X.Type(), fa.Field)
}

// queueCondTruth classifies a branch condition under the facts validTag guarantees:
// +1 known true, -1 known false, 0 unknown.
func queueCondTruth(v ssa.Value, capOK bool, capacity int64) int {
	bo, ok := v.(*ssa.BinOp)
	if !ok {
		return 0
	}
	name := func(x ssa.Value) (string, int64, bool) {
		if c, ok := constInt(x); ok {
			return "", c, true
		}
		return bufField(x), 0, false
	}
	xn, xc, xIsC := name(bo.X)
	yn, yc, yIsC := name(bo.Y)
	op := bo.Op
	// normalise so that a constant or `len` is on the right where possible
	flip := map[token.Token]token.Token{token.LSS: token.GTR, token.GTR: token.LSS, token.LEQ: token.GEQ, token.GEQ: token.LEQ, token.EQL: token.EQL, token.NEQ: token.NEQ}
	if (xIsC && !yIsC) || (xn == "len" && yn == "pos") {
		xn, yn = yn, xn
		xc, yc = yc, xc
		xIsC, yIsC = yIsC, xIsC
		op = flip[op]
	}
	switch {
	case xn == "pos" && yn == "len":
		switch op {
		case token.LSS, token.NEQ, token.LEQ:
			return 1
		case token.GEQ, token.EQL, token.GTR:
			return -1
		}
	case xn == "len" && yIsC && yc == 0:
		switch op {
		case token.GTR, token.NEQ, token.GEQ:
			return 1
		case token.EQL, token.LEQ, token.LSS:
			return -1
		}
	case xn == "len" && yIsC && yc == 1:
		switch op {
		case token.GEQ:
			return 1
		case token.LSS:
			return -1
		}
	case xn == "pos" && yIsC && capOK && yc >= capacity:
		switch op {
		case token.LSS, token.LEQ, token.NEQ:
			return 1
		case token.GEQ, token.GTR, token.EQL:
			return -1
		}
	}
	_ = xc
	_ = xIsC
	return 0
}

// queueLenInvariant: every store to buffer.len in the package keeps len <= capacity of buffer.tag.
func queueLenInvariant(p *Prog, bufT *types.Named) (capacity int64, ok bool) {
	st, _ := bufT.Underlying().(*types.Struct)
	if st == nil {
		return 0, false
	}
	for i := 0; i < st.NumFields(); i++ {
		if st.Field(i).Name() == "tag" {
			if a, isA := st.Field(i).Type().Underlying().(*types.Array); isA {
				capacity = a.Len()
			}
		}
	}
	if capacity == 0 {
		return 0, false
	}
	ok = true
	for f := range p.AllFns() {
		if f.Pkg == nil || f.Pkg.Pkg != bufT.Obj().Pkg() || len(f.Blocks) == 0 {
			continue
		}
		eachInstr(f, func(b *ssa.BasicBlock, _ int, in ssa.Instruction) {
			s, isS := in.(*ssa.Store)
			if !isS {
				return
			}
			fa, isF := s.Addr.(*ssa.FieldAddr)
			if !isF || fieldName(fa.X.Type(), fa.Field) != "len" || !sameNamed(fa.X.Type(), bufT) {
				return
			}
			if c, isC := constInt(s.Val); isC && c >= 0 && c <= capacity {
				return
			}
			bo, isB := s.Val.(*ssa.BinOp)
			if !isB || bufField(bo.X) != "len" {
				ok = false
				return
			}
			switch bo.Op {
			case token.ADD:
				if c, isC := constInt(bo.Y); !isC || c != 1 {
					ok = false
					return
				}
				g := false
				for _, cd := range condsAt(b) {
					cb, isCB := cd.V.(*ssa.BinOp)
					if !isCB || bufField(cb.X) != "len" {
						continue
					}
					k, isK := constInt(cb.Y)
					if !isK {
						continue
					}
					// len < k on the true edge, or len >= k on the false edge
					if (cd.True && cb.Op == token.LSS && k <= capacity) || (!cd.True && cb.Op == token.GEQ && k <= capacity) ||
						(cd.True && cb.Op == token.LEQ && k < capacity) || (!cd.True && cb.Op == token.GTR && k < capacity) {
						g = true
					}
				}
				if !g {
					ok = false
				}
			case token.SUB:
				// len - pos under pos <= len
				g := false
				for _, cd := range condsAt(b) {
					cb, isCB := cd.V.(*ssa.BinOp)
					if !isCB || !sameLoad(cb.X, bo.Y) || bufField(cb.Y) != "len" {
						continue
					}
					// y <= len on the true edge, or y > len on the false edge
					if (cd.True && (cb.Op == token.LEQ || cb.Op == token.LSS)) || (!cd.True && (cb.Op == token.GTR || cb.Op == token.GEQ && false)) {
						g = true
					}
				}
				if !g {
					ok = false
				}
			default:
				ok = false
			}
		})
	}
	return capacity, ok
}

func sameNamed(ptr types.Type, n *types.Named) bool {
	t := ptr
	if pt, ok := t.Underlying().(*types.Pointer); ok {
		t = pt.Elem()
	}
	nn, ok := t.(*types.Named)
	return ok && nn.Obj() == n.Obj()
}

// sameLoad: both values load the same field of the same base.
func sameLoad(a, b ssa.Value) bool {
	ua, ok1 := a.(*ssa.UnOp)
	ub, ok2 := b.(*ssa.UnOp)
	if !ok1 || !ok2 {
		return false
	}
	fa, ok1 := ua.X.(*ssa.FieldAddr)
	fb, ok2 := ub.X.(*ssa.FieldAddr)
	return ok1 && ok2 && fa.Field == fb.Field && fa.X == fb.X
}

func tagQueueRetire(p *Prog, f *ssa.Function, l *Loop) string {
	adv := p.Func("exif2", "*buffer", "advanceBuffer")
	valid := p.Func("exif2", "*buffer", "validTag")
	if adv == nil || valid == nil {
		return "anchors advanceBuffer/validTag not resolved"
	}
	// (a) back edges dominated by advanceBuffer; exit on validTag() == false
	var advBlocks []*ssa.BasicBlock
	exitOnValid := false
	for b := range l.Blocks {
		for _, in := range b.Instrs {
			if c, ok := in.(*ssa.Call); ok && c.Call.StaticCallee() == adv {
				advBlocks = append(advBlocks, b)
			}
			if ifi, ok := in.(*ssa.If); ok {
				if c, ok := ifi.Cond.(*ssa.Call); ok && c.Call.StaticCallee() == valid && !l.Blocks[b.Succs[1]] {
					exitOnValid = true
				}
			}
		}
	}
	if !exitOnValid {
		return "the loop does not leave on the false edge of validTag()"
	}
	for _, latch := range l.Latch {
		dom := false
		for _, ab := range advBlocks {
			if ab.Dominates(latch) {
				dom = true
			}
		}
		if !dom {
			return "a back edge of the loop (" + fnName(f) + " block " + latch.String() + ") does not pass advanceBuffer"
		}
	}
	// (b) validTag true only under pos < len
	if why := validImpliesPending(p, valid); why != "" {
		return why
	}
	// (c) advanceBuffer retires unconditionally under what validTag guarantees
	recvT, _ := adv.Signature.Recv().Type().Underlying().(*types.Pointer)
	var bufT *types.Named
	if recvT != nil {
		bufT, _ = recvT.Elem().(*types.Named)
	}
	if bufT == nil {
		return "receiver type of advanceBuffer not resolved"
	}
	capacity, capOK := queueLenInvariant(p, bufT)
	isRetire := func(b *ssa.BasicBlock) bool {
		for _, in := range b.Instrs {
			s, ok := in.(*ssa.Store)
			if !ok {
				continue
			}
			fa, ok := s.Addr.(*ssa.FieldAddr)
			if !ok || fieldName(fa.X.Type(), fa.Field) != "pos" {
				continue
			}
			bo, ok := s.Val.(*ssa.BinOp)
			if !ok || bo.Op != token.ADD || bufField(bo.X) != "pos" {
				continue
			}
			if c, ok := constInt(bo.Y); ok && c == 1 {
				return true
			}
		}
		return false
	}
	seen := map[*ssa.BasicBlock]bool{}
	why := ""
	var walk func(b *ssa.BasicBlock)
	walk = func(b *ssa.BasicBlock) {
		if seen[b] || why != "" {
			return
		}
		seen[b] = true
		if isRetire(b) {
			return
		}
		if len(b.Instrs) == 0 {
			return
		}
		switch t := b.Instrs[len(b.Instrs)-1].(type) {
		case *ssa.Return:
			why = "advanceBuffer can return (" + p.posStr(instrPos(t)) + ") without retiring a tag although validTag() held: the step pos = pos+1 is conditional on more than pos < len"
		case *ssa.If:
			switch queueCondTruth(t.Cond, capOK, capacity) {
			case 1:
				walk(b.Succs[0])
			case -1:
				walk(b.Succs[1])
			default:
				walk(b.Succs[0])
				walk(b.Succs[1])
			}
		default:
			for _, s := range b.Succs {
				walk(s)
			}
		}
	}
	if len(adv.Blocks) == 0 {
		return "advanceBuffer has no body"
	}
	walk(adv.Blocks[0])
	return why
}

// validImpliesPending: every true result of validTag is produced under pos < len.
func validImpliesPending(p *Prog, valid *ssa.Function) string {
	isPending := func(v ssa.Value) bool { return strictPending(v, true) }
	why := ""
	var okVal func(v ssa.Value, at *ssa.BasicBlock, depth int) bool
	okVal = func(v ssa.Value, at *ssa.BasicBlock, depth int) bool {
		if c, ok := v.(*ssa.Const); ok && c.Value != nil && c.Value.Kind() == constant.Bool && !constant.BoolVal(c.Value) {
			return true
		}
		if isPending(v) {
			return true
		}
		for _, cd := range condsAt(at) {
			if cd.True && isPending(cd.V) {
				return true
			}
			if !cd.True && strictPending(cd.V, false) {
				return true
			}
		}
		if phi, ok := v.(*ssa.Phi); ok && depth < 4 {
			for i, e := range phi.Edges {
				pred := phi.Block().Preds[i]
				good := okVal(e, pred, depth+1)
				if !good {
					for _, cd := range edgeConds(pred, phi.Block()) {
						if cd.True && isPending(cd.V) {
							good = true
						}
					}
				}
				if !good {
					return false
				}
			}
			return true
		}
		return false
	}
	eachInstr(valid, func(b *ssa.BasicBlock, _ int, in ssa.Instruction) {
		r, ok := in.(*ssa.Return)
		if !ok || len(r.Results) != 1 {
			return
		}
		if !okVal(r.Results[0], b, 0) {
			why = "validTag can report a pending tag (" + p.posStr(instrPos(r)) + ") without pos < len"
		}
	})
	return why
}

// strictPending: v is pos < len (want) or its negation pos >= len (!want), in either operand order.
func strictPending(v ssa.Value, want bool) bool {
	bo, ok := v.(*ssa.BinOp)
	if !ok {
		return false
	}
	a, b := bufField(bo.X), bufField(bo.Y)
	switch {
	case a == "pos" && b == "len":
		return (want && bo.Op == token.LSS) || (!want && bo.Op == token.GEQ)
	case a == "len" && b == "pos":
		return (want && bo.Op == token.GTR) || (!want && bo.Op == token.LEQ)
	}
	return false
}

// queueCompacts (reported under C03 ROUTE): (*buffer).resetPosition drops the consumed tags whenever the queue is
// in a legal state with something consumed — 0 < pos <= len <= cap(tag). Before a sub-directory is read readIfd
// relies on it to make room: if the compaction is skipped for a legal state (a queue that is exactly full, say)
// addTagBuffer finds no room and every out-of-line value of the sub-directory is silently dropped.
func queueCompacts(p *Prog) string {
	f := p.Func("exif2", "*buffer", "resetPosition")
	if f == nil || len(f.Blocks) == 0 {
		return "anchor resetPosition not resolved"
	}
	recvT, _ := f.Signature.Recv().Type().Underlying().(*types.Pointer)
	var bufT *types.Named
	if recvT != nil {
		bufT, _ = recvT.Elem().(*types.Named)
	}
	if bufT == nil {
		return "receiver type of resetPosition not resolved"
	}
	capacity, capOK := queueLenInvariant(p, bufT)
	if !capOK {
		return "the invariant len <= cap(tag) could not be derived from the stores of len"
	}
	truth := func(v ssa.Value) int {
		bo, ok := v.(*ssa.BinOp)
		if !ok {
			return 0
		}
		xn, yn := bufField(bo.X), bufField(bo.Y)
		xc, xIsC := constInt(bo.X)
		yc, yIsC := constInt(bo.Y)
		op := bo.Op
		flip := map[token.Token]token.Token{token.LSS: token.GTR, token.GTR: token.LSS, token.LEQ: token.GEQ, token.GEQ: token.LEQ, token.EQL: token.EQL, token.NEQ: token.NEQ}
		if (xIsC && !yIsC) || (xn == "len" && yn == "pos") {
			xn, yn, xc, yc, xIsC, yIsC = yn, xn, yc, xc, yIsC, xIsC
			op = flip[op]
		}
		_ = xc
		switch {
		case xn == "pos" && yIsC && yc == 0:
			switch op {
			case token.GTR, token.NEQ:
				return 1
			case token.EQL, token.LEQ:
				return -1
			}
		case xn == "pos" && yn == "len":
			switch op {
			case token.LEQ:
				return 1
			case token.GTR:
				return -1
			}
		case xn == "len" && yIsC:
			switch op {
			case token.LEQ:
				if yc >= capacity {
					return 1
				}
			case token.LSS:
				if yc > capacity {
					return 1
				}
			case token.GTR:
				if yc >= capacity {
					return -1
				}
			case token.GEQ:
				if yc > capacity {
					return -1
				}
			}
		}
		return 0
	}
	compacts := func(b *ssa.BasicBlock) bool {
		for _, in := range b.Instrs {
			s, ok := in.(*ssa.Store)
			if !ok {
				continue
			}
			fa, ok := s.Addr.(*ssa.FieldAddr)
			if !ok || fieldName(fa.X.Type(), fa.Field) != "pos" {
				continue
			}
			if c, ok := constInt(s.Val); ok && c == 0 {
				return true
			}
		}
		return false
	}
	seen := map[*ssa.BasicBlock]bool{}
	why := ""
	var walk func(b *ssa.BasicBlock)
	walk = func(b *ssa.BasicBlock) {
		if seen[b] || why != "" {
			return
		}
		seen[b] = true
		if compacts(b) || len(b.Instrs) == 0 {
			return
		}
		switch t := b.Instrs[len(b.Instrs)-1].(type) {
		case *ssa.Return:
			why = "resetPosition can return (" + p.posStr(instrPos(t)) + ") without dropping the consumed tags although 0 < pos <= len <= cap(tag) held: the test that skips the compaction excludes a legal state of the queue"
		case *ssa.If:
			switch truth(t.Cond) {
			case 1:
				walk(b.Succs[0])
			case -1:
				walk(b.Succs[1])
			default:
				walk(b.Succs[0])
				walk(b.Succs[1])
			}
		default:
			for _, s := range b.Succs {
				walk(s)
			}
		}
	}
	walk(f.Blocks[0])
	return why
}
