package main

// BND / DIV obligations on top of E3, with caller-side required lengths.

import (
	"fmt"
	"go/token"
	"go/types"
	"sort"

	"golang.org/x/tools/go/ssa"
)

type bndOb struct {
	F      *ssa.Function
	In     ssa.Instruction
	Kind   string // index, slice, div, call-req
	Key    string // position-free descriptor (without function)
	OK     bool
	By     string
	Detail string
}

type fnBnd struct {
	obs  []bndOb
	req  map[int]int64 // param index -> required min len
	done bool
}

func (e *E3) fnB(f *ssa.Function) *fnBnd {
	if e.bnd == nil {
		e.bnd = map[*ssa.Function]*fnBnd{}
		e.bndProg = map[*ssa.Function]bool{}
	}
	if fb, ok := e.bnd[f]; ok && fb.done {
		return fb
	}
	if e.bndProg[f] {
		return &fnBnd{req: map[int]int64{}} // recursion: no requirement may be assumed
	}
	e.bndProg[f] = true
	fb := &fnBnd{req: map[int]int64{}}
	e.analyseBnd(f, fb)
	fb.done = true
	delete(e.bndProg, f)
	e.bnd[f] = fb
	return fb
}

// Req returns the inferred required minimum lengths of f's slice/string parameters.
func (e *E3) Req(f *ssa.Function) map[int]int64 {
	if f == nil || f.Blocks == nil || !isRepoFn(f) {
		return nil
	}
	return e.fnB(f).req
}

func sliceLike(t types.Type) bool {
	switch u := t.Underlying().(type) {
	case *types.Slice:
		return true
	case *types.Basic:
		return u.Info()&types.IsString != 0
	}
	return false
}

// lenObligation tries to prove idx ≤ LEN(base) + c (c = −1 for indexing, 0 for slice bounds) at block b;
// on failure it tries to turn the gap into a caller-side requirement on a parameter.
func (e *E3) lenObligation(f *ssa.Function, fb *fnBnd, b *ssa.BasicBlock, idx termT, base ssa.Value, c int64) (bool, string) {
	lt := termT{v: e.lenBase(base), len: true}
	if n, ok := e.constLen(base); ok {
		// idx ≤ n + c
		if e.ProveLE(b, idx, zeroT, n+c) {
			return true, fmt.Sprintf("≤ %d (constant length %d)", n+c, n)
		}
		// k1·x1 + k2·x2 + C with every leaf bounded at this block (8*j + i under j < 8, i < 8)
		if ub, ok := e.affUpperAt(b, idx); ok && ub <= n+c {
			return true, fmt.Sprintf("≤ %d ≤ %d by the bounds of its terms at this point (constant length %d)", ub, n+c, n)
		}
		return false, fmt.Sprintf("cannot show %s ≤ %d (length %d)", idx, n+c, n)
	}
	if e.ProveLE(b, idx, lt, c) {
		return true, "dominating guard / definition"
	}
	// base = X[low:]: idx ≤ len(X) − low + c  ⇐  low ≤ len(X) + c − ub(idx)
	if sl, ok := lt.v.(*ssa.Slice); ok && sl.Low != nil && sl.High == nil {
		g0 := e.newGraph(b)
		g0.nodes[zeroT] = true
		g0.touch(idx, 0)
		g0.condFacts()
		if ub := g0.shortest(zeroT, idx); ub < inf {
			if ok, by := e.lenObligation(f, fb, b, e.termOf(sl.Low), sl.X, c-ub); ok {
				return true, "through the re-sliced base: " + by
			}
		}
	}
	// scaled idiom: idx = k·x + c, LEN(base) = k·y + d, x − y ≤ m
	if ok, by := e.scaledOb(b, idx, lt, c); ok {
		return true, by
	}
	// relative search: idx = L + r (+k) with r = bytes.IndexByte(base[L:], _): r ≤ len(base) − L − 1
	if ok, by := e.relSearchOb(idx, lt, c); ok {
		return true, by
	}
	// caller-side requirement: base is (a slice of) a parameter
	g := e.newGraph(b)
	g.nodes[zeroT] = true
	g.touch(idx, 0)
	g.touch(lt, 0)
	g.condFacts()
	ub := g.shortest(zeroT, idx) // idx ≤ ub
	if ub < inf {
		for pi, prm := range f.Params {
			if !sliceLike(prm.Type()) {
				continue
			}
			pt := termT{v: prm, len: true}
			g.touch(pt, 0)
			d2 := g.shortest(lt, pt) // LEN(p) − LEN(base) ≤ d2
			if d2 >= inf {
				continue
			}
			// need LEN(base) ≥ ub − c ⇐ LEN(p) − d2 ≥ ub − c ⇐ LEN(p) ≥ ub − c + d2
			R := ub - c + d2
			if R <= 0 {
				return true, "trivial"
			}
			if R > fb.req[pi] {
				fb.req[pi] = R
			}
			return true, fmt.Sprintf("caller-side requirement len(%s) ≥ %d", prm.Name(), R)
		}
	}
	return false, fmt.Sprintf("cannot show %s ≤ %s%+d", idx, lt, c)
}

// affUpperAt: an upper bound of the (64-bit, wrap-free) affine form of idx from the bounds that the branch
// conditions dominating block b put on each of its leaves: Σ k·ub(x) for k > 0, Σ k·lb(x) for k < 0.
func (e *E3) affUpperAt(b *ssa.BasicBlock, idx termT) (int64, bool) {
	if idx.v == nil || idx.len {
		return 0, false
	}
	a := affineWide(idx.v)
	if a == nil || len(a.Terms) == 0 || (len(a.Terms) == 1 && a.C == 0) {
		return 0, false
	}
	sum := a.C
	for k, cf := range a.Terms {
		v, ok := k.(ssa.Value)
		if !ok || cf == 0 {
			return 0, false
		}
		t := e.termOf(v)
		g := e.newGraph(b)
		g.nodes[zeroT] = true
		g.touch(t, 0)
		g.condFacts()
		var bound int64
		if cf > 0 {
			ub := g.shortest(zeroT, t) // x ≤ ub
			if ub >= inf {
				return 0, false
			}
			bound = mulSat(ub, cf)
		} else {
			nlb := g.shortest(t, zeroT) // −x ≤ nlb
			if nlb >= inf {
				return 0, false
			}
			bound = mulSat(nlb, -cf)
		}
		sum = addSat(sum, bound)
		if sum >= inf {
			return 0, false
		}
	}
	return sum, true
}

// lenAsValue finds an SSA integer value n with LEN(base) == n (make / verified contract under nil error).
func (e *E3) lenAsValue(b *ssa.BasicBlock, lt termT) ssa.Value {
	switch x := lt.v.(type) {
	case *ssa.MakeSlice:
		return x.Len
	case *ssa.Extract:
		c, ok := x.Tuple.(*ssa.Call)
		if !ok {
			return nil
		}
		con, args := e.contractOf(c)
		if con == nil || con.Res != x.Index || con.ArgEq < 0 || con.ArgEq >= len(args) {
			return nil
		}
		g := e.newGraph(b)
		if !g.nilErr(tupleExtractV(c, con.Err)) {
			return nil
		}
		return args[con.ArgEq]
	}
	return nil
}

func (e *E3) scaledOb(b *ssa.BasicBlock, idx, lt termT, c int64) (bool, string) {
	if idx.v == nil || idx.len {
		return false, ""
	}
	n := e.lenAsValue(b, lt)
	if n == nil {
		return false, ""
	}
	A, L := affineWide(idx.v), affineWide(n)
	if len(A.Terms) != 1 || len(L.Terms) != 1 {
		return false, ""
	}
	var xv, yv ssa.Value
	var ka, kl int64
	for k, co := range A.Terms {
		xv, _ = k.(ssa.Value)
		ka = co
	}
	for k, co := range L.Terms {
		yv, _ = k.(ssa.Value)
		kl = co
	}
	if xv == nil || yv == nil || ka != kl || ka <= 0 {
		return false, ""
	}
	// k·x + A.C ≤ k·y + L.C + c  ⇐  x − y ≤ floor((L.C + c − A.C)/k)
	num := L.C + c - A.C
	m := num / ka
	if num < 0 && num%ka != 0 {
		m--
	}
	if e.ProveLE(b, e.termOf(xv), e.termOf(yv), m) {
		return true, fmt.Sprintf("scaled: index %d·x%+d against length %d·y%+d with x − y ≤ %d", ka, A.C, kl, L.C, m)
	}
	return false, ""
}

// lowerReq: tries to establish a − bt ≤ c by requiring a minimum length of a slice/string parameter p, when
// bt is bounded below by LEN(p) − d (e.g. bt = len(p) − 1) and a is bounded above by a constant.
func (e *E3) lowerReq(f *ssa.Function, fb *fnBnd, b *ssa.BasicBlock, a, bt termT, c int64) (bool, string) {
	g := e.newGraph(b)
	g.nodes[zeroT] = true
	g.touch(a, 0)
	g.touch(bt, 0)
	g.condFacts()
	ua := int64(0)
	if a != zeroT {
		ua = g.shortest(zeroT, a) // a ≤ ua
		if ua >= inf {
			return false, ""
		}
	}
	for pi, prm := range f.Params {
		if !sliceLike(prm.Type()) {
			continue
		}
		pt := termT{v: prm, len: true}
		g.touch(pt, 0)
		d := g.shortest(bt, pt) // LEN(p) − bt ≤ d
		if d >= inf {
			continue
		}
		// need a − bt ≤ c ⇐ ua − (LEN(p) − d) ≤ c ⇐ LEN(p) ≥ ua + d − c
		R := ua + d - c
		if R <= 0 {
			return true, "trivial"
		}
		if R > fb.req[pi] {
			fb.req[pi] = R
		}
		return true, fmt.Sprintf("caller-side requirement len(%s) ≥ %d", prm.Name(), R)
	}
	return false, ""
}

func (e *E3) analyseBnd(f *ssa.Function, fb *fnBnd) {
	add := func(in ssa.Instruction, kind, key string, ok bool, by, detail string) {
		fb.obs = append(fb.obs, bndOb{F: f, In: in, Kind: kind, Key: key, OK: ok, By: by, Detail: detail})
	}
	for _, b := range f.Blocks {
		for _, in := range b.Instrs {
			switch x := in.(type) {
			case *ssa.IndexAddr:
				e.indexOb(f, fb, b, in, x.X, x.Index, add)
			case *ssa.Index:
				e.indexOb(f, fb, b, in, x.X, x.Index, add)
			case *ssa.Lookup:
				if _, isMap := x.X.Type().Underlying().(*types.Map); isMap {
					continue
				}
				e.indexOb(f, fb, b, in, x.X, x.Index, add)
			case *ssa.Slice:
				e.sliceOb(f, fb, b, x, add)
			case *ssa.SliceToArrayPointer:
				// (*[N]T)(s) and [N]T(s) panic when len(s) < N
				if pt, ok := x.Type().Underlying().(*types.Pointer); ok {
					if at, ok := pt.Elem().Underlying().(*types.Array); ok {
						key := fmt.Sprintf("toarray | %s | %d", shortVal(x.X), at.Len())
						nt := termT{v: ssa.NewConst(constantInt(at.Len()), types.Typ[types.Int])}
						if at.Len() == 0 {
							add(in, "toarray", key, true, "zero-length array", "")
						} else if ok, by := e.lenObligation(f, fb, b, nt, x.X, 0); ok {
							add(in, "toarray", key, true, by, "")
						} else {
							add(in, "toarray", key, false, "", fmt.Sprintf("conversion of a slice to an array of %d elements panics when the slice is shorter: %s", at.Len(), by))
						}
					}
				}
			case *ssa.BinOp:
				if (x.Op == token.QUO || x.Op == token.REM) && isIntType(x.Type()) {
					key := "div | " + shortVal(x.Y)
					d := e.termOf(x.Y)
					if e.ProveLE(b, zeroT, d, -1) || e.ProveLE(b, d, zeroT, -1) {
						add(in, "div", key, true, "divisor provably non-zero", "")
					} else {
						add(in, "div", key, false, "", "integer division by "+shortVal(x.Y)+" which may be zero")
					}
				}
			case *ssa.MakeSlice:
				key := "make | " + shortVal(x.Len)
				if e.ProveLE(b, zeroT, e.termOf(x.Len), 0) {
					add(in, "make", key, true, "length provably ≥ 0", "")
				} else {
					add(in, "make", key, false, "", "make with a length that may be negative: "+shortVal(x.Len))
				}
			case ssa.CallInstruction:
				e.callReqOb(f, fb, b, x, add)
			}
		}
	}
}

func (e *E3) indexOb(f *ssa.Function, fb *fnBnd, b *ssa.BasicBlock, in ssa.Instruction, base, index ssa.Value,
	add func(ssa.Instruction, string, string, bool, string, string)) {
	key := fmt.Sprintf("index | %s | %s", shortVal(base), shortVal(index))
	it := e.termOf(index)
	// lower bound
	if !e.ProveLE(b, zeroT, it, 0) {
		if ok, _ := e.lowerReq(f, fb, b, zeroT, it, 0); !ok {
			add(in, "index", key, false, "", fmt.Sprintf("index %s may be negative (range %s)", shortVal(index), e.rng(index)))
			return
		}
	}
	ok, by := e.lenObligation(f, fb, b, it, base, -1)
	if ok {
		add(in, "index", key, true, by, "")
	} else {
		add(in, "index", key, false, "", "index may be out of range: "+by)
	}
}

func (e *E3) sliceOb(f *ssa.Function, fb *fnBnd, b *ssa.BasicBlock, x *ssa.Slice,
	add func(ssa.Instruction, string, string, bool, string, string)) {
	if x.Low == nil && x.High == nil && x.Max == nil {
		return
	}
	desc := func(v ssa.Value) string {
		if v == nil {
			return ""
		}
		return shortVal(v)
	}
	key := fmt.Sprintf("slice | %s | %s:%s", shortVal(x.X), desc(x.Low), desc(x.High))
	var bys []string
	fail := func(msg string) { add(x, "slice", key, false, "", msg) }
	// IDXTBL idiom: names[index[v]:index[v+1]] over immutable tables
	if x.Low != nil && x.High != nil {
		if ok, msg, handled := e.idxTblSlice(b, x); handled {
			if ok {
				add(x, "slice", key, true, "IDXTBL: "+msg, "")
			} else {
				fail("index-table slice: " + msg)
			}
			return
		}
	}
	if x.Low != nil {
		lt := e.termOf(x.Low)
		if !e.ProveLE(b, zeroT, lt, 0) {
			fail(fmt.Sprintf("slice low bound %s may be negative (range %s)", shortVal(x.Low), e.rng(x.Low)))
			return
		}
	}
	if x.High != nil {
		ht := e.termOf(x.High)
		ok, by := e.lenObligation(f, fb, b, ht, x.X, 0)
		if !ok {
			fail("slice high bound may exceed the length: " + by)
			return
		}
		bys = append(bys, by)
		if x.Low != nil {
			if !e.ProveLE(b, e.termOf(x.Low), ht, 0) {
				if ok, _ := e.lowerReq(f, fb, b, e.termOf(x.Low), ht, 0); !ok {
					fail(fmt.Sprintf("cannot show low ≤ high (%s ≤ %s)", shortVal(x.Low), shortVal(x.High)))
					return
				}
			}
		} else if !e.ProveLE(b, zeroT, ht, 0) {
			fail(fmt.Sprintf("slice high bound %s may be negative (range %s)", shortVal(x.High), e.rng(x.High)))
			return
		}
	} else if x.Low != nil {
		ok, by := e.lenObligation(f, fb, b, e.termOf(x.Low), x.X, 0)
		if !ok {
			fail("slice low bound may exceed the length: " + by)
			return
		}
		bys = append(bys, by)
	}
	if x.Max != nil {
		// three-index slices: max ≤ cap is not modelled; require max ≤ len as a sufficient condition
		ok, by := e.lenObligation(f, fb, b, e.termOf(x.Max), x.X, 0)
		if !ok {
			fail("slice max bound: " + by)
			return
		}
		bys = append(bys, by)
	}
	by := "bounds provable"
	if len(bys) > 0 {
		by = bys[0]
	}
	add(x, "slice", key, true, by, "")
}

// tableLoad: v = tbl[i] for an immutable integer table → (table global, values, index value)
func (e *E3) tableLoad(v ssa.Value) (*ssa.Global, []int64, ssa.Value, bool) {
	v = stripIntConv(v)
	var base, idx ssa.Value
	switch x := v.(type) {
	case *ssa.UnOp:
		ia, ok := x.X.(*ssa.IndexAddr)
		if !ok || x.Op != token.MUL {
			return nil, nil, nil, false
		}
		base, idx = ia.X, ia.Index
	case *ssa.Index:
		base, idx = x.X, x.Index
	default:
		return nil, nil, nil, false
	}
	var g *ssa.Global
	if gg, ok := base.(*ssa.Global); ok {
		g = gg
	} else if u, ok := base.(*ssa.UnOp); ok && u.Op == token.MUL {
		g, _ = u.X.(*ssa.Global)
	}
	if g == nil {
		return nil, nil, nil, false
	}
	if _, ok := e.tables.ElemRange(g); !ok {
		return nil, nil, nil, false
	}
	tv := e.tables.Val(g)
	return g, tv.Ints, idx, true
}

func stripIntConv(v ssa.Value) ssa.Value {
	for i := 0; i < 4; i++ {
		switch x := v.(type) {
		case *ssa.Convert:
			if isIntType(x.Type()) && isIntType(x.X.Type()) {
				v = x.X
				continue
			}
		case *ssa.ChangeType:
			v = x.X
			continue
		}
		break
	}
	return v
}

// idxTblSlice handles s[tbl[a]:tbl[a+1]] where tbl is an immutable integer table and s an immutable string:
// safe iff a+1 is a valid index (proved by E3), the table is non-decreasing and its last element ≤ len(s).
func (e *E3) idxTblSlice(b *ssa.BasicBlock, x *ssa.Slice) (ok bool, msg string, handled bool) {
	g1, vals, i1, ok1 := e.tableLoad(x.Low)
	g2, _, i2, ok2 := e.tableLoad(x.High)
	if !ok1 || !ok2 || g1 != g2 {
		return false, "", false
	}
	n, okLen := e.constLen(x.X)
	if !okLen {
		return false, "", false
	}
	// i2 == i1 + 1
	a1, a2 := affineW(stripIntConv(i1), 0), affineW(stripIntConv(i2), 0)
	d := a2.addScaled(a1, -1)
	if k, isC := d.isConst(); !isC || k != 1 {
		// narrow-typed x+1: compare structurally
		bo, isBo := stripIntConv(i2).(*ssa.BinOp)
		if !(isBo && bo.Op == token.ADD && stripIntConv(bo.X) == stripIntConv(i1) && func() bool { k, ok := constInt(bo.Y); return ok && k == 1 }()) {
			return false, "high index is not low index + 1", true
		}
	}
	for i := 1; i < len(vals); i++ {
		if vals[i] < vals[i-1] {
			return false, fmt.Sprintf("index table %s is not non-decreasing at entry %d (%d after %d)", globalName(g1), i, vals[i], vals[i-1]), true
		}
	}
	if len(vals) == 0 || vals[0] < 0 {
		return false, "index table has a negative entry", true
	}
	if vals[len(vals)-1] > n {
		return false, fmt.Sprintf("index table %s ends at %d but the name string has %d bytes", globalName(g1), vals[len(vals)-1], n), true
	}
	return true, fmt.Sprintf("table %s non-decreasing, last entry %d ≤ %d", globalName(g1), vals[len(vals)-1], n), true
}

// trustedNonNegArg: callee → index (receiver = 0) of the count argument that must not be negative.
var trustedNonNegArg = map[string]int{
	"(*bytes.Buffer).Grow": 1, "(*strings.Builder).Grow": 1, "strings.Repeat": 1, "bytes.Repeat": 1,
	"(*bytes.Buffer).Truncate": 1,
}

// callReqOb: arguments handed to callees that require a minimum length.
func (e *E3) callReqOb(f *ssa.Function, fb *fnBnd, b *ssa.BasicBlock, site ssa.CallInstruction,
	add func(ssa.Instruction, string, string, bool, string, string)) {
	c := site.Common()
	if _, ok := c.Value.(*ssa.Builtin); ok {
		return
	}
	args := callArgs(c)
	reqs := map[int]int64{}
	var who string
	for _, g := range e.p.Callees(site) {
		if tr, ok := trustedReqLen[g.String()]; ok {
			for i, n := range tr {
				if n > reqs[i] {
					reqs[i] = n
					who = g.String()
				}
			}
			continue
		}
		if isRepoFn(g) && g.Blocks != nil {
			for i, n := range e.Req(g) {
				if n > reqs[i] {
					reqs[i] = n
					who = fnName(g)
				}
			}
		}
	}
	// standard-library calls that panic on a negative count — with a string, which a `state.(error)` recover frame
	// cannot even contain
	if sc := c.StaticCallee(); sc != nil {
		if ai, ok := trustedNonNegArg[sc.String()]; ok && ai < len(args) {
			key := fmt.Sprintf("arg-nonneg | %s | %s ≥ 0", sc.String(), shortVal(args[ai]))
			if e.ProveLE(b, zeroT, e.termOf(args[ai]), 0) {
				add(site, "call-req", key, true, "argument proved non-negative", "")
			} else {
				add(site, "call-req", key, false, "", fmt.Sprintf("%s panics (with a string, not an error) on a negative count and %s is not proved non-negative", sc.String(), shortVal(args[ai])))
			}
		}
	}
	var idxs []int
	for i := range reqs {
		idxs = append(idxs, i)
	}
	sort.Ints(idxs)
	for _, i := range idxs {
		if i >= len(args) {
			continue
		}
		n := reqs[i]
		key := fmt.Sprintf("arg-len | %s | %s ≥ %d", who, shortVal(args[i]), n)
		// need n ≤ LEN(arg): (const n) − LEN ≤ 0
		nt := termT{v: ssa.NewConst(constantInt(n), types.Typ[types.Int])}
		ok, by := e.lenObligation(f, fb, b, nt, args[i], 0)
		if ok {
			add(site, "call-req", key, true, by, "")
		} else {
			add(site, "call-req", key, false, "", fmt.Sprintf("%s needs at least %d bytes in argument %s: %s", who, n, shortVal(args[i]), by))
		}
	}
}

// relSearchOb: idx (a 64-bit, wrap-free affine form) = L + r + k where r is the result of a search of the standard
// library over X[L:] and len-base(X) is the obligation's base: r ≤ len(X) − L − 1 for a byte search (≤ len(X) − L
// for a substring search), so idx ≤ len(X) + k − 1 (resp. + k); holds for r = −1 as well.
func (e *E3) relSearchOb(idx, lt termT, c int64) (bool, string) {
	if idx.len || idx.v == nil || !is64(idx.v.Type()) {
		return false, ""
	}
	a := affineWide(idx.v)
	if a == nil {
		return false, ""
	}
	for tv, k := range a.Terms {
		call, ok := tv.(*ssa.Call)
		if !ok || k != 1 {
			continue
		}
		sc := call.Call.StaticCallee()
		if sc == nil || sc.Pkg == nil || (sc.Pkg.Pkg.Path() != "bytes" && sc.Pkg.Pkg.Path() != "strings") || len(call.Call.Args) < 1 {
			continue
		}
		slack := int64(-2)
		switch sc.Name() {
		case "IndexByte", "LastIndexByte":
			slack = -1
		case "Index", "LastIndex":
			slack = 0
		}
		if slack == -2 {
			continue
		}
		sl, ok := call.Call.Args[0].(*ssa.Slice)
		if !ok || sl.Low == nil || sl.High != nil || sl.Max != nil || !is64(sl.Low.Type()) {
			continue
		}
		if e.lenBase(sl.X) != lt.v {
			continue
		}
		al := affineWide(sl.Low)
		if al == nil {
			continue
		}
		rest := a.clone()
		delete(rest.Terms, tv)
		rest = rest.addScaled(al, -1)
		if kk, isC := rest.isConst(); isC && kk+slack <= c {
			return true, fmt.Sprintf("%s searches the base from %s on: its result plus that offset is at most the length %+d", sc.Name(), shortVal(sl.Low), slack)
		}
	}
	return false, ""
}
